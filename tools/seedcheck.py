#!/usr/bin/env python3
"""Confirms a seeded change delivered by an independent sub-agent and runs the property's check on it.

  tools/seedcheck.py <Cxx> <k> [--tier quick]   (reads /tmp/mut-<Cxx>/out/{patch<k>.diff,demo<k>_test.go,meta<k>.json})

Steps (all in a scratch worktree of /repo under /tmp, removed afterwards):
  1. the patch applies to /repo's HEAD and the tree builds;
  2. the demonstration FAILS with the patch and PASSES without it;
  3. `VERIF_REPO=<worktree> tools/check <Cxx>` -> records exit code and VIOLATION lines;
  4. everything is kept under /verif/seeded/<Cxx>-<k>/ (patch.diff, demo, meta.json).
"""
import tempfile, json, os, re, shutil, subprocess, sys, time

VERIF = os.path.dirname(os.path.dirname(os.path.abspath(__file__)))
ENV = dict(os.environ, GOFLAGS="-mod=mod", GOPROXY="off", GOSUMDB="off", GOTOOLCHAIN="local")


def sh(cmd, cwd, timeout=3600):
    p = subprocess.run(cmd, shell=True, cwd=cwd, env=ENV, capture_output=True, text=True, timeout=timeout)
    return p.returncode, (p.stdout + p.stderr)


def main():
    pid, k = sys.argv[1], sys.argv[2]
    tier = sys.argv[4] if len(sys.argv) > 4 and sys.argv[3] == "--tier" else "quick"
    checks = sys.argv[5:] or [pid]
    src = "/tmp/mut-%s/out" % pid
    if not os.path.exists("%s/meta%s.json" % (src, k)):
        # the author's scratch directory is gone: rebuild its content from the kept copy seeded/<id>-<k>/
        kept = os.path.join(VERIF, "seeded", "%s-%s" % (pid, k))
        src = tempfile.mkdtemp(prefix="seedsrc-")
        shutil.copy(os.path.join(kept, "patch.diff"), os.path.join(src, "patch%s.diff" % k))
        for f in os.listdir(kept):
            if f.startswith("demo") and f.endswith(".txt"):
                shutil.copy(os.path.join(kept, f), os.path.join(src, f[:-4]))
        m0 = json.load(open(os.path.join(kept, "meta.json")))
        m0.pop("confirmed_by_lead", None)
        json.dump(m0, open(os.path.join(src, "meta%s.json" % k), "w"))
    meta = json.load(open("%s/meta%s.json" % (src, k)))
    wt = "/tmp/seed-%s-%s" % (pid, k)
    subprocess.run(["git", "-C", "/repo", "worktree", "remove", "--force", wt], capture_output=True)
    shutil.rmtree(wt, ignore_errors=True)
    subprocess.run(["git", "-C", "/repo", "worktree", "add", "--detach", wt, "HEAD"], check=True, capture_output=True)
    res = dict(property=pid, k=k, repo_head=subprocess.run(["git", "-C", "/repo", "rev-parse", "--short", "HEAD"],
                                                          capture_output=True, text=True).stdout.strip())
    try:
        shutil.copy("/repo/go.sum", wt)
        patch = "%s/patch%s.diff" % (src, k)
        rc, out = sh("git apply --whitespace=nowarn %s" % patch, wt)
        res["patch_applies"] = rc == 0
        if rc != 0:
            res["error"] = out[-800:]
            return finish(res, meta, src, k, wt)
        rc, out = sh("go build ./...", wt)
        res["builds"] = rc == 0
        # demonstration
        demo_src = next((f for f in ("demo%s_test.go" % k, "demo%s.go" % k) if os.path.exists(os.path.join(src, f))), None)
        demo_path = (meta.get("demo_path") or "").split()[0] if (meta.get("demo_path") or "").split() else ""
        m = re.findall(r"go test[^&;|]*", meta.get("demo_cmd", ""))
        cmd = m[-1].strip() if m else None
        if demo_src and demo_path and cmd:
            dst = os.path.join(wt, demo_path)
            os.makedirs(os.path.dirname(dst), exist_ok=True)
            shutil.copy(os.path.join(src, demo_src), dst)
            rc1, o1 = sh(cmd, wt)
            sh("git apply -R --whitespace=nowarn %s" % patch, wt)
            rc0, o0 = sh(cmd, wt)
            sh("git apply --whitespace=nowarn %s" % patch, wt)
            os.remove(dst)
            res["demo_cmd"] = cmd
            res["demo_fails_with_change"] = rc1 != 0
            res["demo_passes_without_change"] = rc0 == 0
            res["demo_output_with_change"] = "\n".join(l for l in o1.splitlines() if "FAIL" in l or "---" in l or "panic" in l)[-1200:]
        else:
            res["demo_note"] = "demo could not be located from meta (demo_path / demo_cmd)"
        # the checks
        res["checks"] = {}
        for c in checks:
            t0 = time.time()
            e = dict(os.environ, VERIF_REPO=wt)
            p = subprocess.run([os.path.join(VERIF, "tools", "check"), c, "--tier", tier], cwd=VERIF, env=e,
                               capture_output=True, text=True, timeout=7200)
            lines = [l for l in p.stdout.splitlines() if l.startswith("VIOLATION") or l.startswith("  key=") or
                     l.startswith("INFRA") or l.startswith("OK ") or l.startswith("FAIL ")]
            if p.returncode == 2:
                lines += p.stdout.splitlines()[-8:]
            res["checks"][c] = dict(exit=p.returncode, caught=p.returncode == 1, tier=tier, wall_s=round(time.time() - t0),
                                    lines=[l[:400] for l in lines][:12])
        return finish(res, meta, src, k, wt)
    finally:
        subprocess.run(["git", "-C", "/repo", "worktree", "remove", "--force", wt], capture_output=True)
        shutil.rmtree(wt, ignore_errors=True)


def finish(res, meta, src, k, wt):
    out = os.path.join(VERIF, "seeded", "%s-%s" % (res["property"], k))
    os.makedirs(out, exist_ok=True)
    shutil.copy("%s/patch%s.diff" % (src, k), os.path.join(out, "patch.diff"))
    for f in ("demo%s_test.go" % k, "demo%s.go" % k):
        if os.path.exists(os.path.join(src, f)):
            shutil.copy(os.path.join(src, f), os.path.join(out, f.replace("_test.go", "_test.go.txt").replace(".go", ".go.txt") if not f.endswith("_test.go") else f + ".txt"))
    m = dict(property=res["property"], breaks=meta.get("summary") or meta.get("breaks"), demo_cmd=meta.get("demo_cmd"), needs_to_manifest=meta.get("needs_to_manifest"),
             files_changed=meta.get("files_changed"), demo_path=meta.get("demo_path"), author="independent sub-agent (given only the property text)",
             confirmed_by_lead=res)
    json.dump(m, open(os.path.join(out, "meta.json"), "w"), indent=1)
    print(json.dumps({kk: vv for kk, vv in res.items() if kk != "demo_output_with_change"}, indent=1))


if __name__ == "__main__":
    main()
