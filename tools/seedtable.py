#!/usr/bin/env python3
"""Regenerates the seeded-change table of DESIGN.md (between the seeded:begin / seeded:end markers)
from seeded/*/meta.json (written by tools/seedcheck.py) and seeded/NOTES.json (what was strengthened)."""
import glob, json, os, re
V = os.path.dirname(os.path.dirname(os.path.abspath(__file__)))
notes = {}
p = os.path.join(V, "seeded", "NOTES.json")
if os.path.exists(p):
    notes = json.load(open(p))
rows = []
for f in sorted(glob.glob(os.path.join(V, "seeded", "*", "meta.json"))):
    sid = os.path.basename(os.path.dirname(f))
    m = json.load(open(f))
    c = m.get("confirmed_by_lead", {})
    files = ", ".join(m.get("files_changed") or [])
    summ = (m.get("summary") or m.get("breaks") or "")
    summ = re.sub(r"\s+", " ", summ)
    first = summ.split(". ")[0][:230]
    caught = [k for k, v in c.get("checks", {}).items() if v.get("caught")]
    missed = [k for k, v in c.get("checks", {}).items() if not v.get("caught")]
    if not c.get("patch_applies", True):
        verdict = "patch no longer applies to the repaired tree"
    elif not c.get("checks"):
        verdict = "not run"
    else:
        verdict = ("caught by " + ", ".join(caught)) if caught else "MISSED"
        if missed and caught:
            verdict += "; not by " + ", ".join(missed)
        elif missed and not caught:
            verdict += " (" + ", ".join(missed) + ")"
    rows.append("| %s | %s | %s | %s | %s |" % (sid, files.replace("|", "/"), first.replace("|", "/"), verdict, notes.get(sid, "")))
txt = ("| seeded change | file | what it breaks (first sentence of the author's description) | quick tier, current checks | history |\n"
       "|---|---|---|---|---|\n" + "\n".join(rows) + "\n")
d = os.path.join(V, "DESIGN.md")
s = open(d).read()
a, b = "<!-- seeded:begin -->", "<!-- seeded:end -->"
if a in s:
    s = s[:s.index(a) + len(a)] + "\n" + txt + s[s.index(b):]
    open(d, "w").write(s)
    print("table: %d rows" % len(rows))
else:
    print("markers missing")
