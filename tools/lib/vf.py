"""Shared machinery of the /verif checks.

  * TLC driver: exhaustive check, behaviour extraction (one behaviour per
    explored edge, printed by the spec itself as JSON), simulation, trace
    validation.
  * Go harness builder (always rebuilt from the repository's working tree,
    build tag `verif`).
  * Known-findings filter, evidence writer, exit-code protocol.

Exit codes of a check:  0 = property held on everything explored
                        1 = VIOLATION (real-code behaviour contradicts spec)
                        2 = infrastructure problem (never a verdict)
"""
import json, os, random, re, shutil, subprocess, sys, tempfile, time, hashlib

VERIF = os.path.dirname(os.path.dirname(os.path.dirname(os.path.abspath(__file__))))
REPO = os.environ.get("VERIF_REPO", "/repo")
SPEC = os.path.join(VERIF, "spec")
HARNESS = os.path.join(VERIF, "harness")
EVID = os.path.join(VERIF, "evidence")
if os.path.realpath(REPO) != "/repo":
    # runs against a scratch checkout (seeded bugs, hook development) must not
    # overwrite the committed evidence
    EVID = os.path.join(VERIF, "evidence", "alt")
TLA_CP = "/opt/veriftools/tla/tla2tools.jar:/opt/veriftools/tla/CommunityModules-deps.jar"
MODULE = "github.com/elastos/Elastos.ELA"


class Infra(Exception):
    """Something in the machinery (not the code under test) failed."""


def seed():
    try:
        return int(os.environ.get("VERIF_SEED", "1"))
    except ValueError:
        return 1


def tier(argv_tier=None):
    t = argv_tier or os.environ.get("VERIF_TIER") or "quick"
    return "thorough" if t.startswith("t") else "quick"


_scratch = None


def scratch():
    global _scratch
    if _scratch is None:
        base = os.environ.get("VERIF_SCRATCH") or tempfile.gettempdir()
        _scratch = tempfile.mkdtemp(prefix="vfscratch-%d-" % os.getpid(), dir=base)
    return _scratch


def cleanup():
    global _scratch
    if _scratch and not os.environ.get("VERIF_KEEP"):
        shutil.rmtree(_scratch, ignore_errors=True)
    _scratch = None


def go_env():
    env = dict(os.environ)
    env.update(GOFLAGS="-mod=mod", GOPROXY="off", GOSUMDB="off", GOTOOLCHAIN="local",
               GONOSUMDB="*", GONOSUMCHECK="1", GOFLAGS_EXTRA="")
    env.setdefault("GOCACHE", os.path.join(os.path.expanduser("~"), ".cache", "go-build"))
    return env


# ---------------------------------------------------------------------------
# Go harness

def go_build(cmd, race=False, timeout=1500):
    """Build harness/cmd/<cmd> against REPO's working tree (tag verif).

    The harness module's go.mod replaces the repository module by /repo; when
    VERIF_REPO points elsewhere (scratch worktree) an alternate modfile is
    generated.  Returns the binary path (inside the scratch dir)."""
    out = os.path.join(scratch(), "bin-" + cmd + ("-race" if race else ""))
    args = ["go", "build", "-tags", "verif", "-o", out]
    if race:
        args.append("-race")
    modfile = os.path.join(HARNESS, "go.mod")
    sumfile = os.path.join(HARNESS, "go.sum")
    # (several checks may build at the same time: replace the file atomically and
    # only when it differs)
    src = os.path.join(REPO, "go.sum")
    if not os.path.exists(src):          # go.sum is not tracked: scratch worktrees lack it
        src = "/repo/go.sum"
    with open(src, "rb") as f:
        want = f.read()
    have = None
    if os.path.exists(sumfile):
        with open(sumfile, "rb") as f:
            have = f.read()
    if have != want:
        tmp = sumfile + ".%d" % os.getpid()
        with open(tmp, "wb") as f:
            f.write(want)
        os.replace(tmp, sumfile)
    if os.path.realpath(REPO) != "/repo":
        alt = os.path.join(scratch(), "alt.mod")
        with open(modfile) as f:
            txt = f.read()
        txt = txt.replace("=> /repo", "=> " + os.path.realpath(REPO))
        with open(alt, "w") as f:
            f.write(txt)
        shutil.copyfile(src, os.path.join(scratch(), "alt.sum"))
        args += ["-modfile", alt]
    args.append("./cmd/" + cmd)
    t0 = time.time()
    p = subprocess.run(args, cwd=HARNESS, env=go_env(), capture_output=True, text=True, timeout=timeout)
    if p.returncode != 0:
        raise Infra("harness build failed (%s):\n%s" % (cmd, (p.stdout + p.stderr)[-4000:]))
    return out


def run_driver(binary, args, stdin_path=None, timeout=3600, env=None, ok_codes=(0,)):
    """Run a harness driver; returns (list of JSON result records, raw stdout)."""
    e = go_env()
    e["VERIF_SEED"] = str(seed())
    if env:
        e.update(env)
    fin = open(stdin_path) if stdin_path else None
    try:
        p = subprocess.run([binary] + list(args), stdin=fin, env=e, capture_output=True, text=True,
                           timeout=timeout, cwd=scratch())
    except subprocess.TimeoutExpired:
        raise Infra("driver timed out: %s %s" % (binary, args))
    finally:
        if fin:
            fin.close()
    if p.returncode not in ok_codes:
        raise Infra("driver failed rc=%d: %s %s\n%s" % (p.returncode, binary, args, (p.stdout[-3000:] + p.stderr[-3000:])))
    recs = []
    for line in p.stdout.splitlines():
        line = line.strip()
        if line.startswith("{"):
            try:
                recs.append(json.loads(line))
            except ValueError:
                pass
    return recs, p.stdout + p.stderr


def run_sharded(binary, args_fn, shards=None, timeout=3600, env=None):
    """Run `shards` copies of a driver in parallel (args_fn(i, n) -> argv); returns
    the concatenated result records.  Node scratch directories go to /dev/shm
    when available (the drivers fsync a lot)."""
    import concurrent.futures
    n = shards or min(16, os.cpu_count() or 4)
    e = dict(env or {})
    if os.path.isdir("/dev/shm") and "TMPDIR" not in e:
        tmp = os.path.join("/dev/shm", "verif-" + os.path.basename(scratch()))
        os.makedirs(tmp, exist_ok=True)
        e["TMPDIR"] = tmp
    try:
        with concurrent.futures.ThreadPoolExecutor(max_workers=n) as ex:
            futs = [ex.submit(run_driver, binary, args_fn(i, n), None, timeout, e) for i in range(n)]
            res = [f.result() for f in futs]
    finally:
        if "TMPDIR" in e and e["TMPDIR"].startswith("/dev/shm/verif-"):
            shutil.rmtree(e["TMPDIR"], ignore_errors=True)
    recs = []
    for r, _ in res:
        recs += r
    return merge_summaries(recs)


def merge_summaries(recs):
    """Several shard summaries -> one (numeric fields added, samples kept)."""
    out = [r for r in recs if r.get("kind") != "summary"]
    sums = [r for r in recs if r.get("kind") == "summary"]
    if sums:
        m = dict(kind="summary", samples=[])
        for s_ in sums:
            for k, v in s_.items():
                if k in ("kind",):
                    continue
                if k == "samples":
                    m["samples"] += [x for x in (v or []) if x is not None][:1]
                elif isinstance(v, (int, float)) and not isinstance(v, bool):
                    m[k] = m.get(k, 0) + v
                else:
                    m.setdefault(k, v)
        m["samples"] = m["samples"][:3]
        m["shards"] = len(sums)
        out.append(m)
    return out


# ---------------------------------------------------------------------------
# TLC

_TLC_NOISE = re.compile(r"^(Parsing file|Semantic processing|Linting of|Warning: Failed to parse)")


def _copy_spec(moddir):
    """Specs are run from a scratch copy (TLC litters states/ next to them)."""
    dst = os.path.join(scratch(), "spec-" + hashlib.md5(moddir.encode()).hexdigest()[:8])
    if not os.path.isdir(dst):
        shutil.copytree(moddir, dst)
    return dst


def tlc(moddir, module, cfg, workers=16, timeout=900, simulate=None, depth=None, extra=(), cfg_text=None,
        files=None, jvm=(), coverage=False, seed_arg=None, deque=False):
    """Run TLC.  Returns dict(out, rc, generated, distinct, depth, wall, coverage)."""
    d = _copy_spec(os.path.join(SPEC, moddir) if not os.path.isabs(moddir) else moddir)
    if files:
        # generated modules differ per call and calls may run concurrently (thread pools in the
        # recipes): every such run gets a private copy of the spec directory, so that no TLC
        # process ever reads a module another call is rewriting
        priv = tempfile.mkdtemp(prefix="spec-priv-", dir=scratch())
        os.rmdir(priv)
        shutil.copytree(d, priv, ignore=shutil.ignore_patterns("states", "*.out", "md-*"))
        d = priv
    if cfg_text is not None:
        with open(os.path.join(d, cfg), "w") as f:
            f.write(cfg_text)
    for name, content in (files or {}).items():
        with open(os.path.join(d, name), "w") as f:
            f.write(content)
    meta = tempfile.mkdtemp(prefix="md-", dir=scratch())
    cmd = ["java", "-XX:+UseParallelGC", "-Xss512m"] + list(jvm)
    if deque:
        cmd.append("-Dtlc2.tool.queue.IStateQueue=StateDeque")
    cmd += ["-cp", TLA_CP, "tlc2.TLC", "-workers", str(workers), "-metadir", meta, "-config", cfg]
    if simulate:
        cmd += ["-simulate", simulate]
    if depth:
        cmd += ["-depth", str(depth)]
    if seed_arg is not None:
        cmd += ["-seed", str(seed_arg)]
    if coverage:
        cmd += ["-coverage", "1"]
    cmd += list(extra) + [module + ".tla"]
    t0 = time.time()
    outp = os.path.join(meta, "tlc.out")
    with open(outp, "w") as fo:
        try:
            p = subprocess.run(cmd, cwd=d, stdout=fo, stderr=subprocess.STDOUT, timeout=timeout)
            rc = p.returncode
        except subprocess.TimeoutExpired:
            rc = -9
    wall = time.time() - t0
    res = dict(rc=rc, wall=wall, outfile=outp, generated=0, distinct=0, depth=0, timed_out=(rc == -9))
    tail = []
    with open(outp, errors="replace") as f:
        for line in f:
            if line.startswith('<<"TRACE"'):
                continue
            if _TLC_NOISE.match(line):
                continue
            tail.append(line)
            if len(tail) > 400:
                tail = tail[-300:]
            m = re.match(r"(\d+) states generated, (\d+) distinct states found", line)
            if m:
                res["generated"], res["distinct"] = int(m.group(1)), int(m.group(2))
            m = re.match(r"The depth of the complete state graph search is (\d+)", line)
            if m:
                res["depth"] = int(m.group(1))
    res["tail"] = "".join(tail)
    shutil.rmtree(os.path.join(meta), ignore_errors=True) if False else None
    return res


def tlc_ok(res, what):
    """Exhaustive / simulate run must end without error.  A TLC-level invariant
    violation is a *model* problem (the spec is supposed to satisfy its own
    properties); it is infrastructure, never a verdict about the code."""
    if res["timed_out"]:
        raise Infra("TLC timed out: " + what)
    if res["rc"] != 0:
        raise Infra("TLC reported an error for %s (rc=%d):\n%s" % (what, res["rc"], res["tail"][-3000:]))


def behaviours(res, dedupe_prefixes=True, limit=None, rng=None, strat_key=None, per_class=200):
    """Parse the TRACE lines a spec printed (ACTION_CONSTRAINT Emit).

    Returns (list of behaviours, stats).  A behaviour is a list of steps
    (dicts).  Behaviours that are a proper prefix of another one are dropped
    (replaying the longer one covers them).  If there are more than `limit`,
    a stratified sample is taken: every class (strat_key(beh), default = the
    last action name) keeps up to per_class, the rest is sampled with rng."""
    raw = set()
    with open(res["outfile"], errors="replace") as f:
        for line in f:
            if line.startswith('<<"TRACE", '):
                s = line.rstrip("\n")
                s = s[len('<<"TRACE", '):-2]
                raw.add(s)
    behs = []
    for s in raw:
        try:
            behs.append(json.loads(json.loads(s)))
        except ValueError:
            raise Infra("cannot parse behaviour printed by TLC: " + s[:200])
    total_edges = len(behs)
    if dedupe_prefixes:
        ext = set()
        for b in behs:
            if len(b) > 1:
                ext.add(json.dumps(b[:-1], sort_keys=True))
        behs = [b for b in behs if json.dumps(b, sort_keys=True) not in ext]
    behs.sort(key=lambda b: json.dumps(b, sort_keys=True))
    stats = dict(edges_total=total_edges, maximal=len(behs))
    if strat_key is None:
        strat_key = lambda b: b[-1].get("act", "?") if b else "?"
    classes = {}
    for b in behs:
        classes.setdefault(strat_key(b), []).append(b)
    stats["classes"] = {k: len(v) for k, v in sorted(classes.items())}
    if limit is not None and len(behs) > limit:
        rng = rng or random.Random(seed())
        keep = []
        rest = []
        for k in sorted(classes):
            v = classes[k]
            rng.shuffle(v)
            keep += v[:per_class]
            rest += v[per_class:]
        rng.shuffle(rest)
        room = max(0, limit - len(keep))
        behs = keep + rest[:room]
        behs.sort(key=lambda b: json.dumps(b, sort_keys=True))
    stats["selected"] = len(behs)
    return behs, stats


def write_json_lines(path, items):
    with open(path, "w") as f:
        for it in items:
            f.write(json.dumps(it, sort_keys=True) + "\n")


# ---------------------------------------------------------------------------
# Known findings

def load_known():
    """known_findings.json (committed).  While a check is being developed its
    entries may sit in known_findings.d/<id>.json; they are merged into the
    single file at integration."""
    import glob
    res = []
    p = os.path.join(VERIF, "known_findings.json")
    if os.path.exists(p):
        with open(p) as f:
            res += json.load(f).get("findings", [])
    for q in sorted(glob.glob(os.path.join(VERIF, "known_findings.d", "*.json"))):
        with open(q) as f:
            res += json.load(f).get("findings", [])
    return res


class Check:
    """Bookkeeping of one check run: violations, known findings, evidence."""

    def __init__(self, pid, tier_):
        self.pid = pid
        self.tier = tier_
        self.t0 = time.time()
        self.cov = dict(states=0, transitions=0, traces_validated_against_impl=0, samples=[])
        self.assumptions = []
        self.violations = []      # (key, what, case)
        self.known_hit = {}
        # a driver shared by several properties reports each violation under the
        # property its key names (key = "<Cxx>:..."); findings are matched by key
        self.known = [k for k in load_known() if k.get("status", "open") == "open"]
        self.notes = []

    # -- model side
    def add_tlc(self, res, label):
        self.cov["states"] += res["distinct"]
        self.cov["transitions"] += res["generated"]
        self.cov.setdefault("tlc_runs", []).append(
            dict(label=label, distinct=res["distinct"], generated=res["generated"], depth=res["depth"],
                 wall_s=round(res["wall"], 1)))

    def sample(self, s, cap=6):
        if len(self.cov["samples"]) < cap:
            self.cov["samples"].append(s)

    # -- implementation side
    def absorb(self, recs, label=None):
        """Take the result records of a driver run.

        kinds: violation {key, what, case} / mismatch {what, case} (harness or
        model disagreement that is not a property violation -> infra) /
        summary {cases, distinct, samples, ...}"""
        mism = []
        got_summary = False
        for r in recs:
            k = r.get("kind")
            if k == "violation":
                self.violations.append((r.get("key", "?"), r.get("what", ""), r.get("case")))
            elif k == "mismatch":
                mism.append(r)
            elif k == "summary":
                got_summary = True
                self.cov["traces_validated_against_impl"] += int(r.get("cases", 0))
                for s in (r.get("samples") or [])[:3]:
                    self.sample(s)
                d = {k2: v for k2, v in r.items() if k2 not in ("kind", "samples")}
                if label:
                    d["label"] = label
                self.cov.setdefault("driver_runs", []).append(d)
        if not got_summary:
            raise Infra("driver produced no summary record (dead driver?) for %s" % (label or self.pid))
        if mism:
            # reported by finish(): a violation found in the same run takes precedence
            # (exit 1); mismatches alone make the run an infrastructure failure (exit 2)
            self.mismatches = getattr(self, "mismatches", []) + mism[:20]

    def _write_replay(self, tag, obj):
        d = os.path.join(EVID, "replays")
        os.makedirs(d, exist_ok=True)
        p = os.path.join(d, "%s-%s-%d.json" % (self.pid, tag, seed()))
        with open(p, "w") as f:
            json.dump(obj, f, indent=1, sort_keys=True)
        return p

    def selftest(self, name, rejected):
        """Binding self-test: a deliberately corrupted behaviour / trace must be
        rejected by the conformance step; otherwise the binding is vacuous."""
        self.cov.setdefault("binding_selftests", []).append(dict(name=name, rejected=bool(rejected)))
        if not rejected:
            # decided in finish(): a violation found on the real code takes precedence (on a broken
            # tree the corrupted behaviour may stop at an earlier, genuine disagreement)
            self.__dict__.setdefault("selftests_failed", []).append(name)

    def finish(self, level="model_checking", exhaustive=None, explanation=None):
        new = []
        for key, what, case in self.violations:
            kf = next((k for k in self.known if k["key"] == key), None)
            if kf is not None:
                self.known_hit.setdefault(key, kf)
            else:
                new.append((key, what, case))
        for key, kf in sorted(self.known_hit.items()):
            print("KNOWN-FINDING: property=%s %s [%s]" % (kf.get("property", self.pid), kf.get("what", ""), key))
        rc = 0
        if new:
            rc = 1
            bykey = {}
            for key, what, case in new:
                bykey.setdefault(key, []).append(dict(key=key, what=what, case=case))
            for key in sorted(bykey):
                p = self._write_replay("violation-" + re.sub(r"[^A-Za-z0-9_.-]+", "_", key)[:60], bykey[key][:10])
                m = re.match(r"^(C\d{2,3}):", key)
                print("VIOLATION property=%s replay=%s" % (m.group(1) if m else self.pid, p))
                print("  key=%s count=%d first: %s" % (key, len(bykey[key]), bykey[key][0]["what"][:600]))
        mism = getattr(self, "mismatches", [])
        if mism and not new:
            path = self._write_replay("mismatch", mism[:20])
            raise Infra("MODEL-MISMATCH (%d) for %s: real code disagrees with the spec in a way that is not a "
                        "violation of the property; first: %s ; see %s" %
                        (len(mism), self.pid, json.dumps(mism[0])[:1500], path))
        if mism:
            print("note: %d model mismatches were also reported in this run" % len(mism))
        stf = getattr(self, "selftests_failed", [])
        if stf and not new:
            raise Infra("binding self-test '%s' was NOT rejected: the conformance step does not bind" % stf[0])
        if stf:
            print("note: binding self-test(s) not rejected in this run: %s" % "; ".join(stf))
        cov = self.cov
        if exhaustive is not None:
            cov["exhaustive"] = bool(exhaustive)
        if explanation:
            cov["explanation"] = explanation
        if not cov["samples"]:
            cov["samples"] = ["(no sample recorded)"]
        cov["known_findings_reproduced"] = sorted(self.known_hit)
        ev = dict(property_id=self.pid, tier=self.tier, seed=seed(), level=level, coverage=cov,
                  assumptions=self.assumptions, wall_s=round(time.time() - self.t0, 2),
                  violations=len(new))
        if self.notes:
            ev["notes"] = self.notes
        # checks beyond the listed properties (ids X..) keep their evidence apart
        evdir = EVID if re.match(r"^C\d{2,3}$", self.pid) else os.path.join(EVID, "extra")
        os.makedirs(evdir, exist_ok=True)
        with open(os.path.join(evdir, self.pid + ".json"), "w") as f:
            json.dump(ev, f, indent=1, sort_keys=True)
        print("%s %s tier=%s seed=%d states=%d transitions=%d impl_traces=%d wall=%.1fs" % (
            "FAIL" if rc else "OK", self.pid, self.tier, seed(), cov["states"], cov["transitions"],
            cov["traces_validated_against_impl"], time.time() - self.t0))
        return rc
