#!/usr/bin/env python3
"""Prints the brief given to an independent sub-agent that seeds a property-breaking change
(only the property's own text; nothing about /verif)."""
import json, sys
pid = sys.argv[1]
p = next(json.loads(l) for l in open('/verif/properties.jsonl') if json.loads(l)["id"] == pid)
files = ", ".join(p["anchors"]["files"])
print(f"""You are working on a Go repository (the Elastos.ELA main-chain full node) checked out as a scratch git worktree at /tmp/mut-{pid}. Do ALL your work inside /tmp/mut-{pid}; never read or write /repo or /verif; there is no network. Shell env for go: export GOFLAGS=-mod=mod GOPROXY=off GOSUMDB=off GOTOOLCHAIN=local (go.sum is already in the worktree).

PROPERTY {pid}: {p['title']}
Statement: {p['statement']}
It must hold for: {p['quantifier']['text']}
Code it is anchored in: {files}

TASK. Produce a realistic change to the repository's (non-test) Go code that BREAKS this property, of the kind a developer could plausibly introduce (off-by-one in a bound, a dropped or weakened check, a forgotten index/cache update or rollback step, a swapped comparison, a wrong variable, an early return, state captured at the wrong time, ...). Requirements:
 1. The repository still compiles: `go build ./...`.
 2. The existing tests of every package you touched still pass: `go test -count=1 ./<pkg>/...` (run them with and without your change; `test/unit` is flaky on the unchanged tree because of an unrelated goroutine panic, so for it compare against the unchanged behaviour over a few runs).
 3. The breakage needs something specific to manifest -- a particular multi-step sequence of operations, an unusual input or configuration, a particular interleaving, a fault at a particular point, or two cooperating sites that each look fine alone -- NOT something ordinary use would expose at once.
 4. A demonstration: a Go test (preferred) or small program placed in the worktree that FAILS with your change and PASSES without it. Verify both directions yourself. Do NOT use `git stash` (the stash is shared by all worktrees of this repository): save your change with `git diff > /tmp/mut-{pid}/out/p.diff`, undo it with `git apply -R`, re-apply it with `git apply`.
If you can, produce TWO different changes (different mechanism/site); number them 1 and 2.

DELIVERABLES in /tmp/mut-{pid}/out/ (create the directory): for each change k: `patch<k>.diff` (output of `git diff` for the change ONLY, without the demonstration; it must apply with `git apply` to a clean checkout), `demo<k>_test.go` (or .go) plus in meta the path where it has to be placed and the exact command that runs it, and `meta<k>.json` with keys: property, summary (what was changed and why it breaks the property), needs_to_manifest, files_changed, demo_path, demo_cmd, commands_run (what you ran and the observed results with/without the change). When finished leave the worktree clean (`git checkout -- . && git status --short` shows only out/ and nothing else; remove the demo file from the tree after copying it to out/). Your final message: a short summary of the change(s) and where the files are.""")
