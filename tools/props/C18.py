"""C18 - stored blocks read back byte-for-byte (database/ffldb flat files).

 1. TLC exhaustively checks spec/Store/FlatFile.tla: every history of
    Store / Commit / Abort / Reopen within the bounds, block sizes chosen so that
    every roll-over alignment occurs (exact fit, one byte too many, full file,
    block filling a file alone); invariant ReadBack relates the mechanism (record
    layout over files, uint32 bound check, read at record offset + 8 + region
    offset) to the reference (a read is a SubSeq of the body or an error) for the
    whole boundary set of regions.
 2. TLC enumerates the region decision table (sz, off, len) -> ok/err of the
    reference semantics (and checks the uint32 bound check decides the same).
 3. One behaviour per explored edge is replayed on the real ffldb with the
    maximum block-file size lowered to the model's MaxFile; after every step every
    block is read back whole, by header, by every table region (pending in the
    same transaction, stored, after reopen) and through the batch calls; block
    locations, write cursor and file lengths are compared with the model.
 4. Seeded random histories beyond the bounds (any size that fits a file, > 25
    files so that the open-file LRU evicts) are recorded from the real code and
    validated as traces against TraceFlatFile.tla; their reads are compared with
    the reference on the spot.
"""
import json, os, random
import vf

META = dict(
    text="TLC exhaustively checks a model of the flat-file block store (FlatFile.tla: records <net,len,body,crc> appended over "
         "files of MaxFile bytes with roll-over, block index rows, pending blocks, reopen) against the reference semantics of "
         "FetchBlock/FetchBlockHeader/FetchBlockRegion(s) defined on the block body alone; every explored history is replayed "
         "on the real ffldb (max file size lowered to the model's) comparing every whole-block, header and boundary-region read "
         "(pending, committed, reopened; single and batch calls), block locations, cursor and file lengths; random long "
         "histories are validated as traces against the same spec.",
    note="Trusts TLC; bounded to <= 5 blocks per enumerated history (any size, up to 120 calls and > 25 files in the recorded "
         "runs), max file size 192/110 bytes instead of 64 MiB (blocks always fit a file, as in production), regions from the "
         "boundary set {0,1,83,84,sz-1,sz,sz+1,sz+8,sz+12,2^32-sz,2^32-1}^2; file-system errors and checksum corruption are "
         "not injected.",
    technique="TLA+ mechanism-vs-reference model (TLC exhaustive) + per-edge behaviour replay and region decision table on real "
              "ffldb + trace validation of recorded random histories",
)

WRAP = 1048576
JVM = ("-Xmx6g",)

CFG = """SPECIFICATION %(spec)s
CONSTANTS
  MaxFile = %(maxfile)d
  Hdr = 84
  Sizes = {%(sizes)s}
  MaxBlocks = %(maxblocks)d
  MaxTx = %(maxtx)d
  Wrap = %(wrap)d
  TableSizes = {%(tsizes)s}
VIEW view
%(inv)s
%(emit)s
CHECK_DEADLOCK FALSE
"""

INV = "INVARIANTS TypeOK ReadBack AbsentNotFound CursorAtEnd RecordsDisjoint NoFileTooLong"


def cfg(maxfile=192, sizes=(1, 84, 85, 180), maxblocks=4, maxtx=3, tsizes=(1,), spec="Spec", inv=INV, emit=False):
    return CFG % dict(spec=spec, maxfile=maxfile, sizes=", ".join(map(str, sizes)), maxblocks=maxblocks, maxtx=maxtx,
                      wrap=WRAP, tsizes=", ".join(map(str, tsizes)), inv=inv,
                      emit="ACTION_CONSTRAINT Emit" if emit else "")


TRACE_CFG = """SPECIFICATION TraceSpec
CONSTANTS
  MaxFile = %d
  Hdr = 84
  Sizes = {1}
  MaxBlocks = 1000000
  MaxTx = 1000000
  Wrap = 1048576
  TableSizes = {1}
  TraceFile = "%s"
VIEW TraceView
CONSTRAINT HighWater
INVARIANTS CursorAtEnd RecordsDisjoint NoFileTooLong
POSTCONDITION TraceAccepted
CHECK_DEADLOCK FALSE
"""

# block sizes per max file size: tiny (< header), header-1/header/header+1, two that fit a file exactly together,
# one byte more than that, a block that fills a file alone
SIZES = {192: dict(quick=(1, 84, 85, 180), thorough=(1, 83, 84, 85, 180)),
         110: dict(quick=(1, 84, 85, 98), thorough=(1, 84, 85, 98))}


def absorb(chk, recs, label):
    """chk.absorb, except that a model mismatch does not mask a property violation already found: the violation is
    the stronger verdict, the mismatch (most likely a consequence of the same deviation) becomes a note."""
    try:
        chk.absorb(recs, label)
    except vf.Infra as e:
        if not chk.violations:
            raise
        chk.notes.append("not reported separately because violations were found: " + str(e)[:400])


def run(chk):
    thorough = chk.tier == "thorough"
    rng = random.Random(vf.seed())
    binary = vf.go_build("flatfile")

    # 1. exhaustive model check
    for mf, sizes, nb in ((192, SIZES[192]["thorough" if thorough else "quick"], 5 if thorough else 4),) + \
                         (((110, SIZES[110]["thorough"], 4),) if thorough else ()):
        r = vf.tlc("Store", "FlatFile", "mc.cfg", cfg_text=cfg(maxfile=mf, sizes=sizes, maxblocks=nb, maxtx=3),
                   workers=8, timeout=2400, jvm=JVM)
        vf.tlc_ok(r, "FlatFile exhaustive MaxFile=%d" % mf)
        chk.add_tlc(r, "exhaustive FlatFile.tla MaxFile=%d sizes=%s blocks<=%d" % (mf, list(sizes), nb))

    # 2. region decision table (reference verdicts) for every size used anywhere
    tsizes = sorted(set(SIZES[192]["thorough"]) | set(SIZES[110]["thorough"]) | {96})
    r = vf.tlc("Store", "FlatFile", "table.cfg",
               cfg_text=cfg(sizes=(1,), tsizes=tsizes, spec="TableSpec", inv="INVARIANT BoundCheckExact", emit=True),
               workers=1, timeout=600, jvm=JVM)
    vf.tlc_ok(r, "FlatFile region table")
    table, st = vf.behaviours(r, dedupe_prefixes=False)
    chk.add_tlc(r, "region decision table (%d cases)" % len(table))
    tpath = os.path.join(vf.scratch(), "table.jsonl")
    vf.write_json_lines(tpath, table)

    # 3. one behaviour per edge -> real ffldb
    plans = [(192, SIZES[192]["quick"], 3, 2, None)]
    if thorough:
        plans += [(192, SIZES[192]["thorough"], 4, 3, 12000), (110, SIZES[110]["thorough"], 4, 3, 6000),
                  (192, (84, 85, 180), 5, 2, 6000)]
    else:
        plans += [(192, SIZES[192]["quick"], 4, 3, 1200)]
    last = None
    for i, (mf, sizes, nb, ntx, limit) in enumerate(plans):
        r = vf.tlc("Store", "FlatFile", "x%d.cfg" % i,
                   cfg_text=cfg(maxfile=mf, sizes=sizes, maxblocks=nb, maxtx=ntx, inv="", emit=True),
                   workers=1, timeout=2400, jvm=JVM)
        vf.tlc_ok(r, "FlatFile extraction")
        behs, st = vf.behaviours(r, limit=limit, rng=rng, per_class=(limit or 3000) // 4)
        chk.add_tlc(r, "edge extraction MaxFile=%d blocks<=%d" % (mf, nb))
        chk.cov.setdefault("extraction", []).append(dict(st, maxfile=mf, blocks=nb))
        path = os.path.join(vf.scratch(), "beh-%d.jsonl" % i)
        vf.write_json_lines(path, behs)
        recs, _ = vf.run_driver(binary, ["replay", path, tpath, str(mf), str(WRAP), "8"])
        absorb(chk, recs, "replay edges MaxFile=%d blocks<=%d" % (mf, nb))
        if i == 0:
            last = behs

    # binding self-tests: (a) one reference verdict flipped in the table, (b) one block location corrupted
    bad_table = json.loads(json.dumps(table))
    flipped = False
    for t in bad_table:
        a = t[0]["args"]
        if t[0]["exp"] == "err" and a["sz"] == 84 and a["off"] == 1 and a["len"] == 84:
            t[0]["exp"] = "ok"
            flipped = True
    if not flipped:
        raise vf.Infra("self-test case (sz=84, off=1, len=84) not in the region table")
    p2 = os.path.join(vf.scratch(), "table-bad.jsonl")
    vf.write_json_lines(p2, bad_table)
    some = [b for b in last if any(x["sz"] == 84 and x["st"] == "stored" for x in b[-1]["shown"]["blocks"])][:20]
    p3 = os.path.join(vf.scratch(), "beh-some.jsonl")
    vf.write_json_lines(p3, some)
    recs, _ = vf.run_driver(binary, ["replay", p3, p2, "192", str(WRAP), "4"])
    chk.selftest("replay: one region verdict of the table flipped",
                 any(x.get("kind") in ("violation", "mismatch") for x in recs))
    bad = json.loads(json.dumps(some[0]))
    for x in bad[-1]["shown"]["blocks"]:
        if x["st"] == "stored":
            x["o"] += 1
    p4 = os.path.join(vf.scratch(), "beh-bad.jsonl")
    vf.write_json_lines(p4, [bad])
    recs, _ = vf.run_driver(binary, ["replay", p4, tpath, "192", str(WRAP), "1"])
    chk.selftest("replay: expected block offset corrupted", any(x.get("kind") in ("violation", "mismatch") for x in recs))

    # 4. recorded random histories -> trace validation
    for mf, runs, ops in ((192, 40, 120), (110, 20, 120), (1000, 20, 120)) if thorough else ((192, 5, 70), (110, 2, 60)):
        tr = os.path.join(vf.scratch(), "trace-%d.ndjson" % mf)
        recs, _ = vf.run_driver(binary, ["record", str(runs), str(ops), str(mf), tr])
        absorb(chk, recs, "record MaxFile=%d" % mf)
        nev = sum(1 for _ in open(tr))
        r = vf.tlc("Store", "TraceFlatFile", "trace.cfg", cfg_text=TRACE_CFG % (mf, tr), workers=1, timeout=2400, jvm=JVM)
        if r["timed_out"]:
            raise vf.Infra("trace validation timed out")
        chk.add_tlc(r, "trace validation MaxFile=%d (%d events)" % (mf, nev))
        if r["rc"] != 0:
            consumed = max(r["depth"] - 1, 0)
            lines = open(tr).read().splitlines()
            k = min(consumed, len(lines) - 1)
            start = max(i for i in range(0, k + 1) if '"Reset"' in lines[i])
            hist = [json.loads(x) for x in lines[start:k + 1]]
            msg = ("MODEL-MISMATCH: recorded history of the real block store is not a behaviour of FlatFile.tla at "
                   "event %d: %s (layout differs from the model; reads were checked separately)"
                   % (k + 1, json.dumps([dict(ev=h.get("ev"), sz=h.get("sz")) for h in hist])[:1500] + " observed " +
                      json.dumps(hist[-1].get("shown"))[:800]))
            if not chk.violations:
                raise vf.Infra(msg)
            chk.notes.append(msg[:600])
            continue
        if mf == 192 and not chk.violations:
            lines = open(tr).read().splitlines()
            idx = max(i for i, x in enumerate(lines) if '"Commit"' in x)
            ev = json.loads(lines[idx])
            ev["shown"]["cur"]["o"] += 1
            lines[idx] = json.dumps(ev)
            tr2 = os.path.join(vf.scratch(), "trace-bad.ndjson")
            open(tr2, "w").write("\n".join(lines) + "\n")
            r2 = vf.tlc("Store", "TraceFlatFile", "trace2.cfg", cfg_text=TRACE_CFG % (mf, tr2), workers=1, timeout=1200, jvm=JVM)
            chk.selftest("trace: one recorded cursor corrupted", r2["rc"] != 0 and not r2["timed_out"])

    chk.assumptions += [
        "a block always fits into one flat file (size <= MaxFile - 12), as in production where blocks are far smaller than "
        "64 MiB; a larger block would be written to a file of its own beyond the limit and is not enumerated",
        "the maximum block-file size is lowered by a verif knob (192 / 110 / 1000 bytes instead of 64 MiB); offsets stay far "
        "below 2^32, the uint32 wrap-around is exercised through region offsets/lengths near 2^32 only",
        "TLC bounds: <= %d blocks per history, <= 3 pending blocks per transaction, sizes %s; regions from the boundary set "
        "{0,1,83,84,sz-1,sz,sz+1,sz+8,sz+12,2^32-sz,2^32-1} squared; recorded runs: random sizes, up to 120 calls"
        % (5 if thorough else 4, list(SIZES[192]["thorough" if thorough else "quick"])),
        "disk faults and on-disk corruption (checksum / network mismatch paths of readBlock) are not injected",
    ]
    return chk.finish(exhaustive=False)
