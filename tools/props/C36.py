"""C36 - RPC access control and service levels are enforced.

 1. spec/Edge/RPCAccess.tla: the request pipeline IPFilter -> Verb -> ContentType
    -> Auth -> Dispatch -> ServiceLevel -> Run over classes of remote address,
    whitelist, configured credentials, Authorization header(s), HTTP verb, content
    type, RPC method and configured service level; TLC enumerates every case with
    the invariants 'RPC surface reached => address allowed and credential exact'
    and 'privileged method forbidden by the level => not run'.
 2. Every case becomes real HTTP requests (several concrete forms per class, single
    and batch body) handed to servers/httpjsonrpc.Handle with the method table the
    node's own StartRPCServer registered, and -- access half -- to
    utils/http/jsonrpc.Server.ServeHTTP.  The set of registered method names is
    read from the repository source and every one of them is requested under every
    service level.
"""
import json, os, re, sys
sys.path.insert(0, os.path.dirname(os.path.abspath(__file__)))
import vf
import edgetwo_common as ec

META = dict(
    text="RPCAccess.tla models the JSON-RPC request pipeline (IP filter, verb, content type, Basic auth, dispatch, service-level "
         "gate) stage by stage; TLC enumerates remote-address class x whitelist x credentials x Authorization header variant "
         "x verb x content type x method x level with 'RPC surface reached => address allowed and credential exact' and "
         "'privileged and forbidden => not run'; every case is sent as real HTTP requests (httptest) to "
         "servers/httpjsonrpc.Handle with the node's registered method table -- every registered method under every "
         "service level -- and the access half also to utils/http/jsonrpc.Server.",
    note="The privileged-method table (14 handlers with the level each passes to checkRPCServiceLevel and the reason it is "
         "privileged) is transcribed in the spec; a newly added privileged handler missing from it is not detected. "
         "Requests are handed to the handlers directly (httptest), not through a socket.",
    technique="TLA+ pipeline model (TLC complete enumeration) + per-case conformance run on the real HTTP handlers",
)

ACCESS_HDRS = ["absent", "exact", "wrongPass", "wrongUser", "wrongScheme", "lowerScheme", "trailingSpace", "leadingSpace",
               "empty", "exactThenWrong", "wrongThenExact"]
LEVELS = ["ConfigurationPermitted", "MiningPermitted", "TransactionPermitted", "WalletPermitted", "QueryOnly", "bogus"]

CFG = """SPECIFICATION Spec
CONSTANTS
  Addrs = {%(addrs)s}
  WLs = {%(wls)s}
  Creds = {%(creds)s}
  Hdrs = {%(hdrs)s}
  Verbs = {%(verbs)s}
  CTypes = {%(ctypes)s}
  MethodsTried = {%(methods)s}
  LevelsTried = {%(levels)s}
  Unprivileged = {%(unpriv)s}
VIEW view
INVARIANTS TypeOK ServedOnlyIfAuthorised PrivilegedRefused NoCollateral
ACTION_CONSTRAINT Emit
CHECK_DEADLOCK FALSE
"""

PRIVILEGED = ["setloglevel", "togglemining", "createauxblock", "submitauxblock", "discretemining", "sendrawtransaction",
              "submitsidechainillegaldata", "estimatesmartfee", "getutxosbyamount", "getamountbyinputs", "listunspent",
              "createrawtransaction", "signrawtransactionwithkey", "decoderawtransaction"]


def q(xs):
    return ", ".join('"%s"' % x for x in xs)


def registered_methods():
    src = open(os.path.join(vf.REPO, "servers", "httpjsonrpc", "server.go")).read()
    names = re.findall(r'mainMux\["([^"]+)"\]\s*=', src)
    if len(names) < 50:
        raise vf.Infra("could not read the method registrations from servers/httpjsonrpc/server.go")
    return sorted(set(names))


def cfg(**kw):
    return CFG % {k: q(v) for k, v in kw.items()}


def run(chk):
    thorough = chk.tier == "thorough"
    binary = vf.go_build("rpcaccess")

    if getattr(chk, "replay", None):
        cases = ec.replay_cases(chk.replay)
        recs, _ = vf.run_driver(binary, ["run", ec.write_cases("replay.jsonl", cases)], timeout=3000)
        ec.absorb(chk, recs, "replay")
        return chk.finish(exhaustive=False)

    names = registered_methods()
    missing = [m for m in PRIVILEGED if m not in names]
    if missing:
        raise vf.Infra("privileged methods of the spec's table are no longer registered: %s" % missing)
    unpriv = [m for m in names if m not in PRIVILEGED]
    chk.cov["registered_methods"] = len(names)

    # A. access half: every access class combination, a query method and a privileged one
    a = dict(addrs=["lo4", "lo6", "remote4", "remote6", "malformed"],
             wls=["empty", "listsClient", "listsOthers", "wildcard"],
             creds=["none", "userOnly", "passOnly", "both"] if thorough else ["none", "userOnly", "both"], hdrs=ACCESS_HDRS,
             verbs=["POST", "GET", "PUT", "OPTIONS", "lowerPost"] if thorough else ["POST", "GET"],
             ctypes=["json", "plain", "jsonCharset", "upperJson", "absent", "form"] if thorough else ["json", "absent"],
             methods=["help", "setloglevel", "nosuchmethod"] if thorough else ["help", "setloglevel"],
             levels=["ConfigurationPermitted", "QueryOnly"], unpriv=unpriv)
    r = vf.tlc("Edge", "RPCAccess", "a.cfg", cfg_text=cfg(**a), workers=1, timeout=3000, jvm=("-Xmx8g",))
    vf.tlc_ok(r, "RPCAccess access half")
    chk.add_tlc(r, "RPCAccess.tla complete: all access classes x {help, setloglevel%s} x {ConfigurationPermitted, QueryOnly}"
                % (", nosuchmethod" if thorough else ""))
    cases, st = ec.last_steps(r)
    st["classes"] = {}
    for c in cases:
        st["classes"][c["exp"]] = st["classes"].get(c["exp"], 0) + 1
    chk.cov.setdefault("extraction", []).append(st)
    recs, _ = vf.run_driver(binary, ["run", ec.write_cases("access.jsonl", cases)], timeout=3000)
    ec.absorb(chk, recs, "access cases on httpjsonrpc.Handle and utils/http/jsonrpc")
    acases = cases

    # B. service-level half: every registered method x every level, for allowed requests
    b = dict(addrs=["lo4", "remote4"], wls=["listsClient"], creds=["none", "both"], hdrs=["exact"], verbs=["POST"], ctypes=["json"],
             methods=names + ["nosuchmethod"], levels=LEVELS, unpriv=unpriv)
    r = vf.tlc("Edge", "RPCAccess", "b.cfg", cfg_text=cfg(**b), workers=1, timeout=1500)
    vf.tlc_ok(r, "RPCAccess level half")
    chk.add_tlc(r, "RPCAccess.tla complete: %d registered methods x 6 level strings, allowed requests" % len(names))
    cases, st = ec.last_steps(r)
    st["classes"] = {}
    for c in cases:
        st["classes"][c["exp"]] = st["classes"].get(c["exp"], 0) + 1
    chk.cov.setdefault("extraction", []).append(st)
    recs, _ = vf.run_driver(binary, ["run", ec.write_cases("levels.jsonl", cases)], timeout=3000)
    ec.absorb(chk, recs, "every registered method x level on httpjsonrpc.Handle")

    # binding self-tests
    bad = json.loads(json.dumps(next(c for c in acases if c["exp"] == "served" and c["args"]["addr"] == "remote4"
                                     and c["args"]["creds"] == "both")))
    bad["exp"] = "401"
    recs, _ = vf.run_driver(binary, ["run", ec.write_cases("bad1.jsonl", [bad])])
    ec.selftest(chk, "a served request declared unauthorised", recs)
    bad = json.loads(json.dumps(next(c for c in cases if c["exp"] == "served" and c["args"]["method"] == "sendrawtransaction")))
    bad["exp"] = "outOfLevel"
    recs, _ = vf.run_driver(binary, ["run", ec.write_cases("bad2.jsonl", [bad])])
    ec.selftest(chk, "a permitted privileged call declared out of level", recs)

    chk.assumptions += [
        "requests are handed to httpjsonrpc.Handle / jsonrpc.Server.ServeHTTP through net/http/httptest with RemoteAddr set; the "
        "net/http server's own header normalisation (which trims header values) is not in the path",
        "each abstract class is run in several concrete forms (e.g. malformed RemoteAddr: empty, no port, host name, two ports, "
        "octet > 255, zone id; wrong credential: longer password, empty password, truncated base64, scheme only)",
        "the whitelist wildcard 0.0.0.0 counts as 'whitelisted' for every client, as documented in the configuration",
        "with two Authorization headers the first one is the request's credential",
        "an unknown RPCServiceLevel string is the most permissive level (RPCServiceLevelFromString's default), modelled as such",
        "privileged handlers are invoked with no parameters so that they return right after the service-level gate; "
        "servers.Chain is an empty BlockChain value, all other node globals are nil; unprivileged handlers may panic on those "
        "nil globals, which counts as 'ran'",
        "the privileged-method table is transcribed in RPCAccess.tla; methods registered in the source but absent from it are "
        "treated as unprivileged (never refused by the gate) -- a new ungated privileged handler is not detected",
    ]
    return chk.finish(exhaustive=True)
