"""C40 - validation and state queries are safe under concurrency."""
import json, os, subprocess
import vf

META = dict(
    text="StateLin.tla: one writer (ProcessBlock) and any number of readers; a block becomes visible on each state surface "
         "(database indexes, in-memory tip, validation, DPoS/CR state) at one unobservable instant inside the ProcessBlock "
         "call; a read is consistent iff its answer is the answer of one committed state between what was visible at its "
         "invocation and at its response. TLC checks the model exhaustively for small bounds. Conformance: a recorder built "
         "with the race detector processes blocks in one goroutine of a full-stack node while reader goroutines call GetHeight, "
         "GetUTXO, CheckTransactionContext, AppendToTxPool, GetLastIrreversibleHeight, DPoS / CR queries and pool listings; "
         "every call is logged with sequence numbers from one atomic counter and its answer translated into the set of "
         "committed states (from a sequential reference run) it is compatible with; TLC validates the recorded histories "
         "against the spec (TraceStateLin.tla, commits composed in lazily). A data race, a panic or a failing ProcessBlock "
         "under concurrency is a violation.",
    note="Linear chain (no reorganisation during the concurrent phase), 3 readers, 8-12 blocks per run, GOMAXPROCS 2 and 16; "
         "every client uses its own decoded transaction / block objects, as RPC and peer handlers do (sharing one transaction "
         "object between goroutines races inside the object and is not what the node does); cross-surface ordering is not "
         "required by the property and not checked; the race detector is the execution environment of the recorder.",
    technique="TLA+ linearisability-window model checked by TLC + trace validation of concurrent histories recorded from the "
              "real node under the Go race detector",
)

MC = """SPECIFICATION Spec
CONSTANTS
  Readers = {"r1", "r2"}
  Surfaces = {"db", "tip"}
  MaxBlocks = %d
  MaxReads = %d
INVARIANTS TypeOK VisibleWithinCall NoFutureReads PendingSane
CHECK_DEADLOCK FALSE
"""
TR = """SPECIFICATION TraceSpec
CONSTANTS
  Readers = {"r1", "r2", "r3"}
  Surfaces = {"db", "tip", "dpos", "validate"}
  MaxBlocks = 1000
  MaxReads = 100000000
  TraceFile = "%s"
VIEW TraceView
CONSTRAINT HighWater
INVARIANTS VisibleWithinCall NoFutureReads
POSTCONDITION TraceAccepted
CHECK_DEADLOCK FALSE
"""


def record(chk, binary, runs, blocks, procs, out):
    env = vf.go_env()
    env.update(VERIF_SEED=str(vf.seed() + procs), GOMAXPROCS=str(procs), GORACE="halt_on_error=1 exitcode=66")
    if os.path.isdir("/dev/shm"):
        env["TMPDIR"] = "/dev/shm"
    p = subprocess.run([binary, "record", str(runs), str(blocks), "3", out], env=env, capture_output=True, text=True, timeout=3000)
    if p.returncode == 66 or "WARNING: DATA RACE" in p.stderr:
        i = p.stderr.find("WARNING: DATA RACE")
        report = p.stderr[i:i + 6000]
        funcs = [l.strip().split("(")[0] for l in report.splitlines() if l.startswith("  ") and "/" not in l.split("(")[0][:3]]
        site = next((f for f in funcs if "Elastos.ELA" in f), funcs[0] if funcs else "?").split("/")[-1]
        chk.violations.append(("C40:data-race:" + site, "the race detector reported a data race while blocks were processed "
                               "concurrently with queries / validation", dict(report=report, gomaxprocs=procs)))
        return None
    if p.returncode != 0:
        if "panic:" in p.stderr:
            i = p.stderr.find("panic:")
            chk.violations.append(("C40:panic-under-concurrency", p.stderr[i:i + 300].splitlines()[0],
                                   dict(report=p.stderr[i:i + 5000], gomaxprocs=procs)))
            return None
        raise vf.Infra("recorder failed rc=%d: %s" % (p.returncode, p.stderr[-2000:]))
    recs = [json.loads(l) for l in p.stdout.splitlines() if l.startswith("{")]
    chk.absorb(recs, "recorded concurrent runs GOMAXPROCS=%d" % procs)
    return out


def validate(chk, trace, label):
    r = vf.tlc("Conc", "TraceStateLin", "t.cfg", cfg_text=TR % trace, workers=1, timeout=1700)
    if r["timed_out"]:
        raise vf.Infra("trace validation timed out")
    chk.add_tlc(r, "trace validation " + label)
    return r


def run(chk):
    thorough = chk.tier == "thorough"
    r = vf.tlc("Conc", "StateLin", "mc.cfg", cfg_text=MC % ((3, 4) if thorough else (2, 3)), workers=8, timeout=1500)
    vf.tlc_ok(r, "StateLin exhaustive")
    chk.add_tlc(r, "exhaustive StateLin.tla (2 readers, 2 surfaces)")
    binary = vf.go_build("conc", race=True, timeout=2400)
    good = None
    for procs in (2, 16):
        runs, blocks = (60, 12) if thorough else (6, 8)
        tr = os.path.join(vf.scratch(), "conc-%d.ndjson" % procs)
        if record(chk, binary, runs, blocks, procs, tr) is None:
            continue
        res = validate(chk, tr, "GOMAXPROCS=%d" % procs)
        if res["rc"] != 0:
            m = [l for l in res["tail"].splitlines() if "REJECTED_AT_LINE" in l]
            line = int("".join(ch for ch in m[-1] if ch.isdigit())) if m else 0
            lines = open(tr).read().splitlines()
            bad = json.loads(lines[line - 1]) if 0 < line <= len(lines) else {}
            what = str(bad.get("what", "?")).split("(")[0].split("=")[0]
            chk.violations.append(("C40:inconsistent-read:" + what,
                                   "a recorded concurrent history is not a behaviour of StateLin.tla: event %d %s cannot be "
                                   "explained by any committed state inside its call window" % (line, json.dumps(bad)[:300]),
                                   dict(events=[json.loads(x) for x in lines[max(0, line - 25):line]], gomaxprocs=procs)))
        else:
            good = tr
    if good and not chk.violations:
        # binding self-test: claim a read saw a state far in the future
        lines = open(good).read().splitlines()
        idx = next(i for i, x in enumerate(lines) if '"RResp"' in x and '"GetHeight"' in x)
        ev = json.loads(lines[idx]); ev["ks"] = [7]; lines[idx] = json.dumps(ev)
        tr2 = os.path.join(vf.scratch(), "conc-bad.ndjson")
        open(tr2, "w").write("\n".join(lines) + "\n")
        r2 = vf.tlc("Conc", "TraceStateLin", "t2.cfg", cfg_text=TR % tr2, workers=1, timeout=900)
        chk.selftest("trace: one answer replaced by a future state", r2["rc"] != 0 and not r2["timed_out"])
    chk.assumptions += ["harness objects are not shared between goroutines (each client decodes its own transactions / blocks)",
                        "Arbiters.GetSnapshot is not in the call mix: it panics on an empty snapshot list (sequentially, before "
                        "the first DPoS snapshot exists), which is a robustness matter, not a concurrency one"]
    return chk.finish(exhaustive=False)
