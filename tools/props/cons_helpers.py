"""Helpers shared by the checks C24-C27 (consensus, small models)."""

# short single-worker TLC runs on a busy machine: no parallel GC threads, C1 only
JVM_FAST = ("-XX:-UseParallelGC", "-XX:+UseSerialGC", "-XX:TieredStopAtLevel=1")


def verdict_first(chk, recs):
    """A driver run that shows a violation of the property whose key is not a listed
    finding is a verdict (exit 1).  The model mismatches the same run reports are
    then, as a rule, consequences of the same defect (other cases in which the
    changed code no longer follows the transcription); they must not turn the
    verdict into an infrastructure error, so they are moved to the notes.  Without
    such a violation mismatches stay what they are (exit 2)."""
    known = {k["key"] for k in chk.known}
    if not any(r.get("kind") == "violation" and r.get("key") not in known for r in recs):
        return recs
    mism = [r for r in recs if r.get("kind") == "mismatch"]
    if mism:
        chk.notes.append("%d model mismatches reported beside the violation(s), first: %s" %
                         (len(mism), str(mism[0].get("what"))[:300]))
    return [r for r in recs if r.get("kind") != "mismatch"]
