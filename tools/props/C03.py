"""C03 - validating any decoded block or transaction never crashes (anchored mechanisms).

 1. TLC enumerates the shapes of spec/Edge/Validate.tla: program codes byte by byte for the
    script classifiers, (prefix, code class, parameter length) for RunPrograms, merged-mining
    proofs (parent coinbase inputs, script layout, bytes after the root, branch length, size,
    index), coinbase output counts per height regime, Schnorr withdraw signer indexes below /
    above the restriction height, transaction count/length shapes, and the crash shapes inside
    complete transactions on a node.  Invariants: NeverCrashes (reference validators),
    FixIsConservative (they differ from the validators as coded only where those crash),
    OneKind.
 2. Every shape is materialised into real bytes, DECODED by the repository's deserialisers and
    passed to the real validators under recover: contract.Is*/GetCodeType, blockchain.RunPrograms,
    CheckTransactionSanity + checkTransactionSignature, AuxPow.Check, CheckBlockSanity,
    coinbase sanity + checkCoinbaseTransactionContext, checkSchnorrWithdrawFromSidechain,
    CheckTransactionContext on a regnet node.  A panic is a VIOLATION
    C03:panic:<function>:<shape class>; a verdict different from the model's is a mismatch.
"""
import json, os, random, sys
import vf
sys.path.insert(0, os.path.dirname(os.path.abspath(__file__)))
from sigcfg import absorb, violations_first

META = dict(
    text="TLC enumerates the input shapes of the validators that index into peer supplied data (Validate.tla: script "
         "classifiers over byte sequences, RunPrograms parameter lengths per code class and address prefix, AuxPow.Check "
         "layouts incl. parent coinbase without inputs / short script tails / 32+ entry branches, coinbase output counts in "
         "every height regime, Schnorr withdraw signer indexes, count/length shapes of transactions) with the reference "
         "verdict of every shape; each shape is turned into real bytes, decoded by the repository's deserialisers and run "
         "through the real validators (directly and through CheckTransactionSanity/Context and CheckBlockSanity of a regnet "
         "node) under recover: no panic, and the same accept/reject answer as the model.",
    note="Claimed for the anchored mechanisms only; shapes, not all byte values (key bytes, hashes and signatures are fixed or "
         "seeded random); six crash shapes found on the unchanged tree were repaired by fix: commits (bounds checks returning "
         "reject).",
    technique="TLA+ shape model of the validators (TLC exhaustive: NeverCrashes, FixIsConservative) + per-shape replay on the "
              "real decoders and validators under recover",
)

CFG = """SPECIFICATION Spec
CONSTANTS
  Mechs = {%(mechs)s}
  AsCoded = %(coded)s
  MaxTail = %(tail)d
VIEW view
INVARIANTS %(inv)s
%(emit)s
CHECK_DEADLOCK FALSE
"""
ALL = '"classify", "runprog", "auxpow", "coinbase", "withdraw", "txshape", "context"'


def cfg(mechs=ALL, coded=False, tail=2, inv="NeverCrashes FixIsConservative OneKind", emit=True):
    return CFG % dict(mechs=mechs, coded="TRUE" if coded else "FALSE", tail=tail, inv=inv,
                      emit="ACTION_CONSTRAINT Emit" if emit else "")


@violations_first
def run(chk):
    thorough = chk.tier == "thorough"
    binary = vf.go_build("validate")
    tail = 3 if thorough else 2
    r = vf.tlc("Edge", "Validate", "c03.cfg", cfg_text=cfg(tail=tail), workers=16, timeout=1700)
    vf.tlc_ok(r, "Validate.tla")
    chk.add_tlc(r, "Validate.tla all mechanisms, MaxTail=%d (NeverCrashes, FixIsConservative, OneKind)" % tail)
    behs, st = vf.behaviours(r, dedupe_prefixes=False, strat_key=lambda b: b[0]["args"]["mech"])
    chk.cov.setdefault("extraction", []).append(st)
    if st["classes"].get("classify", 0) < 1000 or len(st["classes"]) < 7:
        raise vf.Infra("shape enumeration incomplete: %s" % st["classes"])
    path = os.path.join(vf.scratch(), "c03.jsonl")
    vf.write_json_lines(path, behs)
    recs, _ = vf.run_driver(binary, ["shapes", path])
    absorb(chk, recs, "all shapes through the real decoders and validators")

    # model self-test: the validators as coded before the fixes crash in the model
    r2 = vf.tlc("Edge", "Validate", "c03-coded.cfg", cfg_text=cfg(coded=True, tail=1, inv="NeverCrashes", emit=False),
                workers=4, timeout=600)
    if r2["timed_out"]:
        raise vf.Infra("TLC timed out on the as-coded model")
    chk.selftest("model: NeverCrashes is violated by the validators as coded before the fix commits",
                 r2["rc"] != 0 and "NeverCrashes" in r2["tail"])

    # binding self-tests: a corrupted expectation must be noticed; a panic inside repository code must be reported
    pick = next(b for b in behs if b[0]["args"]["mech"] == "classify" and b[0]["exp"] == "multisig")
    bad = json.loads(json.dumps(pick)); bad[0]["exp"] = "custom"
    pick2 = next(b for b in behs if b[0]["args"]["mech"] == "auxpow" and b[0]["exp"] == "accept")
    bad2 = json.loads(json.dumps(pick2)); bad2[0]["exp"] = "reject"
    p2 = os.path.join(vf.scratch(), "c03-bad.jsonl")
    vf.write_json_lines(p2, [bad, bad2, [dict(act="Case", args=dict(mech="selfpanic"), exp="reject", coded="crash")]])
    recs, _ = vf.run_driver(binary, ["shapes", p2])
    chk.selftest("replay: corrupted expected classification / auxpow verdict -> mismatch",
                 sum(1 for x in recs if x.get("kind") == "mismatch") == 2)
    chk.selftest("replay: a panic inside a repository function is reported with its function",
                 any(x.get("kind") == "violation" and x.get("key") == "C03:panic:crypto.Unmarshal:selftest" for x in recs))
    chk.assumptions += [
        "claimed for the anchored mechanisms only: contract.IsStandard/IsSchnorr/IsMultiSig, RunPrograms and its per-kind "
        "checkers, AuxPow.Check/GetExpectedIndex, coinbase output counts (sanity before context, as ProcessBlock orders "
        "them), checkSchnorrWithdrawFromSidechain, count/length shapes of TransferAsset through SanityCheck",
        "shapes, not byte values: key pushes carry filler bytes or fixed valid/invalid keys, parameters are seeded random "
        "bytes of the enumerated lengths, merkle branches are random hashes",
        "height regimes of the coinbase check are entered by setting PublicDPOSHeight and the arbiters' DPoSV2ActiveHeight "
        "on a fresh regnet node (no arbiter rewards pending); Schnorr enabled from height 0",
        "the context shapes use regnet parameters (cross-chain UTXO restriction height = never, 5 origin arbiters)",
    ]
    return chk.finish(exhaustive=True)
