"""C26 - the view-change schedule does not depend on how often it is evaluated.

 1. TLC checks spec/Consensus/View.tla as the code is written (separate entry /
    loop duration formulas, named deviation PollEntrySurcharge) for all polling
    schedules over boundary instants: ScheduleIndependent outside the deviation,
    OneShotMonotone, and - with either formula used uniformly - no deviation.
 2. One behaviour per explored edge is replayed on the real dpos/manager view
    (ChangeView, ChangeViewV1, TryChangeView, TryChangeViewV1 through the verif
    export): view offset, start and on-duty flag are compared with the spec
    after every poll, and the property itself is evaluated on the real values:
    an evaluation now == one evaluation from the initial view; one-shot offset
    non-decreasing.
 3. Trace validation: seeded random polling runs (1 s instants; 1..36 arbiters)
    of the real view are validated against TraceView.tla.
"""
import sys, os, json, random, concurrent.futures
import vf
sys.path.insert(0, os.path.dirname(os.path.abspath(__file__)))
from cons_helpers import JVM_FAST, verdict_first

META = dict(
    text="TLC checks View.tla, a transcription of calculateOffsetTimeV0/V1 and ChangeView/ChangeViewV1/TryChangeView* in "
         "whole seconds, for every polling schedule of up to 3-4 instants around all view boundaries (1, 2, 3, 12, 36 "
         "arbiters, initial offsets up to 2n+2): incremental evaluation equals one-shot evaluation outside one named "
         "deviation, the one-shot offset is monotone, and the deviation disappears when one duration formula is used "
         "uniformly; every explored edge is replayed on the real view comparing offset/start/on-duty and evaluating the "
         "property on the real values; random 1 s polling runs of the real view are validated as traces.",
    note="Whole seconds only; offsets below three rounds (uint32 overflow of the duration formula beyond is not "
         "modelled); signTolerance 5 s. Reproduces the open finding C26:V1:entry-surcharge.",
    technique="TLA+ model (TLC exhaustive over polling schedules) + per-edge behaviour replay on the real view + trace "
              "validation of recorded random polling runs",
)

CFG = """SPECIFICATION Spec
CONSTANTS
  Variants = {%(variants)s}
  Ns = {%(ns)s}
  C0s = {%(c0s)s}
  Times = {%(times)s}
  MaxPolls = %(polls)d
  Tol = %(tol)d
  Surcharges = {%(sur)s}
  Gated = {%(gated)s}
VIEW view
INVARIANTS TypeOK ScheduleIndependent ProbeIsOneShot RefIsOneShot OneShotMonotone DeviationOnlyBeyondRound NoDeviationIfUniform
PROPERTIES OffsetMonotone
%(emit)s
CHECK_DEADLOCK FALSE
"""

TRACE_CFG = """SPECIFICATION TraceSpec
CONSTANTS
  Variants = {"V0", "V1"}
  Ns = {1}
  C0s = {0}
  Times = {}
  MaxPolls = 100000000
  Tol = 5
  Surcharges = {"entry"}
  Gated = {TRUE, FALSE}
  TraceFile = "%s"
VIEW TraceView
CONSTRAINT HighWater
INVARIANTS ScheduleIndependent ProbeIsOneShot DeviationOnlyBeyondRound
POSTCONDITION TraceAccepted
CHECK_DEADLOCK FALSE
"""




def dur(n, c, entry):
    if c < n:
        return 5
    return 5 + ((1 if entry else 0) + c - n) * 3 * 20 ** (c // n)


def instants(n, c0s, span, k, rng):
    """Polling instants around every view boundary of the one-shot schedule and
    of the poll-at-every-boundary schedule, for `span` views from each c0."""
    s = set()
    for c0 in c0s:
        for all_entry in (False, True):
            t, c = 0, c0
            while c <= c0 + span:
                t += dur(n, c, all_entry or c == c0)
                s |= {t - 1, t, t + 1}
                c += 1
    s = sorted(x for x in s if x > 0)
    if len(s) > k:
        head = s[:k // 2]
        rest = s[k // 2:]
        rng.shuffle(rest)
        s = sorted(head + rest[:k - len(head)])
    return s


def cfg(ns, c0s, times, polls=3, sur=("entry", "never", "always"), variants=("V0", "V1"), gated=("TRUE", "FALSE"),
        emit=True, tol=5):
    return CFG % dict(tol=tol, variants=", ".join('"%s"' % v for v in variants), ns=", ".join(map(str, ns)),
                      c0s=", ".join(map(str, c0s)), times=", ".join(map(str, times)), polls=polls,
                      sur=", ".join('"%s"' % x for x in sur), gated=", ".join(gated), emit="ACTION_CONSTRAINT Emit" if emit else "")


def run(chk):
    thorough = chk.tier == "thorough"
    rng = random.Random(vf.seed())
    vf._copy_spec(os.path.join(vf.SPEC, "Consensus"))
    polls = 4 if thorough else 3
    k = 26 if thorough else 10

    def cap(ts, m):
        ts = sorted(set(ts))
        if len(ts) > m:
            head, rest = ts[:m // 2], ts[m // 2:]
            rng.shuffle(rest)
            ts = sorted(head + rest[:m - len(head)])
        return ts

    small_c0 = list(range(0, 9)) if thorough else [0, 1, 2, 3, 4, 8]
    t_small = cap(instants(1, [0, 1, 2], 2, k, rng) + instants(2, [0, 2, 3], 2, k, rng)
                  + instants(3, [0, 2, 3, 4], 2, k, rng), k + 4)
    c12 = [0, 10, 12, 13, 25]
    t12 = instants(12, c12, 2, k, rng)
    c36 = [0, 34, 36, 37, 73]
    t36 = instants(36, c36, 2, k, rng)
    t_v0 = cap([5 * i + d for i in range(1, 9) for d in (-1, 0, 1)] + [rng.randrange(41, 400) for _ in range(4)], k)
    V1, V0 = ("V1",), ("V0",)
    runs = [("V0 and V1 (as written + both uniform formulas), n=1..3", cfg([1, 2, 3], small_c0, t_small, polls), True),
            ("V1 (as written + both uniform formulas), n=12", cfg([12], c12, t12, polls, variants=V1), True)]
    if thorough:
        runs.append(("V0, n=2,12", cfg([2, 12], [0, 3, 6], t_v0, polls, variants=V0), True))
        runs.append(("V1 (as written + both uniform formulas), n=36", cfg([36], c36, t36, polls, variants=V1), True))
        c5 = [0, 3, 5, 6, 11]
        runs.append(("V1 (as written + both uniform formulas), n=5", cfg([5], c5, instants(5, c5, 2, k, rng), polls, variants=V1), True))
    # signTolerance is configurable (DPoSConfiguration.SignTolerance): the V0 schedule and the gate of the Try* calls
    # follow it, the V1 schedule is written in absolute seconds.  One run with another value keeps the two apart.
    t_tol10 = cap(instants(2, [0, 1, 2, 3], 2, k, rng) + [10 * i + d for i in range(1, 5) for d in (-1, 0, 1)], k + 4)
    runs.append(("V0 and V1 with signTolerance 10 s, n=2,3", cfg([2, 3], [0, 1, 2, 3, 4], t_tol10, polls, tol=10), True))
    TOL10 = len(runs) - 1
    ex = concurrent.futures.ThreadPoolExecutor(max_workers=5)
    fb = ex.submit(vf.go_build, "view")
    fs = [ex.submit(vf.tlc, "Consensus", "View", "c26-%d.cfg" % i, workers=1, timeout=1500, cfg_text=c, jvm=JVM_FAST)
          for i, (_, c, emit) in enumerate(runs)]
    binary = fb.result()

    # 3. (started early, runs beside the TLC jobs) trace validation of recorded runs of the real view
    tr = os.path.join(vf.scratch(), "c26-trace.ndjson")
    nruns, npolls = (3000, 60) if thorough else (300, 40)
    trecs, _ = vf.run_driver(binary, ["record", str(nruns), str(npolls), tr])
    lines = open(tr).read().splitlines()
    nev = len(lines)
    ftrace = ex.submit(vf.tlc, "Consensus", "TraceView", "c26-trace.cfg", cfg_text=TRACE_CFG % tr, workers=1, timeout=1500,
                       jvm=JVM_FAST)
    idx = max(i for i, x in enumerate(lines) if '"Poll"' in x and '"indep":true' in x.replace(" ", ""))
    ev = json.loads(lines[idx]); ev["offset"] += 1
    tr2 = os.path.join(vf.scratch(), "c26-trace-bad.ndjson")
    open(tr2, "w").write("\n".join(lines[:idx] + [json.dumps(ev)] + lines[idx + 1:]) + "\n")
    ftrace2 = ex.submit(vf.tlc, "Consensus", "TraceView", "c26-trace2.cfg", cfg_text=TRACE_CFG % tr2, workers=1,
                        timeout=900, jvm=JVM_FAST) if thorough else None
    results = [f.result() for f in fs]

    allb, b10 = [], []
    budget = 400000 if thorough else 60000
    for i, ((label, _, emit), r) in enumerate(zip(runs, results)):
        vf.tlc_ok(r, "View.tla " + label)
        chk.add_tlc(r, label)
        if not emit:
            continue
        behs, st = vf.behaviours(r, limit=budget if i != TOL10 else budget // 4, rng=rng, per_class=budget // 4,
                                 strat_key=lambda b: b[-1]["act"] + "/" + b[-1]["args"]["variant"])
        st["label"] = label
        chk.cov.setdefault("extraction", []).append(st)
        if i == TOL10:
            b10 += behs
        else:
            allb += behs
    if not any(b[-1]["act"] == "PollEntrySurcharge" for b in allb):
        raise vf.Infra("no behaviour reaches the deviation action (vacuous instants)")
    path = os.path.join(vf.scratch(), "c26-beh.jsonl")
    vf.write_json_lines(path, allb)
    recs, _ = vf.run_driver(binary, ["replay", path], timeout=3000)
    chk.absorb(verdict_first(chk, recs), "replay of %d behaviours" % len(allb))
    path10 = os.path.join(vf.scratch(), "c26-beh10.jsonl")
    vf.write_json_lines(path10, b10)
    recs, _ = vf.run_driver(binary, ["replay", path10], timeout=3000, env={"VERIF_VIEW_TOL": "10"})
    chk.absorb(verdict_first(chk, recs), "replay of %d behaviours with signTolerance 10 s" % len(b10))

    # binding self-tests
    good = [b for b in allb if len(b) >= 2 and not b[-1]["exp"]["dev"] and b[-1]["args"]["variant"] == "V1"]
    bad = json.loads(json.dumps(good[len(good) // 2]))
    bad[-1]["exp"]["offset"] += 1
    p2 = os.path.join(vf.scratch(), "c26-bad.jsonl")
    vf.write_json_lines(p2, [bad])
    recs, _ = vf.run_driver(binary, ["replay", p2])
    chk.selftest("replay: expected view offset corrupted", any(x.get("kind") in ("mismatch", "violation") for x in recs))
    devb = [b for b in allb if b[-1]["act"] == "PollEntrySurcharge"]
    bad = json.loads(json.dumps(devb[0]))
    for st in bad:
        st["exp"]["dev"] = False
    vf.write_json_lines(p2, [bad])
    recs, _ = vf.run_driver(binary, ["replay", p2])
    chk.selftest("replay: deviation flag removed -> unlisted violation key",
                 any(x.get("kind") == "violation" and x.get("key") != "C26:V1:entry-surcharge" for x in recs))

    # 3. trace validation: verdict
    r = ftrace.result()
    r2 = ftrace2.result() if ftrace2 else None
    ex.shutdown()
    if r["timed_out"]:
        raise vf.Infra("trace validation timed out")
    chk.add_tlc(r, "trace validation (%d events)" % nev)
    if r["rc"] != 0:
        consumed = max(r["depth"] - 1, 0)
        idx = min(consumed, len(lines) - 1)
        start = max(i for i in range(0, idx + 1) if '"Reset"' in lines[i])
        hist = [json.loads(x) for x in lines[start:idx + 1]]
        ev = hist[-1]
        what = ("recorded polling run of the real view is not a behaviour of View.tla at event %d: %s (TLC: %s)" %
                (idx + 1, json.dumps(ev)[:300], r["tail"].strip().splitlines()[-3:]))
        if not ev.get("indep", True):
            # the real evaluation at this instant disagrees with the one-shot evaluation outside the deviation
            chk.violations.append(("C26:trace:%s:schedule-dependent" % hist[0].get("variant"), what, dict(trace=hist)))
        elif any(k not in {f["key"] for f in chk.known} for k, _, _ in chk.violations):
            chk.notes.append("trace validation also rejected: " + what[:400])
        else:
            # schedule independence holds at the rejected event: the code left the transcription, not the property
            raise vf.Infra("MODEL-MISMATCH C26: " + what)
    chk.absorb(verdict_first(chk, trecs), "record %d runs" % nruns)
    for x in trecs:
        if x.get("kind") == "summary" and x.get("events_incremental_ne_oneshot", 0) > 0 and r["rc"] == 0:
            chk.violations.append(("C26:V1:entry-surcharge", "recorded runs: %d events where the incremental view differs "
                                   "from the one-shot view, all inside the spec's deviation" %
                                   x["events_incremental_ne_oneshot"], (x.get("samples") or [None])[0]))
    if r["rc"] == 0 and r2 is not None:
        chk.selftest("trace: one recorded view offset corrupted", r2["rc"] != 0 and not r2["timed_out"])
    chk.assumptions += [
        "time in whole seconds, signTolerance = 5 s (the value of every network) and one run with 10 s; the on-duty arbiter is taken from "
        "ArbitratorsMock.GetNextOnDutyArbitrator(offset)",
        "offsets stay below three rounds: beyond, (c-n)*3*20^(c/n) overflows uint32 in the code and is not modelled",
        "exhaustive polling schedules use instants within 1 s of every view boundary (one-shot and poll-at-boundary "
        "schedules) for 2 views beyond each initial offset, sampled by the seed when more than %d" % k,
        "Consensus/DPOSManager callers (timer, block arrival) are not driven; the view object is driven directly",
    ]
    return chk.finish(exhaustive=False)
