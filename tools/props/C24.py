"""C24 - consensus decisions do not depend on scheduling or process-local randomness.

 1. TLC checks spec/Consensus/RandSelect.tla: the selection (Seed, then draws)
    interleaved with another goroutine that draws from / reseeds the
    process-global generator, for the Global (rand.Seed + rand.Intn) and the
    Local (private generator) variant; Deterministic holds outside the named
    deviation SelDrawInterfered, which only the Global variant can take.
 2. Every interleaving (TLC run with the history in the state, so every
    distinct interleaving is a state) is replayed with real goroutines on the
    real getCandidateIndexAtRandom, getSortedProducersWithRandom and
    getRandomDposV2Producers for many block hashes; the hook between seeding
    and drawing gates the window while a second goroutine calls math/rand's
    top-level functions.  The result must be the interference-free one.
 3. rand.Seed(s)+top-level draws == rand.New(rand.NewSource(s)) for many seeds
    (what makes the private generator consensus-compatible).
"""
import sys, os, json, re, concurrent.futures
import vf
sys.path.insert(0, os.path.dirname(os.path.abspath(__file__)))
from cons_helpers import JVM_FAST, verdict_first

META = dict(
    text="TLC enumerates every interleaving of the arbiter selection (seed from the block hash, then draw) with a second "
         "goroutine drawing from or reseeding the process-global math/rand source (RandSelect.tla, Global and Local "
         "variants, invariant: what is drawn is the stream of the chain-derived seed); each interleaving is replayed with "
         "real goroutines on getCandidateIndexAtRandom, getSortedProducersWithRandom and getRandomDposV2Producers for "
         "16-64 block hashes, the verif hook holding the selection between seeding and drawing while the other goroutine "
         "calls rand.Int63/Uint32/Intn/Perm/Float64/Seed; results must equal the interference-free ones, and the "
         "candidate index must equal rand.New(rand.NewSource(seed)).Intn(n) computed from the block hash.",
    note="Dynamic check of the three anchored call sites only; that no other consensus code draws from a global or "
         "time-seeded source is a static fact about program text and is only listed (evidence notes), not decided. "
         "Noise can be placed before seeding, between seeding and the first draw, and after the last draw (one hook point).",
    technique="TLA+ model of the shared generator (TLC, all interleavings) + replay of every interleaving with real "
              "goroutines gated by a hook in the real selection code",
)

CFG = """SPECIFICATION Spec
CONSTANTS
  Variants = {"Global", "Local"}
  MaxNoise = %(noise)d
  NDraws = %(draws)d
  NoiseSeeds = {TRUE, FALSE}
VIEW %(view)s
INVARIANTS TypeOK Deterministic LocalNeverDeviates DeviationIsInterference
%(emit)s
CHECK_DEADLOCK FALSE
"""


CONSENSUS_DIRS = ("dpos/state", "dpos/manager", "dpos/account", "blockchain", "cr/state", "core/checkpoint", "pow", "mempool")


def static_note():
    """List (not judge) uses of math/rand's top-level functions in consensus packages."""
    hits = []
    for d in CONSENSUS_DIRS:
        root = os.path.join(vf.REPO, d)
        if not os.path.isdir(root):
            continue
        for f in sorted(os.listdir(root)):
            if not f.endswith(".go") or f.endswith("_test.go") or "verif" in f:
                continue
            txt = open(os.path.join(root, f), errors="replace").read()
            if '"math/rand"' not in txt:
                continue
            for i, line in enumerate(txt.splitlines(), 1):
                if line.strip().startswith("//"):
                    continue
                if re.search(r"\brand\.(Seed|Intn|Int|Int31|Int31n|Int63|Int63n|Uint32|Uint64|Perm|Shuffle|Float64|Float32|Read)\(",
                             line):
                    hits.append("%s/%s:%d %s" % (d, f, i, line.strip()))
    return hits


def run(chk):
    thorough = chk.tier == "thorough"
    vf._copy_spec(os.path.join(vf.SPEC, "Consensus"))
    noise = 4 if thorough else 3
    runs = [
        ("all interleavings, 1 draw, <=%d noise ops (history in the state)" % noise,
         CFG % dict(noise=noise, draws=1, view="vars", emit="ACTION_CONSTRAINT Emit"), True),
        ("state graph, 3 draws, <=%d noise ops" % (noise + 1),
         CFG % dict(noise=noise + 1, draws=3, view="view", emit=""), False),
    ]
    with concurrent.futures.ThreadPoolExecutor(max_workers=3) as ex:
        fb = ex.submit(vf.go_build, "randselect")
        fs = [ex.submit(vf.tlc, "Consensus", "RandSelect", "c24-%d.cfg" % i, workers=1, timeout=900, cfg_text=c, jvm=JVM_FAST)
              for i, (_, c, _) in enumerate(runs)]
        binary = fb.result()
        results = [f.result() for f in fs]
    for (label, _, _), r in zip(runs, results):
        vf.tlc_ok(r, "RandSelect.tla " + label)
        chk.add_tlc(r, label)
    behs, st = vf.behaviours(results[0])
    chk.cov.setdefault("extraction", []).append(st)
    behs = [b for b in behs if any(s["act"] == "SelSeed" for s in b)]
    if not any(b[-1]["exp"]["dev"] for b in behs):
        raise vf.Infra("no interleaving with noise inside the window (vacuous)")
    path = os.path.join(vf.scratch(), "c24-beh.jsonl")
    vf.write_json_lines(path, behs)
    hashes = 64 if thorough else 16
    recs, _ = vf.run_driver(binary, ["replay", path, str(hashes)], timeout=3000)
    chk.absorb(verdict_first(chk, recs), "replay of %d interleavings x %d block hashes x 3 targets" % (len(behs), hashes))
    summ = [x for x in recs if x.get("kind") == "summary"][0]
    # binding self-test: the gate must really put the noise inside the window - the transcription of
    # rand.Seed+rand.Intn kept in the driver has to deviate in the interleavings the spec marks
    chk.selftest("gate: global-generator transcription deviates under the marked interleavings (%d of %d runs)" %
                 (summ.get("legacy_deviated", 0), summ.get("legacy_runs", 0)),
                 summ.get("legacy_deviated", 0) > 0 and summ.get("global_dev_behaviours", 0) > 0)
    # binding self-test: an interleaving whose deviation flag is removed must be objected to
    devb = [b for b in behs if b[-1]["exp"]["dev"] and b[-1]["args"]["variant"] == "Global" and b[-1]["act"] != "SelSeed"
            and any(s["act"].startswith("SelDraw") for s in b)]
    bad = json.loads(json.dumps(devb[len(devb) // 2]))
    for s in bad:
        s["exp"]["dev"] = False
    p2 = os.path.join(vf.scratch(), "c24-bad.jsonl")
    vf.write_json_lines(p2, [bad])
    recs2, _ = vf.run_driver(binary, ["replay", p2, str(hashes)])
    chk.selftest("replay: deviation flag of an interfered interleaving removed",
                 any(x.get("kind") == "mismatch" for x in recs2))

    recs, _ = vf.run_driver(binary, ["equiv", "400000" if thorough else "50000"])
    chk.absorb(verdict_first(chk, recs), "stream equivalence of seeded global and private generators")

    hits = static_note()
    chk.notes.append("math/rand top-level calls in consensus packages (listed, not judged): " +
                     ("; ".join(hits) if hits else "none"))
    chk.assumptions += [
        "the generator is abstracted to (seed, position); that equal (seed, position) means equal values is math/rand's "
        "contract, and that the seeded global source and rand.New(rand.NewSource(seed)) are the same stream is checked "
        "empirically (equiv)",
        "one hook point per selection: noise is placed before seeding, between seeding and the first draw, after the last "
        "draw; the harness module declares go 1.20 like the repository, so rand.Seed has the node's semantics",
        "producers are installed directly into the state (VerifAddActiveProducer), block hashes come from synthetic headers",
        "the 'programs' half of the property (no consensus code anywhere draws from a global / time-seeded source) is not "
        "decided by this technique; the call sites found by a textual scan are listed in the notes",
    ]
    return chk.finish(exhaustive=True, explanation="every interleaving of Seed/Draw with <= %d noise operations "
                      "(draw or reseed) is enumerated by TLC and replayed" % noise)
