"""C14 - queryable UTXO views agree with the ledger."""
import random
import vf, importlib.util, os
_spec = importlib.util.spec_from_file_location("_ledger", os.path.join(os.path.dirname(__file__), "_ledger.py"))
L = importlib.util.module_from_spec(_spec); _spec.loader.exec_module(L)

META = dict(
    text="In Ledger.tla the unspent-output view, the per-address lists (zero-value outputs excluded) and the transaction "
         "locations are defined as folds of the active chain; TLC enumerates block trees carrying transfers with several "
         "outputs to one address, zero-value outputs and spends across heights, delivered in every order (reorganisations "
         "included); after every delivery the replay driver queries GetUnspent, GetUTXO(address) (+ Ledger.GetAmount) and "
         "GetTransaction on the real node for every tracked outpoint, address and transaction and compares with the fold.",
    note="Bounded by the constants in the evidence file; three tracked addresses, seven transaction templates.",
    technique="TLA+ ledger model checked by TLC + behaviour replay on a full-stack node comparing every query surface",
)


def run(chk):
    thorough = chk.tier == "thorough"
    rng = random.Random(vf.seed())
    binary = vf.go_build("ledger")
    txs = ["T1", "T3", "T6", "T7"]
    big = dict(txs=txs, blocks=4 if thorough else 3, tpb=1 if thorough else 2, bad=0, deliver=5 if thorough else 4)
    L.exhaustive(chk, "trees<=%d blocks, <=%d of {T1,T3,T6,T7} per block" % (big["blocks"], big["tpb"]), **big)
    small = dict(txs=txs, blocks=3, tpb=1, bad=0, deliver=4 if thorough else 3)
    behs = L.extract_edges(chk, "3 blocks x <=1 tx", 8000 if thorough else 500, rng, **small)
    sim = L.simulate(chk, "6 blocks x <=2 txs", 3000 if thorough else 200, 14,
                     txs=["T1", "T2", "T3", "T6", "T7"], blocks=6, tpb=2, bad=1, deliver=7)
    # change paid back to an address that still owns other outputs of the same height (the four
    # 6000 ELA funding outputs of the producer registrations), connected and disconnected
    sim2 = L.simulate(chk, "5 blocks with registrations", 2000 if thorough else 150, 12,
                      txs=["T1", "T2", "R1", "R2", "R3"], blocks=5, tpb=2, bad=0, deliver=6)
    chk.absorb(L.replay(chk, binary, behs + sim, "c14"), "replay on full-stack node")
    chk.absorb(L.replay(chk, binary, sim2, "c14-reg"), "replay with producer registrations")
    L.selftest(chk, binary, behs + sim)
    return chk.finish(exhaustive=False)
