"""C12 - the node follows the most-work valid chain."""
import random
import vf, importlib.util, os
_spec = importlib.util.spec_from_file_location("_ledger", os.path.join(os.path.dirname(__file__), "_ledger.py"))
L = importlib.util.module_from_spec(_spec); _spec.loader.exec_module(L)

META = dict(
    text="TLC exhaustively explores every block tree (<= 4/5 blocks, any parent, one conflicting-transaction pair, at most "
         "one sanity- or context-invalid block) and every delivery order incl. orphans-first and re-deliveries on "
         "Ledger.tla, checking ActiveValid, MostWork and FailedDeliverKeepsChain on the property model; behaviours (every "
         "edge of a small configuration + seeded simulation of a larger one) are replayed on a full-stack regnet node with "
         "the ProcessBlock result, active chain, UTXO set, per-address lists and transaction locations compared after "
         "every delivery.  LedgerRestart.tla adds a restart of the node on its own data directory at any point (index and "
         "cumulative work rebuilt from the stored chain, side-chain blocks and orphans forgotten), replayed the same way.",
    note="Unit work per block (regnet instant blocks: the difficulty is constant), nil confirmations (PoW mode); bounded by "
         "the constants in the evidence file; trusts TLC and the harness block factory (stack.NewBlock).",
    technique="TLA+ block-tree/ledger model checked by TLC + behaviour replay on a full-stack node",
)


def run(chk):
    thorough = chk.tier == "thorough"
    rng = random.Random(vf.seed())
    binary = vf.go_build("ledger")
    big = dict(txs=["T1", "T2"], blocks=5 if thorough else 4, tpb=1, bad=1, deliver=6 if thorough else 4)
    L.exhaustive(chk, "trees<=%d blocks, txs T1/T2, <=1 bad block, <=%d deliveries" % (big["blocks"], big["deliver"]), **big)
    small = dict(txs=["T1", "T2"], blocks=3, tpb=1, bad=1, deliver=4 if thorough else 3)
    behs = L.extract_edges(chk, "3 blocks", 8000 if thorough else 500, rng, **small)
    sim = L.simulate(chk, "6 blocks", 3000 if thorough else 200, 14,
                     txs=["T1", "T2", "T3"], blocks=6, tpb=1, bad=1, deliver=7)
    chk.absorb(L.replay(chk, binary, behs + sim, "c12"), "replay on full-stack node")
    # restarts: the node is stopped and started again on its data directory (LedgerRestart.tla): the block index
    # is rebuilt from the stored headers (cumulative work!), side-chain blocks and orphans are forgotten
    rcfg = L.cfg(["T1", "T2"], 3, 1, 0, 4, fix=L.reorg_fix_expected(), inv=L.INV_FIXED if L.reorg_fix_expected() else L.INV_ASIS,
                 extra="ACTION_CONSTRAINT REmitLast").replace("SPECIFICATION Spec", "SPECIFICATION RSpec") \
        .replace("VIEW view", "VIEW rview").replace("CONSTANTS\n", "CONSTANTS\n  MaxRestarts = 1\n", 1)
    r = vf.tlc("Chain", "LedgerRestart", "r.cfg", cfg_text=rcfg, workers=1, timeout=1700)
    vf.tlc_ok(r, "LedgerRestart exhaustive")
    chk.add_tlc(r, "exhaustive LedgerRestart.tla: 3 blocks, 4 deliveries, one restart anywhere; complete behaviours extracted")

    def rcls(b):
        acts = [s_["act"] for s_ in b]
        if "Restart" not in acts:
            return "no-restart"
        i = acts.index("Restart")
        before = sum(1 for a in acts[:i] if a == "Deliver")
        after_reorg = any(e[0] == "d" for s_ in b[i + 1:] for e in (s_.get("ev") or []))
        last = b[-1].get("res", {}).get("why", "?")
        return "restart-after-%d:%s%s" % (before, last, "+reorg" if after_reorg else "")
    rb, st = vf.behaviours(r, limit=2500 if thorough else 160, rng=rng, per_class=150 if thorough else 8, strat_key=rcls)
    rb = [x for x in rb if any(s_["act"] == "Restart" for s_ in x)]
    st["label"] = "restart behaviours"
    chk.cov.setdefault("extraction", []).append(st)
    chk.absorb(L.replay(chk, binary, rb, "c12r"), "replay with restarts on full-stack node")
    L.selftest(chk, binary, behs)
    chk.assumptions += ["all blocks carry unit work (InstantBlock regnet parameters)", "PoW mode, nil confirmations",
                        "orphan pool and block-node pruning limits (10000 / 20160) are far above the bounds explored"]
    return chk.finish(exhaustive=False)
