"""C12 - the node follows the most-work valid chain."""
import random
import vf, importlib.util, os
_spec = importlib.util.spec_from_file_location("_ledger", os.path.join(os.path.dirname(__file__), "_ledger.py"))
L = importlib.util.module_from_spec(_spec); _spec.loader.exec_module(L)

META = dict(
    text="TLC exhaustively explores every block tree (<= 4/5 blocks, any parent, one conflicting-transaction pair, at most "
         "one sanity- or context-invalid block) and every delivery order incl. orphans-first and re-deliveries on "
         "Ledger.tla, checking ActiveValid, MostWork and FailedDeliverKeepsChain on the property model; behaviours (every "
         "edge of a small configuration + seeded simulation of a larger one) are replayed on a full-stack regnet node with "
         "the ProcessBlock result, active chain, UTXO set, per-address lists and transaction locations compared after "
         "every delivery.",
    note="Unit work per block (regnet instant blocks: the difficulty is constant), nil confirmations (PoW mode); bounded by "
         "the constants in the evidence file; trusts TLC and the harness block factory (stack.NewBlock).",
    technique="TLA+ block-tree/ledger model checked by TLC + behaviour replay on a full-stack node",
)


def run(chk):
    thorough = chk.tier == "thorough"
    rng = random.Random(vf.seed())
    binary = vf.go_build("ledger")
    big = dict(txs=["T1", "T2"], blocks=5 if thorough else 4, tpb=1, bad=1, deliver=6 if thorough else 4)
    L.exhaustive(chk, "trees<=%d blocks, txs T1/T2, <=1 bad block, <=%d deliveries" % (big["blocks"], big["deliver"]), **big)
    small = dict(txs=["T1", "T2"], blocks=3, tpb=1, bad=1, deliver=4 if thorough else 3)
    behs = L.extract_edges(chk, "3 blocks", 8000 if thorough else 500, rng, **small)
    sim = L.simulate(chk, "6 blocks", 3000 if thorough else 200, 14,
                     txs=["T1", "T2", "T3"], blocks=6, tpb=1, bad=1, deliver=7)
    chk.absorb(L.replay(chk, binary, behs + sim, "c12"), "replay on full-stack node")
    L.selftest(chk, binary, behs)
    chk.assumptions += ["all blocks carry unit work (InstantBlock regnet parameters)", "PoW mode, nil confirmations",
                        "orphan pool and block-node pruning limits (10000 / 20160) are far above the bounds explored"]
    return chk.finish(exhaustive=False)
