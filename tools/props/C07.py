"""C07 - block contents are bound to the header."""
import json, os
import vf

META = dict(
    text="BlockBind.tla transcribes the content-binding part of CheckBlockSanity (first and only coinbase, no duplicate "
         "transaction, merkle root with the duplicate-last-node rule) over a symbolic collision-free hash; TLC enumerates every "
         "accepted base block of 1..5/6 transactions and every single mutation of its transaction list under the unchanged "
         "header (replace, remove, swap, duplicate, duplicated tail that keeps the merkle root, insert, second coinbase) and "
         "checks Accept(mutant) => mutant = base. Every case is materialised with real signed transactions and a solved "
         "header and passed to BlockChain.CheckBlockSanity; accepting a mutant is a violation.",
    note="Symbolic hash (collisions of the real hash are out of scope); transaction-level sanity and the per-type duplicate "
         "rules of CheckDuplicateTx are satisfied by construction (plain transfers with disjoint inputs, and one input-less NextTurnDPOSInfo transaction `n1` whose duplicates only the duplicate-transaction rule can stop).",
    technique="TLA+ decision model checked exhaustively by TLC, one implementation test per enumerated case",
)

CFG = """SPECIFICATION Spec
CONSTANTS
  Plain = {"t1", "t2", "t3", "n1"}
  MaxLen = %d
VIEW view
INVARIANTS BaseAccepted Bound
ACTION_CONSTRAINT Emit
CHECK_DEADLOCK FALSE
"""


def run(chk):
    thorough = chk.tier == "thorough"
    binary = vf.go_build("blockbind")
    r = vf.tlc("Chain", "BlockBind", "bb.cfg", cfg_text=CFG % (5 if thorough else 4), workers=1, timeout=1500)
    vf.tlc_ok(r, "BlockBind exhaustive")
    chk.add_tlc(r, "exhaustive BlockBind.tla: bases up to %d transactions x every single mutation" % (5 if thorough else 4))
    behs, st = vf.behaviours(r, dedupe_prefixes=False)
    cases = [b[0] for b in behs]
    kinds = {}
    for c in cases:
        kinds[c["kind"]] = kinds.get(c["kind"], 0) + 1
    chk.cov["cases_by_mutation"] = kinds
    chk.cov["exhaustive_cases"] = len(cases)
    path = os.path.join(vf.scratch(), "bb.jsonl")
    vf.write_json_lines(path, cases)
    recs, _ = vf.run_driver(binary, ["run", path], env={"TMPDIR": "/dev/shm"} if os.path.isdir("/dev/shm") else None)
    chk.absorb(recs, "CheckBlockSanity on every case")
    # binding self-test: claim that the unmutated block must be rejected -> the driver must object
    bad = dict(next(c for c in cases if c["kind"] == "none" and len(c["base"]) == 3)); bad["accept"] = False
    p = os.path.join(vf.scratch(), "bb-bad.jsonl")
    vf.write_json_lines(p, [bad])
    recs, _ = vf.run_driver(binary, ["run", p], env={"TMPDIR": "/dev/shm"} if os.path.isdir("/dev/shm") else None)
    chk.selftest("expected verdict of an unmutated block flipped", any(x.get("kind") == "violation" for x in recs))
    return chk.finish(exhaustive=True)
