"""C16 - ffldb behaves like an ordered, transactional key/value store (database/ffldb).

 1. TLC checks spec/Store/KV.tla (committed bucket tree, per-transaction view = snapshot +
    own writes, one read-write and two read-only transactions, a cursor, managed Update
    whose closure may fail or panic, Close/Reopen) and prints one behaviour per explored
    edge for several bounded configurations.
 2. Every behaviour is executed on a REAL ffldb database (database.Create/Open, driver
    harness/cmd/ffldbkv) once per cache variant -- flush on every commit / never flush /
    flush by size, set through the verif knob database/ffldb/verif_kv.go -- and, in the
    thorough tier, additionally with the database closed and reopened after every step at
    which no transaction is open.  After EVERY step the complete tree every open
    transaction sees and the committed tree (DB.View) are read back through Get, Bucket,
    ForEach, ForEachBucket and fresh cursors (forwards, backwards, a turn at every item,
    Seek of every key); every result / error class is compared with the spec's.
 3. Long random behaviours drawn by TLC's simulator are executed the same way; what the real
    database answered is recorded and validated as a trace against TraceKV.tla.
"""
import os, random, json, shutil
import vf

META = dict(
    text="TLC enumerates operation sequences of an ordered-map model of the ffldb metadata store (KV.tla: bucket tree, "
         "transaction views as snapshot + own writes, one writer and two concurrent read-only snapshots, cursor "
         "First/Last/Next/Prev/Seek/Delete, Create/DeleteBucket, Commit, Rollback, managed Update that fails or panics, "
         "Close/Reopen); every explored edge is run on a real ffldb database under three write-cache settings (flush every "
         "commit / never / by size; thorough: also close+reopen at every quiescent step) and after every step the whole "
         "visible tree of every open transaction and the committed tree are read back through the public interface and "
         "compared, together with every result and error class. Random 150-200 step runs are recorded and validated as "
         "traces against the same model.",
    note="Trusts TLC, the driver's byte encoding of keys/values and the verif cache knob. Bounded: 2-3 keys, 1-2 bucket "
         "names, nesting depth 2, behaviours of 3-7 steps from 4 seeded initial trees exhaustively, 150-200 steps in the "
         "random runs; block storage (StoreBlock/FetchBlock) is C18's subject and not exercised; single goroutine "
         "(a second writer would block).",
    technique="TLA+ reference model (TLC exhaustive, one behaviour per edge + simulation) replayed on real ffldb under "
              "several cache/flush settings with complete read-back after every step + trace validation of recorded runs",
)

CFG = """SPECIFICATION %(spec)s
CONSTANTS
  NK = %(nk)d
  Vals = {%(vals)s}
  NB = %(nb)d
  MaxDepth = %(depth)d
  MaxOps = %(ops)d
  Upd = %(upd)s
  TxUse = {%(tx)s}
  Seeds = {%(seeds)s}
  LogOn = TRUE
VIEW view
INVARIANTS TypeOK
%(props)s
%(emit)s
CHECK_DEADLOCK FALSE
"""

ALLTX = '"w", "r1", "r2"'


def cfg(nk=2, vals="0, 1", nb=1, depth=2, ops=3, upd=True, tx=ALLTX, seeds="0", emit="Emit", props=True, spec="Spec"):
    return CFG % dict(spec=spec, nk=nk, vals=vals, nb=nb, depth=depth, ops=ops, upd="TRUE" if upd else "FALSE", tx=tx, seeds=seeds,
                      emit=("ACTION_CONSTRAINT " + emit) if emit else "",
                      props="PROPERTIES SnapshotStable NoTrace OwnWritesOnly" if props else "")


TRACE_CFG = """SPECIFICATION TraceSpec
CONSTANTS
  NK = %d
  Vals = {0, 1, 2}
  NB = %d
  MaxDepth = 2
  MaxOps = 100000
  Upd = TRUE
  TxUse = {"w", "r1", "r2"}
  Seeds = {0}
  LogOn = FALSE
  TraceFile = "%s"
VIEW TraceView
CONSTRAINT HighWater
INVARIANTS TypeOK
POSTCONDITION TraceAccepted
CHECK_DEADLOCK FALSE
"""

# (label, nk, nb, cfg kwargs, sample size)
EXTRACT_QUICK = [
    ("transactions: writer + 2 snapshots, managed Update ok/fail/panic, Close/Reopen", 2, 1,
     dict(nk=2, vals="0, 1", nb=1, depth=2, ops=3, upd=True, seeds="0, 2"), 350),
    ("explicit transactions over seeded trees: pending/committed merge, cursors, snapshots, nested DeleteBucket", 3, 1,
     dict(nk=3, vals="1", nb=1, depth=2, ops=4, upd=False, seeds="1, 2"), 500),
]
EXTRACT_THOROUGH = [
    ("transactions: writer + 2 snapshots, managed Update ok/fail/panic, Close/Reopen", 2, 1,
     dict(nk=2, vals="0, 1", nb=1, depth=2, ops=4, upd=True, seeds="0, 2"), 5000),
    ("writer over seeded trees: pending/committed merge, cursor walks and Cursor.Delete, nested DeleteBucket", 3, 1,
     dict(nk=3, vals="1", nb=1, depth=2, ops=6, upd=False, tx='"w"', seeds="1, 2, 3"), 5000),
    ("snapshots: read-only transactions (incl. cursors, refused writes) across commits of the writer", 2, 1,
     dict(nk=2, vals="0, 1", nb=1, depth=1, ops=6, upd=False, seeds="1"), 4000),
]
SIM_NK, SIM_NB = 3, 2


def workdir():
    base = "/dev/shm" if os.path.isdir("/dev/shm") and os.access("/dev/shm", os.W_OK) else vf.scratch()
    d = os.path.join(base, "verif-c16-%d" % os.getpid())
    os.makedirs(d, exist_ok=True)
    return d


def strat(b):
    """sampling class of a behaviour: last action + whether a cursor / several transactions were involved"""
    acts = {s["act"] for s in b}
    return "%s%s%s" % (b[-1]["act"], "+cur" if "Cursor" in acts else "", "+upd" if "Update" in acts and b[-1]["act"] != "Update" else "")


def run(chk):
    from concurrent.futures import ThreadPoolExecutor
    thorough = chk.tier == "thorough"
    rng = random.Random(vf.seed())
    vf.scratch()
    vf._copy_spec(os.path.join(vf.SPEC, "Store"))
    pool = ThreadPoolExecutor(max_workers=8)
    fbin = pool.submit(vf.go_build, "ffldbkv")
    work = workdir()
    try:
        return _run(chk, thorough, rng, pool, fbin, work)
    finally:
        shutil.rmtree(work, ignore_errors=True)


def _run(chk, thorough, rng, pool, fbin, work):
    variants = "always,never,size,odd,even" + (",size+reopen,odd+reopen" if thorough else "")
    jobs = []
    for n, (label, nk, nb, kw, size) in enumerate(EXTRACT_THOROUGH if thorough else EXTRACT_QUICK):
        f = pool.submit(vf.tlc, "Store", "KV", "x%d.cfg" % n, cfg_text=cfg(**kw), workers=2 if thorough else 1, timeout=3000)
        jobs.append((label + " (<= %d steps)" % kw["ops"], nk, nb, size, f, False))
    # simulation: long random behaviours over the full action set
    sims = [("simulation, explicit transactions", dict(upd=False), 12, 100, 100, 200),
            # the model's state after "put, delete" is the empty store again, so exhaustive exploration never
            # continues such a history; what the implementation keeps from it (tombstones in the write cache)
            # is reached by random walks: one writer over one key, many commits
            ("simulation, committed writer transactions over one key (flush schedules)",
             dict(upd=False, nk=1, vals="1", nb=0, depth=1, tx='"w"', seeds="0", spec="WriterSpec"), 120, 1500, 60, 80)]
    if thorough:
        sims.append(("simulation, with managed Update", dict(upd=True), 8, 60, 100, 200))
    for n, (label, kw, nq, nt, dq, dt) in enumerate(sims):
        depth = dt if thorough else dq
        ckw = dict(nk=SIM_NK, vals="0, 1, 2", nb=SIM_NB, depth=2, seeds="0, 1, 2, 3")
        ckw.update(kw)
        f = pool.submit(vf.tlc, "Store", "KV", "s%d.cfg" % n,
                        cfg_text=cfg(ops=depth, emit="EmitLast", props=False, **ckw),
                        workers=1, timeout=3000, simulate="num=%d" % (nt if thorough else nq), depth=depth + 1,
                        seed_arg=vf.seed() + n)
        jobs.append(("%s (%d steps)" % (label, depth), ckw["nk"], ckw["nb"], None, f, True))
    binary = fbin.result()

    sample_behs = None
    traces = []
    fbad = None
    for idx, (label, nk, nb, limit, f, sim) in enumerate(jobs):
        r = f.result()
        vf.tlc_ok(r, "KV: " + label)
        behs, st = vf.behaviours(r, limit=limit, rng=rng, strat_key=strat, per_class=12 if not thorough else 100)
        if sim:
            # the simulator prints every candidate of the last step: keep two per simulated run
            seen, kept = {}, []
            for b in behs:
                k = json.dumps(b[:-1], sort_keys=True)
                seen[k] = seen.get(k, 0) + 1
                if seen[k] <= 2:
                    kept.append(b)
            behs = kept
            st["selected"] = len(behs)
        chk.add_tlc(r, ("simulation: " if sim else "exhaustive + edge extraction: ") + label)
        st["label"] = label
        chk.cov.setdefault("extraction", []).append(st)
        path = os.path.join(vf.scratch(), "kvbeh-%d.jsonl" % idx)
        vf.write_json_lines(path, behs)
        args = ["replay", path, os.path.join(work, "r%d" % idx), str(nk), str(nb)]
        if sim:
            # executed under the first variant only, recording what the database answered
            tr = os.path.join(vf.scratch(), "kv-trace-%d.ndjson" % idx)
            recs, _ = vf.run_driver(binary, args + ["size" if idx % 2 else "never", tr])
            traces.append((label, tr, pool.submit(vf.tlc, "Store", "TraceKV", "t%d.cfg" % idx,
                                                  cfg_text=TRACE_CFG % (nk, nb, tr), workers=1, timeout=3000)))
            if fbad is None:
                # binding self-test (trace): corrupt one recorded answer -> TLC must reject
                lines = open(tr).read().splitlines()
                cand = [i for i, x in enumerate(lines) if '"obs_db"' in x and ('"Commit"' in x or '"Update"' in x)]
                if cand:
                    ev = json.loads(lines[cand[-1]])
                    ev["obs_db"][0]["kv"][0] = 7
                    lines[cand[-1]] = json.dumps(ev)
                    tr2 = os.path.join(vf.scratch(), "kv-trace-bad.ndjson")
                    open(tr2, "w").write("\n".join(lines) + "\n")
                    fbad = (label, pool.submit(vf.tlc, "Store", "TraceKV", "tb.cfg", cfg_text=TRACE_CFG % (nk, nb, tr2),
                                               workers=1, timeout=1500))
            chk.absorb(recs, "replay+record: " + label)
            recs, _ = vf.run_driver(binary, args + ["always,size+reopen,odd,even" if idx % 2 else "always,never+reopen,odd,even"])
            chk.absorb(recs, "replay: " + label)
        else:
            recs, _ = vf.run_driver(binary, args + [variants])
            chk.absorb(recs, "replay: " + label)
            if sample_behs is None:
                sample_behs = (behs, nk, nb)

    # binding self-test (replay): corrupt one expected value of the committed tree
    behs, nk, nb = sample_behs
    cand = [b for b in behs if any(v not in (-1, 9) for e in b[-1]["db"] for v in e["kv"])]
    bad = json.loads(json.dumps(cand[len(cand) // 2]))
    done = False
    for e in bad[-1]["db"]:
        for i, v in enumerate(e["kv"]):
            if v not in (-1, 9) and not done:
                e["kv"][i] = 1 - v if v in (0, 1) else 0
                done = True
    p2 = os.path.join(vf.scratch(), "kvbeh-bad.jsonl")
    vf.write_json_lines(p2, [bad])
    recs, _ = vf.run_driver(binary, ["replay", p2, os.path.join(work, "bad"), str(nk), str(nb), "never"])
    chk.selftest("replay: one committed value of the expected tree corrupted", any(x.get("kind") == "violation" for x in recs))

    # 3. trace validation of the recorded random runs
    ok_labels = set()
    for label, tr, f in traces:
        r = f.result()
        if r["timed_out"]:
            raise vf.Infra("trace validation timed out")
        nev = sum(1 for _ in open(tr))
        chk.add_tlc(r, "trace validation: %s (%d events)" % (label, nev))
        if r["rc"] != 0:
            if "TraceAccepted" not in r["tail"] and "is violated" not in r["tail"]:
                raise vf.Infra("TLC failed on the recorded trace:\n" + r["tail"][-2500:])
            lines = open(tr).read().splitlines()
            idx = min(max(r["depth"] - 1, 0), len(lines) - 1)
            badev = json.loads(lines[idx])
            start = max(i for i in range(0, idx + 1) if '"Reset"' in lines[i])
            hist = [json.loads(x) for x in lines[start:idx + 1]]
            chk.violations.append(("C16:trace:" + badev.get("ev", "?"),
                                   "recorded run of the real ffldb is not a behaviour of KV.tla: event %d of the run: %s" %
                                   (idx - start, json.dumps({k: v for k, v in badev.items() if not k.startswith("obs_")})[:400]),
                                   dict(trace=[{k: v for k, v in h.items() if not k.startswith("obs_")} for h in hist[-40:]],
                                        event=badev)))
        else:
            ok_labels.add(label)
    if fbad is not None:
        r2 = fbad[1].result()
        if fbad[0] in ok_labels:      # the uncorrupted trace was accepted, the corrupted one must not be
            chk.selftest("trace: one recorded committed value corrupted", r2["rc"] != 0 and not r2["timed_out"])

    chk.assumptions += [
        "ffldb layout that is visible through the interface is part of the model: the metadata root contains the internal "
        "key ffldb-writeloc and the internal bucket ffldb-blockidx; a cursor yields all keys in order, then all nested "
        "buckets in order, and Seek(k) is the first such item >= key k",
        "two places where ffldb differs from the text of database/interface.go without affecting any read are modelled as "
        "ffldb behaves and reported, not flagged: Bucket.Delete of an empty key returns nil (interface: ErrKeyRequired) and "
        "Put/Delete accept a key equal to the name of a nested bucket (interface: ErrIncompatibleValue)",
        "cursor protocol of interface.go: after a change of the cursor's bucket other than Cursor.Delete the cursor is only "
        "repositioned (First/Last/Seek); Key/Value are not compared between Cursor.Delete and the next move; on a "
        "read-only transaction Cursor.Delete is generated only on a key (ErrTxNotWritable)",
        "bucket handles are resolved from Metadata() for every call (no use of a handle across its bucket's deletion)",
        "one goroutine: Close is only generated with no open transaction and a second read-write Begin never (both block)",
        "cache variants: flushInterval < 0 (flush every commit), interval/size huge (never), maxSize = 400 bytes (by size), "
        "every second commit flushing (odd / even: the flushing commit writes past the cache); "
        "the flush timer itself (wall clock) is not exercised",
    ]
    return chk.finish(exhaustive=False)
