"""C15 - caches are transparent."""
import json, os, random
import vf, importlib.util
_spec = importlib.util.spec_from_file_location("_ledger", os.path.join(os.path.dirname(__file__), "_ledger.py"))
L = importlib.util.module_from_spec(_spec); _spec.loader.exec_module(L)

META = dict(
    text="Cache.tla models a bounded cache with nondeterministic (FIFO) eviction in front of a changing store under the three "
         "invalidation disciplines the code uses (immutable values + full clean before anything disappears: UTXOCache; "
         "delete-on-change: indexers.TxCache; everything the value depends on is in the key: decoded-block cache and the p2p "
         "send cache incl. its twin index entries); TLC checks Transparent, Coherent and the bounds. Conformance: (a) Ledger.tla "
         "behaviours (forks, reorganisations, failed blocks) on a full-stack node with the reference cache squeezed to two "
         "entries, comparing after every step UTXOCache.GetTxReference with the uncached ChainStore.GetTxReference, GetBlock "
         "cold and warm with the stored block, GetTransaction with the model, and the cache sizes with their bounds; (b) every "
         "send sequence of Cache.tla's keyed instance through p2p.WriteMessage over a pipe, comparing the bytes sent with a "
         "fresh serialization and the cache's membership / index / sizes (verif accessor) with the model.",
    note="indexers.TxCache trimming needs TxCacheVolume + 10000 cached transactions and is not exercised (a trimmed entry is "
         "looked up in the database, which the same comparison covers); UTXOCache.TxCache may hold bound+1 entries by "
         "construction and is accepted up to that; send-cache keys are (block hash, haveConfirm), two different "
         "confirmations of one block are not distinguished by the cache and not generated.",
    technique="TLA+ cache model checked by TLC + behaviour replay (full-stack node with tiny caches; p2p send cache over a pipe)",
)

CFG = """SPECIFICATION Spec
CONSTANTS
  Keys = {%(keys)s}
  Bound = 2
  Policy = "%(policy)s"
  MaxVersion = 2
  MaxOps = %(ops)d
  LeakIndex = %(leak)s
  Twins = %(twins)s
  AllPresent = %(allp)s
VIEW view
%(extra)s
CHECK_DEADLOCK FALSE
"""
INV = "INVARIANTS Transparent Coherent WithinBound IndexWithinBound"


def run(chk):
    thorough = chk.tier == "thorough"
    rng = random.Random(vf.seed())
    leak = any(k.get("key") == "C15:send-cache:index-grows" and k.get("status", "open") == "open" for k in vf.load_known())
    # 1. the model, three disciplines
    for pol in ("immutable", "delete", "keyed"):
        keyed = pol == "keyed"
        r = vf.tlc("Store", "Cache", "mc-%s.cfg" % pol, cfg_text=CFG % dict(
            keys='"b1n", "b1c", "b2n", "b3n"' if keyed else '"k1", "k2", "k3"', policy=pol, ops=9 if thorough else 7,
            leak="FALSE", twins='{{"b1n", "b1c"}}' if keyed else "{}", allp="TRUE" if keyed else "FALSE", extra=INV),
            workers=8, timeout=900)
        vf.tlc_ok(r, "Cache exhaustive " + pol)
        chk.add_tlc(r, "exhaustive Cache.tla policy=%s" % pol)
    # 2. p2p send cache: every Lookup sequence of the keyed instance
    binary = vf.go_build("sendcache")
    r = vf.tlc("Store", "Cache", "x.cfg", cfg_text=CFG % dict(keys='"b1n", "b1c", "b2n", "b3n"', policy="keyed",
               ops=7 if thorough else 6, leak="TRUE" if leak else "FALSE", twins='{{"b1n", "b1c"}}', allp="TRUE",
               extra="ACTION_CONSTRAINT Emit"), workers=1, timeout=900)
    vf.tlc_ok(r, "Cache extraction (send cache)")
    chk.add_tlc(r, "edge extraction, send-cache instance")
    behs, st = vf.behaviours(r)
    behs = [b for b in behs if all(s["act"] == "Lookup" for s in b)]   # the send cache has no Clean
    st["label"] = "send sequences"; st["selected"] = len(behs)
    chk.cov.setdefault("extraction", []).append(st)
    path = os.path.join(vf.scratch(), "send.jsonl")
    vf.write_json_lines(path, behs)
    recs, _ = vf.run_driver(binary, ["replay", path])
    chk.absorb(recs, "p2p.WriteMessage send cache")
    bad = json.loads(json.dumps(max(behs, key=len)))
    bad[-1]["cached"] = [k for k in ["b1n", "b1c", "b2n", "b3n"] if k not in bad[-1]["cached"]][:2]
    p = os.path.join(vf.scratch(), "send-bad.jsonl")
    vf.write_json_lines(p, [bad])
    recs, _ = vf.run_driver(binary, ["replay", p])
    chk.selftest("send cache: expected membership corrupted", any(x.get("kind") == "violation" for x in recs))
    # 3. node caches under Ledger.tla behaviours
    lbin = vf.go_build("ledger")
    small = dict(txs=["T1", "T2", "T3"], blocks=3, tpb=1, bad=1, deliver=4 if thorough else 3)
    lb = L.extract_edges(chk, "3 blocks (cache mode)", 4000 if thorough else 300, rng, **small)
    sim = L.simulate(chk, "6 blocks (cache mode)", 2000 if thorough else 150, 14,
                     txs=["T1", "T2", "T3", "T6", "T7"], blocks=6, tpb=2, bad=1, deliver=7)
    chk.absorb(L.replay(chk, lbin, lb + sim, "c15", mode="cache"), "node caches under ledger behaviours")
    # 4. the indexed transaction cache and transactions without outputs: Irreversible.tla's scripted
    # behaviours (blocks carrying RevertToPOW / RevertToDPOS transactions are attached, detached and
    # re-attached); the lookup must find such a transaction exactly while its block is on the active chain
    import importlib.util
    _sp = importlib.util.spec_from_file_location("prop_C30", os.path.join(os.path.dirname(__file__), "C30.py"))
    c30 = importlib.util.module_from_spec(_sp)
    _sp.loader.exec_module(c30)
    ibin = vf.go_build("irrev")
    ib = []
    for name, steps in sorted(c30.scenarios().items()):
        r = vf.tlc("Chain", "IrrScenario", "sc.cfg",
                   cfg_text=c30.cfg(spec="SSpec", nb=40, ns=40, nf=4, fd=40, nm=6, nr=3, props="ACTION_CONSTRAINT SEmit"),
                   files={"IrrScript.tla": c30.script_tla(steps)}, workers=1, timeout=300)
        vf.tlc_ok(r, "scenario " + name)
        b, _ = vf.behaviours(r, dedupe_prefixes=False)
        if len(b) != 1:
            raise vf.Infra("scenario %s not fully enabled" % name)
        chk.add_tlc(r, "Irreversible.tla scenario " + name)
        ib += b
    ipath = os.path.join(vf.scratch(), "c15-irr.jsonl")
    vf.write_json_lines(ipath, ib)
    chk.absorb(vf.run_sharded(ibin, lambda i, n: ["replay", ipath, str(i), str(n)], shards=len(ib), env={"VERIF_IRREV_BASE": "8"}),
               "lookup of output-less transactions across reorganisations (indexed transaction cache)")
    chk.assumptions += ["blockchain.MaxReferenceSize lowered to 2 (exported variable)", "send cache driven over net.Pipe"]
    return chk.finish(exhaustive=False)
