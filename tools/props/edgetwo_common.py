"""Helpers shared by the C31 / C32 / C35 / C36 recipes (decision-table / pipeline
properties): turn the one-step behaviours a spec prints into case files, group
the alternatives of a case (correct action vs. named deviation), re-run the
cases of a replay file."""
import json, os
import vf

TLA_DIR_POLICY = "Policy"

NETCONFIG_CFG = """SPECIFICATION Spec
VIEW view
INVARIANTS MainnetHeightsCoordinated OtherNetsDisabled MainnetFrozenCoordinated Ordered
ACTION_CONSTRAINT Emit
CHECK_DEADLOCK FALSE
"""


def last_steps(res):
    """The final (logging) step of every behaviour the spec printed, sorted."""
    behs, st = vf.behaviours(res, limit=None)
    steps = [b[-1] for b in behs if b]
    steps.sort(key=lambda s: json.dumps(s, sort_keys=True))
    return steps, st


def netconfig_cases(chk):
    """Run NetConfig.tla (complete), return cases [{args, exp, dev}] where dev is the
    outcome of the named deviation action for that case (or None)."""
    r = vf.tlc(TLA_DIR_POLICY, "NetConfig", "nc.cfg", cfg_text=NETCONFIG_CFG, workers=1, timeout=600)
    vf.tlc_ok(r, "NetConfig")
    chk.add_tlc(r, "NetConfig.tla complete (17 ActiveNet names x overrides), one case per final state")
    steps, st = last_steps(r)
    by = {}
    for s in steps:
        k = json.dumps(s["args"], sort_keys=True)
        d = by.setdefault(k, dict(act="Config", args=s["args"], exp=None, dev=None))
        if s["dev"]:
            d["dev"] = s["exp"]
        else:
            d["exp"] = s["exp"]
    cases = [by[k] for k in sorted(by)]
    if any(c["exp"] is None for c in cases):
        raise vf.Infra("NetConfig: a case without a non-deviating outcome")
    chk.cov.setdefault("extraction", []).append(dict(netconfig_cases=len(cases),
                                                     with_deviation=sum(1 for c in cases if c["dev"])))
    return cases


def write_cases(name, cases):
    p = os.path.join(vf.scratch(), name)
    vf.write_json_lines(p, cases)
    return p


def has_violation(recs):
    return any(x.get("kind") == "violation" for x in recs)


def replay_cases(path):
    """Abstract cases recorded in a replay file written by Check._write_replay."""
    with open(path) as f:
        items = json.load(f)
    out = []
    for it in items:
        c = it.get("case") or {}
        while isinstance(c, dict) and "case" in c and "args" not in c:
            c = c["case"]
        if isinstance(c, dict) and "args" in c:
            out.append(c)
    if not out:
        raise vf.Infra("no replayable case in " + path)
    return out


def absorb(chk, recs, label):
    """chk.absorb, except that when the driver reported property violations (other than known
    findings) the model
    mismatches of the same run (usually their consequences: a request that got past a
    broken check and was refused by a later stage) do not turn the verdict into an
    infrastructure error; they are counted in the evidence notes instead."""
    known = {k["key"] for k in chk.known}
    if any(r.get("kind") == "violation" and r.get("key") not in known for r in recs):
        mism = [r for r in recs if r.get("kind") == "mismatch"]
        if mism:
            chk.notes.append("%s: %d model mismatches next to violations, first: %s" % (label, len(mism), mism[0].get("what", "")[:300]))
            recs = [r for r in recs if r.get("kind") != "mismatch"]
    chk.absorb(recs, label)


def new_violations(chk):
    known = {k["key"] for k in chk.known}
    return [v for v in chk.violations if v[0] not in known]


def selftest(chk, name, recs):
    """Binding self-test (a corrupted expectation must be reported).  On a tree that
    already violates the property the chosen case may itself be affected, so the
    self-test is only evaluated while no new violation has been found."""
    if new_violations(chk):
        chk.notes.append("binding self-test '%s' not evaluated: the run already found violations" % name)
        return
    chk.selftest(name, has_violation(recs))
