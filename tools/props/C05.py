"""C05 - spending requires valid signatures from every spent address.

 1. TLC explores spec/Edge/Sig.tla (ideal cryptography): every transaction that can be
    built within the bounds (spent addresses x script attributes x programs x signature
    lists x one change of the signed content) and checks the invariant
    `Sound`: the reference verifier accepts only what every spent address authorised.
 2. Every submitted transaction TLC prints (one per Submit edge, all of them or a
    stratified sample) is materialised with real secp256r1 keys, redeem scripts built by
    core/contract, a real TransferAsset built by functions.CreateTransaction and real
    ECDSA / Schnorr signatures, and given to the node's signature stage
    (checkTransactionSignature -> GetTxProgramHashes -> sort -> blockchain.RunPrograms).
    VIOLATION = real code accepts where the spec rejects.
 3. A sample (all accepting shapes + the deviation + rejected ones) is replayed end to end
    on a regnet node: the spent outputs are really created, the transaction goes through
    CheckTransactionSanity + CheckTransactionContext.
"""
import json, os, random
import vf

META = dict(
    text="TLC enumerates every transaction of the bounded model Sig.tla (spent addresses of every prefix, script attributes, "
         "standard / m-of-n multisig / Schnorr / cross-chain / unrecognised program codes, missing, extra, duplicated and "
         "foreign programs, signature lists with valid, stale, foreign-key, duplicated and random signatures, a change of "
         "the signed content in every byte class) and checks that the reference verifier transcribed from "
         "GetTxProgramHashes/RunPrograms/VerifyMultisigSignatures only accepts what every spent address authorised with "
         "enough distinct keys; every enumerated transaction is rebuilt with real keys, scripts and signatures and the node's "
         "checkTransactionSignature (and, for a sample, CheckTransactionSanity+CheckTransactionContext on a regnet node with "
         "really funded outputs) must not accept what the model rejects.",
    note="Ideal cryptography in the model (real primitives are exercised as black boxes); <= 2 inputs + 1 script attribute, "
         "<= 3 programs, <= 3-4 signatures per program, 11 program codes; one named deviation (standard-prefixed address with "
         "an unrecognised script is accepted unsigned) is a recorded finding.",
    technique="TLA+ model of the signature stage (TLC exhaustive, invariant Sound) + per-case replay on "
              "checkTransactionSignature/RunPrograms with real keys + end-to-end replay on a regnet node",
)

import sys
sys.path.insert(0, os.path.dirname(os.path.abspath(__file__)))
from sigcfg import cfg, strat, absorb, violations_first, INV, ALLPFX

E2E_TAMPER = ("none", "attribute", "output", "locktime", "input")


def e2e_ok(b):
    a = b[0]["args"]
    if not a["inputs"]:
        return False
    if any(x["pfx"] == "deposit" for x in a["inputs"] + a["attrs"]):
        return False        # deposit outputs can only be created for registered producers / CR candidates
    return a["tamper"] in E2E_TAMPER


def configs(thorough):
    allc = "1, 2, 3, 4, 5, 6, 7, 8, 9, 10, 11"
    res = [
        # every code under every prefix, one program
        ("matrix", cfg(allc, maxsigs=2 if thorough else 1), 60000 if thorough else 21000),
        # multisig / cross-chain signature lists in depth
        ("multisig", cfg("1, 3, 5, 8, 11" if thorough else "3, 5, 8, 11", pfx='"multi", "std", "cross"', maxsigs=3, forge="1, 2, 3, 4" if thorough else "1, 2, 4",
                         aligned=True), 60000 if thorough else 10000),
        # several addresses: missing / extra / duplicated / foreign programs, dedup of inputs, sorting, cross-chain pairing
        ("pairing", cfg("2, 3, 6, 7" if thorough else "2, 3, 6", pfx='"multi", "std", "cross"', maxin=2,
                        maxattr=0, maxprogs=3, forge="1, 2", maxver=0, garbage=False, aligned=True),
         60000 if thorough else 8000),
        # script attributes next to spent outputs
        ("attr", cfg("2, 3, 6" if thorough else "2, 6", pfx='"std", "cross"', maxin=2, maxattr=1, maxprogs=3 if thorough else 2, forge="1, 2",
                     maxver=0, garbage=False, aligned=True), 40000 if thorough else 6000),
    ]
    return res


@violations_first
def run(chk):
    thorough = chk.tier == "thorough"
    rng = random.Random(vf.seed())
    binary = vf.go_build("sig")
    e2e = []
    last = None
    for name, text, limit in configs(thorough):
        r = vf.tlc("Edge", "Sig", "c05-%s.cfg" % name, cfg_text=text, workers=16, timeout=1700)
        vf.tlc_ok(r, "Sig.tla " + name)
        chk.add_tlc(r, "Sig.tla %s (exhaustive, invariants Sound/Answer/DeviationShape)" % name)
        behs, st = vf.behaviours(r, dedupe_prefixes=False, limit=limit, rng=rng, strat_key=strat, per_class=40)
        st.pop("classes", None)
        st["config"] = name
        chk.cov.setdefault("extraction", []).append(st)
        if not behs:
            raise vf.Infra("no cases extracted for " + name)
        path = os.path.join(vf.scratch(), "c05-%s.jsonl" % name)
        vf.write_json_lines(path, behs)
        recs, _ = vf.run_driver(binary, ["c05", path])
        absorb(chk, recs, "checkTransactionSignature on %s cases" % name)
        last = behs
        # end-to-end candidates: everything the model accepts or deviates on, plus a sample of rejections
        cand = [b for b in behs if e2e_ok(b)]
        pos = [b for b in cand if b[0]["exp"] or b[0]["dev"]]
        neg = [b for b in cand if not (b[0]["exp"] or b[0]["dev"])]
        rng.shuffle(pos)
        rng.shuffle(neg)
        e2e += pos[:1500 if thorough else 300] + neg[:3000 if thorough else 500]

    path = os.path.join(vf.scratch(), "c05-e2e.jsonl")
    vf.write_json_lines(path, e2e)
    recs, _ = vf.run_driver(binary, ["e2e", path])
    absorb(chk, recs, "end-to-end CheckTransactionSanity+CheckTransactionContext on a regnet node")

    # the model itself shows the deviation: soundness of what the code computes must fail in TLC
    r = vf.tlc("Edge", "Sig", "c05-dev.cfg", cfg_text=cfg("2, 6", pfx='"std"', emit=False, inv="CodeSound"), workers=4,
               timeout=600)
    if r["timed_out"]:
        raise vf.Infra("TLC timed out on the deviation check")
    chk.selftest("model: CodeSound (soundness of RunPrograms as coded) is violated by the fall-through shape",
                 r["rc"] != 0 and "CodeSound" in r["tail"])

    # binding self-test: flip the expected verdict of an accepted and of a rejected case
    acc = next((b for b in last if b[0]["exp"]), None)
    rej = next((b for b in last if not b[0]["exp"] and not b[0]["dev"] and b[0]["why"] != "program-count"), None)
    if acc is None or rej is None:
        raise vf.Infra("no accepted/rejected case for the binding self-test")
    bad1 = json.loads(json.dumps(acc)); bad1[0]["exp"] = False; bad1[0]["authorised"] = False; bad1[0]["why"] = "selftest"
    bad2 = json.loads(json.dumps(rej)); bad2[0]["exp"] = True
    p2 = os.path.join(vf.scratch(), "c05-bad.jsonl")
    vf.write_json_lines(p2, [bad1, bad2])
    recs, _ = vf.run_driver(binary, ["c05", p2])
    chk.selftest("replay: expected verdict of an accepted case flipped -> violation",
                 any(x.get("kind") == "violation" and x.get("key") == "C05:accepts:selftest" for x in recs))
    chk.selftest("replay: expected verdict of a rejected case flipped -> mismatch",
                 any(x.get("kind") == "mismatch" for x in recs))

    chk.assumptions += [
        "ideal cryptography in the model: Verify(sig(k,d),k',d') == k=k' /\\ d=d', injective hashes; the real primitives are "
        "exercised by the replay as black boxes",
        "cross-chain (X) addresses: RunPrograms does not bind the program to the address by design (the withdraw "
        "transaction's own checks bind it to the arbiter set, C33; who may spend them at all is C31); the invariant demands "
        "only the signatures of the supplied cross-chain/Schnorr program for them",
        "no two addresses of one transaction commit to the same code hash under different prefixes (pairing after the "
        "unstable sort would be ambiguous)",
        "bounds: <= 2 inputs + 1 script attribute, <= 3 programs, <= 3 signatures per program, 11 codes (n <= 3 keys), one "
        "change of the signed content; parameters are whole signatures (odd lengths are C03 shapes)",
        "end-to-end replay uses TransferAsset on regnet parameters (cross-chain UTXO emergency policy disabled, Schnorr "
        "enabled from height 0); deposit-prefixed outputs are not funded end to end",
    ]
    return chk.finish(exhaustive=False)
