"""Shared recipe of the checks that replay spec/Chain/Ledger.tla on the full-stack node
(C06, C12, C14, C15): exhaustive TLC runs, behaviour extraction (edges of a small
configuration + seeded simulation of a larger one), sharded replay."""
import json, os, random
import vf

CFG = """SPECIFICATION Spec
CONSTANTS
  Txs = {%(txs)s}
  MaxBlocks = %(blocks)d
  MaxTxPerBlock = %(tpb)d
  MaxBad = %(bad)d
  MaxDeliver = %(deliver)d
  FixFailedReorg = %(fix)s
  WithProducers = %(prod)s
VIEW view
%(inv)s
%(extra)s
CHECK_DEADLOCK FALSE
"""

INV_ASIS = "INVARIANTS NoDoubleSpend ActiveValid KnownClosed MainKnown MainIsPath"
INV_FIXED = INV_ASIS + " MostWork NeverStranded"


def cfg(txs, blocks, tpb, bad, deliver, fix=False, inv="", extra=""):
    return CFG % dict(txs=", ".join('"%s"' % t for t in txs), blocks=blocks, tpb=tpb, bad=bad, deliver=deliver,
                      fix="TRUE" if fix else "FALSE", inv=inv, extra=extra,
                      prod="TRUE" if any(t.startswith("R") for t in txs) else "FALSE")


def reorg_fix_expected():
    """The spec models reorganizeChain as the code has it (a failed switch strands the node on
    the fork prefix: named deviation, constant FixFailedReorg = FALSE) while that finding is
    open; once it is fixed the repaired behaviour is the expected one."""
    if os.environ.get("VERIF_ASSUME_REORG_FIX"):
        return True
    return not any(k.get("key") == "C12:failed-reorg-strands-node" and k.get("status", "open") == "open"
                   for k in vf.load_known())


def lcls(b):
    """class of a behaviour: how its last ProcessBlock ended, and whether the behaviour contains a
    reorganisation (a block was disconnected) -- reorganisations are rare among all edges and must
    not be sampled away"""
    last = b[-1].get("res", {}).get("why", b[-1].get("act", "?"))
    reorg = any(e[0] == "d" for st in b for e in (st.get("ev") or []))
    return last + ("+reorg" if reorg else "")


def exhaustive(chk, label, **kw):
    fixed_model = dict(kw); fixed_model["fix"] = True
    r = vf.tlc("Chain", "Ledger", "mc_fixed.cfg", cfg_text=cfg(inv=INV_FIXED, **fixed_model), workers=16, timeout=1700)
    vf.tlc_ok(r, "Ledger exhaustive (property model) " + label)
    chk.add_tlc(r, "exhaustive, repaired-reorg model: MostWork + FailedDeliverKeepsChain; " + label)
    if not reorg_fix_expected():
        asis = dict(kw); asis["fix"] = False
        r = vf.tlc("Chain", "Ledger", "mc_asis.cfg", cfg_text=cfg(inv=INV_ASIS, **asis), workers=16, timeout=1700)
        vf.tlc_ok(r, "Ledger exhaustive (as-is model) " + label)
        chk.add_tlc(r, "exhaustive, code-as-is model (ReorgPartialFailure deviation); " + label)


def extract_edges(chk, label, limit, rng, **kw):
    kw = dict(kw); kw["fix"] = reorg_fix_expected()
    r = vf.tlc("Chain", "Ledger", "x.cfg", cfg_text=cfg(extra="ACTION_CONSTRAINT Emit", **kw), workers=1, timeout=1700)
    vf.tlc_ok(r, "Ledger edge extraction " + label)
    chk.add_tlc(r, "edge extraction; " + label)
    behs, st = vf.behaviours(r, limit=limit, rng=rng, per_class=max(20, limit // 10),
                             strat_key=lcls)
    st["label"] = label
    chk.cov.setdefault("extraction", []).append(st)
    return behs


def simulate(chk, label, num, depth, **kw):
    kw = dict(kw); kw["fix"] = reorg_fix_expected()
    r = vf.tlc("Chain", "Ledger", "sim.cfg", cfg_text=cfg(extra="ACTION_CONSTRAINT EmitLast", **kw), workers=1,
               timeout=1700, simulate="num=%d" % num, depth=depth, seed_arg=vf.seed())
    vf.tlc_ok(r, "Ledger simulation " + label)
    behs, st = vf.behaviours(r, strat_key=lcls)
    st["label"] = "simulate " + label
    chk.cov.setdefault("extraction", []).append(st)
    return behs


def replay(chk, binary, behs, label, mode="replay"):
    path = os.path.join(vf.scratch(), "beh-%s.jsonl" % label.replace(" ", "_"))
    vf.write_json_lines(path, behs)
    recs = vf.run_sharded(binary, lambda i, n: [mode, path, str(i), str(n)])
    return recs


def selftest(chk, binary, behs, mode="replay"):
    """corrupt one expected field of one behaviour: the driver must object"""
    b = next(x for x in behs if x[-1].get("act") == "Deliver" and x[-1]["res"]["why"] == "accepted" and x[-1]["main"])
    bad = json.loads(json.dumps(b))
    bad[-1]["utxo"] = [u for u in bad[-1]["utxo"] if u[0] != "F2"] + ([["F2", 0]] if not any(u[0] == "F2" for u in bad[-1]["utxo"]) else [])
    p = os.path.join(vf.scratch(), "beh-selftest.jsonl")
    vf.write_json_lines(p, [bad])
    recs, _ = vf.run_driver(binary, [mode, p], env={"TMPDIR": "/dev/shm"} if os.path.isdir("/dev/shm") else None)
    chk.selftest("replay: expected UTXO set corrupted", any(x.get("kind") == "violation" for x in recs))
