"""C23, wallet part: the wallet's coins checkpoint (spec/Chain/Wallet.tla, ledger driver mode `wallet`)."""
import json, os, random
import vf

CFG = """SPECIFICATION WSpec
CONSTANTS
  Txs = {%(txs)s}
  MaxBlocks = %(blocks)d
  MaxTxPerBlock = %(tpb)d
  MaxBad = %(bad)d
  MaxDeliver = %(deliver)d
  FixFailedReorg = TRUE
  WithProducers = FALSE
  WalletAddrs = {"A", "B"}
  RollbackWorks = %(rb)s
VIEW wview
%(inv)s
%(extra)s
CHECK_DEADLOCK FALSE
"""


def cfg(txs, blocks, tpb, bad, deliver, rb=True, inv="", extra=""):
    return CFG % dict(txs=", ".join('"%s"' % t for t in txs), blocks=blocks, tpb=tpb, bad=bad, deliver=deliver,
                      rb="TRUE" if rb else "FALSE", inv=inv, extra=extra)


def cls(b):
    last = b[-1].get("res", {}).get("why", b[-1].get("act", "?"))
    reorg = sum(1 for st in b for e in (st.get("ev") or []) if e[0] == "d")
    return "%s+d%d" % (last, min(reorg, 3))


def run_all(chk):
    thorough = chk.tier == "thorough"
    rng = random.Random(vf.seed() + 23)
    binary = vf.go_build("ledger")
    T = ["T1", "T2", "T3", "T6"]
    # the property in the model: the wallet's fold is its share of the ledger
    r = vf.tlc("Chain", "Wallet", "w.cfg", cfg_text=cfg(T, 4 if thorough else 3, 1, 1 if thorough else 0, 4, inv="INVARIANTS WalletIsLedgerView"),
               workers=16, timeout=2400)
    vf.tlc_ok(r, "Wallet exhaustive")
    chk.add_tlc(r, "exhaustive Wallet.tla: WalletIsLedgerView")
    # a wallet that never rolls back (the code before its repair) does not satisfy it: vacuity guard
    r0 = vf.tlc("Chain", "Wallet", "w0.cfg", cfg_text=cfg(T, 3, 1, 0, 3, rb=False, inv="INVARIANTS WalletIsLedgerView"), workers=4, timeout=900)
    chk.selftest("TLC rejects a wallet whose rollback does nothing", "WalletIsLedgerView is violated" in r0["tail"])
    r = vf.tlc("Chain", "Wallet", "x.cfg", cfg_text=cfg(T, 3, 1, 1 if thorough else 0, 4 if thorough else 3, extra="ACTION_CONSTRAINT WEmitLast"), workers=1, timeout=2400)
    vf.tlc_ok(r, "Wallet extraction")
    chk.add_tlc(r, "complete behaviours, 3 blocks / %d deliveries" % (4 if thorough else 3))
    behs, st = vf.behaviours(r, limit=1500 if thorough else 150, rng=rng, per_class=100 if thorough else 10, strat_key=cls)
    st["label"] = "wallet behaviours (3 blocks)"
    chk.cov.setdefault("extraction", []).append(st)
    r = vf.tlc("Chain", "Wallet", "s.cfg", cfg_text=cfg(["T1", "T2", "T3", "T5", "T6", "T7"], 6, 2, 1, 7, extra="ACTION_CONSTRAINT WEmitLast"),
               workers=1, timeout=1700, simulate="num=%d" % (1500 if thorough else 120), depth=16, seed_arg=vf.seed())
    vf.tlc_ok(r, "Wallet simulation")
    b2, st2 = vf.behaviours(r, limit=1000 if thorough else 80, rng=rng, per_class=60 if thorough else 6, strat_key=cls)
    st2["label"] = "wallet behaviours (simulation, 6 blocks)"
    chk.cov.setdefault("extraction", []).append(st2)
    path = os.path.join(vf.scratch(), "wallet.jsonl")
    vf.write_json_lines(path, behs + b2)
    for mode in ("never", "always"):
        chk.absorb(vf.run_sharded(binary, lambda i, n: ["wallet", path, str(i), str(n)], env={"VERIF_WALLET_RESTART": mode}),
                   "wallet checkpoint: round trip at every step, restart from the checkpoint = %s" % mode)
    # binding self-test: an expected coin removed from the spec's view
    cand = next(b for b in behs + b2 if b[-1].get("view"))
    bad = json.loads(json.dumps(cand))
    bad[-1]["view"] = bad[-1]["view"][1:]
    bad[-1]["wal"] = bad[-1]["view"]
    p = os.path.join(vf.scratch(), "wallet-bad.jsonl")
    vf.write_json_lines(p, [bad])
    recs, _ = vf.run_driver(binary, ["wallet", p], env={"TMPDIR": "/dev/shm"})
    chk.selftest("wallet: an expected coin dropped", any(x.get("kind") == "violation" for x in recs))
    chk.assumptions += ["wallet: address book {A, B}; transfers only (vote and deposit outputs, which the wallet also keeps, "
                        "are not generated); Coin.Height of coins restored by a rollback is not compared"]
