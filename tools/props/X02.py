"""X02 - the DPoS arbiter consensus protocol of dpos/manager (proposal, votes, confirm, view change, illegal evidence).

Additional coverage beyond the listed properties (not in MANIFEST.json).

 1. spec/Consensus/Protocol.tla: N arbiters (some Byzantine), one action per handler entry of
    DPOSManager, per-arbiter state under the names of the code.  TLC checks exhaustively for small
    bounds (N = 3, 4; one height; <= 2 views; scenario-bounding constants) and by simulation beyond
    (N = 4, 7; 3 views): Agreement (outside the named deviation Dev), AgreementInView, Validity of a
    confirm, VoteOnce / ProposeOnce, EvidenceSound, plus non-vacuity (a block gets confirmed by
    everybody; evidence is produced).
 2. harness/cmd/dposproto builds the REAL DPOSManager / Consensus / ProposalDispatcher /
    DPOSHandlerSwitch / IllegalBehaviorMonitor for every correct arbiter (recording network,
    ArbitratorsMock, real ECDSA keys and signatures, own block pool, settable clock) and calls
    the handler entries directly in the spec's order:
      replay: behaviours TLC printed (exhaustive edges and simulation); after every step the acting
              arbiter's abstract state and everything it handed out are compared with the spec's;
      run / random: hand-written and seeded random schedules are recorded and validated as traces
              of TraceProtocol.tla.
    The safety properties are evaluated on the real values in every mode.
 3. The schedule in which arbiters that accepted block B1 in view 0 accept B2 in view 1 (no lock
    across views) is executed on the real code; the spec confirms the outcome (Fin event).
"""
import concurrent.futures, json, os, random, re
import vf

# short single-worker TLC runs on a busy machine: no parallel GC threads, C1 only
JVM_FAST = ("-XX:-UseParallelGC", "-XX:+UseSerialGC", "-XX:TieredStopAtLevel=1")

META = dict(
    text="Protocol.tla models the arbiter consensus of dpos/manager for one height handler by handler (OnBlockReceived -> "
         "TryStartNewConsensus / StartProposal, OnProposalReceived -> ProcessProposal with precocious / pending proposals, "
         "illegal-proposal check, on-duty check and acceptProposal, OnVoteAccepted/Rejected -> pending votes / ProcessVote "
         "with duplicate and illegal-vote checks, majority -> FinishProposal / AppendConfirm, reject minority -> "
         "CleanProposals, OnChangeView -> view + 1 with OnViewChanged / CleanProposals(true) / UpdatePrecociousProposals, "
         "confirmed block -> FinishConsensus) for N arbiters of which some are Byzantine (any proposal / vote they can sign "
         "may arrive anywhere at any time).  TLC checks: no two blocks are finished / confirmable at one height as long as "
         "no correct arbiter accepted two blocks (Agreement) and never within one view; a confirm carries > 2N/3 distinct "
         "accept votes for exactly its proposal whose sponsor is on duty in its view; a correct arbiter accepts / proposes "
         "at most once per view and never sends a reject vote; illegal-proposal / illegal-vote evidence only names an "
         "arbiter that signed two conflicting messages; a block does get confirmed by everybody.  Behaviours of the spec "
         "are replayed on the real objects of every correct arbiter with the abstract state compared after every step, "
         "and recorded runs of the real objects (scripts, seeded random schedules, N up to 7) are validated as traces.",
    note="One height; time passes in Timeout steps only (one view per step, clock = view start + 6 s); messages are validly "
         "signed by current arbiters; <= 2 blocks; the two orderings that depend on Go's map iteration (both votes of one "
         "signer pending, two precocious proposals of one sponsor and view) are excluded; a confirmed block is learned only "
         "while the arbiter is running the height; recovery / reset-view / inactive-arbitrator messages are not driven "
         "(RequestConsensus / recoverAbnormalState are disabled in the code).  Reproduces the open finding "
         "X02:agreement:no-lock-across-views.",
    technique="TLA+ protocol model (TLC exhaustive for small bounds + simulation) + per-step behaviour replay on the real "
              "dispatcher / consensus / handler objects of every arbiter + trace validation of recorded real runs + run-time "
              "monitors of the safety properties",
)

INVS = "TypeOK Agreement AgreementInView VoteOnce ProposeOnce NoRejectFromCorrect VotesMatchProcessing"
PROPS = "Validity EvidenceSound"

CFG = """SPECIFICATION Spec
CONSTANTS
  N = %(n)d
  Byz = {%(byz)s}
  Blocks = {%(blocks)s}
  MaxView = %(mv)d
  Checks = %(checks)s
  ByzViews = {%(bv)s}
  MaxPendVotes = %(mpv)d
  OtherAt = {%(oa)s}
  TimeoutAt = {%(ta)s}
  ByzBudget = %(bb)d
  Noops = %(noops)s
  EmitMode = "%(emit)s"
  SimLen = %(simlen)d
VIEW view
%(invs)s
%(props)s
ACTION_CONSTRAINT Emit
CHECK_DEADLOCK FALSE
"""

TRACE_CFG = """SPECIFICATION TraceSpec
CONSTANTS
  N = %(n)d
  Byz = {%(byz)s}
  Blocks = {"B1", "B2"}
  MaxView = 9
  Checks = %(checks)s
  ByzViews = {0, 1, 2, 3, 4, 5, 6, 7, 8, 9}
  MaxPendVotes = 1000
  OtherAt = {0, 1, 2, 3, 4, 5, 6}
  TimeoutAt = {0, 1, 2, 3, 4, 5, 6}
  ByzBudget = 100000000
  Noops = TRUE
  EmitMode = "none"
  SimLen = 0
  TraceFile = "%(file)s"
VIEW TraceView
CONSTRAINT HighWater
INVARIANTS TypeOK Agreement AgreementInView VoteOnce ProposeOnce NoRejectFromCorrect VotesMatchProcessing
PROPERTIES Validity EvidenceSound
POSTCONDITION TraceAccepted
CHECK_DEADLOCK FALSE
"""

B2 = '"B1", "B2"'


def ints(l):
    return ", ".join(str(x) for x in l)


def cfg(n, byz=(), blocks=B2, mv=1, checks=True, bv=None, mpv=1, oa=None, ta=None, bb=0, noops=False, emit="none",
        simlen=0, invs=INVS, props=PROPS):
    allv = list(range(n))
    return CFG % dict(n=n, byz=ints(byz), blocks=blocks, mv=mv, checks="TRUE" if checks else "FALSE",
                      bv=ints(range(mv + 1) if bv is None else bv), mpv=mpv, oa=ints(allv if oa is None else oa),
                      ta=ints(allv if ta is None else ta), bb=bb, noops="TRUE" if noops else "FALSE", emit=emit,
                      simlen=simlen, invs=("INVARIANTS " + invs) if invs else "", props=("PROPERTIES " + props) if props else "")


def violated(r):
    with open(r["outfile"], errors="replace") as f:
        for line in f:
            m = re.match(r"Error: (?:Invariant|Action property) (\w+) is violated", line)
            if m:
                return m.group(1)
    return None


def P(s, b, v):
    return dict(sponsor=s, block=b, view=v)


def V(a, p, acc=True):
    return dict(signer=a, prop=p, accept=acc)


def st(act, **args):
    return dict(act=act, args=args)


def dev_script(n=4):
    """Nobody is Byzantine: arbiter 0 (on duty) gets its block B1 confirmed in view 0, the others time out before they
    learn it, arbiter 1 (on duty in view 1, B2 arrived first) proposes B2, the others accept it although they accepted
    B1 in view 0, arbiter 1 confirms B2."""
    p1, p2 = P(0, "B1", 0), P(1, "B2", 1)
    s = [st("NewBlock", a=0, b="B1"), st("NewBlock", a=1, b="B2"), st("NewBlock", a=1, b="B1")]
    for a in range(2, n):
        s += [st("NewBlock", a=a, b="B1"), st("NewBlock", a=a, b="B2")]
    s += [st("RecvProposal", a=a, p=p1) for a in range(1, n)]
    need = (2 * n) // 3  # votes of others arbiter 0 needs beside its own
    s += [st("RecvVote", a=0, v=V(a, p1)) for a in range(1, 1 + need)]
    s += [st("Timeout", a=a) for a in range(1, n)]
    s += [st("RecvProposal", a=a, p=p2) for a in range(2, n)]
    s += [st("RecvVote", a=1, v=V(a, p2)) for a in range(2, 2 + need)]
    return s


def byz_dev_script():
    """n = 4, arbiter 0 Byzantine and on duty: proposes B1, collects the accept votes of 1 and 2 and withholds its own;
    view 1 confirms B2 at arbiters 1, 2; arbiter 3, still running, is handed the confirm of B1 the Byzantine arbiter
    assembled from votes that are all genuine."""
    p1, p2 = P(0, "B1", 0), P(1, "B2", 1)
    s = [st("NewBlock", a=1, b="B2"), st("NewBlock", a=1, b="B1"), st("NewBlock", a=2, b="B1"), st("NewBlock", a=2, b="B2"),
         st("NewBlock", a=3, b="B1"), st("NewBlock", a=3, b="B2"),
         st("RecvProposal", a=1, p=p1), st("RecvProposal", a=2, p=p1),
         st("Timeout", a=1), st("Timeout", a=2), st("Timeout", a=3),
         st("RecvProposal", a=2, p=p2), st("RecvProposal", a=3, p=p2),
         st("RecvVote", a=1, v=V(2, p2)), st("RecvVote", a=1, v=V(3, p2)),
         st("LearnConfirm", a=3, p=p1, signers=[0, 1, 2])]
    return s


def happy_script(n):
    p1 = P(0, "B1", 0)
    s = [st("NewBlock", a=a, b="B1") for a in range(n)]
    s += [st("RecvProposal", a=a, p=p1) for a in range(1, n)]
    for a in range(n):
        s += [st("RecvVote", a=a, v=V(b, p1)) for b in range(n) if b != a]
    return s


def run(chk):
    thorough = chk.tier == "thorough"
    rng = random.Random(vf.seed())
    seed = vf.seed()
    vf._copy_spec(os.path.join(vf.SPEC, "Consensus"))
    W = 4

    # ---- 1. exhaustive runs (label, cfg, workers, timeout)
    ex_runs = [
        ("exhaustive n=3, 2 blocks (B2 at arbiter 1), 2 views", cfg(3, oa=[1]), W, 900),
        ("exhaustive n=4, arbiter 0 Byzantine (2 of its messages), view 0, 2 blocks", cfg(4, byz=[0], mv=0, oa=[1, 2], bb=2), W, 900),
        ("exhaustive n=4, 1 block, 2 views, arbiter 1 times out, no early votes", cfg(4, blocks='"B1"', mpv=0, oa=[], ta=[1]), W, 900),
    ]
    if thorough:
        ex_runs += [
            ("exhaustive n=3, 2 blocks everywhere, 2 views, 2 early votes", cfg(3, mpv=2), 8, 3000),
            ("exhaustive n=3, arbiter 0 Byzantine (3 messages), 2 views", cfg(3, byz=[0], bv=[0], oa=[1, 2], ta=[1, 2], bb=3), 8, 3000),
            ("exhaustive n=4, arbiter 0 Byzantine (3 messages), view 0, 2 blocks", cfg(4, byz=[0], mv=0, bb=3), 8, 3000),
            ("exhaustive n=4, 1 block, 2 views, arbiters 1, 2 time out", cfg(4, blocks='"B1"', mpv=0, oa=[], ta=[1, 2]), 8, 3000),
            ("exhaustive n=3, checks off (below ChangeViewV1Height), arbiter 0 Byzantine", cfg(3, byz=[0], checks=False, bv=[0], oa=[1], ta=[1, 2], bb=2), 8, 3000),
        ]
    # non-vacuity: these MUST be violated
    nv_runs = [
        ("NotAllFinished", "all correct, no loss: everybody finishes", cfg(3, blocks='"B1"', mv=0, mpv=0, invs="NotAllFinished", props="")),
        ("NoEvidence", "a Byzantine sponsor / voter: evidence is produced", cfg(4, byz=[0], mv=0, oa=[1], bb=2, mpv=0, invs="", props="NoEvidence")),
    ]
    if thorough:
        nv_runs.append(("AgreementAnyway", "two blocks finished once a correct arbiter accepted both (no lock across views)",
                        cfg(3, mpv=0, invs="AgreementAnyway", props="")))
    # extraction: exhaustive edges (with the deliveries that change nothing) of a small configuration
    x_runs = [("edges n=3, 1 block, view 0, no-ops included", cfg(3, blocks='"B1"', mv=0, mpv=1, noops=True, emit="all"), (3, (), True))]
    # extraction: simulation
    nsim = 1500 if thorough else 350
    sims = [
        ("simulation n=4, arbiter 0 Byzantine, 2 views", cfg(4, byz=[0], mpv=2, bb=5, emit="last", simlen=18), (4, (0,), True), 18),
        ("simulation n=4, nobody Byzantine, 3 views", cfg(4, mv=2, mpv=2, emit="last", simlen=24), (4, (), True), 24),
        ("simulation n=4, arbiter 1 Byzantine, checks off", cfg(4, byz=[1], checks=False, mpv=2, bb=5, emit="last", simlen=18), (4, (1,), False), 18),
    ]
    if thorough:
        sims += [
            ("simulation n=3, arbiter 0 Byzantine, 2 views", cfg(3, byz=[0], mpv=2, bb=6, emit="last", simlen=14), (3, (0,), True), 14),
            ("simulation n=7, arbiters 0, 1 Byzantine, 3 views", cfg(7, byz=[0, 1], mv=2, mpv=2, bb=8, emit="last", simlen=34), (7, (0, 1), True), 34),
            ("simulation n=4, arbiter 3 Byzantine, 3 views", cfg(4, byz=[3], mv=2, mpv=2, bb=5, emit="last", simlen=26), (4, (3,), True), 26),
        ]

    ex = concurrent.futures.ThreadPoolExecutor(max_workers=6 if not thorough else 5)
    fb = ex.submit(vf.go_build, "dposproto")
    f_x = [ex.submit(vf.tlc, "Consensus", "Protocol", "x02-x%d.cfg" % i, workers=1, timeout=1500, cfg_text=c, jvm=JVM_FAST)
           for i, (_, c, _) in enumerate(x_runs)]
    f_sim = [ex.submit(vf.tlc, "Consensus", "Protocol", "x02-s%d.cfg" % i, workers=1, timeout=1500, cfg_text=c,
                       simulate="num=%d" % nsim, depth=d + 1, seed_arg=seed, jvm=JVM_FAST)
             for i, (_, c, _, d) in enumerate(sims)]
    f_nv = [ex.submit(vf.tlc, "Consensus", "Protocol", "x02-nv%d.cfg" % i, workers=1 if not thorough else 8, timeout=3000, cfg_text=c,
                      jvm=JVM_FAST if not thorough else ())
            for i, (_, _, c) in enumerate(nv_runs)]
    f_ex = [ex.submit(vf.tlc, "Consensus", "Protocol", "x02-e%d.cfg" % i, workers=w, timeout=t, cfg_text=c)
            for i, (_, c, w, t) in enumerate(ex_runs)]
    binary = fb.result()

    # ---- 3. scripts on the real objects (started early, run beside TLC)
    sc = vf.scratch()
    groups = {}  # (n, byz, checks) -> [labels, trace file, driver records]

    def record(label, n, byz, checks, args):
        out = os.path.join(sc, "x02-rec-%d.ndjson" % sum(len(g[0]) for g in groups.values()))
        recs, _ = vf.run_driver(binary, args(out) + [str(n), ints(byz).replace(" ", "") or "-", "1" if checks else "0"], timeout=1500)
        g = groups.setdefault((n, tuple(byz), checks), [[], os.path.join(sc, "x02-trace-%d.ndjson" % len(groups)), []])
        g[0].append(label)
        g[2] += [(label, recs)]
        with open(g[1], "a") as fo:
            fo.write(open(out).read())
        return out

    p = os.path.join(sc, "x02-scripts-4.jsonl")
    vf.write_json_lines(p, [dev_script(4), happy_script(4)])
    script_trace = record("scripts n=4 (vote switch across views, happy path)", 4, (), True, lambda out: ["run", p, out])
    pb = os.path.join(sc, "x02-scripts-4b.jsonl")
    vf.write_json_lines(pb, [byz_dev_script()])
    record("script n=4, arbiter 0 Byzantine withholds its vote", 4, (0,), True, lambda out: ["run", pb, out])
    nr, ns = (400, 60) if thorough else (50, 40)
    record("random n=4, arbiter 0 Byzantine", 4, (0,), True, lambda out: ["random", str(nr), str(ns), out])
    record("random n=7, arbiters 1, 6 Byzantine", 7, (1, 6), True, lambda out: ["random", str(nr // 2), str(ns + 20), out])
    if thorough:
        record("random n=4, nobody Byzantine", 4, (), True, lambda out: ["random", str(nr), str(ns), out])
        record("random n=4, arbiter 2 Byzantine, checks off", 4, (2,), False, lambda out: ["random", str(nr), str(ns), out])
        record("random n=3, arbiter 0 Byzantine", 3, (0,), True, lambda out: ["random", str(nr), str(ns), out])
        record("random n=7, nobody Byzantine", 7, (), True, lambda out: ["random", str(nr // 2), str(ns + 20), out])
    glist = sorted(groups.items())
    f_tr = [ex.submit(vf.tlc, "Consensus", "TraceProtocol", "x02-t%d.cfg" % i, workers=1, timeout=3000, jvm=JVM_FAST,
                      cfg_text=TRACE_CFG % dict(n=n, byz=ints(byz), checks="TRUE" if checks else "FALSE", file=g[1]))
            for i, ((n, byz, checks), g) in enumerate(glist)]
    # binding self-test of the trace validation: one recorded field of the script trace corrupted
    lines = open(script_trace).read().splitlines()
    idx = max(i for i, x in enumerate(lines) if '"Timeout"' in x)
    e = json.loads(lines[idx]); e["s"]["view"] += 1
    bad_trace = os.path.join(sc, "x02-bad.ndjson")
    open(bad_trace, "w").write("\n".join(lines[:idx] + [json.dumps(e)] + lines[idx + 1:]) + "\n")
    f_bad = ex.submit(vf.tlc, "Consensus", "TraceProtocol", "x02-tbad.cfg", workers=1, timeout=900, jvm=JVM_FAST,
                      cfg_text=TRACE_CFG % dict(n=4, byz="", checks="TRUE", file=bad_trace))
    bad_trace2 = os.path.join(sc, "x02-bad2.ndjson")
    last_fin = max(i for i, x in enumerate(lines) if '"Fin"' in x and '"dev":true' in x.replace(" ", ""))
    e = json.loads(lines[last_fin]); e["dev"] = False
    open(bad_trace2, "w").write("\n".join(lines[:last_fin] + [json.dumps(e)] + lines[last_fin + 1:]) + "\n")
    f_bad2 = ex.submit(vf.tlc, "Consensus", "TraceProtocol", "x02-tbad2.cfg", workers=1, timeout=900, jvm=JVM_FAST,
                       cfg_text=TRACE_CFG % dict(n=4, byz="", checks="TRUE", file=bad_trace2)) if thorough else None

    # ---- 2. replay of the behaviours TLC printed
    budget = 6000 if thorough else 900
    replays = []
    first_file = None
    for (label, _, key), f in list(zip(x_runs, f_x)) + [((l, c, k), f) for (l, c, k, _), f in zip(sims, f_sim)]:
        r = f.result()
        vf.tlc_ok(r, "Protocol.tla " + label)
        chk.add_tlc(r, label)
        behs, stt = vf.behaviours(r, limit=budget, rng=rng, per_class=budget // 5)
        stt["label"] = label
        chk.cov.setdefault("extraction", []).append(stt)
        if not behs:
            raise vf.Infra("no behaviours extracted for " + label)
        n, byz, checks = key
        path = os.path.join(sc, "x02-beh-%d.jsonl" % len(replays))
        vf.write_json_lines(path, behs)
        if first_file is None:
            first_file = (path, behs, n, byz, checks)
        replays.append((label, ex.submit(vf.run_driver, binary, ["replay", path, str(n), ints(byz).replace(" ", "") or "-",
                                                                  "1" if checks else "0"], None, 3000)))
    totals = dict(own_confirms=0, evidence_proposal=0, evidence_vote=0, steps=0)
    for label, f in replays:
        recs, _ = f.result()
        chk.absorb(recs, "replay: " + label)
        for x in recs:
            if x.get("kind") == "summary":
                for k in totals:
                    totals[k] += int(x.get(k, 0))
    chk.cov["replay_totals"] = totals
    if totals["own_confirms"] == 0 or totals["evidence_proposal"] == 0 or totals["evidence_vote"] == 0:
        raise vf.Infra("replayed behaviours are vacuous: %s" % totals)

    # binding self-tests of the replay: corrupted expectations must be reported
    path, behs, n, byz, checks = first_file
    good = [b for b in behs if len(b) >= 4 and any(s["exp"]["s"]["acc"] for s in b)]
    bad = json.loads(json.dumps(good[len(good) // 2]))
    k = max(i for i, s in enumerate(bad) if s["exp"]["s"]["acc"])
    bad[k]["exp"]["s"]["acc"] = bad[k]["exp"]["s"]["acc"][1:]
    p2 = os.path.join(sc, "x02-badbeh.jsonl")
    vf.write_json_lines(p2, [bad])
    recs, _ = vf.run_driver(binary, ["replay", p2, str(n), ints(byz).replace(" ", "") or "-", "1" if checks else "0"])
    chk.selftest("replay: one accept vote removed from an expected state", any(x.get("kind") == "mismatch" for x in recs))
    bad = json.loads(json.dumps(good[0]))
    bad[-1]["exp"]["s"]["done"] = not bad[-1]["exp"]["s"]["done"]
    vf.write_json_lines(p2, [bad])
    recs, _ = vf.run_driver(binary, ["replay", p2, str(n), ints(byz).replace(" ", "") or "-", "1" if checks else "0"])
    chk.selftest("replay: proposalProcessFinished flipped in an expected state", any(x.get("kind") == "mismatch" for x in recs))

    # ---- 1. verdicts of the exhaustive runs
    for (label, _, _, _), f in zip(ex_runs, f_ex):
        r = f.result()
        vf.tlc_ok(r, "Protocol.tla " + label)
        chk.add_tlc(r, label)
    for (name, label, _), f in zip(nv_runs, f_nv):
        r = f.result()
        if r["timed_out"]:
            raise vf.Infra("TLC timed out: " + label)
        got = violated(r)
        chk.cov.setdefault("expected_violations", []).append(dict(formula=name, meaning=label, violated=got == name,
                                                                  distinct=r["distinct"]))
        chk.cov["states"] += r["distinct"]
        if got != name:
            raise vf.Infra("non-vacuity: %s was expected to be violated (%s); TLC: %s" % (name, label, r["tail"][-600:]))

    # ---- 3. trace validation verdicts
    for ((n, byz, checks), (labels, out, recl)), f in zip(glist, f_tr):
        label = "; ".join(labels)
        r = f.result()
        nev = sum(1 for _ in open(out))
        if r["timed_out"]:
            raise vf.Infra("trace validation timed out: " + label)
        chk.add_tlc(r, "trace validation, %s (%d events)" % (label, nev))
        for l, recs in recl:
            chk.absorb(recs, "recorded: " + l)
        if r["rc"] != 0:
            lines = open(out).read().splitlines()
            consumed = max(r["depth"] - 1, 0)
            idx = min(consumed, len(lines) - 1)
            start = max(i for i in range(0, idx + 1) if '"Reset"' in lines[i])
            hist = [json.loads(x) for x in lines[start:idx + 1]]
            raise vf.Infra("MODEL-MISMATCH X02: recorded run of the real arbiters (%s) is not a behaviour of Protocol.tla at event "
                           "%d: %s ; run so far: %s ; TLC: %s" %
                           (label, idx + 1, json.dumps(hist[-1])[:700],
                            [(h.get("ev"), h.get("a"), h.get("b") or h.get("p") or h.get("v")) for h in hist][-25:],
                            r["tail"].strip().splitlines()[-3:]))
    rb, rb2 = f_bad.result(), (f_bad2.result() if f_bad2 else None)
    ex.shutdown()
    chk.selftest("trace: a recorded view offset corrupted", rb["rc"] != 0 and not rb["timed_out"])
    if rb2 is not None:
        chk.selftest("trace: the recorder's claim 'a correct arbiter accepted two blocks' denied", rb2["rc"] != 0 and not rb2["timed_out"])
    if not any(k == "X02:agreement:no-lock-across-views" for k, _, _ in chk.violations):
        raise vf.Infra("the vote-switch schedule did not end with two different finished blocks on the real code: the known "
                       "finding X02:agreement:no-lock-across-views is not reproduced (fixed? then retire the finding)")

    chk.assumptions += [
        "one block height; every arbiter first finishes the height before through the real entries (so that finishedHeight > "
        "ChangeViewV1Height = 0 switches the illegal proposal / vote checks on; 'checks off' runs use ChangeViewV1Height = max)",
        "time passes only in Timeout steps: the arbiter's clock is set to view start + 6 s and OnChangeView is called, which "
        "moves it one view on (ChangeViewV1, or ChangeView below ChangeViewV1Height); the re-evaluations of the clock in "
        "ProcessProposal (TryChangeView) and after a reject minority (ChangeView) therefore never change the view; the "
        "view arithmetic itself is C26",
        "all delivered proposals and votes carry valid signatures of current arbiters (ProposalCheck / VoteCheck pass); a "
        "vote message's command matches the vote's kind",
        "at most two blocks per height; the arrival of a block a node already has is not repeated (the block pool refuses it)",
        "excluded because their outcome depends on Go's map iteration order: the accept and the reject vote of one signer for "
        "one proposal both in pendingVotes; two precocious proposals of one sponsor and view",
        "a confirmed block is delivered to the dispatcher only while the arbiter is running that height (the harness shares one "
        "chain between the arbiters, so 'the chain already has the block' cannot differ per arbiter)",
        "handler entries covered on the real code: OnBlockReceived(b, false/true), OnConfirmReceived, OnProposalReceived, "
        "OnVoteAccepted, OnVoteRejected, OnChangeView.  Not driven: OnInv/OnGetBlock/OnBlock (block exchange between arbiters; "
        "the messages sent to single peers are dropped), OnRequestProposal, OnIllegalProposalReceived / OnIllegalVotesReceived "
        "(they only call the disabled AddEvidence), OnResponseResetViewReceived and the ResetView branch of OnChangeView (view "
        "offset >= 100, below ChangeViewV1Height only), OnRecover / OnRecoverTimeout / OnRequestConsensus / OnResponseConsensus "
        "(recoverAbnormalState, DoRecover and OnRequestConsensus return at once in the code), inactive-arbitrator and "
        "revert-to-DPoS transactions, POW mode",
        "exhaustive runs are bounded by scenario constants (which arbiters can receive the second block, whose view timer may "
        "fire, how many Byzantine messages are delivered, size of pendingVotes); simulation and the recorded random runs have "
        "none of these bounds",
    ]
    return chk.finish(exhaustive=False)
