"""C06 - no output is ever spent twice (blocks, forks, reorganisations; the mempool half is C34's model)."""
import random
import vf, importlib.util, os
_spec = importlib.util.spec_from_file_location("_ledger", os.path.join(os.path.dirname(__file__), "_ledger.py"))
L = importlib.util.module_from_spec(_spec); _spec.loader.exec_module(L)
_m = importlib.util.spec_from_file_location("_mempool", os.path.join(os.path.dirname(__file__), "_mempool.py"))

META = dict(
    text="Ledger.tla with a transaction universe built to collide (two spends of one outpoint, a spend of the first one's "
         "output, one outpoint twice inside a transaction, a never-created outpoint, a second conflicting pair) packed up to "
         "two per block into every block tree of <= 3/4 blocks and delivered in every order: TLC checks NoDoubleSpend and "
         "ActiveValid in every state; every behaviour is replayed on a full-stack node: a block the spec rejects must be "
         "rejected, and the real unspent-output view (GetUnspent) must equal the fold of the active chain after every step.",
    note="Bounded by the constants in the evidence file; transaction templates are fixed (Ledger.tla TxIns/TxOuts); signature "
         "and fee checks are satisfied by construction (they are C05/C01's subject).",
    technique="TLA+ ledger model checked by TLC + behaviour replay on a full-stack node",
)


def run(chk):
    thorough = chk.tier == "thorough"
    rng = random.Random(vf.seed())
    binary = vf.go_build("ledger")
    txs = ["T1", "T2", "T3", "T4", "T5", "T7", "T9"]
    if thorough:
        big = dict(txs=txs, blocks=3, tpb=2, bad=0, deliver=4)
        L.exhaustive(chk, "trees<=3 blocks, <=2 of 6 colliding templates per block, <=4 deliveries", **big)
    else:
        L.exhaustive(chk, "trees<=2 blocks, <=2 of 6 colliding templates per block, <=3 deliveries",
                     txs=txs, blocks=2, tpb=2, bad=0, deliver=3)
        L.exhaustive(chk, "trees<=3 blocks, <=1 of 6 colliding templates per block, <=4 deliveries",
                     txs=txs, blocks=3, tpb=1, bad=0, deliver=4)
    small = dict(txs=["T1", "T2", "T3", "T4", "T5", "T9"], blocks=2, tpb=2, bad=0, deliver=3)
    behs = L.extract_edges(chk, "2 blocks x <=2 txs", 8000 if thorough else 500, rng, **small)
    sim = L.simulate(chk, "5 blocks x <=2 txs", 3000 if thorough else 200, 12,
                     txs=txs + ["T6"], blocks=5, tpb=2, bad=0, deliver=6)
    chk.absorb(L.replay(chk, binary, behs + sim, "c06"), "replay on full-stack node")
    # a transaction with 300 outputs (output indexes beyond one byte in the unspent index), its output 1 spent
    # twice (W2, W3) and its output 257 spent (W4).  The wide UTXO sets make exhaustive extraction too heavy:
    # scripted scenarios (LedgerScenario.tla computes the verdicts and views)
    def M(p, *txs):
        return ("M", p, txs, "none")
    S = ("S", 0, (), "")

    def D(i):
        return ("D", i, (), "")
    scen = {
        "spent-twice": [M(0, "W1"), M(1, "W2"), M(2, "W3"), M(2, "W4"), S, D(1), D(2), D(3), D(4)],
        "alias-first": [M(0, "W1"), M(1, "W4"), M(2, "W2"), M(3, "W3"), S, D(1), D(2), D(3), D(4)],
        "reorg": [M(0, "W1"), M(1, "W2"), M(1, "W3"), M(3), M(4, "W2"), M(4, "W4"), S, D(1), D(2), D(3), D(4), D(5), D(6)],
        "orphans": [M(0, "W1"), M(1, "W2"), M(2, "W4"), M(3, "W3"), S, D(4), D(3), D(2), D(1)],
        # a two-input transaction whose FIRST input is unspent and whose second one is spent (and the other order)
        "second-input-spent": [M(0, "T1"), M(1, "T6"), M(2, "T7"), M(2), S, D(1), D(2), D(3), D(4)],
        "second-input-spent-reorg": [M(0, "T1"), M(1, "T7"), M(1, "T6"), M(3, "T7"), M(3), M(5), S, D(1), D(2), D(3), D(4), D(5), D(6)],
    }
    wb = []
    for name, steps in sorted(scen.items()):
        items = ", ".join('<<"%s", %d, <<%s>>, "%s">>' % (a_, b_, ", ".join('"%s"' % t for t in c_), d_) for a_, b_, c_, d_ in steps)
        script = ("---------------------------- MODULE LedgerScript ----------------------------\nScript == << %s >>\n"
                  "=============================================================================\n" % items)
        c_text = L.cfg(sorted({t for st_ in steps if st_[0] == "M" for t in st_[2]}) or ["T1"], 8, 1, 0, 8, fix=L.reorg_fix_expected(), extra="ACTION_CONSTRAINT SEmit") \
            .replace("SPECIFICATION Spec", "SPECIFICATION SSpec")
        r = vf.tlc("Chain", "LedgerScenario", "ws.cfg", cfg_text=c_text, files={"LedgerScript.tla": script}, workers=1, timeout=600)
        vf.tlc_ok(r, "wide scenario " + name)
        b_, _ = vf.behaviours(r, dedupe_prefixes=False)
        if len(b_) != 1:
            raise vf.Infra("wide scenario %s: not every scripted step is enabled" % name)
        chk.add_tlc(r, "scenario with a 300-output transaction: " + name)
        wb += b_
    chk.absorb(L.replay(chk, binary, wb, "c06w"), "replay on full-stack node (300-output transaction)")
    L.selftest(chk, binary, behs + sim)
    chk.assumptions += ["mempool double-spend rejection is checked by C34 (Mempool.tla)",
                        "coinbase outputs of the behaviour's own blocks are never spent (maturity), funding comes from a 3-block prefix"]
    return chk.finish(exhaustive=False)
