"""C06 - no output is ever spent twice (blocks, forks, reorganisations; the mempool half is C34's model)."""
import random
import vf, importlib.util, os
_spec = importlib.util.spec_from_file_location("_ledger", os.path.join(os.path.dirname(__file__), "_ledger.py"))
L = importlib.util.module_from_spec(_spec); _spec.loader.exec_module(L)
_m = importlib.util.spec_from_file_location("_mempool", os.path.join(os.path.dirname(__file__), "_mempool.py"))

META = dict(
    text="Ledger.tla with a transaction universe built to collide (two spends of one outpoint, a spend of the first one's "
         "output, one outpoint twice inside a transaction, a never-created outpoint, a second conflicting pair) packed up to "
         "two per block into every block tree of <= 3/4 blocks and delivered in every order: TLC checks NoDoubleSpend and "
         "ActiveValid in every state; every behaviour is replayed on a full-stack node: a block the spec rejects must be "
         "rejected, and the real unspent-output view (GetUnspent) must equal the fold of the active chain after every step.",
    note="Bounded by the constants in the evidence file; transaction templates are fixed (Ledger.tla TxIns/TxOuts); signature "
         "and fee checks are satisfied by construction (they are C05/C01's subject).",
    technique="TLA+ ledger model checked by TLC + behaviour replay on a full-stack node",
)


def run(chk):
    thorough = chk.tier == "thorough"
    rng = random.Random(vf.seed())
    binary = vf.go_build("ledger")
    txs = ["T1", "T2", "T3", "T4", "T5", "T7", "T9"]
    if thorough:
        big = dict(txs=txs, blocks=3, tpb=2, bad=0, deliver=4)
        L.exhaustive(chk, "trees<=3 blocks, <=2 of 6 colliding templates per block, <=4 deliveries", **big)
    else:
        L.exhaustive(chk, "trees<=2 blocks, <=2 of 6 colliding templates per block, <=3 deliveries",
                     txs=txs, blocks=2, tpb=2, bad=0, deliver=3)
        L.exhaustive(chk, "trees<=3 blocks, <=1 of 6 colliding templates per block, <=4 deliveries",
                     txs=txs, blocks=3, tpb=1, bad=0, deliver=4)
    small = dict(txs=["T1", "T2", "T3", "T4", "T5", "T9"], blocks=2, tpb=2, bad=0, deliver=3)
    behs = L.extract_edges(chk, "2 blocks x <=2 txs", 8000 if thorough else 500, rng, **small)
    sim = L.simulate(chk, "5 blocks x <=2 txs", 3000 if thorough else 200, 12,
                     txs=txs + ["T6"], blocks=5, tpb=2, bad=0, deliver=6)
    chk.absorb(L.replay(chk, binary, behs + sim, "c06"), "replay on full-stack node")
    L.selftest(chk, binary, behs + sim)
    chk.assumptions += ["mempool double-spend rejection is checked by C34 (Mempool.tla)",
                        "coinbase outputs of the behaviour's own blocks are never spent (maturity), funding comes from a 3-block prefix"]
    return chk.finish(exhaustive=False)
