"""C28 - deposits and vote rights are never overdrawn (DPoS half).

 1. TLC checks spec/Consensus/DPoS.tla with an alphabet biased towards what moves
    deposits, penalties and vote rights: invariants NonNegative, VotesWithinRights,
    UsedIsSum, TotalIsUtxo and the action property NoOverdraw (a withdrawal never
    leaves the available amount negative).  The spec applies a block only if every
    transaction passes the code's rule against the pre-block state (Pre) AND the
    combined effect respects the balances; blocks that pass Pre but overdraw, and the
    cancellation of a producer whose deposit was returned, are the named deviations
    (dev): logged, not applied.
 2. Every explored edge is replayed on the real code (same driver as C21):
      * the real SpecialContextCheck of ReturnDepositCoin, Voting (vote / renewal),
        ReturnVotes and CancelProducer gives its verdict for every such transaction
        against the real pre-block state; the spec's requests one unit above the
        balance must be rejected (VIOLATION if accepted and a balance goes wrong);
      * after every block the real accessors (Producer.TotalAmount / DepositAmount /
        Penalty / AvailableAmount, State.DposV2VoteRights / UsedDposV2Votes) are
        evaluated: nothing negative, used <= rights, no withdrawal beyond the available amount;
      * a dev block is shown on a scratch instance: if the real checkers accept all of
        its transactions and processing it (plus the blocks until the lock-up ends)
        drives a real balance out of bounds, that is a VIOLATION `C28:in-block:...`.
"""
import json, os, random, sys
sys.path.insert(0, os.path.dirname(os.path.abspath(__file__)))
import vf
import dpos_common as dc

META = dict(
    text="TLC checks the balance invariants of DPoS.tla (nothing negative, used DPoS v2 votes <= vote rights, used = sum of live votes, "
         "total = sum of deposit outputs, no withdrawal beyond total - locked - penalty) over block sequences biased towards deposits, "
         "penalties, stakes, votes, renewals and returns; every explored edge is replayed on the real state with the real "
         "ReturnDepositCoin / Voting / ReturnVotes / CancelProducer checkers deciding each such transaction against the pre-block "
         "state, and the balances are read from the real accessors after every block.",
    note="DPoS half only (CR candidate / member deposits are not modelled); unit-level driver; bounded: 3 producers, 2 stake addresses, "
         "<= 2 items per block, 2-3 free blocks after fixed preludes (votes / cancellation / penalties / after a POW period / after the expiry of a v2 producer), amounts "
         "from a small set including one unit above each balance; a registration pays 1 ELA more than the locked deposit.",
    technique="TLA+ invariants + action property (TLC exhaustive) + per-edge replay with real checker verdicts and real balance accessors",
)


def run(chk):
    thorough = chk.tier == "thorough"
    dc.driver()
    K = dc.BALANCE_KINDS
    KS = K + ["Sponsor"]
    big = []
    if thorough:
        jobs = [("bal-basic", "basic", K, 9, 1, 0, 2000, 4, 6), ("bal-votes", "votes", KS, 11, 1, 0, 2500, 4, 8),
                ("bal-votes-pairs", "votes", KS, 9, 2, 0, 2000, 4, 1), ("bal-penalty", "penalty", K, 11, 1, 0, 1500, 4, 1),
                ("bal-penalty-pairs", "penalty", KS, 10, 2, 0, 700, 4, 1), ("bal-cancel-pairs", "cancel", K, 12, 2, 0, 3000, 4, 4),
                ("bal-cancel", "cancel", K, 13, 1, 0, 2000, 4, 2), ("bal-switch", "switch", KS, 20, 1, 0, 1000, 4, 1),
                ("bal-late", "late", K, 13, 1, 0, 1000, 4, 1)]
        big = [("bal-basic-pairs", "basic", KS, 8, 2, 0), ("bal-votes-deep", "votes", KS, 10, 2, 0)]
    else:
        jobs = [("bal-votes", "votes", KS, 10, 1, 0, 240, 3, 2), ("bal-cancel", "cancel", K, 12, 1, 0, 240, 3, 1),
                ("bal-basic", "basic", KS, 8, 2, 0, 200, 3, 20),
                # penalties (emergency inactivation, top-up, activation) and the balances after a whole POW period
                ("bal-penalty", "penalty", K, 11, 1, 0, 160, 3, 1), ("bal-switch", "switch", KS, 20, 1, 0, 120, 3, 2),
                # the locked deposit of an expired v2 producer, its expired votes, an activation taking effect
                ("bal-late", "late", K, 13, 1, 0, 120, 3, 2)]
    import concurrent.futures
    vf._copy_spec(os.path.join(vf.SPEC, "Consensus"))
    with concurrent.futures.ThreadPoolExecutor(max_workers=2) as ex:
        xh = ex.submit(dc.exhaustive_all, chk, big) if big else None
        sim = ex.submit(dc.simulate, chk, "bal-sim", "basic", KS, 30, 40, vf.seed()) if thorough else None
        allbehs = dc.explore_all(chk, jobs, parallel=3 if thorough else 6)
        if xh:
            xh.result()
        if sim:
            chk.absorb(sim.result()[1], "replay simulated 30-block sequences")

    # binding self-tests: (a) a corrupted expected balance, (b) a refused over-limit request relabelled as acceptable
    behs = allbehs[0]
    cand = [b for b in behs if b[-1].get("act") == "Block" and b[-1].get("applied")]
    if not cand:
        raise vf.Infra("no applied block for the self-test")
    bad = json.loads(json.dumps(cand[len(cand) // 2]))
    bad[-1]["st"]["ad"]["a1"]["rights"] += 1
    recs = dc.replay(chk, [bad], jobs[0][1], "selftest")
    chk.selftest("replay: expected vote rights corrupted", any(x.get("kind") in ("mismatch", "violation") for x in recs))
    # (b) an accepted withdrawal / vote relabelled as "must be rejected": the real checker accepts it, nothing goes
    # wrong, so the driver must object to the label
    acc = [(j[1], b) for j, bs in zip(jobs, allbehs) for b in bs
           if b[-1].get("act") == "Block" and b[-1].get("applied") and len(b[-1]["items"]) == 1
           and b[-1]["items"][0]["k"] in ("RetDep", "Vote2", "RetVotes")]
    if not acc:
        raise vf.Infra("no accepted withdrawal / vote among the behaviours (self-test needs one)")
    which, b = acc[len(acc) // 2]
    bad = json.loads(json.dumps(b))
    bad[-1].update(pre=False, applied=False, dev=False, why="rejected")
    recs = dc.replay(chk, [bad], which, "selftest2")
    chk.selftest("replay: an accepted request relabelled as one the checker must reject",
                 any(x.get("kind") in ("mismatch", "violation") for x in recs))

    chk.assumptions += dc.ASSUMPTIONS + [
        "TLC bounds: preludes basic / votes / cancel / penalty / switch / late (6-18 forced blocks), then 2 free blocks (quick; thorough 2-3) "
        "with 1 item per block (2 after the basic prelude, printed 1 edge in 20), no RollbackTo steps; 120-240 behaviours per "
        "configuration are replayed (quick), chosen so that every change kind of the last two blocks occurs; the consensus mode "
        "transactions are not in the alphabet (ReturnVotes in POW mode is refused by a stage of the checker the driver does not call)",
        "the CR half of the property (ReturnCRDepositCoin, CR candidate / member deposits in cr/state) is not covered",
        "a penalty larger than the free part of a deposit makes AvailableAmount negative by design; the rule checked is that no "
        "withdrawal (decrease of TotalAmount) leaves it negative, that TotalAmount / DepositAmount / Penalty / vote rights / used votes "
        "are never negative and that used DPoS v2 votes never exceed the vote rights",
        "checker verdicts come from SpecialContextCheck called with the real State (the other stages of CheckTransactionContext - "
        "signatures, fees, UTXO existence - are not exercised)",
    ]
    return chk.finish(exhaustive=False)
