"""C10 - a merged-mining proof commits to exactly this block.

 1. TLC checks spec/Edge/AuxPow.tla: AuxPow.Check transcribed (hex-string marker / root search,
    byte read-back of size and nonce, the 32-bit slot formula) against the property-level
    predicate Commits, over a valid proof for every aux-branch length 0..3 (and 31..33), several
    nonces, and every single-field mutation (invariants AcceptedCommits, ValidAccepted,
    MutationsRefused).
 2. Every enumerated proof is built for real and given to auxpow.AuxPow.Check;
    VIOLATION = accepted although the spec says it does not commit (or a panic).
"""
import os, random, json
import vf

META = dict(
    text="AuxPow.Check is transcribed into TLA+ at hex-digit level (marker and reversed aux root located by substring search, "
         "size/nonce read back from bytes, slot by the 32-bit LCG) next to a property-level predicate Commits; TLC checks "
         "accepted => commits over valid proofs for aux branch lengths 0..3 and 31..33 and every single-field mutation "
         "(block hash, branch, index, nonce, size, chain id, marker count/position, half-byte misalignment, parent merkle "
         "path), and each enumerated proof is built with real hashes and run through auxpow.AuxPow.Check.",
    note="Trusts TLC and the symbolic-hash abstraction; proofs are the enumerated mutation classes of a harness-built valid "
         "proof (not arbitrary byte strings); parent header proof-of-work is C09's concern.",
    technique="TLA+ transcription of the decision procedure vs. a property-level predicate (TLC exhaustive over mutation "
              "classes) + per-case replay on AuxPow.Check",
)

CFG = """SPECIFICATION Spec
CONSTANTS
  Heights = {%(heights)s}
  BigHeights = {%(big)s}
  Nonces <- AllNonces
  LastDigits = {%(last)s}
  ChainID = 1224
  OtherChainID = 6
VIEW view
INVARIANTS AcceptedCommits ValidAccepted MutationsRefused WholeBytes
ACTION_CONSTRAINT Emit
CHECK_DEADLOCK FALSE
"""

PARAMS = """--------------------------- MODULE AuxPowParams ---------------------------
SeedNonces == {%s}
=============================================================================
"""


def absorb(chk, recs, label):
    """A property violation takes precedence over model mismatches of the same run (the shared absorb stops at
    the first mismatch): when the driver found violations that are not known findings, its mismatch records
    are set aside and noted, so that the check ends with VIOLATION / exit 1 rather than exit 2."""
    known = {k["key"] for k in chk.known}
    fresh = [r for r in recs if r.get("kind") == "violation" and r.get("key") not in known]
    mism = [r for r in recs if r.get("kind") == "mismatch"]
    if fresh and mism:
        chk.notes.append("%s: %d model mismatches set aside because the run found violations" % (label, len(mism)))
        recs = [r for r in recs if r.get("kind") != "mismatch"]
    chk.absorb(recs, label)


def run(chk):
    thorough = chk.tier == "thorough"
    rng = random.Random(vf.seed() * 31 + 10)
    binary = vf.go_build("auxpow")
    nn = 6 if thorough else 2
    nonces = ["<<%d, %d, %d, %d>>" % tuple(rng.randrange(256) for _ in range(4)) for _ in range(nn)]
    cfg = CFG % dict(heights="0, 1, 2, 3" + (", 4, 5" if thorough else ""), big="31, 32, 33",
                     last="0, 1, 2, 3" if thorough else "0, 3")
    r = vf.tlc("Edge", "AuxPow", "ap.cfg", cfg_text=cfg, workers=8, timeout=1500,
               files={"AuxPowParams.tla": PARAMS % ", ".join(nonces)}, jvm=("-XX:ParallelGCThreads=4",))
    vf.tlc_ok(r, "AuxPow exhaustive")
    chk.add_tlc(r, "exhaustive + extraction: valid proofs x single-field mutations")
    behs, st = vf.behaviours(r, strat_key=lambda b: b[-1]["args"]["mut"])
    chk.cov.setdefault("extraction", []).append(st)
    path = os.path.join(vf.scratch(), "ap.jsonl")
    vf.write_json_lines(path, behs)
    recs, _ = vf.run_driver(binary, ["replay", path])
    absorb(chk, recs, "replay proofs on AuxPow.Check")

    # binding self-test: an accepted valid proof relabelled "does not commit" must be reported
    good = [b for b in behs if b[-1]["args"]["mut"] == "none" and b[-1]["exp"]["check"] == "accept"]
    bad = json.loads(json.dumps(good[len(good) // 2]))
    bad[-1]["exp"]["commits"] = False
    p1 = os.path.join(vf.scratch(), "ap-bad.jsonl")
    vf.write_json_lines(p1, [bad])
    recs, _ = vf.run_driver(binary, ["replay", p1])
    chk.selftest("replay: commits flag of an accepted proof cleared", any(x.get("kind") == "violation" for x in recs))
    # ... and an expected slot index changed
    bad = json.loads(json.dumps(good[0]))
    bad[-1]["exp"]["expidx"] += 1
    vf.write_json_lines(p1, [bad])
    recs, _ = vf.run_driver(binary, ["replay", p1])
    chk.selftest("replay: expected slot index changed", any(x.get("kind") == "violation" for x in recs))

    chk.assumptions += [
        "sha256d collision free (symbolic hash terms); a 64-digit hash is modelled by 4 hex digits of which only the parity "
        "of its position and its last digit matter to the procedure; the driver grinds real hashes to that last digit",
        "proofs are a valid proof per (aux branch length 0..%d and 31..33, nonce, last digit) and its single-field mutations; "
        "the parent coinbase's position in the parent block is not constrained by the property (index 0 used)" % (5 if thorough else 3),
        "out-of-range reads / division by zero in AuxPow.Check (C03's subject) are reported under C10:panic:<where> when the "
        "enumeration reaches them",
    ]
    return chk.finish(exhaustive=False)
