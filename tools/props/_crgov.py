"""Shared recipe of C22 and C29: spec/Gov/CR.tla + Proposal.tla checked by TLC and replayed
on the real crstate.Committee by harness/cmd/crstate."""
import json, os, random, re
import vf

CONST = dict(NCR=3, NProps=2, NOwners=2, NVoters=2, MemberCount=3, AgreeCount=2, VotingPeriod=8, ClaimPeriod=1,
             DutyPeriod=16, Lockup=2, PropCRVote=1, PropPubVote=1, VotingStart=1, CommitteeStart=9, MaxTracking=4,
             RejectThreshold=2)

ALL_KINDS = ["RegisterCR", "UpdateCR", "UnregisterCR", "VoteCR", "Impeach", "Reject", "Proposal", "Close", "Review",
             "Tracking", "Withdraw", "RealWithdraw", "Approp", "Claim", "ReturnDeposit"]

MC = """---- MODULE MCCR ----
EXTENDS CR
MCBudgets == {%(budgets)s}
MCPatterns == {%(patterns)s}
====
"""

CFG = """SPECIFICATION Spec
CONSTANTS
  CRs = {1, 2, 3}
  Props = {1, 2}
  Owners = {1, 2}
  Voters = {1, 2}
  AgreeCount = %(AgreeCount)d
  PropCRVote = %(PropCRVote)d
  PropPubVote = %(PropPubVote)d
  RejectThreshold = %(RejectThreshold)d
  MaxTracking = %(MaxTracking)d
  MemberCount = %(MemberCount)d
  VotingPeriod = %(VotingPeriod)d
  ClaimPeriod = %(ClaimPeriod)d
  DutyPeriod = %(DutyPeriod)d
  Lockup = %(Lockup)d
  ActivateDuration = 6
  VotingStart = %(VotingStart)d
  CommitteeStart = %(CommitteeStart)d
  MaxSession = 3
  BudgetChoices <- MCBudgets
  VotePatterns <- MCPatterns
  Kinds = {%(kinds)s}
  Scenario = "%(scenario)s"
  MaxSteps = %(steps)d
  MaxTx = %(maxtx)d
  MaxRollbacks = %(rolls)d
  RollDepth = %(rolldepth)d
  DupRule = %(dup)s
VIEW view
INVARIANTS TypeOK HistConsistent VotesSane MembersSane %(inv)s
%(emit)s
CHECK_DEADLOCK FALSE
"""

C29_INV = "C29PaidWithinApproved C29StagePaidOnce C29WithdrawnWasWithdrawable C29CommittedWithinAvailable"


def dup_rule_expected():
    """CheckDuplicateTx refuses a second withdrawal / tracking of one proposal in a block unless
    that is listed as an open finding (then the spec models the code as it is: DupRule = FALSE)."""
    return not any(k.get("key") in ("C29:double-withdraw-in-block", "C29:double-tracking-in-block")
                   and k.get("status", "open") == "open" for k in vf.load_known())


def cfg(scenario, kinds, steps, maxtx=2, rolls=1, rolldepth=3, emit="", inv=C29_INV, dup=None,
        budgets=("<<1, 2, 5>>", "<<2, 1, 1>>", "<<5, 5, 5>>"), patterns=("<<1, 1, 1>>", "<<2, 1, 0>>", "<<0, 1, 1>>")):
    d = dict(CONST)
    if dup is None:
        dup = dup_rule_expected()
    d.update(kinds=", ".join('"%s"' % k for k in kinds), scenario=scenario, steps=steps, maxtx=maxtx, rolls=rolls,
             rolldepth=rolldepth, dup="TRUE" if dup else "FALSE", inv=inv,
             emit={"": "", "all": "ACTION_CONSTRAINT Emit", "last": "ACTION_CONSTRAINT EmitLast"}[emit])
    return CFG % d, {"MCCR.tla": MC % dict(budgets=", ".join(budgets), patterns=", ".join(patterns))}


def run_tlc(chk, label, text_files, workers=8, timeout=1500, simulate=None, depth=None, seed_arg=None):
    text, files = text_files
    r = vf.tlc("Gov", "MCCR", "cr-%s.cfg" % re.sub(r"[^a-z0-9]+", "-", label.lower())[:40], cfg_text=text, files=files,
               workers=workers, timeout=timeout, simulate=simulate, depth=depth, seed_arg=seed_arg)
    vf.tlc_ok(r, label)
    chk.add_tlc(r, label)
    return r


def preamble_of(res):
    with open(res["outfile"], errors="replace") as f:
        for line in f:
            if line.startswith('<<"PREAMBLE", '):
                s = line.rstrip("\n")[len('<<"PREAMBLE", '):-2]
                return json.loads(json.loads(s))
    raise vf.Infra("TLC did not print the start-state blocks")


def driver_cfg(preambles, dup=None):
    d = dict(CONST)
    d["DupRule"] = dup_rule_expected() if dup is None else dup
    d["Preambles"] = preambles
    p = os.path.join(vf.scratch(), "crstate-cfg.json")
    with open(p, "w") as f:
        json.dump(d, f)
    return p
