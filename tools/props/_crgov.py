"""Shared recipe of C22 and C29: spec/Gov/CR.tla + Proposal.tla checked by TLC and replayed
on the real crstate.Committee by harness/cmd/crstate."""
import json, os, random, re, time
import vf

CONST = dict(NCR=3, NProps=2, NOwners=2, NVoters=2, MemberCount=3, AgreeCount=2, VotingPeriod=8, ClaimPeriod=1,
             DutyPeriod=16, Lockup=2, PropCRVote=1, PropPubVote=1, VotingStart=1, CommitteeStart=9, MaxTracking=4,
             RejectThreshold=2)

ALL_KINDS = ["RegisterCR", "UpdateCR", "UnregisterCR", "VoteCR", "Impeach", "Reject", "Proposal", "Close", "Review",
             "Tracking", "Withdraw", "RealWithdraw", "Approp", "Claim", "ReturnDeposit"]

MC = """---- MODULE MCCR ----
EXTENDS CR
MCBudgets == {%(budgets)s}
MCPatterns == {%(patterns)s}
====
"""

CFG = """SPECIFICATION %(spec)s
CONSTANTS
  CRs = {1, 2, 3}
  Props = {1, 2}
  Owners = {1, 2}
  Voters = {1, 2}
  AgreeCount = %(AgreeCount)d
  PropCRVote = %(PropCRVote)d
  PropPubVote = %(PropPubVote)d
  RejectThreshold = %(RejectThreshold)d
  MaxTracking = %(MaxTracking)d
  MemberCount = %(MemberCount)d
  VotingPeriod = %(VotingPeriod)d
  ClaimPeriod = %(ClaimPeriod)d
  DutyPeriod = %(DutyPeriod)d
  Lockup = %(Lockup)d
  ActivateDuration = 6
  VotingStart = %(VotingStart)d
  CommitteeStart = %(CommitteeStart)d
  MaxSession = 3
  BudgetChoices <- MCBudgets
  VotePatterns <- MCPatterns
  Kinds = {%(kinds)s}
  Scenario = "%(scenario)s"
  MaxSteps = %(steps)d
  MaxTx = %(maxtx)d
  MaxRollbacks = %(rolls)d
  RollDepth = %(rolldepth)d
  DupRule = %(dup)s
VIEW view
INVARIANTS TypeOK HistConsistent VotesSane MembersSane %(inv)s
%(props)s
%(emit)s
CHECK_DEADLOCK FALSE
"""

C29_INV = "C29PaidWithinApproved C29StagePaidOnce C29WithdrawnWasWithdrawable C29CommittedWithinAvailable"


def dup_rule_expected():
    """CheckDuplicateTx refuses a second withdrawal / tracking of one proposal in a block unless
    that is listed as an open finding (then the spec models the code as it is: DupRule = FALSE)."""
    return not any(k.get("key") in ("C29:double-withdraw-in-block", "C29:double-tracking-in-block")
                   and k.get("status", "open") == "open" for k in vf.load_known())


def cfg(scenario, kinds, steps, maxtx=2, rolls=1, rolldepth=3, emit="", inv=C29_INV, dup=None, sim=False,
        budgets=("<<1, 2, 5>>", "<<2, 1, 1>>", "<<5, 5, 5>>"), patterns=("<<1, 1, 1>>", "<<2, 1, 0>>", "<<0, 1, 1>>")):
    d = dict(CONST)
    if dup is None:
        dup = dup_rule_expected()
    d.update(kinds=", ".join('"%s"' % k for k in kinds), scenario=scenario, steps=steps, maxtx=maxtx, rolls=rolls,
             rolldepth=rolldepth, dup="TRUE" if dup else "FALSE", inv=inv, spec="SimSpec" if sim else "Spec",
             props="PROPERTIES CheckpointLossless" if "Checkpoint" in kinds else "",
             emit={"": "", "all": "ACTION_CONSTRAINT Emit", "last": "ACTION_CONSTRAINT EmitLast"}[emit])
    return CFG % d, {"MCCR.tla": MC % dict(budgets=", ".join(budgets), patterns=", ".join(patterns))}


def run_tlc(chk, label, text_files, workers=8, timeout=1500, simulate=None, depth=None, seed_arg=None):
    text, files = text_files
    r = vf.tlc("Gov", "MCCR", "cr-%s.cfg" % re.sub(r"[^a-z0-9]+", "-", label.lower())[:40], cfg_text=text, files=files,
               workers=workers, timeout=timeout, simulate=simulate, depth=depth, seed_arg=seed_arg)
    vf.tlc_ok(r, label)
    chk.add_tlc(r, label)
    return r


def preamble_of(res):
    with open(res["outfile"], errors="replace") as f:
        for line in f:
            if line.startswith('<<"PREAMBLE", '):
                s = line.rstrip("\n")[len('<<"PREAMBLE", '):-2]
                return json.loads(json.loads(s))
    raise vf.Infra("TLC did not print the start-state blocks")


def driver_cfg(preambles, dup=None):
    d = dict(CONST)
    d["DupRule"] = dup_rule_expected() if dup is None else dup
    d["Preambles"] = preambles
    p = os.path.join(vf.scratch(), "crstate-cfg.json")
    with open(p, "w") as f:
        json.dump(d, f)
    return p


CR_KINDS = ["RegisterCR", "UpdateCR", "UnregisterCR", "VoteCR", "Claim", "ReturnDeposit"]
PROP_KINDS = ["Proposal", "Review", "Reject", "Tracking", "Withdraw", "RealWithdraw", "Close"]


def as_is_inv():
    return C29_INV if dup_rule_expected() else "C29WithdrawnWasWithdrawable"


class Session:
    """One check run: TLC jobs (several at a time, 8 workers in total), the behaviours they print, the replay."""

    def __init__(self, chk, binary=None):
        self.chk = chk
        self.rng = random.Random(vf.seed())
        t0 = time.time()
        self.binary = binary or vf.go_build("crstate")
        self.phase("go build", t0)
        self.preambles = {}
        self.behs = []          # (label, behaviours)
        self.jobs = []

    def phase(self, name, t0):
        self.chk.cov.setdefault("phases_s", []).append([name, round(time.time() - t0, 1)])

    def job(self, label, scenario, kinds, steps, emit="", workers=1, simulate=None, limit=None, rolls=1, maxtx=2, timeout=1500,
            rolldepth=3):
        self.jobs.append(dict(label=label, scenario=scenario, kinds=kinds, steps=steps, emit=emit, workers=workers,
                              simulate=simulate, limit=limit, rolls=rolls, maxtx=maxtx, timeout=timeout, rolldepth=rolldepth))

    def _run(self, j):
        text, files = cfg(j["scenario"], j["kinds"], j["steps"], maxtx=j["maxtx"], rolls=j["rolls"], emit=j["emit"],
                          inv=as_is_inv(), rolldepth=j["rolldepth"], sim=bool(j["simulate"]))
        name = "cr-%s.cfg" % re.sub(r"[^a-z0-9]+", "-", j["label"].lower())[:48]
        r = vf.tlc("Gov", "MCCR", name, cfg_text=text, files=files, workers=j["workers"], timeout=j["timeout"],
                   jvm=("-Xmx4g", "-XX:ParallelGCThreads=2", "-XX:CICompilerCount=2"),
                   simulate=j["simulate"], depth=(j["steps"] + 40) if j["simulate"] else None,
                   seed_arg=vf.seed() if j["simulate"] else None)
        return j, r

    def run_jobs(self, parallel=4):
        import concurrent.futures
        t0 = time.time()
        vf._copy_spec(os.path.join(vf.SPEC, "Gov"))       # once, before the threads
        with concurrent.futures.ThreadPoolExecutor(max_workers=parallel) as ex:
            results = list(ex.map(self._run, self.jobs))
        self.jobs = []
        self.phase("tlc", t0)
        t0 = time.time()
        for j, r in results:
            vf.tlc_ok(r, j["label"])
            self.chk.add_tlc(r, j["label"])
            self.preambles[j["scenario"]] = preamble_of(r)
            if j["emit"]:
                behs, st = fast_behaviours(r, j["limit"], self.rng)
                st["label"] = j["label"]
                self.chk.cov.setdefault("extraction", []).append(st)
                self.behs.append((j["label"], behs))
        self.phase("parse behaviours", t0)

    def replay(self, sweep, shards=8, timeout=3000):
        cfgp = driver_cfg(self.preambles)
        allb = []
        for label, behs in self.behs:
            allb += behs
        path = os.path.join(vf.scratch(), "crstate-behaviours.jsonl")
        vf.write_json_lines(path, allb)
        t0 = time.time()
        recs = vf.run_sharded(self.binary, lambda i, n: ["replay", cfgp, path, str(sweep), str(i), str(n)], shards=shards,
                              timeout=timeout)
        self.phase("replay", t0)
        recs = verdict_first(self.chk, recs)
        self.chk.absorb(recs, "replay of %d behaviours (rollback sweep level %d)" % (len(allb), sweep))
        return cfgp, allb

    def driver_once(self, cfgp, behs, sweep=1, env=None):
        p = os.path.join(vf.scratch(), "crstate-selftest-%d.jsonl" % self.rng.randrange(1 << 30))
        vf.write_json_lines(p, behs)
        recs, _ = vf.run_driver(self.binary, ["replay", cfgp, p, str(sweep)], env=env, timeout=600)
        return recs


def fast_behaviours(res, limit, rng):
    """vf.behaviours for large outputs: a behaviour is identified by its actions and arguments (the states are a
    function of them), prefixes of other behaviours are dropped, the rest is stratified by the kinds of the last step."""
    seen, behs = set(), []
    # very large outputs: only a seeded sample of the printed lines is parsed
    n = 0
    with open(res["outfile"], errors="replace") as f:
        for line in f:
            if line.startswith('<<"TRACE", '):
                n += 1
    pick_ = None
    if limit is not None and n > 5 * limit:
        pick_ = set(rng.sample(range(n), 5 * limit))
    i = -1
    with open(res["outfile"], errors="replace") as f:
        for line in f:
            if line.startswith('<<"TRACE", '):
                i += 1
                if pick_ is not None and i not in pick_:
                    continue
                b = json.loads(json.loads(line.rstrip("\n")[len('<<"TRACE", '):-2]))
                k = tuple(x["act"] + json.dumps(x["args"], sort_keys=True) for x in b)
                if k not in seen:
                    seen.add(k)
                    behs.append((k, b))
    prefixes = {k[:-1] for k, _ in behs}
    total = len(behs)
    behs = sorted((kb for kb in behs if kb[0] not in prefixes), key=lambda kb: kb[0])
    stats = dict(edges_total=n, parsed=total, maximal=len(behs))
    classes = {}
    for k, b in behs:
        classes.setdefault(strat(b), []).append((k, b))
    stats["classes"] = len(classes)
    if limit is not None and len(behs) > limit:
        per = max(2, limit // max(1, len(classes)))
        sel, rest = [], []
        for c in sorted(classes):
            v = classes[c]
            rng.shuffle(v)
            sel += v[:per]
            rest += v[per:]
        rng.shuffle(rest)
        behs = sorted((sel + rest)[:limit], key=lambda kb: kb[0])
    stats["selected"] = len(behs)
    return [b for _, b in behs], stats


def strat(b):
    """Classes for the stratified sample: the kinds of the last block (or Rollback)."""
    last = b[-1]
    if last.get("act") != "Block":
        return last.get("act", "?")
    ks = sorted(t.get("k", "?") + (":" + t["x"] if t.get("k") == "Tracking" else "") for t in last["args"]["txs"])
    return "+".join(ks) or "empty"


def verdict_first(chk, recs):
    """When the real code violates a property on some behaviours, its disagreements with the spec on others are
    consequences of the same defect, not a problem of the harness: the violations are the verdict."""
    if any(r.get("kind") == "violation" for r in recs):
        mism = [r for r in recs if r.get("kind") == "mismatch"]
        if mism:
            chk.notes.append("%d spec/real disagreements besides the violations, first: %s" % (len(mism), mism[0].get("what", "")[:300]))
        recs = [r for r in recs if r.get("kind") != "mismatch"]
    return recs


def rejected(recs):
    return any(r.get("kind") in ("violation", "mismatch") for r in recs)


def pick(behs, pred, rng):
    c = [b for b in behs if pred(b)]
    return json.loads(json.dumps(rng.choice(c))) if c else None


ASSUMPTIONS = [
    "bounds: 3 CR candidates/members (MemberCount 3, CRAgreementCount 2), 2 proposals with 3 budget stages (imprest, one normal "
    "payment, final) from {<<1,2,5>>, <<2,1,1>>, <<5,5,5>>} units against a stage amount of 80 units (10% cap = 8), 2 owners, "
    "2 stake addresses, <= 2 transactions per block; VotingPeriod 8, CRClaimPeriod 1, DutyPeriod 16, proposal voting periods 1, "
    "DepositLockupBlocks 2, ActivateDuration 6 (code constant)",
    "DPoS 2.0 rules from height 0 (Voting payloads, next-committee members, claim period); legacy TransferAsset vote outputs, "
    "illegal/inactive evidence from the DPoS layer (TryUpdateCRMemberInactivity/Illegal, not history based), custom-ID, "
    "side-chain, secretary-general and change-owner proposal types, CRAssetsRectify and ActivateProducer are not modelled",
    "pairs of transactions in one block are explored when they concern the same proposal / CR / voter (where the per-block "
    "rule matters); one Voting transaction per stake address per block",
    "the real checkers (SpecialContextCheck) are run for CRCProposal, review, tracking, withdraw, real withdraw and "
    "appropriation; RegisterCR/UpdateCR/UnregisterCR/Voting/ClaimNode/ReturnCRDeposit admission is the spec's transcription "
    "of their checkers (they need the DPoS state) and is not compared with the real checkers",
    "penalties are modelled only when they take a whole deposit (no block served / no proposal reviewed); ReturnDeposit is "
    "explored only while the locked deposit of the model is not negative (the code can drive DepositAmount below zero when "
    "an impeachment lands in the committee-change block; deposit accounting is another property)",
    "reject / impeachment votes in units of 2,000,000 ELA against a threshold of 10% of ~33 M ELA circulation (1 unit below, "
    "2 units at the threshold); the circulation formula itself is not modelled",
    "start states are reached by fixed block sequences (first election, appropriation, one proposal taken to VoterAgreed, "
    "second voting period) replayed on the real committee; rollbacks of the sweep reach into those blocks, RollbackTo(0) is "
    "excluded (Committee.RollbackTo(0) does not terminate: uint32 loop bound)",
]
