"""Shared recipe of C22 and C29: spec/Gov/CR.tla + Proposal.tla checked by TLC and replayed
on the real crstate.Committee by harness/cmd/crstate."""
import json, os, random, re, time
import vf

CONST = dict(NCR=3, NProps=2, NOwners=2, NVoters=2, MemberCount=3, AgreeCount=2, VotingPeriod=8, ClaimPeriod=1,
             DutyPeriod=16, Lockup=2, PropCRVote=1, PropPubVote=1, VotingStart=1, CommitteeStart=9, MaxTracking=4,
             RejectThreshold=2, WithdrawV1Height=0)

# Constant sets besides the default one (each is replayed by its own driver run: the driver's chain parameters are
# the spec's constants).
#   h2      two seats for three candidates (somebody is NOT elected: processCurrentCandidates has work to do, a canceled
#           candidate can coexist with a successful election); DepositLockupBlocks 1, so that in the second election
#           (candidates active from 21, voting ends at 24) a candidate can unregister at lockup distance 2, 1, 0 from the
#           end of the voting period without hitting its activation block (an UnregisterCR in the block that activates
#           the candidate is undone by the activation); a long council review period: the proposals of the "handover"
#           start states are decided in the blocks where the voting period ends (24) and the committee changes (25)
#   legacy  CRCProposalWithdrawPayloadV1Height = 16: withdrawals of blocks 14, 15 carry payload version 0 (they spend
#           the expenses address themselves), from 16 on version 1 (order + CRCProposalRealWithdraw)
VARIANTS = {
    "": {},
    "h2": dict(MemberCount=2, AgreeCount=2, PropCRVote=12, PropPubVote=1, Lockup=1),
    "legacy": dict(WithdrawV1Height=16),
}


def consts(variant=""):
    d = dict(CONST)
    d.update(VARIANTS[variant])
    return d

ALL_KINDS = ["RegisterCR", "UpdateCR", "UnregisterCR", "VoteCR", "Impeach", "Reject", "Proposal", "Close", "Review",
             "Tracking", "Withdraw", "RealWithdraw", "Approp", "Claim", "ReturnDeposit"]

MC = """---- MODULE MCCR ----
EXTENDS CR
MCBudgets == {%(budgets)s}
MCPatterns == {%(patterns)s}
====
"""

CFG = """SPECIFICATION %(spec)s
CONSTANTS
  CRs = {1, 2, 3}
  Props = {1, 2}
  Owners = {1, 2}
  Voters = {1, 2}
  AgreeCount = %(AgreeCount)d
  PropCRVote = %(PropCRVote)d
  PropPubVote = %(PropPubVote)d
  RejectThreshold = %(RejectThreshold)d
  MaxTracking = %(MaxTracking)d
  MemberCount = %(MemberCount)d
  VotingPeriod = %(VotingPeriod)d
  ClaimPeriod = %(ClaimPeriod)d
  DutyPeriod = %(DutyPeriod)d
  Lockup = %(Lockup)d
  ActivateDuration = 6
  VotingStart = %(VotingStart)d
  WithdrawV1Height = %(WithdrawV1Height)d
  CommitteeStart = %(CommitteeStart)d
  MaxSession = 3
  BudgetChoices <- MCBudgets
  VotePatterns <- MCPatterns
  Kinds = {%(kinds)s}
  Scenario = "%(scenario)s"
  MaxSteps = %(steps)d
  MaxTx = %(maxtx)d
  MaxRollbacks = %(rolls)d
  RollDepth = %(rolldepth)d
  DupRule = %(dup)s
VIEW view
INVARIANTS TypeOK HistConsistent VotesSane MembersSane %(dep)s %(inv)s
%(props)s
%(emit)s
CHECK_DEADLOCK FALSE
"""

C29_INV = ("C29PaidWithinApproved C29StagePaidOnce C29WithdrawnWasWithdrawable C29CommittedWithinAvailable "
           "C29PayableWithinWithdrawn")


def dup_rule_expected():
    """CheckDuplicateTx refuses a second withdrawal / tracking of one proposal in a block unless
    that is listed as an open finding (then the spec models the code as it is: DupRule = FALSE)."""
    return not any(k.get("key") in ("C29:double-withdraw-in-block", "C29:double-tracking-in-block")
                   and k.get("status", "open") == "open" for k in vf.load_known())


def cfg(scenario, kinds, steps, maxtx=2, rolls=1, rolldepth=3, emit="", inv=C29_INV, dup=None, sim=False,
        budgets=("<<1, 2, 5>>", "<<2, 1, 1>>", "<<5, 5, 5>>"), patterns=("<<1, 1, 1>>", "<<2, 1, 0>>", "<<0, 1, 1>>"),
        variant="", dep="C28CRDepositBalanceButKnown"):
    d = consts(variant)
    if dup is None:
        dup = dup_rule_expected()
    d.update(kinds=", ".join('"%s"' % k for k in kinds), scenario=scenario, steps=steps, maxtx=maxtx, rolls=rolls,
             rolldepth=rolldepth, dup="TRUE" if dup else "FALSE", inv=inv, dep=dep, spec="SimSpec" if sim else "Spec",
             props="PROPERTIES CheckpointLossless" if "Checkpoint" in kinds else "",
             emit={"": "", "all": "ACTION_CONSTRAINT Emit", "last": "ACTION_CONSTRAINT EmitLast"}[emit])
    return CFG % d, {"MCCR.tla": MC % dict(budgets=", ".join(budgets), patterns=", ".join(patterns))}


def run_tlc(chk, label, text_files, workers=8, timeout=1500, simulate=None, depth=None, seed_arg=None):
    text, files = text_files
    r = vf.tlc("Gov", "MCCR", "cr-%s.cfg" % re.sub(r"[^a-z0-9]+", "-", label.lower())[:40], cfg_text=text, files=files,
               workers=workers, timeout=timeout, simulate=simulate, depth=depth, seed_arg=seed_arg)
    vf.tlc_ok(r, label)
    chk.add_tlc(r, label)
    return r


def preamble_of(res):
    with open(res["outfile"], errors="replace") as f:
        for line in f:
            if line.startswith('<<"PREAMBLE", '):
                s = line.rstrip("\n")[len('<<"PREAMBLE", '):-2]
                return json.loads(json.loads(s))
    raise vf.Infra("TLC did not print the start-state blocks")


def driver_cfg(preambles, dup=None, variant=""):
    d = consts(variant)
    d["DupRule"] = dup_rule_expected() if dup is None else dup
    d["Preambles"] = preambles
    p = os.path.join(vf.scratch(), "crstate-cfg%s.json" % ("-" + variant if variant else ""))
    with open(p, "w") as f:
        json.dump(d, f)
    return p


CR_KINDS = ["RegisterCR", "UpdateCR", "UnregisterCR", "VoteCR", "Claim", "ReturnDeposit"]
PROP_KINDS = ["Proposal", "Review", "Reject", "Tracking", "Withdraw", "RealWithdraw", "Close"]


def as_is_inv():
    return C29_INV if dup_rule_expected() else "C29WithdrawnWasWithdrawable"


class Session:
    """One check run: TLC jobs (several at a time, 8 workers in total), the behaviours they print, the replay."""

    def __init__(self, chk, binary=None):
        self.chk = chk
        self.rng = random.Random(vf.seed())
        t0 = time.time()
        self.binary = binary or vf.go_build("crstate")
        self.phase("go build", t0)
        self.preambles = {}     # variant -> scenario -> start-state blocks
        self.behs = []          # (label, behaviours)
        self.variant_of = {}    # label -> variant
        self.jobs = []

    def phase(self, name, t0):
        self.chk.cov.setdefault("phases_s", []).append([name, round(time.time() - t0, 1)])

    def job(self, label, scenario, kinds, steps, emit="", workers=1, simulate=None, limit=None, rolls=1, maxtx=2, timeout=1500,
            rolldepth=3, variant=""):
        self.jobs.append(dict(label=label, scenario=scenario, kinds=kinds, steps=steps, emit=emit, workers=workers,
                              simulate=simulate, limit=limit, rolls=rolls, maxtx=maxtx, timeout=timeout, rolldepth=rolldepth,
                              variant=variant))

    def _run(self, j):
        text, files = cfg(j["scenario"], j["kinds"], j["steps"], maxtx=j["maxtx"], rolls=j["rolls"], emit=j["emit"],
                          inv=as_is_inv(), rolldepth=j["rolldepth"], sim=bool(j["simulate"]), variant=j["variant"])
        name = "cr-%s.cfg" % re.sub(r"[^a-z0-9]+", "-", j["label"].lower())[:48]
        r = vf.tlc("Gov", "MCCR", name, cfg_text=text, files=files, workers=j["workers"], timeout=j["timeout"],
                   jvm=("-Xmx4g", "-XX:ParallelGCThreads=2", "-XX:CICompilerCount=2"),
                   simulate=j["simulate"], depth=(j["steps"] + 40) if j["simulate"] else None,
                   seed_arg=vf.seed() if j["simulate"] else None)
        return j, r

    def run_jobs(self, parallel=4):
        import concurrent.futures
        t0 = time.time()
        vf._copy_spec(os.path.join(vf.SPEC, "Gov"))       # once, before the threads
        with concurrent.futures.ThreadPoolExecutor(max_workers=parallel) as ex:
            results = list(ex.map(self._run, self.jobs))
        self.jobs = []
        self.phase("tlc", t0)
        t0 = time.time()
        for j, r in results:
            vf.tlc_ok(r, j["label"])
            self.chk.add_tlc(r, j["label"])
            self.preambles.setdefault(j["variant"], {})[j["scenario"]] = preamble_of(r)
            self.variant_of[j["label"]] = j["variant"]
            if j["emit"]:
                behs, st = fast_behaviours(r, j["limit"], self.rng)
                st["label"] = j["label"]
                if j["variant"]:
                    st["constants"] = VARIANTS[j["variant"]]
                self.chk.cov.setdefault("extraction", []).append(st)
                self.behs.append((j["label"], behs))
        self.phase("parse behaviours", t0)

    def by_variant(self):
        """variant -> behaviours (the default constant set first)."""
        out = {}
        for label, behs in self.behs:
            out.setdefault(self.variant_of.get(label, ""), []).extend(behs)
        return {v: out[v] for v in sorted(out)}

    def replay(self, sweep, shards=8, timeout=3000):
        """Replays every behaviour; one driver run (sharded) per constant set.  Returns the driver configuration of the
        default constant set and its behaviours (what the self-tests use)."""
        import concurrent.futures
        t0 = time.time()
        cfgp0, allb0, recs = driver_cfg(self.preambles.get("", {})), [], []
        groups = self.by_variant()

        def one(variant):
            behs = groups[variant]
            cfgp = cfgp0 if variant == "" else driver_cfg(self.preambles[variant], variant=variant)
            path = os.path.join(vf.scratch(), "crstate-behaviours%s.jsonl" % ("-" + variant if variant else ""))
            vf.write_json_lines(path, behs)
            # the shards of a small constant set's run are fewer (all runs go on at the same time)
            n = shards if len(behs) > 600 else max(2, shards // 2)
            got = vf.run_sharded(self.binary, lambda i, k: ["replay", cfgp, path, str(sweep), str(i), str(k)], shards=n,
                                 timeout=timeout, env={"TMPDIR": tmpdir(variant)})
            for r in got:
                if r.get("kind") == "summary":
                    r["constants"] = variant or "default"
            return got, len(behs), variant

        def tmpdir(variant):
            # one per run (run_sharded removes a /dev/shm/verif-* directory when its run ends)
            base = "/dev/shm/verif-" if os.path.isdir("/dev/shm") else os.path.join(vf.scratch(), "tmp-")
            return base + os.path.basename(vf.scratch()) + "-" + (variant or "default")

        for v in groups:
            os.makedirs(tmpdir(v), exist_ok=True)
        with concurrent.futures.ThreadPoolExecutor(max_workers=max(1, len(groups))) as ex:
            recs = list(ex.map(one, list(groups)))
        allb0 = groups.get("", [])
        self.phase("replay", t0)
        # a violation anywhere makes the spec/real disagreements of all runs its consequences
        flat = verdict_first(self.chk, [r for got, _, _ in recs for r in got])
        keep = set(id(r) for r in flat)
        for got, n, variant in recs:
            self.chk.absorb([r for r in got if id(r) in keep], "replay of %d behaviours (rollback sweep level %d%s)" % (
                n, sweep, ", constant set " + variant if variant else ""))
        return cfgp0, allb0

    def driver_once(self, cfgp, behs, sweep=1, env=None):
        p = os.path.join(vf.scratch(), "crstate-selftest-%d.jsonl" % self.rng.randrange(1 << 30))
        vf.write_json_lines(p, behs)
        recs, _ = vf.run_driver(self.binary, ["replay", cfgp, p, str(sweep)], env=env, timeout=600)
        return recs


def fast_behaviours(res, limit, rng):
    """vf.behaviours for large outputs: a behaviour is identified by its actions and arguments (the states are a
    function of them), prefixes of other behaviours are dropped, the rest is stratified by the kinds of the last step."""
    seen, behs = set(), []
    # very large outputs: only a seeded sample of the printed lines is parsed
    n = 0
    with open(res["outfile"], errors="replace") as f:
        for line in f:
            if line.startswith('<<"TRACE", '):
                n += 1
    pick_ = None
    if limit is not None and n > 5 * limit:
        pick_ = set(rng.sample(range(n), 5 * limit))
    i = -1
    with open(res["outfile"], errors="replace") as f:
        for line in f:
            if line.startswith('<<"TRACE", '):
                i += 1
                if pick_ is not None and i not in pick_:
                    continue
                b = json.loads(json.loads(line.rstrip("\n")[len('<<"TRACE", '):-2]))
                k = tuple(x["act"] + json.dumps(x["args"], sort_keys=True) for x in b)
                if k not in seen:
                    seen.add(k)
                    behs.append((k, b))
    prefixes = {k[:-1] for k, _ in behs}
    total = len(behs)
    behs = sorted((kb for kb in behs if kb[0] not in prefixes), key=lambda kb: kb[0])
    stats = dict(edges_total=n, parsed=total, maximal=len(behs))
    classes = {}
    for k, b in behs:
        classes.setdefault(strat(b), []).append((k, b))
    stats["classes"] = len(classes)
    if limit is not None and len(behs) > limit:
        per = max(2, limit // max(1, len(classes)))
        sel, rest = [], []
        for c in sorted(classes):
            v = classes[c]
            rng.shuffle(v)
            sel += v[:per]
            rest += v[per:]
        rng.shuffle(rest)
        behs = sorted((sel + rest)[:limit], key=lambda kb: kb[0])
    stats["selected"] = len(behs)
    return [b for _, b in behs], stats


def _kinds(step):
    ks = sorted(t.get("k", "?") + (":" + t["x"] if t.get("k") == "Tracking" else "") for t in step["args"]["txs"])
    return "+".join(ks) or "empty"


def strat(b):
    """Classes for the stratified sample: the kinds of the last block; for a behaviour that ends with a rollback the
    kinds of the blocks it undoes (what is rolled back matters, not that something is); behaviours in which the
    spec's named deviation (kd) occurred are classes of their own."""
    last = b[-1]
    dev = "!dev" if last.get("kd") else ""
    if last.get("act") == "Block":
        return _kinds(last) + dev
    if last.get("act") == "Rollback":
        t = last["args"].get("t", 0)
        undone = [x for x in b[:-1] if x.get("act") == "Block" and x["args"].get("h", 0) > t]
        # (blocks of an earlier, already undone branch are above t as well: good enough for a class name)
        return "Rollback<" + "|".join(_kinds(x) for x in undone[-2:]) + dev
    return last.get("act", "?") + dev


def verdict_first(chk, recs):
    """When the real code violates a property on some behaviours, its disagreements with the spec on others are
    consequences of the same defect, not a problem of the harness: the violations are the verdict."""
    if any(r.get("kind") == "violation" for r in recs):
        mism = [r for r in recs if r.get("kind") == "mismatch"]
        if mism:
            chk.notes.append("%d spec/real disagreements besides the violations, first: %s" % (len(mism), mism[0].get("what", "")[:300]))
        recs = [r for r in recs if r.get("kind") != "mismatch"]
    return recs


def rejected(recs):
    return any(r.get("kind") in ("violation", "mismatch") for r in recs)


def pick(behs, pred, rng):
    c = [b for b in behs if pred(b)]
    return json.loads(json.dumps(rng.choice(c))) if c else None


ASSUMPTIONS = [
    "bounds: 3 CR candidates/members (MemberCount 3, CRAgreementCount 2), 2 proposals with 3 budget stages (imprest, one normal "
    "payment, final) from {<<1,2,5>>, <<2,1,1>>, <<5,5,5>>} units against a stage amount of 80 units (10% cap = 8), 2 owners, "
    "2 stake addresses, <= 2 transactions per block; VotingPeriod 8, CRClaimPeriod 1, DutyPeriod 16, proposal voting periods 1, "
    "DepositLockupBlocks 2, ActivateDuration 6 (code constant), CRVotingStartHeight 1, CRCommitteeStartHeight 9",
    "two further constant sets, each replayed by its own driver run: 'h2' = MemberCount 2 / CRAgreementCount 2 for the same 3 "
    "candidates (one is not elected), DepositLockupBlocks 1, ProposalCRVotingPeriod 12 (the proposals of the 'handover' start "
    "states are decided in the blocks where the voting period ends, 24, and the committee changes, 25); 'legacy' = "
    "CRCProposalWithdrawPayloadV1Height 16 (withdrawals of blocks 14, 15 carry payload version 0 and spend the expenses "
    "address themselves, from 16 on version 1 = order + CRCProposalRealWithdraw; a Rejected tracking below 16 is checked as "
    "a Progress one).  CRCProposal / review / tracking payloads are always version 01, CRInfo always the DID version",
    "DPoS 2.0 rules from height 0 (Voting payloads, next-committee members, claim period); legacy TransferAsset vote outputs, "
    "illegal/inactive evidence from the DPoS layer (TryUpdateCRMemberInactivity/Illegal, not history based), custom-ID, "
    "side-chain, secretary-general and change-owner proposal types, CRAssetsRectify and ActivateProducer are not modelled",
    "pairs of transactions in one block are explored when they concern the same proposal / CR / voter (where the per-block "
    "rule matters); one Voting transaction per stake address per block",
    "the real checkers (SpecialContextCheck; for CRCProposalWithdraw also HeightVersionCheck) are run for CRCProposal, review, "
    "tracking, withdraw, real withdraw and appropriation; RegisterCR/UpdateCR/UnregisterCR/Voting/ClaimNode/ReturnCRDeposit "
    "admission is the spec's transcription of their checkers (they need the DPoS state) and is not compared with the real "
    "checkers",
    "blocks and rollbacks reach the committee as in the node: checkpoint.Manager.OnBlockSaved -> cr Checkpoint.OnBlockSaved -> "
    "Committee.ProcessBlock, and one checkpoint.Manager.OnRollbackTo(height-1) per disconnected block (every second rollback "
    "asks the manager for the target in one call: the multi-height loop of Committee.RollbackTo).  Rollback targets include "
    "CRVotingStartHeight+1, CRVotingStartHeight and CRVotingStartHeight-1 (= 0: Checkpoint.OnRollbackTo resets the committee) "
    "at heights <= 5 and at the end of every behaviour, followed by processing all blocks again.  Checkpoint files are not "
    "written (NeedSave off); RestoreTo / OnRollbackSeekTo (not used by the node) are not exercised; CRVotingStartHeight is 1 in "
    "all runs (no ignored blocks below it)",
    "CR deposits (C28, CR side): after every block DepositInfo of every CR is checked on the real committee: DepositAmount, "
    "Penalty, TotalAmount >= 0, GetAvailableDepositAmount = total - locked - penalty and not above what the unspent outputs "
    "of the deposit address (driver's ledger) hold, TotalAmount = those outputs (keys C28:cr-...).  The model follows the "
    "code; its one known way to release a deposit twice (member impeached / terminated in the committee-change block) is the "
    "named deviation ReleasedTwice of CR.tla, reported from the real committee as "
    "C28:cr-deposit-negative:released-twice-at-committee-change.  Penalties are modelled only when they take a whole "
    "deposit (no block served / no proposal reviewed); ReturnDeposit is explored only while the locked deposit of the model is "
    "not negative",
    "an UnregisterCR in the block that activates the candidate (6th block after registration) is undone by the activation "
    "(updateVotingCandidatesState reads the pre-block state): the model transcribes that; lockup distances are therefore "
    "explored in the second election (candidates active from 21)",
    "reject / impeachment votes in units of 2,000,000 ELA against a threshold of 10% of ~33 M ELA circulation (1 unit below, "
    "2 units at the threshold); the circulation formula itself is not modelled",
    "start states are reached by fixed block sequences (first election, committee seated, appropriation, one proposal taken to "
    "VoterAgreed, second voting period, end of the first term with the second election decided) replayed on the real "
    "committee; rollbacks of the sweep reach into those blocks",
    "quick tier: behaviours of the exhaustive jobs are a seeded sample stratified by the kinds of the last block / of the "
    "blocks a final rollback undoes / the named deviation (all behaviours for the unregister-and-vote job around the end of "
    "the voting period)",
]
