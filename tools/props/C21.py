"""C21 - DPoS state after a rollback equals the state built directly.

 1. TLC checks spec/Consensus/DPoS.tla: State.ProcessBlock transcribed as "append
    closures computed from the pre-block state, execute them at commit", RollbackTo
    as "run the rollback closures of the heights above t, newest height first, each
    height in append order"; invariant RollbackExact: that mechanism gives the state
    built from the blocks <= t.
 2. The same run prints one behaviour per explored edge (block sequences over the
    full transaction alphabet, RollbackTo steps); each is replayed on the real
    state.Arbiters:
      (i)  differential oracle on the real code - after every RollbackTo step, and at
           the end of every behaviour for every target height within the span, the
           rolled-back instance is compared field by field (reflection over the live
           StateKeyFrame, the arbiters' CheckPoint, degradation state) with a fresh
           instance that processed only the blocks <= t; the undone blocks are then
           processed again and must give the uninterrupted state;
      (ii) the spec's abstract state (status, producer maps, heights, votes, amounts,
           vote rights, mode, irreversibility fields) equals the real one after every step.
 3. Several preludes (votes / penalties / cancellation / POW-DPOS switch / the first DPoS
    blocks after a whole POW period) move the free part of the exploration to where those
    mechanisms are live; simulation mode gives ~30-block sequences.
 4. The behaviours replayed are selected so that every change kind the spec logs for the
    last two blocks, and every combination of different changes one block applies to one
    producer / address / the mode fields, is present (dpos_common.pick); the harness keeps
    amounts the code treats separately different (vote output value vs. votes, registration
    output vs. locked deposit, stake output vs. change output).
"""
import json, os, random, sys
sys.path.insert(0, os.path.dirname(os.path.abspath(__file__)))
import vf
import dpos_common as dc

META = dict(
    text="TLC checks DPoS.tla (ProcessBlock = closures computed from the pre-block state and executed at commit; RollbackTo = the "
         "rollback closures in the code's order; invariant: the result equals the state built from the blocks up to the target) and "
         "every explored block sequence over the full DPoS transaction alphabet is replayed on the real state.Arbiters: after every "
         "rollback the instance is compared field by field with a freshly built one, undone blocks are re-processed, and the spec's "
         "abstract state is compared after every step.",
    note="Unit-level (synthetic blocks, arbiter election kept quiescent); bounded: 3 producers, 2 stake addresses, <= 2 items per block, "
         "1-4 free blocks after fixed preludes (up to height 20, past a whole POW period) exhaustively, ~30-block sequences by simulation; "
         "a stratified part of the printed behaviours is replayed; rollback closures recorded as inexact (known findings) are excluded "
         "from the model invariant, not from the comparison on the real code.",
    technique="TLA+ model of the change-history mechanism (TLC exhaustive + simulation) + per-edge behaviour replay with a "
              "differential rollback oracle on the real code",
)


def selftest(chk, behs, prelude):
    # binding self-test: corrupt one expected field of a rollback step -> the driver must object
    cand = [b for b in behs if any(s.get("act") == "RollbackTo" for s in b)]
    if not cand:
        raise vf.Infra("no behaviour with a RollbackTo step for the self-test")
    bad = json.loads(json.dumps(cand[len(cand) // 2]))
    for s in bad:
        if s.get("act") == "RollbackTo":
            s["st"]["lastIrr"] += 3
            s["st"]["pr"]["p1"]["total"] = s["st"]["pr"]["p1"].get("total", 0) + 1
            break
    recs = dc.replay(chk, [bad], prelude, "selftest")
    chk.selftest("replay: expected state after RollbackTo corrupted",
                 any(x.get("kind") == "violation" and x.get("key", "").startswith("C21:rollback-spec") for x in recs))
    bad2 = json.loads(json.dumps(cand[0]))
    blk = [s for s in bad2 if s.get("act") == "Block" and s.get("applied") and s["h"] > 6]
    if blk:
        blk[-1]["st"]["dposStart"] += 1
        recs = dc.replay(chk, [bad2], prelude, "selftest2")
        chk.selftest("replay: expected state after a block corrupted", any(x.get("kind") in ("mismatch", "violation") for x in recs))


def run(chk):
    thorough = chk.tier == "thorough"
    rng = random.Random(vf.seed())
    dc.driver()
    K = dc.ALL_KINDS

    # exhaustive + per-edge replay over the whole alphabet; the preludes move the free blocks to
    # where votes / penalties / cancellation / the POW-DPOS switch are live
    # job = (label, prelude, kinds, last height, items per block, rollbacks, behaviours replayed, sweep span, print 1 edge in N)
    big = []
    if thorough:
        jobs = [("basic", "basic", K, 8, 1, 1, 2500, 6, 1), ("basic-deep", "basic", K, 9, 1, 1, 2500, 6, 25),
                ("votes", "votes", K, 10, 1, 1, 2500, 6, 2), ("votes-pairs", "votes", K, 9, 2, 1, 1500, 6, 1),
                ("penalty", "penalty", K, 11, 1, 1, 2000, 6, 1), ("penalty-pairs", "penalty", K, 10, 2, 1, 700, 6, 1),
                ("cancel-pairs", "cancel", K, 12, 2, 1, 2500, 6, 4), ("mode", "mode", K, 18, 1, 1, 1500, 6, 2),
                # past the POW period: block DPOSWorkHeight + 1 = 19 and what follows it
                ("switch", "switch", K, 20, 1, 1, 1500, 6, 1), ("switch-pairs", "switch", K, 19, 2, 1, 1000, 6, 1),
                # a producer with a stale activation request / an earlier cancellation (captured values that are not the defaults)
                ("reactivate", "reactivate", K, 18, 1, 1, 800, 6, 1),
                # expiry of a v2 producer and of its votes (block 11), automatic activation of an inactive producer (block 13)
                ("late", "late", K, 13, 1, 1, 1200, 6, 1)]
        # model checking only: two free blocks of pairs, the POW-DPOS switch with three free blocks
        big = [("basic-pairs", "basic", K, 8, 2, 1), ("mode-deep", "mode", K, 19, 1, 1), ("cancel-pairs", "cancel", K, 12, 2, 1)]
    else:
        jobs = [("basic", "basic", K, 8, 1, 1, 240, 4, 1), ("votes", "votes", K, 10, 1, 1, 220, 4, 4),
                ("cancel", "cancel", K, 11, 2, 1, 200, 4, 1),
                # heights 19-20 after the forced POW period (7..18); the sweep rolls back across block 19
                ("switch", "switch", K, 20, 1, 1, 150, 4, 5),
                # a producer with a stale activation request / an earlier cancellation (captured values that are not the defaults)
                ("reactivate", "reactivate", K, 18, 1, 1, 100, 4, 3),
                # expiry of a v2 producer and of its votes (block 11), automatic activation of an inactive producer (block 13)
                ("late", "late", K, 13, 1, 1, 120, 4, 3)]
    # simulation (long sequences) runs beside the exhaustive jobs
    import concurrent.futures
    num = 60 if thorough else 8
    vf._copy_spec(os.path.join(vf.SPEC, "Consensus"))
    with concurrent.futures.ThreadPoolExecutor(max_workers=3) as ex:
        sims = [ex.submit(dc.simulate, chk, "sim", "basic", K, 30 if thorough else 24, num, vf.seed())]
        if thorough:   # one transaction per block: cheaper steps, more sequences
            sims.append(ex.submit(dc.simulate, chk, "sim-single", "basic", K, 30, 250, vf.seed() + 1, 1))
            # 12 random blocks after the forced POW period
            sims.append(ex.submit(dc.simulate, chk, "sim-switch", "switch", K, 30, 40, vf.seed() + 2))
        xh = ex.submit(dc.exhaustive_all, chk, big) if big else None
        allbehs = dc.explore_all(chk, jobs, parallel=3 if thorough else 6)
        simres = [f.result() for f in sims]
        if xh:
            xh.result()
    for behs, recs in simres:
        chk.absorb(recs, "replay simulated sequences")
    selftest(chk, allbehs[0], "basic")
    chk.assumptions += dc.ASSUMPTIONS + [
        "TLC bounds: preludes of 6-18 forced blocks (basic / votes / cancel / switch = a whole POW period 7..18 with the free blocks "
        "starting at DPOSWorkHeight+1 = 19 / reactivate = a producer with a stale activation request and an earlier cancellation / "
        "late = expiry of a v2 producer and its votes at 11, automatic re-activation at 13), then "
        "1-2 (quick) / 1-3 (thorough) free blocks exhaustively with 1 (quick; 2 after the cancel prelude) or 2 items per block and one "
        "RollbackTo of up to 4 heights (never below the prelude); the replay sweeps rollback targets up to 4 (quick) / 6 (thorough) heights "
        "back - into the prelude - at the end of every behaviour; of the printed behaviours 100-240 per configuration (quick; thorough "
        "700-2500) are replayed, chosen so that every change kind and every same-subject combination of change kinds of the last two "
        "blocks occurs; simulation: %d sequences of 24-30 blocks with up to 2 rollbacks (thorough: plus 250 single-transaction-per-block "
        "sequences and 40 sequences continuing 12 blocks after the POW period)" % num,
        "harness amounts: a v1 vote of a2 is a VoteProducerAndCRVersion output of 7 ELA carrying 3 ELA of votes, a v1 vote of a1 a "
        "version-0 output of 3 ELA (counted by value) carrying a different per-candidate amount; a registration pays 1 ELA more than the "
        "locked minimum deposit; a stake transaction has a change output of a different value; a Voting (DPoS v2) transaction carries one "
        "candidate, so the sum of a content's votes and the per-candidate votes coincide (not separated)",
        "blocks that change the status of one producer twice are a named deviation of the spec (not applied; shown on the real code by "
        "the driver with a fixed follow-up block), as is the repeated expiry of a v2 producer (expProdAgain)",
    ]
    return chk.finish(exhaustive=False)
