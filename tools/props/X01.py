"""X01 - life cycle of a P2P connection (p2p/peer): version / verack handshake, keep-alive, timeouts, disconnect.

Additional coverage beyond the listed properties (not in MANIFEST.json).

 1. spec/Edge/Handshake.tla: two peers (outbound / inbound / raw remote) joined by two FIFO
    channels, one action per step of the goroutines of p2p/peer/peer.go.  TLC checks the safety
    properties exhaustively for small bounds, shows with the two named deviations switched on that
    the properties have teeth, and shows non-vacuity (two correct peers can and, with fair steps and
    no timer, do complete the handshake).
 2. harness/cmd/handshake records REAL peers -- pairs over net.Pipe / loopback TCP, or one peer
    against a scripted raw remote (verack first, duplicate version, a non-handshake message first,
    silence until the negotiate / idle timer, the peer's own nonce, seeded random schedules) -- one
    event per spec action, and monitors the safety properties on the events.
 3. The concatenated trace is validated against TraceHandshake.tla (POSTCONDITION TraceAccepted).
 4. Binding self-tests: single recorded fields are corrupted and TLC must reject the trace; the
    driver's monitors must object to corrupted events.
"""
import json, os, random, re
import vf

META = dict(
    text="Handshake.tla models the connection life cycle of p2p/peer step by step (negotiation goroutine, inHandler, "
         "outHandler, timers, user calls; roles outbound / inbound / raw remote).  TLC exhaustively checks: the handshake is "
         "reported done only after the remote version AND verack were received; handlers run and anything but a version "
         "reaches MessageFunc only once the version is known; negotiated version = min(own, advertised) and both sides "
         "agree; a connection of a node to itself (nonce of the node's own version message) is never established; an "
         "inbound peer never speaks first; a second verack / version is never delivered and never renegotiates; after "
         "Disconnect nothing is read or written and at most the message being handled is delivered; two correct peers can "
         "and (fair steps, no timer) do end connected.  Real peer pairs (net.Pipe, TCP) and real peers facing scripted raw "
         "remotes are recorded event by event, monitored for these properties and validated as traces of the spec.",
    note="Bounded model (<= 2 messages in flight per direction, <= 3-4 raw messages, 1-2 pings); the recorded runs use the verif-tag hook "
         "p2p/peer/hook_x01_verif.go to shorten the negotiate / idle timers; the ping ticker is replaced by the harness "
         "queueing pings; framing errors other than a wrong checksum are C35's subject.",
    technique="TLA+ protocol model (TLC exhaustive + liveness) + trace validation of recorded real peer pairs and "
              "adversarial raw-remote scripts + run-time monitors of the spec's safety properties",
)

INVS = ("TypeOK HandshakeOrder StartedOnlyWithVersion NothingBeforeVersion NegotiatedIsMin NegotiatedAgree "
        "NoSelfConnection InboundSpeaksSecond OneVerack LateDelivery")
PROPS = "QuietAfterDisconnect Frozen VerAckMonotone"

MC = """---- MODULE HandshakeMC ----
EXTENDS Handshake
MCAll == {<<"out","in">>, <<"raw","in">>, <<"out","raw">>, <<"out","out">>, <<"in","in">>}
MCHonest == {<<"out","in">>}
MCRawIn == {<<"raw","in">>}
====
"""

CFG = """SPECIFICATION %(spec)s
CONSTANTS
  Setups <- %(setups)s
  Vers = {1, 2}
  UpVer = %(upver)d
  SameNode = %(same)s
  MaxChan = %(chan)d
  MaxPing = %(ping)d
  MaxRaw = %(raw)d
  Timeouts = %(timeouts)s
  UserDisc = %(user)s
  DevRejectNil = %(dev1)s
  DevNoNonceReg = %(dev2)s
%(invs)s
%(props)s
CHECK_DEADLOCK FALSE
"""


def cfg(setups="MCAll", upver=0, same="{FALSE, TRUE}", chan=2, ping=1, raw=3, timeouts=True, user=True,
        dev1=False, dev2=False, invs=INVS, props=PROPS, spec="Spec"):
    b = lambda x: "TRUE" if x else "FALSE"
    return CFG % dict(setups=setups, upver=upver, same=same, chan=chan, ping=ping, raw=raw, timeouts=b(timeouts),
                      user=b(user), dev1=b(dev1), dev2=b(dev2), spec=spec,
                      invs=("INVARIANTS " + invs) if invs else "", props=("PROPERTIES " + props) if props else "")


TRACE_CFG = """SPECIFICATION TraceSpec
CONSTANTS
  Setups = {}
  Vers = {}
  UpVer = 0
  SameNode = {}
  MaxChan = 100000
  MaxPing = 100000
  MaxRaw = 100000
  Timeouts = TRUE
  UserDisc = TRUE
  DevRejectNil = %(dev)s
  DevNoNonceReg = %(dev)s
  TraceFile = "%(file)s"
VIEW TraceView
CONSTRAINT HighWater
%(invs)s
POSTCONDITION TraceAccepted
CHECK_DEADLOCK FALSE
"""
TRACE_INVS = ("INVARIANTS TypeOK HandshakeOrder StartedOnlyWithVersion NothingBeforeVersion NegotiatedIsMin "
              "NoSelfConnection InboundSpeaksSecond OneVerack LateDelivery")


def violated(r):
    with open(r["outfile"], errors="replace") as f:
        for line in f:
            m = re.match(r"Error: Invariant (\w+) is violated", line)
            if m:
                return m.group(1)
    return None


def split_runs(path):
    runs, cur = [], None
    for line in open(path):
        if not line.strip():
            continue
        e = json.loads(line)
        if e["ev"] == "Reset":
            cur = [e]
            runs.append(cur)
        else:
            cur.append(e)
    return runs


def write_runs(path, runs):
    with open(path, "w") as f:
        for r in runs:
            for e in r:
                f.write(json.dumps(e) + "\n")
    return sum(len(r) for r in runs)


def validate(chk, runs, name, dev=False, invs=True, label=None):
    path = os.path.join(vf.scratch(), name + ".ndjson")
    n = write_runs(path, runs)
    r = vf.tlc("Edge", "TraceHandshake", name + ".cfg",
               cfg_text=TRACE_CFG % dict(dev="TRUE" if dev else "FALSE", file=path, invs=TRACE_INVS if invs else ""),
               workers=1, timeout=1500)
    if r["timed_out"]:
        raise vf.Infra("trace validation timed out")
    if label:
        chk.add_tlc(r, "%s (%d runs, %d events)" % (label, len(runs), n))
    return r, n


def rejected_run(r, runs):
    """The run containing the first event TLC could not match (depth - 1 events were consumed)."""
    m = re.search(r'"REJECTED_AT_LINE", (\d+)', open(r["outfile"], errors="replace").read())
    line = int(m.group(1)) if m else max(r["depth"], 1)
    k = 0
    for run in runs:
        if k + len(run) >= line:
            return run, line - k - 1
        k += len(run)
    return runs[-1], len(runs[-1]) - 1


def run(chk):
    thorough = chk.tier == "thorough"
    rng = random.Random(vf.seed())
    binary = vf.go_build("handshake")
    files = {"HandshakeMC.tla": MC}

    # 1. exhaustive safety
    big = dict(chan=2, ping=2, raw=4) if thorough else dict(chan=2, ping=1, raw=3)
    r = vf.tlc("Edge", "HandshakeMC", "mc.cfg", cfg_text=cfg(**big), files=files, workers=16, timeout=3000)
    vf.tlc_ok(r, "Handshake exhaustive")
    chk.add_tlc(r, "exhaustive Handshake.tla, all role pairs, in flight <= %(chan)d, pings <= %(ping)d, raw messages <= %(raw)d" % big)
    r = vf.tlc("Edge", "HandshakeMC", "up.cfg", cfg_text=cfg(setups="MCHonest", upver=3, same="{FALSE}", chan=3 if thorough else 2, ping=2 if thorough else 1),
               files=files, workers=8, timeout=1500)
    vf.tlc_ok(r, "Handshake exhaustive (version upgrade)")
    chk.add_tlc(r, "exhaustive, two correct peers, advertised version may be the upgraded one")

    # the properties have teeth: with a named deviation switched on TLC must refute them
    teeth = [("DevRejectNil", dict(dev1=True, setups="MCRawIn", same="{FALSE}"), "HandshakeOrder"),
             ("DevNoNonceReg", dict(dev2=True, setups="MCHonest"), "NoSelfConnection"),
             ("version upgrade", dict(setups="MCHonest", upver=3, same="{FALSE}"), "NegotiatedAgreeAlways")]
    if thorough:
        teeth += [("DevRejectNil", dict(dev1=True, setups="MCRawIn", same="{FALSE}"), "NothingBeforeVersion"),
                  ("DevRejectNil", dict(dev1=True, setups="MCRawIn", same="{FALSE}"), "StartedOnlyWithVersion")]
    for name, kw, inv in teeth:
        r = vf.tlc("Edge", "HandshakeMC", "dev.cfg", cfg_text=cfg(invs=inv, props="", **kw), files=files, workers=4, timeout=900)
        chk.add_tlc(r, "%s refutes %s" % (name, inv))
        chk.selftest("spec with %s violates %s" % (name, inv), violated(r) == inv)
    # non-vacuity: the handshake can complete, pings are answered ...
    for inv in (("NeverBothEstablished", "NeverPong") if thorough else ("NeverBothEstablished",)):
        r = vf.tlc("Edge", "HandshakeMC", "reach.cfg", cfg_text=cfg(setups="MCHonest", same="{FALSE}", invs=inv, props=""),
                   files=files, workers=4, timeout=900)
        chk.add_tlc(r, "reachability: %s refuted" % inv)
        chk.selftest("reachable: not " + inv, violated(r) == inv)
    # ... and with fair protocol steps, no timer, no user disconnect it does complete
    r = vf.tlc("Edge", "HandshakeMC", "live.cfg",
               cfg_text=cfg(setups="MCHonest", same="{FALSE}", timeouts=False, user=False, invs="", props="EventuallyEstablished",
                            spec="FairSpec", ping=2 if thorough else 1),
               files=files, workers=4, timeout=1500)
    vf.tlc_ok(r, "Handshake liveness")
    chk.add_tlc(r, "liveness: two correct peers eventually stay established (WF of the protocol steps)")

    # 2. record real peers
    tr = os.path.join(vf.scratch(), "trace.ndjson")
    recs, _ = vf.run_driver(binary, ["record", chk.tier, tr], timeout=1500)
    chk.absorb(recs, "recorded runs of real peers")
    summ = next(x for x in recs if x.get("kind") == "summary")
    chk.cov["events_by_kind"] = summ.get("events_by_kind")
    chk.cov["unsettled_runs"] = summ.get("unsettled_names") or []
    runs = split_runs(tr)
    bad_ids = set(summ.get("runs_with_violation") or [])
    good = [x for x in runs if x[0]["run"] not in bad_ids]
    bad = [x for x in runs if x[0]["run"] in bad_ids]

    # 3. trace validation
    r, n = validate(chk, good, "good", label="trace validation")
    accepted = r["rc"] == 0
    if not accepted:
        run_, idx = rejected_run(r, good)
        inv = violated(r)
        idx = max(0, min(idx, len(run_) - 1))
        case = dict(scenario=run_[0].get("name"), setup=run_[0], events=run_[1:idx + 1], rejected_event=run_[idx])
        if inv:
            chk.violations.append(("X01:trace-invariant:" + inv, "recorded run %r of real peers violates %s of Handshake.tla"
                                   % (run_[0].get("name"), inv), case))
        else:
            chk.mismatches = getattr(chk, "mismatches", []) + [dict(
                kind="mismatch", what="recorded run %r is not a behaviour of Handshake.tla: event %d %s" % (
                    run_[0].get("name"), idx, json.dumps(case["rejected_event"])), case=case)]
    if bad:
        # runs in which the monitors found a violation: does the spec with the named deviations explain them?
        r2, _ = validate(chk, bad, "deviant", dev=True, invs=False, label="runs with violations against the spec with deviations")
        chk.notes.append("%d recorded runs violate a property; the spec with DevRejectNil/DevNoNonceReg switched on %s them"
                         % (len(bad), "explains" if r2["rc"] == 0 else "does not explain all of"))

    # 4. binding self-tests (on a tree where the trace was accepted)
    if accepted:
        def mutate(pick, change, name):
            rs = json.loads(json.dumps(good))
            cands = [(i, j) for i, x in enumerate(rs) for j, e in enumerate(x) if pick(x, j, e)]
            i, j = cands[rng.randrange(len(cands))]
            change(rs[i], j)
            r3, _ = validate(chk, rs[i:i + 1], "bad-" + re.sub(r"\W+", "-", name)[:24])
            chk.selftest("trace: " + name, r3["rc"] != 0)

        mutate(lambda x, j, e: e["ev"] == "Deliver" and e["k"] == "version",
               lambda x, j: x[j].__setitem__("pv", x[j]["pv"] + 1), "negotiated version of one Deliver event +1")
        mutate(lambda x, j, e: e["ev"] == "Deliver" and e["k"] == "verack" and e["vk"],
               lambda x, j: x[j].__setitem__("vk", False), "VersionKnown of one verack delivery set to false")
        mutate(lambda x, j, e: e["ev"] == "Read" and e["k"] == "verack",
               lambda x, j: x[j].__setitem__("k", "ping"), "kind of one Read event changed")
        if thorough:
            mutate(lambda x, j, e: e["ev"] == "Send" and e["k"] == "version" and x[0]["role" + e["p"]] != "raw",
                   lambda x, j: x.pop(j), "one Send(version) event dropped")
            mutate(lambda x, j, e: e["ev"] == "Deliver" and e["k"] == "ping" and j + 1 < len(x),
                   lambda x, j: x.insert(j, dict(x[j])), "one ping delivered twice")
    recs, _ = vf.run_driver(binary, ["selftest"], timeout=600)
    for x in recs:
        if x.get("kind") == "selftest":
            chk.selftest("monitor: " + x["name"], x["rejected"])

    chk.assumptions += [
        "model bounds: messages in flight per direction <= %(chan)d, pings per peer <= %(ping)d, messages of a raw remote <= %(raw)d; "
        "two protocol versions (plus the upgraded one for two correct peers)" % big,
        "recorded runs: the connection handed to a peer is wrapped by a tap that logs a frame when it is handed over / completely "
        "consumed and refuses reads and writes once Close was logged (the atomicity the spec gives Disconnect); the total order of "
        "events is the order of one mutex, consistent with causality",
        "timers: negotiate / idle durations are shortened through the verif-tag hook (40 ms) in the timer scenarios and long "
        "(20 s / 1 h) elsewhere; the ping ticker never fires, pings are queued by the harness through QueueMessage as pingHandler does",
        "a raw remote's refused frame is one with a wrong checksum; other framing errors are covered by C35",
        "the code does not gate processing on the verack: a peer whose version is known handles pings and upper-layer messages "
        "before (or without) a verack, and a pong is accepted without a matching ping -- modelled as the code does, not claimed as properties",
    ]
    return chk.finish(exhaustive=False)
