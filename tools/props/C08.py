"""C08 - SPV merkle proofs are sound and complete.

 1. TLC checks spec/Edge/MerkleBlock.tla: the partial-merkle-tree builder, the checker's
    stack machine, branch extraction and branch evaluation transcribed over a symbolic
    collision-free hash, for every tree shape n <= MaxN, every match pattern and every
    single-field corruption of the served message (properties Complete, Sound,
    CorruptionDetected, BranchesSound, RootsAgree, NoPanic).
 2. Every enumerated case is executed on the real functions (bloom.NewMerkleBlock,
    filter.NewMerkleBlock, both CheckMerkleBlock copies, GetTxMerkleBranch,
    auxpow.GetMerkleRoot, crypto.ComputeRoot) and compared with the spec's outcome.
 3. thorough: n = 10..12 for all match patterns, and a seeded simulation of corrupted
    messages for those sizes.
"""
import os, random, json
import vf

META = dict(
    text="The partial merkle tree builder, the checker's stack machine (dead zones, odd widths), branch extraction and "
         "branch evaluation are transcribed into TLA+ over a symbolic collision-free hash; TLC checks completeness, "
         "soundness under every single-field corruption and branch correctness for all trees up to 9 (12) transactions and "
         "all match patterns, and each enumerated case is executed on bloom/filter NewMerkleBlock, CheckMerkleBlock, "
         "GetTxMerkleBranch, auxpow.GetMerkleRoot and crypto.ComputeRoot with every output compared.",
    note="Trusts TLC, the symbolic-hash abstraction (sha256d collision-free) and that a message's transaction count is the "
         "block's; bounded to <= 9 transactions exhaustively with corruptions, <= 12 without / by simulation.",
    technique="TLA+ transcription of the decision procedures (TLC exhaustive over tree shapes, match patterns, corruption "
              "classes) + per-case replay on the real functions",
)

ALL_KINDS = ["none", "flip", "rephash", "drophash", "addhash", "inshash", "swaphash", "duphash", "ntx", "root",
             "noflags", "truncflags", "dupleaf"]

CFG = """SPECIFICATION Spec
CONSTANTS
  MinN = %(minn)d
  MaxN = %(maxn)d
  Kinds = {%(kinds)s}
VIEW view
INVARIANTS RootsAgree Complete Sound CorruptionDetected NoPanic BranchesSound
%(emit)s
CHECK_DEADLOCK FALSE
"""


def cfg(minn, maxn, kinds, emit=True):
    return CFG % dict(minn=minn, maxn=maxn, kinds=", ".join('"%s"' % k for k in kinds),
                      emit="ACTION_CONSTRAINT Emit" if emit else "")


def case_class(b):
    return b[-1]["args"]["kind"]


def absorb(chk, recs, label):
    """A property violation takes precedence over model mismatches of the same run (the shared absorb stops at
    the first mismatch): when the driver found violations that are not known findings, its mismatch records
    are set aside and noted, so that the check ends with VIOLATION / exit 1 rather than exit 2."""
    known = {k["key"] for k in chk.known}
    fresh = [r for r in recs if r.get("kind") == "violation" and r.get("key") not in known]
    mism = [r for r in recs if r.get("kind") == "mismatch"]
    if fresh and mism:
        chk.notes.append("%s: %d model mismatches set aside because the run found violations" % (label, len(mism)))
        recs = [r for r in recs if r.get("kind") != "mismatch"]
    chk.absorb(recs, label)


def run(chk):
    thorough = chk.tier == "thorough"
    rng = random.Random(vf.seed())
    binary = vf.go_build("merkleblock")

    runs = []
    if thorough:
        runs.append((1, 9, ALL_KINDS, None, "n<=9, all match patterns, all corruption kinds"))
        runs.append((10, 12, ["none"], None, "n=10..12, all match patterns, served message"))
    else:
        runs.append((1, 6, ALL_KINDS, None, "n<=6, all match patterns, all corruption kinds"))
        runs.append((7, 9, ["none"], None, "n=7..9, all match patterns, served message"))
    last = None
    for i, (lo, hi, kinds, limit, label) in enumerate(runs):
        r = vf.tlc("Edge", "MerkleBlock", "mb%d.cfg" % i, cfg_text=cfg(lo, hi, kinds), workers=8, timeout=2400,
                   jvm=("-XX:ParallelGCThreads=4",))
        vf.tlc_ok(r, "MerkleBlock " + label)
        chk.add_tlc(r, "exhaustive + extraction: " + label)
        behs, st = vf.behaviours(r, limit=limit, rng=rng, strat_key=case_class)
        chk.cov.setdefault("extraction", []).append(dict(label=label, **st))
        path = os.path.join(vf.scratch(), "mb-%d.jsonl" % i)
        vf.write_json_lines(path, behs)
        recs, _ = vf.run_driver(binary, ["replay", path])
        absorb(chk, recs, "replay " + label)
        if i == 0:
            last = behs

    if thorough:
        # corrupted messages for the larger trees: seeded simulation (every run = one case)
        r = vf.tlc("Edge", "MerkleBlock", "mbsim.cfg", cfg_text=cfg(10, 12, [k for k in ALL_KINDS if k != "none"]),
                   workers=1, timeout=2400, simulate="num=20000", depth=2, seed_arg=vf.seed())
        vf.tlc_ok(r, "MerkleBlock simulation")
        behs, st = vf.behaviours(r, limit=None, strat_key=case_class)
        chk.cov.setdefault("extraction", []).append(dict(label="simulation n=10..12 corrupted", **st))
        path = os.path.join(vf.scratch(), "mb-sim.jsonl")
        vf.write_json_lines(path, behs)
        recs, _ = vf.run_driver(binary, ["replay", path])
        absorb(chk, recs, "replay simulated corrupted messages n=10..12")

    # binding self-tests: (a) an accepted corruption (an unread appended hash) relabelled as rejected ->
    # "real accepts where the spec rejects"; (b) one matched id removed from an expected result
    add = [b for b in last if b[-1]["args"]["kind"] == "addhash"]
    bad = json.loads(json.dumps(add[len(add) // 2]))
    bad[-1]["exp"]["v"] = "err"
    p1 = os.path.join(vf.scratch(), "mb-bad1.jsonl")
    vf.write_json_lines(p1, [bad])
    recs, _ = vf.run_driver(binary, ["replay", p1])
    chk.selftest("replay: spec verdict of an accepted message flipped to reject",
                 any(x.get("kind") == "violation" for x in recs))
    hon = [b for b in last if b[-1]["args"]["kind"] == "none" and len(b[-1]["exp"]["matched"]) >= 2]
    bad = json.loads(json.dumps(hon[len(hon) // 2]))
    bad[-1]["exp"]["matched"] = bad[-1]["exp"]["matched"][:-1]
    p2 = os.path.join(vf.scratch(), "mb-bad2.jsonl")
    vf.write_json_lines(p2, [bad])
    recs, _ = vf.run_driver(binary, ["replay", p2])
    chk.selftest("replay: one expected matched id removed", any(x.get("kind") == "violation" for x in recs))

    # the filter half of "exactly the transactions that matched": which transactions of a block match a bloom
    # filter is Bloom.tla's MatchTx rule (id, paying output, spend of an output matched earlier in the block with
    # the filter update modes).  Behaviours of Bloom.tla whose additions come first and whose MatchTx steps name
    # distinct transactions are served as one block through both NewMerkleBlock copies on real filters of every
    # size / hash count / tweak; every transaction the rule says matches has to be recoverable from the message.
    import importlib.util
    _sp = importlib.util.spec_from_file_location("prop_C39", os.path.join(os.path.dirname(__file__), "C39.py"))
    c39 = importlib.util.module_from_spec(_sp)
    _sp.loader.exec_module(c39)
    bbin = vf.go_build("bloom")
    rb = vf.tlc("Edge", "Bloom", "blk.cfg", cfg_text=c39.cfg(6 if thorough else 5, 2, emit="Emit"), workers=8, timeout=1500,
                jvm=("-XX:ParallelGCThreads=4",))
    vf.tlc_ok(rb, "Bloom exhaustive (block shapes)")
    chk.add_tlc(rb, "Bloom.tla edges used as blocks (additions first, then distinct transactions)")

    def block_shaped(b):
        if b[0].get("side"):
            return False
        acts = [x["act"] for x in b]
        k = len([a for a in acts if a == "Add"])
        txs = [x["args"]["tx"] for x in b if x["act"] == "MatchTx"]
        if any(x not in ("Add", "MatchTx") for x in acts):
            return False
        return acts[:k] == ["Add"] * k and len(txs) >= 2 and len(set(txs)) == len(txs) and any(x.get("must") for x in b[k:])
    bb, stb = vf.behaviours(rb, dedupe_prefixes=True)
    bb = [b for b in bb if block_shaped(b)]
    if not thorough and len(bb) > 600:
        rng.shuffle(bb)
        bb = bb[:600]
    chk.cov["filter_blocks"] = len(bb)
    pb = os.path.join(vf.scratch(), "mb-blocks.jsonl")
    vf.write_json_lines(pb, bb)
    recs, _ = vf.run_driver(bbin, ["block", pb, "thorough" if thorough else "quick"])
    absorb(chk, recs, "blocks served for real bloom filters: every matching transaction is recoverable")
    fm = next(b for b in bb if sum(1 for x in b if x.get("act") == "MatchTx" and x.get("must")) >= 1)
    bad = json.loads(json.dumps(fm))
    for x in bad:
        if x["act"] == "MatchTx":
            x["must"] = True
            x["why"] = "forced"
    bad = [x for x in bad if x["act"] != "Add"]
    p3 = os.path.join(vf.scratch(), "mb-bad3.jsonl")
    vf.write_json_lines(p3, [bad])
    recs, _ = vf.run_driver(bbin, ["block", p3, "quick"])
    chk.selftest("block: every transaction claimed to match an empty filter", any(x.get("kind") == "violation" for x in recs))

    chk.assumptions += [
        "sha256d is collision free (symbolic hash terms); a replaced hash is a real hash with one bit flipped",
        "the merkle root authenticates hashes only: the message's transaction count is taken to be the block's for the "
        "soundness statement (tx-count corruptions are enumerated and compared, a count beyond 2^31 is not fed: treeDepth "
        "does not terminate for it)",
        "filter false positives are excluded by construction (4096-byte filter, <= 12 ids); the served message is compared "
        "for the exact matched set",
        "exhaustive: n <= %d with every corruption kind, n <= %d served messages; corrupted n=10..12 only by simulation "
        "(thorough)" % ((9, 12) if thorough else (6, 9)),
    ]
    return chk.finish(exhaustive=False)
