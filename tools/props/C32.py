"""C32 - frozen addresses can neither spend nor receive.

 1. spec/Policy/Frozen.tla: checkFrozenAddresses walking the configured list, over
    every list (entries: address, start height, unresolved or not), every
    placement of frozen / free owners among inputs and outputs, heights around
    the start heights, coinbase or not.  Every case is run on the real helper
    (verif export) with three address sets, three height bases and rotating
    transaction types.
 2. spec/Policy/NetConfig.tla: the effective frozen list after the real
    Settings.SetupConfig for ActiveNet names x local overrides.
"""
import json, os, sys
sys.path.insert(0, os.path.dirname(os.path.abspath(__file__)))
import vf
import edgetwo_common as ec

META = dict(
    text="TLC enumerates every case of the frozen-address check (Frozen.tla: list contents and order, owners of every input "
         "and output position, height around each start height, coinbase) checking 'an entry in force that the "
         "transaction touches => rejected' and its converse; every case is run on the real checkFrozenAddresses with three "
         "address sets and three height bases and, as a signed transfer, through the node's CheckTransactionContext; NetConfig.tla enumerates ActiveNet names x local overrides, each loaded by "
         "the real Settings.SetupConfig and the resulting list (with resolved program hashes) compared.",
    note="Bounded: lists of <= 2 entries over 2 addresses, <= 2 inputs and outputs over 3 owners (quick: lists <= 1 with <= 2 "
         "inputs/outputs and lists <= 2 with <= 1); end to end with TransferAsset transactions only.",
    technique="TLA+ pipeline model (TLC complete enumeration) + per-case conformance run on the real frozen-address helper "
              "and the real configuration loader",
)

CFG = """SPECIFICATION Spec
CONSTANTS
  Addrs = {"A", "B"}
  Free = "C"
  Starts = {1, 2}
  MaxH = 3
  MaxList = %(maxlist)d
  MaxIO = %(maxio)d
  Coinbase = {FALSE, TRUE}
VIEW view
INVARIANTS TypeOK FrozenNeitherSpendsNorReceives OnlyFrozen
%(extra)s
CHECK_DEADLOCK FALSE
"""


def run(chk):
    thorough = chk.tier == "thorough"
    binary = vf.go_build("frozen")

    if getattr(chk, "replay", None):
        cases = ec.replay_cases(chk.replay)
        pol = [c for c in cases if c.get("act") == "Case"]
        con = [c for c in cases if c.get("act") == "Config"]
        if pol:
            recs, _ = vf.run_driver(binary, ["check", ec.write_cases("replay-check.jsonl", pol), "alltypes"])
            ec.absorb(chk, recs, "replay check")
            recs, _ = vf.run_driver(binary, ["e2e", ec.write_cases("replay-check.jsonl", pol)])
            ec.absorb(chk, recs, "replay check end to end")
        if con:
            recs, _ = vf.run_driver(binary, ["config", ec.write_cases("replay-config.jsonl", con)])
            ec.absorb(chk, recs, "replay config")
        return chk.finish(exhaustive=False)

    if thorough:
        r = vf.tlc("Policy", "Frozen", "mc.cfg", cfg_text=CFG % dict(maxlist=2, maxio=3, extra=""), workers=16, timeout=1500)
        vf.tlc_ok(r, "Frozen exhaustive")
        chk.add_tlc(r, "Frozen.tla complete, lists <= 2, <= 3 inputs/outputs, invariants only")

    # (list length, inputs/outputs): positions in a transaction, and order of a two-entry list
    shapes = ((2, 2),) if thorough else ((1, 2), (2, 1))
    cases = []
    for maxlist, maxio in shapes:
        r = vf.tlc("Policy", "Frozen", "x%d%d.cfg" % (maxlist, maxio),
                   cfg_text=CFG % dict(maxlist=maxlist, maxio=maxio, extra="ACTION_CONSTRAINT Emit"), workers=1, timeout=1500)
        vf.tlc_ok(r, "Frozen extraction")
        chk.add_tlc(r, "Frozen.tla complete, lists <= %d, <= %d inputs/outputs, one case per initial state" % (maxlist, maxio))
        cs, st = ec.last_steps(r)
        st["classes"] = {}
        for c in cs:
            k = c["exp"] + ":" + c["why"]
            st["classes"][k] = st["classes"].get(k, 0) + 1
        chk.cov.setdefault("extraction", []).append(st)
        recs, _ = vf.run_driver(binary, ["check", ec.write_cases("check%d%d.jsonl" % (maxlist, maxio), cs), "alltypes"])
        ec.absorb(chk, recs, "cases on checkFrozenAddresses (lists <= %d, io <= %d)" % (maxlist, maxio))
        recs, _ = vf.run_driver(binary, ["e2e", ec.write_cases("check%d%d.jsonl" % (maxlist, maxio), cs)])
        ec.absorb(chk, recs, "signed transfers end to end on BlockChain.CheckTransactionContext (lists <= %d, io <= %d)" % (maxlist, maxio))
        cases += cs

    bad = json.loads(json.dumps(next(c for c in cases if c["exp"] == "accept" and c["args"]["list"] and c["args"]["outs"])))
    bad["exp"], bad["why"] = "reject", "receives"
    recs, _ = vf.run_driver(binary, ["check", ec.write_cases("check-bad.jsonl", [bad])])
    ec.selftest(chk, "check: expected verdict of one accepted case flipped to reject", recs)

    bad = json.loads(json.dumps(next(c for c in cases if c["exp"] == "accept" and c["args"]["list"] and c["args"]["ins"]
                                     and c["args"]["outs"] and not c["args"]["cb"])))
    bad["exp"], bad["why"] = "reject", "spends"
    recs, _ = vf.run_driver(binary, ["e2e", ec.write_cases("e2e-bad.jsonl", [bad])])
    ec.selftest(chk, "e2e: an accepted transfer declared 'reject'", recs)

    ccases = ec.netconfig_cases(chk)
    recs, _ = vf.run_driver(binary, ["config", ec.write_cases("config.jsonl", ccases)])
    ec.absorb(chk, recs, "config cases on Settings.SetupConfig")
    bad = json.loads(json.dumps(next(c for c in ccases if c["args"]["name"] == "mainnet" and c["args"]["ovFrozen"] == "otherAddr")))
    bad["exp"]["frozen"] = "otherAddr"
    recs, _ = vf.run_driver(binary, ["config", ec.write_cases("config-bad.jsonl", [bad])])
    ec.selftest(chk, "config: expected mainnet list replaced by the local one", recs)

    chk.assumptions += [
        "bounds: 2 freezable addresses + 1 free, start heights {1,2}, heights 0..3, <= 2 inputs and <= 2 outputs; each case is run "
        "with three concrete address sets (standard; the coordinated mainnet address + two multi-sig hashes differing in one "
        "byte; one hash body under three prefixes) and height bases 0, the mainnet freeze height - 1 and MaxUint32 - 16",
        "an entry whose address did not resolve to a program hash (ProgramHash nil) freezes nothing",
        "coinbase transactions have their own ContextCheck that never reaches the helper; the spec leaves them unconstrained, "
        "as the property does",
        "a node is 'on mainnet' when SetupConfig selected the mainnet parameter set (the driver checks the resulting magic)",
        "every case runs on the helper through its verif export (rotating over all instantiable transaction types); every "
        "non-coinbase case with at least one input additionally runs end to end as a signed TransferAsset between three funded "
        "keys through BlockChain.CheckTransactionContext on a regnet node (the accepted cases show the transfers are otherwise valid)",
    ]
    return chk.finish(exhaustive=True)
