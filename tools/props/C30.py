"""C30 - irreversible blocks are never detached."""
import json, os, random
import vf

META = dict(
    text="Irreversible.tla transcribes the irreversibility bookkeeping of State.ProcessBlock (tryUpdateLastIrreversibleHeight, "
         "RevertToPOW / RevertToDPOS transactions, the POW->DPOS switch at the work height, all decided against the pre-block "
         "state and committed in append order, with the per-height rollback) and the two reorganisation guards (connectBestChain "
         "and the exported ReorganizeChain, both through IsIrreversible) over a growing block tree whose blocks may carry the "
         "mode transactions.  TLC checks, for every tree within the bounds, that no reorganisation detaches a block at or below "
         "the recorded irreversible height, that the height never falls when the chain is extended, that a DPoS-mode chain never "
         "gives up six or more blocks and that the state is the fold of the active chain; a second configuration checks the "
         "cross-time reading (never detach what was once recorded irreversible; never fall while the height grows) on a design "
         "that keeps the maximum, and a third shows that the code as it is violates it (open finding).  Exhaustively extracted, "
         "simulated and scripted behaviours (DPOS -> POW -> DPOS round trips, forks below / at / above the frozen height, direct "
         "ReorganizeChain calls) are replayed on a full-stack node: active chain, refusal, detached heights (from the node's own "
         "disconnect notifications), GetLastIrreversibleHeight and GetConsensusAlgorithm are compared after every step, and the "
         "property itself is evaluated on the real values, at the time and across time.",
    note="DPoS bookkeeping reached by configuration (VoteStartHeight=1, PreConnectOffset=1, CRCOnlyDPOSHeight=3, "
         "RevertToPOWStartHeight=7, RevertToPOW no-block time 0); nil confirmations; unit work per block; RevertToPOW only "
         "of type NoBlock (the other two types differ in the checker's precondition, not in the state change).",
    technique="TLA+ irreversibility / consensus-mode model checked by TLC + behaviour replay on a full-stack node",
)

CFG = """SPECIFICATION %(spec)s
CONSTANTS
  Base = %(base)d
  CRCOnly = 3
  RevertStart = 7
  Irr = 6
  WorkInterval = %(wi)d
  MaxBlocks = %(nb)d
  MaxSide = %(ns)d
  MaxForks = %(nf)d
  MaxForkDepth = %(fd)d
  MaxModeTx = %(nm)d
  MaxReorgCalls = %(nr)d
  ReorgGuardAtTip = TRUE
  KindSet = %(kinds)s
  KeepMaxLih = %(keep)s
VIEW view
%(props)s
CHECK_DEADLOCK FALSE
"""
ALLK = '{"plain", "toPOW", "toDPOS"}'
AS_IS = "INVARIANTS StateIsFold\nPROPERTIES NoDetachBelowIrreversible IrreversibleMonotoneOnExtension NeverDeepReorg"
IDEAL = "PROPERTIES NoDetachBelowIrreversible NoDetachOnceIrreversible IrreversibleMonotone IrreversibleMonotoneOnExtension NeverDeepReorg"


def cfg(**kw):
    d = dict(spec="Spec", base=8, wi=10, nb=10, ns=3, nf=1, fd=8, nm=2, nr=1, kinds=ALLK, keep="FALSE", props=AS_IS)
    d.update(kw)
    return CFG % d


def M(p, k="plain"):
    return ("M", p, k)


def chain(first_parent, first_id, n, kind_first="plain"):
    """n blocks: the first on first_parent, each next one on the previous; ids first_id.."""
    out = [M(first_parent, kind_first)]
    for i in range(1, n):
        out.append(M(first_id + i - 1))
    return out


def scenarios():
    s = {}
    # a reorganisation onto a branch with a RevertToPOW block ends with a lower irreversible height
    s["pow-branch-lowers-height"] = [M(0), M(0, "toPOW"), M(1), M(2), M(4)]
    # ... and a block once recorded irreversible is detached later (20 blocks)
    s["once-irreversible-detached"] = chain(0, 1, 7) + chain(4, 8, 4, "toPOW") + chain(0, 12, 9)
    # ReorganizeChain on a refused side chain that is higher than the tip (POW->DPOS window: height jumps above the tip)
    s["reorgcall-above-tip"] = ([M(0, "toPOW"), M(1, "toDPOS")] + chain(2, 3, 12) + [M(13), M(15), M(16), ("R", 17, "")] +
                                [M(14)] + chain(18, 19, 5) + [M(22), M(24)])
    # POW after a revert: the frozen height is the only guard.  Fork from below it grows 1, 2, 3 above the tip
    # (refused every time), fork from above it reorganises 8 deep
    s["pow-frozen-height"] = (chain(0, 1, 6) + [M(6, "toPOW")] + chain(7, 8, 3) + chain(0, 11, 13) + [("R", 23, "")] +
                              chain(2, 24, 9))
    # RevertToPOW inside the waiting window resets the work height; RevertToPOW in the very block that switches to DPOS
    s["revert-in-window"] = ([M(0, "toPOW"), M(1, "toDPOS")] + chain(2, 3, 3) + [M(5, "toPOW")] + chain(6, 7, 3) +
                             [M(9, "toDPOS")] + chain(10, 11, 9) + [M(19, "toPOW")] + chain(20, 21, 3))
    # DPOS mode: competing branch of 5 (accepted) and 6 (refused) blocks on a long chain, then ReorganizeChain
    s["dpos-depth-rule"] = chain(0, 1, 8) + chain(3, 9, 6) + chain(14, 15, 3) + chain(11, 18, 7) + [("R", 24, "")]
    return s


def script_tla(steps):
    items = ", ".join('<<"%s", %d, "%s">>' % (a, b, c) for a, b, c in steps)
    return "----------------------------- MODULE IrrScript -----------------------------\nScript == << %s >>\n" \
           "=============================================================================\n" % items


def cls(b):
    vs = sorted({s["verdict"] for s in b})
    deep = max([len(s["detached"]) for s in b] + [0])
    modes = "".join(sorted({s.get("mode", "DPOS")[0] for s in b}))
    acts = "".join(sorted({s["act"][0] for s in b}))
    return "+".join(vs) + ":deep%d:%s:%s" % (deep, modes, acts)


def run(chk):
    thorough = chk.tier == "thorough"
    rng = random.Random(vf.seed())
    binary = vf.go_build("irrev")
    # ---- 1. the design, exhaustively (small work interval so that round trips fit the bound)
    nb = 11 if thorough else 9
    r = vf.tlc("Chain", "Irreversible", "mc.cfg", cfg_text=cfg(wi=2, nb=nb, ns=3, nr=1), workers=16, timeout=2400)
    vf.tlc_ok(r, "Irreversible exhaustive (code as is)")
    chk.add_tlc(r, "exhaustive, code as is: <=%d blocks above height 8, <=3 competing blocks, <=2 mode transactions, work "
                   "interval 2, one ReorganizeChain call" % nb)
    r = vf.tlc("Chain", "Irreversible", "mc3.cfg", cfg_text=cfg(base=3, wi=2, nb=nb + 1, ns=3, nr=1, nm=1, fd=7), workers=16, timeout=2400)
    vf.tlc_ok(r, "Irreversible exhaustive from height 3 (initialisation of the height)")
    chk.add_tlc(r, "exhaustive, code as is, from height 3 (initialisation at RevertToPOWStartHeight): <=%d blocks" % (nb + 1))
    if thorough:
        r = vf.tlc("Chain", "Irreversible", "ideal.cfg", cfg_text=cfg(wi=2, nb=nb, ns=3, nr=1, keep="TRUE", props=IDEAL),
                   workers=16, timeout=2400)
        vf.tlc_ok(r, "Irreversible exhaustive (height kept at its maximum)")
        chk.add_tlc(r, "exhaustive, design that keeps the maximum height: cross-time properties hold")
    # the code as it is does NOT satisfy the cross-time reading: TLC must find the counterexample
    r = vf.tlc("Chain", "Irreversible", "dev.cfg", cfg_text=cfg(wi=2, nb=9, ns=3, nr=0, nm=1, props="PROPERTIES IrreversibleMonotone"),
               workers=4, timeout=900)
    dev_seen = "IrreversibleMonotone is violated" in r["tail"]
    chk.selftest("TLC finds the known deviation (height falls across a reorganisation onto a RevertToPOW branch)", dev_seen)
    behs8, behs3 = [], []
    # ---- 2. behaviours for the real node (work interval 10 as in the code)
    # every interleaving of the main chain with one competing branch, plain / RevertToPOW blocks
    nb, ns = (11, 5) if thorough else (9, 4)
    r = vf.tlc("Chain", "Irreversible", "x.cfg",
               cfg_text=cfg(nb=nb, ns=ns, nm=1, nr=1, kinds='{"plain", "toPOW"}', props=AS_IS + "\nACTION_CONSTRAINT EmitLast"),
               workers=1, timeout=2400)
    vf.tlc_ok(r, "Irreversible single-fork exhaustive with RevertToPOW")
    chk.add_tlc(r, "exhaustive single competing branch with one RevertToPOW block: %d blocks, <=%d on the branch; complete behaviours extracted" % (nb, ns))
    b, st = vf.behaviours(r, limit=2000 if thorough else 90, rng=rng, per_class=200 if thorough else 3, strat_key=cls)
    st["label"] = "single-fork interleavings with RevertToPOW (from height 8)"
    chk.cov.setdefault("extraction", []).append(st)
    behs8 += b
    # DPoS only, from height 3 (covers the initialisation branch and deeper forks)
    nb, ns = (17, 8) if thorough else (14, 7)
    r = vf.tlc("Chain", "Irreversible", "x3.cfg",
               cfg_text=cfg(base=3, nb=nb, ns=ns, nm=0, nr=0, fd=7, kinds='{"plain"}', props=AS_IS + "\nACTION_CONSTRAINT EmitLast"),
               workers=1, timeout=2400)
    vf.tlc_ok(r, "Irreversible single-fork exhaustive (DPoS only)")
    chk.add_tlc(r, "exhaustive single competing branch, DPoS only, from height 3: %d blocks, <=%d on the branch" % (nb, ns))
    b, st = vf.behaviours(r, limit=2000 if thorough else 60, rng=rng, per_class=200 if thorough else 6, strat_key=cls)
    st["label"] = "single-fork interleavings, DPoS only (from height 3)"
    chk.cov.setdefault("extraction", []).append(st)
    behs3 += b
    # simulation: long behaviours with round trips, two live forks, ReorganizeChain calls
    for blocks, side, num in ((30, 10, 4000 if thorough else 300),):
        r = vf.tlc("Chain", "Irreversible", "sim.cfg",
                   cfg_text=cfg(nb=blocks, ns=side, nf=2, fd=12, nm=3, nr=2, props="ACTION_CONSTRAINT EmitLast"),
                   workers=1, timeout=1200, simulate="num=%d" % num, depth=blocks + 3, seed_arg=vf.seed() + blocks)
        vf.tlc_ok(r, "Irreversible simulation")
        b, st = vf.behaviours(r, limit=1500 if thorough else 40, rng=rng, per_class=100 if thorough else 3, strat_key=cls)
        st["label"] = "simulate %d blocks / %d competing / 2 forks / mode round trips" % (blocks, side)
        chk.cov.setdefault("extraction", []).append(st)
        behs8 += b
    # scripted scenarios (the shapes of the findings and of the guards in POW mode)
    for name, steps in sorted(scenarios().items()):
        r = vf.tlc("Chain", "IrrScenario", "sc.cfg",
                   cfg_text=cfg(spec="SSpec", nb=40, ns=40, nf=4, fd=40, nm=6, nr=3, props="ACTION_CONSTRAINT SEmit"),
                   files={"IrrScript.tla": script_tla(steps)}, workers=1, timeout=300)
        vf.tlc_ok(r, "scenario " + name)
        b, st = vf.behaviours(r, dedupe_prefixes=False)
        if len(b) != 1 or len(b[0]) != len(steps):
            raise vf.Infra("scenario %s: the spec does not enable every scripted step (%d behaviours)" % (name, len(b)))
        chk.add_tlc(r, "scenario " + name)
        behs8 += b
    allrecs = []
    for base, behs in ((8, behs8), (3, behs3)):
        path = os.path.join(vf.scratch(), "irr%d.jsonl" % base)
        vf.write_json_lines(path, behs)
        chk.absorb(vf.run_sharded(binary, lambda i, n: ["replay", path, str(i), str(n)], env={"VERIF_IRREV_BASE": str(base)}),
                   "replay on full-stack node (prefix height %d)" % base)
    # binding self-test
    b0 = next(x for x in behs8 if any(s["lih"] > 0 for s in x))
    bad = json.loads(json.dumps(b0))
    k = max(i for i, s in enumerate(bad) if s["lih"] > 0)
    bad[k]["lih"] += 1
    p = os.path.join(vf.scratch(), "irr-bad.jsonl")
    vf.write_json_lines(p, [bad])
    recs, _ = vf.run_driver(binary, ["replay", p], env={"TMPDIR": "/dev/shm", "VERIF_IRREV_BASE": "8"})
    chk.selftest("replay: expected irreversible height corrupted", any(x.get("kind") == "violation" and "irreversible-height:" in x.get("key", "") for x in recs))
    bad = json.loads(json.dumps(next(x for x in behs8 if any(s.get("mode") == "POW" for s in x))))
    k = max(i for i, s in enumerate(bad) if s.get("mode") == "POW")
    bad[k]["mode"] = "DPOS"
    vf.write_json_lines(p, [bad])
    recs, _ = vf.run_driver(binary, ["replay", p], env={"TMPDIR": "/dev/shm", "VERIF_IRREV_BASE": "8"})
    chk.selftest("replay: expected consensus mode corrupted", any(x.get("kind") == "violation" and "consensus-mode" in x.get("key", "") for x in recs))
    chk.assumptions += ["DPoS bookkeeping by configuration, nil confirmations, all blocks valid and of unit work",
                        "competing blocks are mined on parents at most 7-12 below the tip (40 in the scripted scenarios)",
                        "RevertToPOW of type NoBlock with a configured no-block time of 0"]
    return chk.finish(exhaustive=False)
