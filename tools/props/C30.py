"""C30 - irreversible blocks are never detached."""
import json, os, random
import vf

META = dict(
    text="Irreversible.tla transcribes the irreversibility bookkeeping (tryUpdateLastIrreversibleHeight with its per-height "
         "rollback) and the reorganisation guard (IsIrreversible) over a growing block tree; TLC checks that no reorganisation "
         "detaches a block at or below the recorded height, that the height never decreases while the chain grows and that a "
         "DPoS-mode chain never gives up six or more blocks, for every tree of <= 12/13 blocks with forks near the tip. "
         "Seeded simulated behaviours (16-20 blocks, forks up to 7 deep) are replayed on a full-stack node in DPoS mode: the "
         "active chain, the refusal of deep forks, the detached heights (from the node's own disconnect notifications) and "
         "GetLastIrreversibleHeight are compared after every block, and the property itself is evaluated on the real values.",
    note="DPoS mode reached by configuration (VoteStartHeight=1, PreConnectOffset=1, CRCOnlyDPOSHeight=3, "
         "RevertToPOWStartHeight=7; smaller values wrap the uint32 initialisation and are outside any deployed configuration); "
         "nil confirmations; no POW<->DPOS transitions (they need arbiter evidence transactions).",
    technique="TLA+ irreversibility model checked by TLC + behaviour replay on a full-stack node in DPoS mode",
)

CFG = """SPECIFICATION Spec
CONSTANTS
  Base = 3
  CRCOnly = 3
  RevertStart = 7
  Irr = 6
  MaxBlocks = %d
  MaxSide = %d
  MaxForks = %d
VIEW view
%s
CHECK_DEADLOCK FALSE
"""
PROPS = "INVARIANTS LihBelowTip\nPROPERTIES NoDetachBelowIrreversible IrreversibleMonotone NeverDeepReorg"


def cls(b):
    vs = sorted({s["verdict"] for s in b})
    deep = max([len(s["detached"]) for s in b] + [0])
    late_refuse = any(s["verdict"] == "refused" for s in b)
    return "+".join(vs) + ":deep%d" % deep + (":refused" if late_refuse else "")


def run(chk):
    thorough = chk.tier == "thorough"
    rng = random.Random(vf.seed())
    binary = vf.go_build("irrev")
    nb, ns = (13, 4) if thorough else (12, 3)
    r = vf.tlc("Chain", "Irreversible", "mc.cfg", cfg_text=CFG % (nb, ns, 2, PROPS), workers=16, timeout=1700)
    vf.tlc_ok(r, "Irreversible exhaustive")
    chk.add_tlc(r, "exhaustive: <=%d blocks, <=%d competing blocks (<=2 live forks) mined within 7 of the tip" % (nb, ns))
    behs = []
    # every interleaving of the main chain with ONE competing branch, complete behaviours only
    nb, ns = (17, 8) if thorough else (14, 7)
    r = vf.tlc("Chain", "Irreversible", "x.cfg", cfg_text=CFG % (nb, ns, 1, PROPS + "\nACTION_CONSTRAINT EmitLast"),
               workers=1, timeout=1700)
    vf.tlc_ok(r, "Irreversible single-fork exhaustive")
    chk.add_tlc(r, "exhaustive single competing branch: %d blocks, <=%d on the branch; complete behaviours extracted" % (nb, ns))
    b, st = vf.behaviours(r, limit=2500 if thorough else 120, rng=rng, per_class=250 if thorough else 12, strat_key=cls)
    st["label"] = "single-fork interleavings"
    chk.cov.setdefault("extraction", []).append(st)
    behs += b
    for blocks, side, num in ((20, 9, 2500 if thorough else 300),):
        r = vf.tlc("Chain", "Irreversible", "sim.cfg", cfg_text=CFG % (blocks, side, 2, "ACTION_CONSTRAINT EmitLast"),
                   workers=1, timeout=900, simulate="num=%d" % num, depth=blocks + 1, seed_arg=vf.seed() + blocks)
        vf.tlc_ok(r, "Irreversible simulation")
        b, st = vf.behaviours(r, limit=1500 if thorough else 60, rng=rng, per_class=100 if thorough else 6, strat_key=cls)
        st["label"] = "simulate %d blocks / %d competing / 2 forks" % (blocks, side)
        chk.cov.setdefault("extraction", []).append(st)
        behs += b
    path = os.path.join(vf.scratch(), "irr.jsonl")
    vf.write_json_lines(path, behs)
    chk.absorb(vf.run_sharded(binary, lambda i, n: ["replay", path, str(i), str(n)]), "replay on full-stack DPoS-mode node")
    # binding self-test
    b0 = next(x for x in behs if any(s["lih"] > 0 for s in x))
    bad = json.loads(json.dumps(b0))
    k = max(i for i, s in enumerate(bad) if s["lih"] > 0)
    bad[k]["lih"] += 1
    p = os.path.join(vf.scratch(), "irr-bad.jsonl")
    vf.write_json_lines(p, [bad])
    recs, _ = vf.run_driver(binary, ["replay", p], env={"TMPDIR": "/dev/shm"})
    chk.selftest("replay: expected irreversible height corrupted", any(x.get("kind") == "violation" for x in recs))
    chk.assumptions += ["DPoS mode by configuration, nil confirmations, all blocks valid and of unit work",
                        "competing blocks are mined on parents at most 7 below the tip"]
    return chk.finish(exhaustive=False)
