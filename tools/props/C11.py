"""C11 - issuance follows the schedule."""
import json, os
import vf

META = dict(
    text="Issuance.tla states the subsidy schedule (old reward below the new-issuance height, then the new base halved per "
         "interval) and transcribes the DPoS-v2 branch of checkCoinbaseTransactionContext; TLC checks SubsidyNonNegative, "
         "SubsidyNonIncreasing, AcceptedPaysExactly (an accepted coinbase pays subsidy + fees, split 30/35/35 with ceilings, to "
         "the fixed addresses of the consensus mode) and CorrectAccepted over every height regime x fee class x mode x coinbase "
         "deviating in up to two of {each share +-1, each fixed address, miner address, output count}. Conformance: "
         "GetBlockReward is swept over the scaled and the mainnet schedule against the exact closed form and the two "
         "monotonicity facts; every coinbase case is materialised as a solved block (the correct coinbase comes from the node's "
         "own AssignCoinbaseTxRewards, fees from a real fee-paying transfer) at the matching height of a full-stack node with "
         "DPoS v2 active and passed to CheckBlockSanity + CheckBlockContext.",
    note="DPoS v2 activation and the consensus mode are set through exported state fields (State.DPoSV2ActiveHeight, "
         "ConsensusAlgorithm), CRCommitteeStartHeight=1; the shares are float64 products in the code, the exact-rational split "
         "of the model is compared on the deviations only; POW-mode cases with a fee-paying transfer are skipped (plain "
         "transfers are not allowed in POW-mode blocks).",
    technique="TLA+ decision model checked exhaustively by TLC, one implementation test per enumerated case on a full-stack node "
              "+ schedule sweep against the model's closed form",
)

CFG = """SPECIFICATION Spec
CONSTANTS
  Old = 507
  Base = 304
  NewH = 8
  HalvH = 10
  Interval = 2
  MinH = 5
  MaxH = %d
  Fees = {0, 7}
VIEW view
INVARIANTS SubsidyNonNegative SubsidyNonIncreasing AcceptedPaysExactly CorrectAccepted
ACTION_CONSTRAINT Emit
CHECK_DEADLOCK FALSE
"""


def run(chk):
    thorough = chk.tier == "thorough"
    binary = vf.go_build("issuance")
    maxh = 24 if thorough else 14
    r = vf.tlc("Chain", "Issuance", "i.cfg", cfg_text=CFG % maxh, workers=1, timeout=1500)
    vf.tlc_ok(r, "Issuance exhaustive")
    chk.add_tlc(r, "exhaustive Issuance.tla: heights 5..%d x 2 fee classes x 2 modes x coinbase deviations" % maxh)
    behs, _ = vf.behaviours(r, dedupe_prefixes=False)
    cases = [b[0] for b in behs]
    chk.cov["cases"] = len(cases)
    path = os.path.join(vf.scratch(), "iss.jsonl")
    vf.write_json_lines(path, cases)
    env = {"TMPDIR": "/dev/shm"} if os.path.isdir("/dev/shm") else None
    recs, _ = vf.run_driver(binary, ["run", path, "8", "10", "2", str(maxh)], env=env, timeout=3000)
    chk.absorb(recs, "schedule sweep + coinbase cases")
    bad = dict(next(c for c in cases if c["accept"] and c["fee"] == 0 and c["mode"] == "DPOS")); bad["accept"] = False
    p = os.path.join(vf.scratch(), "iss-bad.jsonl")
    vf.write_json_lines(p, [bad])
    recs, _ = vf.run_driver(binary, ["run", p, "8", "10", "2", str(maxh)], env=env)
    chk.selftest("verdict of the correct coinbase flipped", any(x.get("kind") == "violation" for x in recs))
    return chk.finish(exhaustive=True)
