"""C01 - no transaction creates value."""
import json, os
import vf

META = dict(
    text="Value.tla writes amounts as hi*2^60 + lo*0.01 ELA so that the 64-bit wrap-around of Fixed64 sums is modelled exactly "
         "(the hi part wraps outside -8..7) and compares the code's fee rule with the property's exact-integer rule for every "
         "vector of up to 3/4 individually valid outputs; TLC checks NoValueCreated (code accepts => exact fee >= minimum) and "
         "Complete on the repaired model and exhibits the wrap-around counterexample on the unchecked one. Every case is lifted "
         "to real amounts in a signed transfer spending a real 0.1 ELA output and offered to CheckTransactionSanity + "
         "CheckTransactionContext, TxPool.AppendToTxPool and CheckBlockSanity + CheckBlockContext (the coinbase claiming the fee "
         "the node computes); acceptance with a negative exact fee is a violation.",
    note="TransferAsset transactions with one real input (spent outputs are bounded by supply, so only outputs can carry large "
         "values); other transaction kinds share SanityCheck/ContextCheck and the same fee helper.",
    technique="TLA+ arithmetic model checked exhaustively by TLC, one implementation test per enumerated case on a full-stack node",
)

CFG = """SPECIFICATION Spec
CONSTANTS
  InLo = 10
  His = {%s}
  Los = {%s}
  MaxOuts = %d
  OverflowCheck = %s
VIEW view
%s
CHECK_DEADLOCK FALSE
"""


def run(chk):
    thorough = chk.tier == "thorough"
    binary = vf.go_build("value")
    his, los, n = ("0, 1, 2, 4, 7", "0, 1, 5, 9, 10, 11", 4) if thorough else ("0, 2, 4, 7", "0, 1, 9, 10, 11", 3)
    # the repaired rule satisfies the property; the unchecked rule does not (TLC must find the wrap-around)
    r = vf.tlc("Chain", "Value", "fixed.cfg", cfg_text=CFG % (his, los, n, "TRUE", "INVARIANTS NoValueCreated Complete\nACTION_CONSTRAINT Emit"),
               workers=1, timeout=1500)
    vf.tlc_ok(r, "Value exhaustive")
    chk.add_tlc(r, "exhaustive Value.tla, overflow-checked rule: NoValueCreated, Complete")
    behs, _ = vf.behaviours(r, dedupe_prefixes=False)
    cases = [b[0] for b in behs]
    r2 = vf.tlc("Chain", "Value", "asis.cfg", cfg_text=CFG % (his, los, n, "FALSE", "INVARIANTS NoValueCreated"), workers=4, timeout=900)
    if r2["timed_out"]:
        raise vf.Infra("TLC timed out")
    chk.cov["unchecked_rule_counterexample_found_by_tlc"] = (r2["rc"] != 0)
    if r2["rc"] == 0:
        raise vf.Infra("vacuity: the model without the overflow check satisfies NoValueCreated, the bounds do not reach a wrap-around")
    chk.cov["cases"] = len(cases)
    chk.cov["overflow_cases"] = sum(1 for c in cases if c["wraps"])
    path = os.path.join(vf.scratch(), "value.jsonl")
    vf.write_json_lines(path, cases)
    env = {"TMPDIR": "/dev/shm"} if os.path.isdir("/dev/shm") else None
    recs, _ = vf.run_driver(binary, ["run", path], env=env, timeout=3000)
    chk.absorb(recs, "sanity+context, mempool and block checks on every case")
    bad = dict(next(c for c in cases if c["exact"])); bad["exact"] = False
    p = os.path.join(vf.scratch(), "value-bad.jsonl")
    vf.write_json_lines(p, [bad])
    recs, _ = vf.run_driver(binary, ["run", p], env=env)
    chk.selftest("exact verdict of a covered transaction flipped", any(x.get("kind") == "violation" for x in recs))
    return chk.finish(exhaustive=True)
