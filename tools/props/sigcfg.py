"""Shared by C05.py and C37.py: configurations of spec/Edge/Sig.tla and the stratification key of its cases."""

CFG = """SPECIFICATION Spec
CONSTANTS
  UseCodes = {%(codes)s}
  UsePfx = {%(pfx)s}
  MaxIn = %(maxin)d
  MaxAttr = %(maxattr)d
  MaxProgs = %(maxprogs)d
  MaxSigs = %(maxsigs)d
  ForgeKeys = {%(forge)s}
  Wallets = {%(wallets)s}
  MaxVer = %(maxver)d
  Garbage = %(garbage)s
  Aligned = %(aligned)s
VIEW view
INVARIANTS %(inv)s
%(emit)s
CHECK_DEADLOCK FALSE
"""

INV = "TypeOK Sound Answer DeviationShape WalletComplete StaleWorthless"
ALLPFX = '"std", "multi", "cross", "deposit", "stake"'


def cfg(codes, pfx=ALLPFX, maxin=1, maxattr=0, maxprogs=1, maxsigs=1, forge="1, 2, 4", wallets="", maxver=1,
        garbage=True, aligned=False, emit=True, inv=INV):
    return CFG % dict(codes=codes, pfx=pfx, maxin=maxin, maxattr=maxattr, maxprogs=maxprogs, maxsigs=maxsigs,
                      forge=forge, wallets=wallets, maxver=maxver, garbage="TRUE" if garbage else "FALSE",
                      aligned="TRUE" if aligned else "FALSE", inv=inv,
                      emit="ACTION_CONSTRAINT Emit" if emit else "")


def strat(b):
    c = b[0]
    a = c["args"]
    kinds = "+".join(sorted({d["def"]["kind"] for d in a["codes"]}))
    pfx = "+".join(sorted({x["pfx"] for x in a["inputs"] + a["attrs"]}))
    return "%s|%s|%s|%s|%d" % (c["why"], a["tamper"], kinds, pfx, len(a["progs"]))




def absorb(chk, recs, label):
    """chk.absorb, except that a model mismatch does not hide a violation found in the same run: evidence of
    the real code accepting what the property forbids stands on its own (the mismatch is kept as a note)."""
    import vf
    try:
        chk.absorb(recs, label)
    except vf.Infra as e:
        known = {k["key"] for k in chk.known}
        if "MODEL-MISMATCH" in str(e) and any(key not in known for key, _, _ in chk.violations):
            chk.notes.append("also reported: " + str(e)[:600])
            return
        raise


def violations_first(run):
    """A machinery failure in a later stage must not swallow a violation an earlier stage already established."""
    def wrapped(chk):
        import vf
        try:
            return run(chk)
        except vf.Infra as e:
            known = {k["key"] for k in chk.known}
            if any(key not in known for key, _, _ in chk.violations):
                chk.notes.append("a later stage failed: " + str(e)[:600])
                return chk.finish(exhaustive=False)
            raise
    return wrapped
