"""C34, second half - what every transaction kind claims in the pool's per-resource indexes.

 PoolKeys.tla states, per transaction kind, the set of <<slot, key>> claims of a transaction
 (side-chain withdrawal hashes for payload v0 / v1 / v2 with plain outputs in front of or
 between the withdraw outputs, deposit returns, CR DID / nickname / key, every CRC proposal
 type, reviews, trackings, withdrawals, council-member node claims, special transactions,
 staking / NFT operations, producer owner / node keys and nicknames, spent outpoints) for
 eight families of templates that collide on purpose.  TLC explores every sequence of
 MaxOps (quick 3, thorough 4) Append / Remove operations per family (invariants ConflictFree,
 IndexAgrees, OneOwner) and prints one behaviour per edge; harness/cmd/poolkeys builds every
 template as a real transaction and replays the behaviours on a real mempool.TxPool (VerifyTx
 + AppendTx, CleanSubmittedTransactions), comparing after every step the verdict (both
 directions are violations) and the complete content of every conflict slot with the spec's
 index (same slots, same keys, every key owned by the expected transaction).

 Called from C34.py:   import C34_keys; C34_keys.run_all(chk)
 (run_all(chk, families=[...]) restricts the run to some families of PoolKeys.tla.)

 Family crtail holds Schnorr CR registrations whose public key ends in the byte of the
 CHECKSIG / CHECKMULTISIG opcode (strRegisterCRPublicKey used to classify the Schnorr script by
 its last byte: repaired in /repo, see known_findings.json).
"""
import concurrent.futures, json, os
import vf

FAMILIES = ["side", "dpos", "cr", "crtail", "prop1", "prop2", "special", "stake"]

CFG = """SPECIFICATION Spec
CONSTANTS
  Family = "%(family)s"
  MaxOps = %(maxops)d
  WithRemove = %(remove)s
VIEW view
INVARIANTS ConflictFree IndexAgrees OneOwner
ACTION_CONSTRAINT %(emit)s
CHECK_DEADLOCK FALSE
"""

JVM = ("-XX:-UseParallelGC", "-XX:+UseSerialGC", "-XX:TieredStopAtLevel=1")


def _tlc(family, maxops, emit="Emit"):
    text = CFG % dict(family=family, maxops=maxops, remove="TRUE", emit=emit)
    r = vf.tlc("Chain", "PoolKeys", "pk-%s-%d.cfg" % (family, maxops), cfg_text=text, workers=1, timeout=1500, jvm=JVM)
    return family, maxops, r


def _shape_key(b):
    last = b[-1]
    return "%s:%s:%s" % (last.get("act"), last.get("def", {}).get("kind"), last.get("exp", {}).get("verdict"))


def run_all(chk, families=None):
    thorough = chk.tier == "thorough"
    binary = vf.go_build("poolkeys")
    env = {"TMPDIR": "/dev/shm"} if os.path.isdir("/dev/shm") else None
    # quick: every sequence of 3 operations per family; thorough: of 4 (the behaviours of depth 3 are
    # prefixes of those of depth 4)
    maxops = 4 if thorough else 3
    jobs = [(f, maxops) for f in (families or FAMILIES)]
    vf._copy_spec(os.path.join(vf.SPEC, "Chain"))      # before the threads start
    with concurrent.futures.ThreadPoolExecutor(max_workers=8) as ex:
        results = list(ex.map(lambda j: _tlc(*j), jobs))
    first_ok = None
    first_conflict = None
    allb = []
    for family, maxops, r in results:
        vf.tlc_ok(r, "PoolKeys %s MaxOps=%d" % (family, maxops))
        chk.add_tlc(r, "PoolKeys.tla family %s, MaxOps=%d (exhaustive; ConflictFree, IndexAgrees, OneOwner)" % (family, maxops))
        behs, st = vf.behaviours(r, strat_key=_shape_key)
        st.pop("classes", None)
        st["label"] = "PoolKeys %s MaxOps=%d" % (family, maxops)
        chk.cov.setdefault("extraction", []).append(st)
        if not behs:
            raise vf.Infra("no behaviours extracted for family " + family)
        allb += behs
        if family == "side":
            for b in behs:
                last = b[-1]
                if last["act"] != "Append" or not isinstance(last.get("index"), dict):
                    continue
                if first_ok is None and last["exp"]["verdict"] == "ok" and last["index"].get("SidechainTxHashes"):
                    first_ok = b
                if first_conflict is None and last["exp"]["verdict"] == "conflict" and last["exp"]["slots"] == ["SidechainTxHashes"]:
                    first_conflict = b
    nshard = 8 if thorough else 4
    for i in range(nshard):
        vf.write_json_lines(os.path.join(vf.scratch(), "pk-all-%d.jsonl" % i), allb[i::nshard])
    recs = vf.run_sharded(binary, lambda i, n: ["replay", os.path.join(vf.scratch(), "pk-all-%d.jsonl" % i)], shards=nshard)
    chk.absorb(recs, "pool slot keys, families %s, MaxOps=%d: verdict and full slot content after every step" %
               (", ".join(f for f, _ in jobs), maxops))
    # binding self-tests: (1) an expected index entry is dropped, (2) a conflict is expected to be accepted
    if first_ok is None or first_conflict is None:
        if families and "side" not in families:
            return
        raise vf.Infra("no behaviour for the binding self-tests")
    bad1 = json.loads(json.dumps(first_ok))
    bad1[-1]["index"]["SidechainTxHashes"] = bad1[-1]["index"]["SidechainTxHashes"][1:]
    if not bad1[-1]["index"]["SidechainTxHashes"]:
        del bad1[-1]["index"]["SidechainTxHashes"]
    bad2 = json.loads(json.dumps(first_conflict))
    bad2[-1]["exp"]["verdict"] = "ok"
    for name, bad, want in (("expected index entry dropped", bad1, ":extra"), ("conflict expected to be accepted", bad2, "~spurious")):
        p = os.path.join(vf.scratch(), "pk-bad.jsonl")
        vf.write_json_lines(p, [bad])
        recs, _ = vf.run_driver(binary, ["replay", p], env=env)
        chk.selftest("pool keys replay: " + name,
                     any(x.get("kind") == "violation" and x.get("key", "").startswith("C34:slot-key:SidechainTxHashes") and
                         x.get("key", "").endswith(want) for x in recs))
    chk.assumptions += [
        "PoolKeys: the conflict slots are driven through TxPool.VerifyTx / AppendTx (no transaction validation, unsigned "
        "templates) and emptied through CleanSubmittedTransactions on a one-transaction block; the transaction list and fee "
        "list of the pool stay empty (they are Mempool.tla's subject)",
        "PoolKeys: templates of one family interact (%s); MaxOps = 3 operations per behaviour (thorough: 4); NextTurnDPOSInfo "
        "is not removed (the block cleanup handles it through the pool's transaction list); the producers a CancelProducer "
        "names are put into the DPoS state by State.ProcessBlock on their registrations" % ", ".join(FAMILIES),
        "PoolKeys: all 39 slots of conflictmanager.go are exercised; transaction kinds without a slot of their own "
        "(SideChainPow, UpdateVersion, RecordSponsor, CRAssetsRectify, TransferCrossChainAsset, RevertToPOW ...) claim "
        "outpoints only, as the TransferAsset templates do; multi-signature / Schnorr variants of producer payloads, "
        "UnregisterCR and ProcessProducer are not separate templates (their key functions do not read the version)",
    ]
