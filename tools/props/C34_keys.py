"""C34, second half - what every transaction kind claims in the pool's per-resource indexes,
and what a connected block does to them.

 PoolKeys.tla states, per transaction kind, the set of <<slot, key>> claims of a transaction
 (side-chain withdrawal hashes for payload v0 / v1 / v2 with plain outputs in front of or
 between the withdraw outputs, deposit returns, CR DID / nickname / key, every CRC proposal
 type, reviews, trackings, withdrawals, council-member node claims, special transactions,
 staking / NFT operations, producer owner / node keys and nicknames, spent outpoints) for
 eight families of templates that collide on purpose, and two pool operations:
   Append(t)  = the pool half of appendToTxPool (TxPool.VerifAppendUnchecked, hook
                mempool/verif_c34_append.go: side-chain pow replacement, VerifyTx, size check,
                AppendTx, doAddTransaction), so the transaction list and the fee list are filled;
   Connect(t) = CleanSubmittedTransactions on a block holding the one transaction t, pooled or
                not (cleanTransactions: spenders of t's inputs leave, t's keys are deleted from
                the index whoever owns them; cleanSideChainPowTx; cleanCanceledProducerAndCR: a
                CancelProducer / UnregisterCR removes the pooled updates of and votes for that
                producer / CR), modelled as the code does it, transient states included.
 TLC explores every sequence of MaxOps (quick 3, thorough 4) operations per family (invariants
 IndexAgrees - a pooled transaction owns all its claims except those a block dropped by the
 rules above -, OneOwner, ConflictFree, action property DropsJustified) and prints one
 behaviour per edge; harness/cmd/poolkeys replays them on a real mempool.TxPool, comparing
 after every step the verdict (both directions are violations), the pool's membership
 (transaction list, fee list) and the complete content of every conflict slot (same slots,
 same keys, every key owned by the expected transaction).

 Called from C34.py:   import C34_keys; C34_keys.run_all(chk)
 (run_all(chk, families=[...]) restricts the run to some families of PoolKeys.tla.)
"""
import concurrent.futures, json, os, subprocess, sys
import vf

FAMILIES = ["side", "dpos", "cr", "crtail", "prop1", "prop2", "special", "stake"]

CFG = """SPECIFICATION Spec
CONSTANTS
  Family = "%(family)s"
  MaxOps = %(maxops)d
  Connects = "%(connects)s"
VIEW view
INVARIANTS ConflictFree IndexAgrees OneOwner
PROPERTIES DropsJustified
ACTION_CONSTRAINT %(emit)s
CHECK_DEADLOCK FALSE
"""

JVM = ("-XX:-UseParallelGC", "-XX:+UseSerialGC", "-XX:TieredStopAtLevel=1")


NSHARD = 8


def _extract(res, maxops):
    """Every behaviour TLC printed (one per explored edge), sorted.  Behaviours that are a prefix of another one are
    replayed as well (cheaper than finding them among some 10^5 lines)."""
    raw = set()
    with open(res["outfile"], errors="replace") as f:
        for line in f:
            if line.startswith('<<"TRACE", '):
                raw.add(line.rstrip("\n")[len('<<"TRACE", '):-2])
    behs = []
    for x in sorted(raw):
        try:
            behs.append(json.loads(json.loads(x)))
        except ValueError:
            raise vf.Infra("cannot parse behaviour printed by TLC: " + x[:200])
    return behs, dict(edges_total=len(raw), maximal=sum(1 for b in behs if len(b) == maxops), selected=len(behs))


def _spawn_job(job):
    """One worker process per family (this file run as a script): the extraction of some 10^4..10^5 printed behaviours
    is Python work that threads would serialise."""
    family, maxops, connects = job
    env = dict(os.environ, PYTHONPATH=os.path.dirname(os.path.abspath(vf.__file__)))
    p = subprocess.run([sys.executable, os.path.abspath(__file__), "--job", family, str(maxops), connects, vf.scratch()],
                       env=env, capture_output=True, text=True, timeout=1700)
    if p.returncode != 0:
        raise vf.Infra("PoolKeys worker for family %s failed:\n%s" % (family, (p.stdout + p.stderr)[-3000:]))
    return json.loads(p.stdout.splitlines()[-1])


def _family_job(args):
    """Runs in a worker process: TLC on one family, extraction, shard files pk-<family>-<i>.jsonl."""
    family, maxops, connects = args
    text = CFG % dict(family=family, maxops=maxops, connects=connects, emit="Emit")
    r = vf.tlc("Chain", "PoolKeys", "pk-%s-%d.cfg" % (family, maxops), cfg_text=text, workers=1, timeout=1500, jvm=JVM)
    out = dict(family=family, maxops=maxops, res={k: v for k, v in r.items() if k != "tail"}, tail=r["tail"][-3000:], stats={}, n=0, picks={})
    if r["rc"] != 0 or r["timed_out"]:
        return out
    behs, st = _extract(r, maxops)
    out["stats"], out["n"] = st, len(behs)
    for i in range(NSHARD):
        vf.write_json_lines(os.path.join(vf.scratch(), "pk-%s-%d.jsonl" % (family, i)), behs[i::NSHARD])
    if family == "side":        # behaviours for the binding self-tests
        for b in behs:
            last = b[-1]
            if "evict" not in out["picks"] and last["act"] == "Connect" and last["exp"]["evicted"]:
                out["picks"]["evict"] = b
            if last["act"] != "Append" or not isinstance(last.get("index"), dict):
                continue
            if "ok" not in out["picks"] and last["exp"]["verdict"] == "ok" and last["index"].get("SidechainTxHashes"):
                out["picks"]["ok"] = b
            if "conflict" not in out["picks"] and last["exp"]["verdict"] == "conflict" and last["exp"]["slots"] == ["SidechainTxHashes"]:
                out["picks"]["conflict"] = b
    os.remove(r["outfile"])
    return out


def run_all(chk, families=None):
    thorough = chk.tier == "thorough"
    binary = vf.go_build("poolkeys")
    env = {"TMPDIR": "/dev/shm"} if os.path.isdir("/dev/shm") else None
    # quick: every sequence of 3 operations per family; thorough: of 4 (the behaviours of depth 3 are
    # prefixes of those of depth 4).  Blocks connected: Related(t) of PoolKeys.tla (the block's transaction is
    # pooled, claims a key the index holds, cancels a producer / CR, or is the family's unrelated probe)
    maxops = 4 if thorough else 3
    jobs = [(f, maxops, "related") for f in (families or FAMILIES)]
    vf._copy_spec(os.path.join(vf.SPEC, "Chain"))      # scratch directory and spec copy exist before the workers start
    with concurrent.futures.ThreadPoolExecutor(max_workers=min(8, len(jobs))) as ex:
        results = list(ex.map(_spawn_job, jobs))
    picks = {}
    total = 0
    for o in results:
        r = dict(o["res"], tail=o["tail"])
        vf.tlc_ok(r, "PoolKeys %s MaxOps=%d" % (o["family"], o["maxops"]))
        chk.add_tlc(r, "PoolKeys.tla family %s, MaxOps=%d (exhaustive; ConflictFree, IndexAgrees, OneOwner, DropsJustified)" % (o["family"], o["maxops"]))
        st = dict(o["stats"], label="PoolKeys %s MaxOps=%d" % (o["family"], o["maxops"]))
        chk.cov.setdefault("extraction", []).append(st)
        if not o["n"]:
            raise vf.Infra("no behaviours extracted for family " + o["family"])
        total += o["n"]
        picks.update(o["picks"])
    for i in range(NSHARD):          # shard i = the i-th part of every family
        with open(os.path.join(vf.scratch(), "pk-all-%d.jsonl" % i), "wb") as w:
            for o in results:
                with open(os.path.join(vf.scratch(), "pk-%s-%d.jsonl" % (o["family"], i)), "rb") as f:
                    w.write(f.read())
    recs = vf.run_sharded(binary, lambda i, n: ["replay", os.path.join(vf.scratch(), "pk-all-%d.jsonl" % i)], shards=NSHARD)
    chk.absorb(recs, "pool slot keys, families %s, MaxOps=%d: verdict, pool membership and full slot content after every step" %
               (", ".join(j[0] for j in jobs), maxops))
    first_ok, first_conflict, first_evict = picks.get("ok"), picks.get("conflict"), picks.get("evict")
    # binding self-tests: (1) an expected index entry is dropped, (2) a conflict is expected to be accepted
    if first_ok is None or first_conflict is None or first_evict is None:
        if families and "side" not in families:
            return
        raise vf.Infra("no behaviour for the binding self-tests")
    bad1 = json.loads(json.dumps(first_ok))
    bad1[-1]["index"]["SidechainTxHashes"] = bad1[-1]["index"]["SidechainTxHashes"][1:]
    if not bad1[-1]["index"]["SidechainTxHashes"]:
        del bad1[-1]["index"]["SidechainTxHashes"]
    bad2 = json.loads(json.dumps(first_conflict))
    bad2[-1]["exp"]["verdict"] = "ok"
    bad3 = json.loads(json.dumps(first_evict))
    bad3[-1]["pool"] = sorted(bad3[-1]["pool"] + bad3[-1]["exp"]["evicted"][:1])
    p = os.path.join(vf.scratch(), "pk-bad3.jsonl")
    vf.write_json_lines(p, [bad3])
    recs, _ = vf.run_driver(binary, ["replay", p], env=env)
    chk.selftest("pool keys replay: a transaction the connected block evicts expected to stay",
                 any(x.get("kind") == "violation" and x.get("key", "").startswith("C34:pool-membership:") and ":lost" in x.get("key", "")
                     for x in recs))
    for name, bad, want in (("expected index entry dropped", bad1, ":extra"), ("conflict expected to be accepted", bad2, "~spurious")):
        p = os.path.join(vf.scratch(), "pk-bad.jsonl")
        vf.write_json_lines(p, [bad])
        recs, _ = vf.run_driver(binary, ["replay", p], env=env)
        chk.selftest("pool keys replay: " + name,
                     any(x.get("kind") == "violation" and x.get("key", "").startswith("C34:slot-key:SidechainTxHashes") and
                         x.get("key", "").endswith(want) for x in recs))
    chk.assumptions += [
        "PoolKeys: transactions enter the pool through the pool half of appendToTxPool (verif hook VerifAppendUnchecked: no chain "
        "validation, unsigned templates) and blocks reach it through CleanSubmittedTransactions on a one-transaction block; the "
        "post-block CheckAndCleanAllTransactions (chain validation of every pooled transaction) is Mempool.tla's subject, so "
        "the transient states a connected block leaves are part of the model",
        "PoolKeys: templates of one family interact (%s); MaxOps = 3 operations per behaviour (thorough: 4); blocks connected: "
        "Related(t) of PoolKeys.tla; the producers a CancelProducer names are put into the DPoS state by State.ProcessBlock on "
        "their registrations; the node's origin arbiters are harness keys so that a side-chain pow transaction can be signed "
        "by the arbiter on duty" % ", ".join(FAMILIES),
        "PoolKeys: all 39 slots of conflictmanager.go are exercised; transaction kinds without a slot of their own "
        "(UpdateVersion, RecordSponsor, CRAssetsRectify, TransferCrossChainAsset, RevertToPOW ...) claim outpoints only, as the "
        "TransferAsset templates do; multi-signature / Schnorr variants of producer payloads, UnregisterCR and ProcessProducer "
        "are not separate templates (their key functions do not read the version)",
    ]


if __name__ == "__main__":
    # worker: C34_keys.py --job <family> <maxops> <connects> <scratch dir of the check>
    if len(sys.argv) == 6 and sys.argv[1] == "--job":
        vf._scratch = sys.argv[5]
        try:
            print(json.dumps(_family_job((sys.argv[2], int(sys.argv[3]), sys.argv[4]))))
        except vf.Infra as e:
            print("INFRA", e)
            sys.exit(2)
