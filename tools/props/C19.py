"""C19 - treaps behave as ordered maps; immutable treaps are persistent (database/internal/treap).

 1. TLC checks spec/Store/Treap.tla (ordered-map reference model of treap.Mutable, of
    Slots retained treap.Immutable versions and of treap.Iterator with key ranges) and
    prints one behaviour per explored edge.
 2. Every behaviour is replayed on the real treaps (through the verif re-export package
    database/treapverif); after EVERY step the mutable treap and ALL retained immutable
    versions are re-queried completely: Get/Has of every key, Len, Size, ForEach, and a
    fresh iterator over every range [lo,hi) walked forwards, backwards, First, Last,
    Seek(k) for every k.
 3. Long seeded random runs (64 keys, hundreds of operations) of the real treaps are
    recorded and validated as traces against TraceTreap.tla.
"""
import os, random, json
import vf

META = dict(
    text="TLC enumerates every put/delete/reset/iterator sequence of an ordered-map reference model (Treap.tla: mutable "
         "treap, retained immutable versions where every update applies to any retained version, one ranged iterator "
         "that survives updates via ForceReseek) and each explored edge is replayed on the real treap.Mutable / "
         "treap.Immutable / treap.Iterator; after every step all retained versions are re-queried completely (Get, Has, "
         "Len, Size = sum(72+|k|+|v|), ForEach, iterators over every range in both directions, First/Last/Seek). Long "
         "random runs over 64 keys are validated as traces against the same model.",
    note="Trusts TLC and the driver's key/value encoding (keys of 1-2 bytes, a value is modelled by its length). Bounded: "
         "3-4 keys and 1-3 retained versions exhaustively (finite state space, no depth bound), 64 keys x 200-500 "
         "operations per recorded run. Treap priorities are random (math/rand), so tree shapes vary from run to run; the "
         "answers compared do not depend on them.",
    technique="TLA+ ordered-map reference model (TLC exhaustive, one behaviour per edge) + replay on the real treaps with "
              "complete re-query of all versions after every step + trace validation of long random runs",
)

CFG = """SPECIFICATION Spec
CONSTANTS
  NK = %(nk)d
  Vals = {%(vals)s}
  Slots = %(slots)d
  Los = {%(los)s}
  His = {%(his)s}
  Modes = {%(modes)s}
  MaxOps = %(ops)d
  LogOn = %(log)s
%(view)s
INVARIANTS TypeOK MapLaws
%(props)s
%(emit)s
CHECK_DEADLOCK FALSE
"""


def cfg(nk=3, vals="0, 1", slots=2, los="0, 2", his="0, 3", modes='"mut", "imm"', ops=0, emit=None, log=True, view=True, props=True):
    return CFG % dict(nk=nk, vals=vals, slots=slots, los=los, his=his, modes=modes, ops=ops,
                      log="TRUE" if log else "FALSE", view="VIEW view" if view else "",
                      props="PROPERTIES Persistent ItStable" if props else "",
                      emit=("ACTION_CONSTRAINT " + emit) if emit else "")


TRACE_CFG = """SPECIFICATION TraceSpec
CONSTANTS
  NK = %d
  Vals = {0, 1, 2, 3}
  Slots = 4
  Los = {0}
  His = {0}
  Modes = {"mut", "imm"}
  MaxOps = 0
  LogOn = FALSE
  TraceFile = "%s"
VIEW TraceView
CONSTRAINT HighWater
POSTCONDITION TraceAccepted
CHECK_DEADLOCK FALSE
"""

# Edge extraction: finite state spaces explored without depth bound (MaxOps = 0), one behaviour per edge.
# (label, nk, cfg kwargs, sample limit quick, sample limit thorough)
EXTRACT = [
    ("mutable 3 keys, ranged iterator", 3,
     dict(nk=3, vals="0, 1", slots=1, los="0, 2", his="0, 3", modes='"mut"'), 8000, None),
    ("immutable 3 keys, 2 retained versions", 3,
     dict(nk=3, vals="0, 1", slots=2, los="", his="", modes='"imm"'), 8000, None),
    ("immutable 2 keys, iterator over an overwritten version", 2,
     dict(nk=2, vals="0, 1", slots=1, los="0, 2", his="0, 2", modes='"imm"'), 8000, None),
]
EXTRACT_THOROUGH = [
    ("mutable 4 keys, unbounded iterator", 4,
     dict(nk=4, vals="0, 2", slots=1, los="0", his="0", modes='"mut"'), None, 150000),
    ("immutable 2 keys, 3 retained versions", 2,
     dict(nk=2, vals="0, 1", slots=3, los="", his="", modes='"imm"'), None, 150000),
    ("mutable 3 keys, every iterator range", 3,
     dict(nk=3, vals="1", slots=1, los="0, 1, 2, 3", his="0, 1, 2, 3", modes='"mut"'), None, 150000),
    # no VIEW: every distinct history is a state, i.e. ALL operation sequences up to MaxOps (the real iterator
    # has hidden state -- parent stack, pending reseek key -- that depends on the path, not on the model state)
    ("mutable 2 keys, ALL sequences of <= 5 operations", 2,
     dict(nk=2, vals="1", slots=1, los="0", his="0", modes='"mut"', ops=5, view=False), None, 400000),
]
# Simulation: random deep behaviours (path-dependent hidden state of the real iterator)
SIMULATE = [
    ("simulation mutable 3 keys, 14 operations", 3,
     dict(nk=3, vals="0, 1", slots=1, los="0, 2", his="0, 3", modes='"mut"', ops=14), 2500, 30000),
    ("simulation immutable 3 keys / 3 versions, 14 operations", 3,
     dict(nk=3, vals="0, 1", slots=3, los="0, 2", his="0, 3", modes='"imm"', ops=14), 2500, 30000),
]


def trace_violation(chk, r, tr, nk):
    """The longest accepted prefix ends where the real run left the spec."""
    consumed = max(r["depth"] - 1, 0)
    lines = open(tr).read().splitlines()
    idx = min(consumed, len(lines) - 1)
    bad = json.loads(lines[idx]) if lines else {}
    start = max(i for i in range(0, idx + 1) if '"Reset"' in lines[i])
    hist = [json.loads(x) for x in lines[start:idx + 1]]
    mode = hist[0].get("mode", "?")
    ev = bad.get("ev", "?")
    if ev == "Panic":
        key = "C19:panic:" + bad.get("op", "?")
    else:
        key = "C19:%s:trace:%s" % (mode, ev)
    chk.violations.append((key, "recorded random run of the real treap is not a behaviour of Treap.tla: event %d of the run, %s "
                                "(TLC: %s)" % (idx - start, json.dumps(bad)[:300], r["tail"].strip().splitlines()[-3:]),
                           dict(trace=hist[-60:], nk=nk, run_events=len(hist))))


def run(chk):
    from concurrent.futures import ThreadPoolExecutor
    thorough = chk.tier == "thorough"
    rng = random.Random(vf.seed())
    vf.scratch()
    vf._copy_spec(os.path.join(vf.SPEC, "Store"))      # before the threads start
    pool = ThreadPoolExecutor(max_workers=8)
    fbin = pool.submit(vf.go_build, "treap")

    # 1. model check + one behaviour per edge; simulation; (all TLC runs side by side, one worker each)
    jobs = []
    for n, (label, nk, kw, lim_q, lim_t) in enumerate(list(EXTRACT) + (EXTRACT_THOROUGH if thorough else [])):
        f = pool.submit(vf.tlc, "Store", "Treap", "x%d.cfg" % n, cfg_text=cfg(emit="Emit", **kw), workers=1, timeout=2400)
        jobs.append((label, nk, lim_t if thorough else lim_q, f, False))
    for n, (label, nk, kw, num_q, num_t) in enumerate(SIMULATE):
        f = pool.submit(vf.tlc, "Store", "Treap", "s%d.cfg" % n, cfg_text=cfg(emit="EmitLast", props=False, **kw), workers=1, timeout=2400,
                        simulate="num=%d" % (num_t if thorough else num_q), depth=15, seed_arg=vf.seed())
        jobs.append((label, nk, None, f, True))
    binary = fbin.result()

    # 3. (started now, validated below) long random runs of the real treaps, 64 keys
    nk64 = 64
    runs, length = (40, 500) if thorough else (8, 200)
    tr = os.path.join(vf.scratch(), "treap-trace.ndjson")
    rec_recs, _ = vf.run_driver(binary, ["record", str(runs), str(length), str(nk64), tr])
    ftrace = pool.submit(vf.tlc, "Store", "TraceTreap", "trace.cfg", cfg_text=TRACE_CFG % (nk64, tr), workers=1, timeout=2400)

    # 2. replay on the real treaps
    last = None
    for label, nk, limit, f, sim in jobs:
        r = f.result()
        vf.tlc_ok(r, "Treap: " + label)
        behs, st = vf.behaviours(r, limit=limit, rng=rng, per_class=1000)
        chk.add_tlc(r, ("simulation: " if sim else "exhaustive + edge extraction: ") + label)
        st["label"] = label
        chk.cov.setdefault("extraction", []).append(st)
        path = os.path.join(vf.scratch(), "beh-%d.jsonl" % len(chk.cov["extraction"]))
        vf.write_json_lines(path, behs)
        recs, _ = vf.run_driver(binary, ["replay", path, str(nk)])
        chk.absorb(recs, "replay: " + label)
        if last is None:
            last = (behs, nk)

    # binding self-test: corrupt one expected value in a behaviour -> the driver must object
    behs, nk = last
    cand = [b for b in behs if b[-1]["m"]["cnt"] > 0]
    bad = json.loads(json.dumps(cand[len(cand) // 2]))
    mp = bad[-1]["m"]
    i = next(i for i, v in enumerate(mp["mp"]) if v >= 0)
    mp["mp"][i] = 1 - mp["mp"][i]              # another value length for an existing key
    mp["asc"] = [[k, (1 - v) if k == i + 1 else v] for k, v in mp["asc"]]
    p2 = os.path.join(vf.scratch(), "beh-bad.jsonl")
    vf.write_json_lines(p2, [bad])
    recs, _ = vf.run_driver(binary, ["replay", p2, str(nk)])
    chk.selftest("replay: expected value of one key corrupted", any(x.get("kind") == "violation" for x in recs))

    # 2. thorough: the larger joint configuration, model only (both modes, 2 versions, ranged iterators)
    if thorough:
        r = vf.tlc("Store", "Treap", "mc.cfg", cfg_text=cfg(nk=3, vals="0, 1", slots=2, los="0, 2", his="0, 3"),
                   workers=16, timeout=2400)
        vf.tlc_ok(r, "Treap exhaustive")
        chk.add_tlc(r, "exhaustive Treap.tla (3 keys, 2 versions, ranged iterators, both modes)")

    # 3. trace validation of the recorded random runs
    nk = nk64
    recs = rec_recs
    nev = sum(1 for _ in open(tr))
    r = ftrace.result()
    if r["timed_out"]:
        raise vf.Infra("trace validation timed out")
    chk.add_tlc(r, "trace validation, %d runs x %d operations over %d keys (%d events)" % (runs, length, nk, nev))
    if r["rc"] != 0:
        if "TraceAccepted" not in r["tail"] and "is violated" not in r["tail"] and "Deadlock" not in r["tail"]:
            raise vf.Infra("TLC failed on the trace:\n" + r["tail"][-2000:])
        trace_violation(chk, r, tr, nk)
    chk.absorb(recs, "record random runs")
    if r["rc"] == 0:
        # binding self-test: corrupt one recorded answer -> TLC must reject the trace
        lines = open(tr).read().splitlines()
        idx = max(i for i, x in enumerate(lines) if '"cnt"' in x)
        ev = json.loads(lines[idx]); ev["size"] += 1; lines[idx] = json.dumps(ev)
        tr2 = os.path.join(vf.scratch(), "treap-trace-bad.ndjson")
        open(tr2, "w").write("\n".join(lines) + "\n")
        r2 = vf.tlc("Store", "TraceTreap", "trace2.cfg", cfg_text=TRACE_CFG % (nk, tr2), workers=1, timeout=1200)
        chk.selftest("trace: one recorded Size() corrupted", r2["rc"] != 0 and not r2["timed_out"])
    chk.assumptions += [
        "iterator protocol of treapiter.go: after every update of a mutable treap the driver calls ForceReseek on the live "
        "iterator; Valid/Key/Value are compared after every positioning call, not between an update and the next move",
        "an iterator limited to [lo,hi) never shows a pair outside the range; First/Last/Next/Prev walk the sub-map of the "
        "range; Seek(k) goes to the first pair of the whole treap with key >= k and is exhausted when that pair is outside "
        "the range (the semantics the package's own treapiter_test.go table fixes)",
        "Size() is compared with sum(72 + len(key) + len(value)) (nodeFieldsSize = 72 as documented in common.go)",
        "TLC bounds: 2-4 keys, value lengths {0,1} / {0,2}, 1-3 retained versions, one iterator at a time; the state "
        "spaces are finite and explored without a depth bound",
    ]
    return chk.finish(exhaustive=False)
