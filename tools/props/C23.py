"""C23 - saved state checkpoints are lossless."""
import importlib.util, json, os, random
import vf

META = dict(
    text="Checkpoint/Restore is the identity on the abstract state of the state machines (Mempool.tla RestoreIsIdentity; "
         "CheckpointRestore actions of DPoS.tla and CR.tla / Proposal.tla). Conformance on the real code, at every step of "
         "the behaviours TLC generates for those modules: the checkpoint is taken the way the checkpoint manager does "
         "(Snapshot -> Serialize), decoded into a fresh object, compared with the live one field by field, and the remaining "
         "blocks of the behaviour are processed on the restored instance, which must end in the same state as the "
         "uninterrupted run.  Mempool: the saved bytes are loaded into a fresh TxPool on the same chain and transactions, fee "
         "list, size accounting and conflict slots are compared.",
    note="Fields that no modelled action populates are listed in the evidence (never_populated) and not claimed.  Wallet: "
         "Wallet.tla folds the wallet's coins over the chain's notifications (WalletIsLedgerView); the real CoinsCheckPoint is "
         "registered with the checkpoint manager, compared after every delivery, serialized / restored / compared field by "
         "field, and in one variant replaced by its restored copy after every step.",
    technique="TLA+ state-machine models (identity of Checkpoint/Restore) + serialize/deserialize/continue replay on the real "
              "DPoS, CR, mempool and wallet objects at every height of TLC-generated behaviours",
)

HERE = os.path.dirname(os.path.abspath(__file__))


def load(name):
    p = os.path.join(HERE, name + ".py")
    if not os.path.exists(p):
        return None
    spec = importlib.util.spec_from_file_location(name, p)
    m = importlib.util.module_from_spec(spec); spec.loader.exec_module(m)
    return m


def run(chk):
    thorough = chk.tier == "thorough"
    rng = random.Random(vf.seed())
    # ---- mempool ----
    c34 = load("C34")
    binary = vf.go_build("ledger")
    big = dict(txs=["T1", "T2", "T3", "T6"], blocks=3, tpb=1, bad=0, deliver=3, submit=3, maxpool=100000)
    r = vf.tlc("Chain", "Mempool", "mc23.cfg", cfg_text=c34.cfg(inv="INVARIANTS RestoreIsIdentity PoolConflictFree", **big),
               workers=16, timeout=1700)
    vf.tlc_ok(r, "Mempool RestoreIsIdentity")
    chk.add_tlc(r, "exhaustive Mempool.tla: RestoreIsIdentity")
    small = dict(txs=["T1", "T2", "T3", "T6"], blocks=2, tpb=1, bad=0, deliver=2, submit=3, maxpool=100000)
    r = vf.tlc("Chain", "Mempool", "x23.cfg", cfg_text=c34.cfg(extra="ACTION_CONSTRAINT MEmit", **small), workers=1, timeout=1700)
    vf.tlc_ok(r, "Mempool extraction")
    behs, st = vf.behaviours(r, limit=3000 if thorough else 300, rng=rng, per_class=60, strat_key=c34.why)
    sim = dict(txs=["T1", "T2", "T3", "T4", "T5", "T6", "T7"], blocks=5, tpb=2, bad=1, deliver=6, submit=6, maxpool=100000)
    r = vf.tlc("Chain", "Mempool", "s23.cfg", cfg_text=c34.cfg(extra="ACTION_CONSTRAINT MEmitLast", **sim), workers=1,
               timeout=1700, simulate="num=%d" % (2000 if thorough else 150), depth=20, seed_arg=vf.seed())
    vf.tlc_ok(r, "Mempool simulation")
    b2, _ = vf.behaviours(r, strat_key=c34.why)
    path = os.path.join(vf.scratch(), "ckp-pool.jsonl")
    vf.write_json_lines(path, behs + b2)
    chk.absorb(vf.run_sharded(binary, lambda i, n: ["poolckp", path, str(i), str(n), "100000"]), "mempool checkpoint round trip")
    # ---- DPoS and CR state (drivers of C21 / C22) ----
    for part in ("C23_dpos", "C23_cr", "C23_wallet"):
        m = load(part)
        if m is None:
            chk.notes.append("part %s not available" % part)
            continue
        if hasattr(m, "run_all"):
            m.run_all(chk)
        else:
            chk.notes.append("part %s has no run_all yet" % part)
    return chk.finish(exhaustive=False)
