"""C09 - proof-of-work target encoding, proof-of-work check and retargeting.

 1. TLC checks spec/Edge/Compact.tla (CompactToBig, BigToCompact, CheckProofOfWork's guard, the
    retarget clamp of CalcNextRequiredDifficulty transcribed for a scaled sub-domain: exponents
    0..4, targets < 2^31) over boundary and seeded random mantissas / targets, all timespan
    classes and two adjustment factors (invariants RoundTrip, Normalises, EncodeNotLarger,
    EncodeSign, PowSound, RetargetBounded, RetargetOff, RetargetLimit).
 2. Every case is executed on the real functions and lifted by k = 1..28 byte positions with
    math/big (compact + k<<24  <->  value * 256^k), so the real 256-bit range is reached.
"""
import os, random, json
import vf

META = dict(
    text="CompactToBig/BigToCompact, the guard of CheckProofOfWork and the clamp of CalcNextRequiredDifficulty are transcribed "
         "into TLA+ for a scaled sub-domain (exponents 0..4, targets < 2^31; TLC integers are 32-bit); TLC checks round trip on "
         "canonical encodings, encode-never-larger, the accept-only-if conditions of the proof-of-work check and the "
         "[old/f, old*f] / limit bounds of retargeting over boundary and seeded mantissas, and every case is executed on the "
         "real functions, also lifted by 1..28 byte positions with math/big (the encoding is shift invariant above exponent 3); "
         "CalcNextRequiredDifficulty runs on a chain object made by blockchain.New with hand-linked block nodes.",
    note="Claimed for the scaled sub-domain and its byte-shift lifts, not for arbitrary 256-bit mantissa patterns; hash == target "
         "cannot be produced with real hashes; retarget configurations have TargetTimespan divisible by the factor.",
    technique="TLA+ transcription of the case analysis (TLC exhaustive over boundary classes) + per-case replay with exact "
              "math/big lifting",
)

BOUNDARY_M = [0, 1, 0x7f, 0x80, 0xff, 0x100, 0x101, 0x7fff, 0x8000, 0x8001, 0xffff, 0x10000, 0x10001, 0x7fffff, 0x7fff00,
              0x400000, 0x123456, 0x654321, 0x00ff00, 0x008000, 0x00ffff]
BOUNDARY_T = [1, 2, 3, 4, 0x7f, 0x80, 0xff, 0x100, 0x7fff, 0x8000, 0xffff, 0x10000, 0x10001, 0x7fffff, 0x800000, 0x800001,
              0xffffff, 0x1000000, 0xffff00, 0x7fffffff, 0x7fffff00, 0x123456, 0x12345678, 0x3fffc0, 0x3fffc1, 0x7fff80,
              0x80000000 - 256, 0x1000001, 0x00ff0000]

CFG = """SPECIFICATION Spec
CONSTANTS
  Exponents = {0, 1, 2, 3, 4}
  Mantissas = {%(mant)s}
  Targets = {%(targets)s}
  PosSpans = {%(spans)s}
  NegSpans = {5, 100000}
  Factors = {2, 4}
  TargetTimespan = 16
  LimitBits = 67174399
VIEW view
INVARIANTS RoundTrip Normalises EncodeNotLarger EncodeSign PowSound RetargetBounded RetargetOff RetargetLimit
ACTION_CONSTRAINT Emit
CHECK_DEADLOCK FALSE
"""


def absorb(chk, recs, label):
    """A property violation takes precedence over model mismatches of the same run (the shared absorb stops at
    the first mismatch): when the driver found violations that are not known findings, its mismatch records
    are set aside and noted, so that the check ends with VIOLATION / exit 1 rather than exit 2."""
    known = {k["key"] for k in chk.known}
    fresh = [r for r in recs if r.get("kind") == "violation" and r.get("key") not in known]
    mism = [r for r in recs if r.get("kind") == "mismatch"]
    if fresh and mism:
        chk.notes.append("%s: %d model mismatches set aside because the run found violations" % (label, len(mism)))
        recs = [r for r in recs if r.get("kind") != "mismatch"]
    chk.absorb(recs, label)


def run(chk):
    thorough = chk.tier == "thorough"
    rng = random.Random(vf.seed() * 131 + 9)
    binary = vf.go_build("compact")
    nrand = 60 if thorough else 12
    mant = sorted(set(BOUNDARY_M + [rng.randrange(1 << 23) for _ in range(nrand)]))
    targets = sorted(set(BOUNDARY_T + [rng.randrange(1, 1 << rng.choice([8, 16, 20, 24, 28, 31])) for _ in range(nrand)]))
    spans = sorted(set([0, 1, 3, 4, 5, 7, 8, 9, 15, 16, 17, 31, 32, 33, 63, 64, 65, 1000, 86400] +
                       [rng.randrange(0, 80) for _ in range(nrand // 2)]))
    cfg = CFG % dict(mant=", ".join(map(str, mant)), targets=", ".join(map(str, targets)), spans=", ".join(map(str, spans)))
    r = vf.tlc("Edge", "Compact", "cp.cfg", cfg_text=cfg, workers=8, timeout=1500, jvm=("-XX:ParallelGCThreads=4",))
    vf.tlc_ok(r, "Compact exhaustive")
    chk.add_tlc(r, "exhaustive + extraction: decode / encode / proof-of-work / retarget cases")
    behs, st = vf.behaviours(r, strat_key=lambda b: b[-1]["args"]["kind"])
    chk.cov.setdefault("extraction", []).append(st)
    path = os.path.join(vf.scratch(), "cp.jsonl")
    vf.write_json_lines(path, behs)
    recs, _ = vf.run_driver(binary, ["replay", path, "16"])
    absorb(chk, recs, "replay on CompactToBig/BigToCompact/CalcWork/CheckProofOfWork/CalcNextRequiredDifficulty with lifts")

    # binding self-tests: one expected value corrupted per mechanism
    def corrupt(kind, pred, mut, name):
        cand = [b for b in behs if b[-1]["args"]["kind"] == kind and pred(b[-1])]
        bad = json.loads(json.dumps(cand[len(cand) // 2]))
        mut(bad[-1])
        p = os.path.join(vf.scratch(), "cp-bad.jsonl")
        vf.write_json_lines(p, [bad])
        recs, _ = vf.run_driver(binary, ["replay", p, "16"])
        chk.selftest(name, any(x.get("kind") == "violation" for x in recs))

    corrupt("decode", lambda s: s["exp"]["big"] > 1000, lambda s: s["exp"].__setitem__("big", s["exp"]["big"] + 1),
            "replay: expected decoded value off by one")
    corrupt("retarget", lambda s: s["args"]["cls"] == "retarget" and s["exp"]["bits"] > 0,
            lambda s: s["exp"].__setitem__("bits", s["exp"]["bits"] + 1), "replay: expected retarget bits off by one")
    corrupt("pow", lambda s: s["exp"]["verdict"] == "ok" and s["args"]["hrel"] == "lt" and s["args"]["c"] >> 24 >= 3,
            lambda s: s["exp"].__setitem__("verdict", "hash-above-target"), "replay: verdict of a passing header flipped")

    chk.assumptions += [
        "scaled sub-domain: compact exponents 0..4 and targets < 2^31 in TLC; the real range is reached by byte-shift lifting "
        "(k = 1..28, up to 60 for the proof-of-work check) with expectations computed exactly by math/big from the spec's values; "
        "values with exponent < 3 are not lifted (digits are lost there)",
        "arbitrary 256-bit mantissa patterns are covered only as boundary + seeded 23-bit mantissas with random low-order bytes "
        "below the kept digits",
        "CheckProofOfWork: the case hash == target is not realisable with real sha256d hashes and is skipped; the relation of a "
        "real parent-header hash to the target is obtained by choosing the lift",
        "retarget: previous bits are canonical, positive and <= limit (what CheckProofOfWork admits); TargetTimespan 16 s is "
        "divisible by the factors 2 and 4 as in the shipped configurations (86400/4); a target of 1..f-1 retargets to 0",
        "lifted retarget cases whose division by the timespan is inexact are checked against the property bounds only",
    ]
    return chk.finish(exhaustive=False)
