"""C23, DPoS part: the DPoS checkpoint (dpos/state/checkpoint.go) is lossless.

Called from tools/props/C23.py:

    import C23_dpos
    binary = C23_dpos.build()                              # harness/cmd/dposstate
    for prelude, behs in C23_dpos.default_behaviours(chk): # TLC-generated block sequences (DPoS.tla)
        C23_dpos.run_part(chk, binary, behs, prelude=prelude)

run_part drives `dposstate checkpoint`: for every behaviour, after every applied block
within `span` heights of the end (and every third height before), the DPoS check point is
taken as core/checkpoint does (state.NewCheckpoint(arbiters) -> Serialize), restored into a
fresh instance (Deserialize, OnInit -> RecoverFromCheckPoints) and
  (a) the restored CheckPoint object is compared with the live one over every exported and
      unexported field (violation key `C23:dpos-checkpoint:<field class>`), it is serialized
      again (same length, same object after another Deserialize);
  (b) the remaining blocks are processed on the restored instance; the final canonical state
      must equal the uninterrupted run's (`C23:dpos-restore-diverges:<field class>`).
Differences of (b) in PendingCanceledProducers[k].<field> while another producer map of the
restored instance holds k with the uninterrupted run's value are one mechanism (the check point
stores two copies of one shared *Producer) and are reported under the single key
`C23:dpos-restore-diverges:PendingCanceledProducers-alias`, whatever the fields.
The generated part (run_fields, `dposstate fields <n> <seed>`) complements this: see run_fields.
The summary record lists under `never_populated` the check point fields that were zero /
empty in every snapshot taken (not exercised, so not claimed).

In DPoS.tla the save / restore is the action CheckpointRestore (identity on the abstract
state, generated when the constant WithCheckpoint is TRUE; action property
CheckpointIsIdentity).  The behaviours used here come from the ordinary configurations: the
driver performs the save / restore at every height itself.
"""
import os, random, sys
sys.path.insert(0, os.path.dirname(os.path.abspath(__file__)))
import vf
import dpos_common as dc


def build():
    return dc.driver()


def default_behaviours(chk, per_config=None):
    """[(prelude, behaviours)] - TLC extraction over the full DPoS alphabet (plus a run with
    CheckpointRestore steps enabled, which checks CheckpointIsIdentity in the model)."""
    thorough = chk.tier == "thorough"
    n = per_config or (1500 if thorough else 120)
    rng = random.Random(vf.seed())
    out = []
    # thorough: two items per block after the basic prelude (one printed edge in 8: the full output does not fit in
    # memory), otherwise the quick bounds with more behaviours replayed
    plan = [("ckp-basic", "basic", 8, 2 if thorough else 1), ("ckp-votes", "votes", 10, 1),
            ("ckp-cancel", "cancel", 12, 1), ("ckp-penalty", "penalty", 11, 1)]
    for label, prelude, maxh, items in plan:
        r = dc.tlc_run(chk, label, prelude, dc.ALL_KINDS, maxh, items, 1, emit="Emit", workers=1,
                       checkpoint=(label == "ckp-basic"), sample=8 if items > 1 else 1, timeout=2400)
        behs, st = vf.behaviours(r, limit=None)
        behs = dc.pick(behs, n, rng)
        st.pop("classes", None)
        st["label"] = label
        st["selected"] = len(behs)
        chk.cov.setdefault("extraction", []).append(st)
        out.append((prelude, behs))
    return out


def run_part(chk, binary, behs, prelude="basic", span=6, shards=4, label=None):
    """Run the checkpoint mode of the driver over `behs` (behaviours of DPoS.tla generated with the
    given prelude) and absorb the result records into chk.  Returns the records."""
    label = label or ("dpos checkpoint " + prelude)
    path = os.path.join(vf.scratch(), "ckp-%s-%d.jsonl" % (prelude, len(behs)))
    su = dc.PRELUDES[prelude]["su"]
    shards = max(1, min(shards, len(behs)))
    parts = []
    for i in range(shards):
        p = path + ".%d" % i
        vf.write_json_lines(p, behs[i::shards])
        parts.append(p)
    import concurrent.futures
    env = {"GOGC": "300", "GOMAXPROCS": "2"}
    with concurrent.futures.ThreadPoolExecutor(max_workers=shards) as ex:
        futs = [ex.submit(vf.run_driver, binary, ["checkpoint", parts[i], str(span), str(su)], None, 3000, env)
                for i in range(shards)]
        res = [f.result()[0] for f in futs]
    # never_populated: a field counts only if no shard populated it
    never = None
    for shard in res:
        for r in shard:
            if r.get("kind") == "summary" and "never_populated" in r:
                s_ = set(r["never_populated"])
                never = s_ if never is None else (never & s_)
    recs = vf.merge_summaries([r for shard in res for r in shard])
    for r in recs:
        if r.get("kind") == "summary":
            r["never_populated"] = sorted(never or [])
    chk.absorb(recs, label)
    if never is not None:
        chk.cov.setdefault("never_populated", {})[prelude] = sorted(never)
    return recs


def run_fields(chk, binary, shards=4):
    """The generated part (`dposstate fields`, harness/cmd/dposstate/fields.go): state.Arbiters / state.CheckPoint
    objects populated field by field (every scalar distinct, every map / slice with >= 2 entries at every level, the
    three ArbiterMember implementations), (a) Serialize -> Deserialize == original, (b) NewCheckpoint / Snapshot feed
    every CheckPoint member from the Arbiters member of the same name and RecoverFromCheckPoints brings every
    member back.  Members outside the check point are on the driver's exclusion list (recorded in the evidence)."""
    import concurrent.futures
    per = 75 if chk.tier == "thorough" else 20
    with concurrent.futures.ThreadPoolExecutor(max_workers=shards) as ex:
        futs = [ex.submit(vf.run_driver, binary, ["fields", str(per), str(vf.seed() * 16 + i)], None, 600) for i in range(shards)]
        res = [f.result()[0] for f in futs]
    excluded = sorted({x for shard in res for r in shard if r.get("kind") == "summary" for x in r.get("excluded", [])})
    recs = vf.merge_summaries([r for shard in res for r in shard])
    for r in recs:
        if r.get("kind") == "summary":
            r.pop("excluded", None)
    chk.absorb(recs, "dpos check point, generated field by field")
    chk.cov["dpos_fields_excluded"] = excluded
    # binding self-test: a check point member fed from the wrong Arbiters member must be reported
    bad, _ = vf.run_driver(binary, ["fields", "3", str(vf.seed()), "plant"], None, 600)
    chk.selftest("dpos fields: NextCRCArbitersMap fed from CurrentCRCArbitersMap (planted by the driver)",
                 any(r.get("kind") == "violation" and r.get("key") == "C23:dpos-snapshot-wrong-source:NextCRCArbitersMap" for r in bad))
    return recs


def run_all(chk):
    """Everything for the DPoS part: build the driver, the generated field sweep, generate behaviours with TLC, run the
    checkpoint mode, absorb."""
    binary = build()
    out = run_fields(chk, binary)
    for prelude, behs in default_behaviours(chk):
        out += run_part(chk, binary, behs, prelude=prelude)
    chk.assumptions += [
        "C23 DPoS part: check points are taken with state.NewCheckpoint(arbiters).Serialize and restored with Deserialize + OnInit "
        "(RecoverFromCheckPoints) in memory; the file handling of core/checkpoint (channels, file names, periods) is not exercised; "
        "fields listed under coverage.never_populated were zero in every snapshot of the behaviour-driven part; the generated part "
        "(dposstate fields) populates every member of state.Arbiters / state.CheckPoint by reflection (80 instances quick, 300 "
        "thorough: all scalars distinct, >= 2 entries per map / slice at every level, origin / DPoS / CRC arbiter members) and checks "
        "Serialize/Deserialize, NewCheckpoint / Snapshot member by member against the Arbiters member of the same name and "
        "RecoverFromCheckPoints; the members it leaves out are listed with reasons under coverage.dpos_fields_excluded; interface{} "
        "values of IllegalBlocksPayloadHashes are nil (only the keys are serialized)",
    ]
    return out
