"""C35 - P2P framing rejects anything but well-formed, authentic messages.

 1. The driver lists a valid instance of every command both of the node's
    networks (main chain, DPoS) can read, with its payload length and the
    command's MaxLength().
 2. spec/Edge/P2PFrame.tla, instantiated with those numbers: the reader's stages
    as actions, every (command x corruption class [x declared length / cut]) case
    enumerated by TLC with the acceptance / bounded-read / bounded-allocation
    invariants.
 3. Every case is materialised on the bytes p2p.WriteMessage produced -- the class
    applied at every byte offset of the header field concerned (and sampled payload
    offsets) -- and fed to the real p2p.ReadMessage with the peer layer's message
    factory over an in-memory connection that counts consumed bytes; verdict,
    rejecting stage, bytes consumed and the measured heap allocation are compared.
"""
import json, os, random, sys
sys.path.insert(0, os.path.dirname(os.path.abspath(__file__)))
import vf
import edgetwo_common as ec

META = dict(
    text="P2PFrame.tla models the frame reader stage by stage (header, NUL-terminated command, magic, dispatch, length <= "
         "command maximum, allocation, payload, checksum, decode); TLC enumerates every command of both networks x "
         "corruption class x declared length (all single-byte changes of the length field, +-1, maximum, maximum+1, >= "
         "2^30) x truncation point with the invariants 'accepted => authentic', 'bytes consumed <= 24 + declared, = 24 if "
         "oversize', 'allocated <= declared <= maximum'; every case is applied at every byte offset of the field to the "
         "bytes the real WriteMessage produced and read by the real ReadMessage with the peer layer's factories, "
         "comparing verdict, stage, bytes consumed and measured allocation.",
    note="One valid instance per command; equality of arbitrary message contents after a round trip is not claimed; "
         "checksum-valid but undecodable payloads are out of scope; allocation is measured with runtime/metrics /gc/heap/allocs:bytes "
         "(64 KiB slack for error values and hashing).",
    technique="TLA+ pipeline model (TLC complete enumeration over the real commands' lengths and maxima) + per-case "
              "conformance run on p2p.ReadMessage/WriteMessage with the real message factories",
)

HUGE = 2 ** 30      # TLC integers are 32 bit and the spec adds the header size


def tla_fun(d, fmt=str):
    return "(" + " @@ ".join('"%s" :> %s' % (k, fmt(v)) for k, v in sorted(d.items())) + ")"


def tla_set(s):
    return "{" + ", ".join(str(x) for x in sorted(s)) + "}"


def build_mc(cmds, rng, thorough):
    lens = {c["id"]: c["n"] for c in cmds}
    maxs = {c["id"]: c["max"] for c in cmds}
    decls, cuts = {}, {}
    for c in cmds:
        n, m = c["n"], c["max"]
        ds = {n - 1, n + 1, m, m + 1, 0, HUGE}
        for k in range(4):                      # every single-byte change of the length field
            for pat in (0x01, 0x80, 0xff):
                v = n ^ (pat << (8 * k))
                ds.add(HUGE if v >= HUGE else v)
        ds = {d for d in ds if d >= 0 and d != n}
        decls[c["id"]] = ds
        if n <= 48 or thorough:
            cs = set(range(n)) if n <= 400 else set(rng.sample(range(n), 400))
        else:
            cs = set(range(6)) | set(range(n - 6, n)) | set(rng.sample(range(n), 12))
        cuts[c["id"]] = {k for k in cs if 0 <= k < n}
    mod = "\n".join([
        "---- MODULE P2PFrameMC ----",
        "EXTENDS P2PFrame",
        "MCCmds == {" + ", ".join('"%s"' % c["id"] for c in cmds) + "}",
        "MCLen == " + tla_fun(lens),
        "MCMax == " + tla_fun(maxs),
        "MCDecls == " + tla_fun(decls, tla_set),
        "MCPayCuts == " + tla_fun(cuts, tla_set),
        "====", ""])
    return mod


CFG = """SPECIFICATION Spec
CONSTANTS
  Cmds <- MCCmds
  PLen <- MCLen
  PMax <- MCMax
  Decls <- MCDecls
  PayCuts <- MCPayCuts
  HdrCuts = {%s}
  Huge = %d
VIEW view
INVARIANTS TypeOK AcceptOnlyAuthentic WrittenIsRead NoOverRead BoundedRead BoundedAlloc RejectedEarly
ACTION_CONSTRAINT Emit
CHECK_DEADLOCK FALSE
"""


def to_driver(case):
    c = json.loads(json.dumps(case))
    if c["args"]["class"] == "length" and c["args"]["d"] == HUGE:
        c["args"]["d"] = "huge"
    return c


def run(chk):
    thorough = chk.tier == "thorough"
    rng = random.Random(vf.seed())
    binary = vf.go_build("p2pframe")

    if getattr(chk, "replay", None):
        cases = ec.replay_cases(chk.replay)
        recs, _ = vf.run_driver(binary, ["run", ec.write_cases("replay.jsonl", cases)], timeout=3000)
        ec.absorb(chk, recs, "replay")
        return chk.finish(exhaustive=False)

    _, out = vf.run_driver(binary, ["list"])
    cmds = [json.loads(l) for l in out.splitlines() if l.startswith("{")]
    if len(cmds) < 30:
        raise vf.Infra("p2pframe list returned only %d commands" % len(cmds))
    chk.cov["commands"] = [dict(id=c["id"], payload=c["n"], max=c["max"]) for c in cmds]

    # valid instances over a real in-memory connection (net.Pipe)
    recs, _ = vf.run_driver(binary, ["pipe"])
    ec.absorb(chk, recs, "round trip of every valid instance over net.Pipe")

    hdr = "0, 1, 3, 4, 15, 16, 19, 20, 23" if not thorough else ", ".join(str(i) for i in range(24))
    r = vf.tlc("Edge", "P2PFrameMC", "p2p.cfg", cfg_text=CFG % (hdr, HUGE), files={"P2PFrameMC.tla": build_mc(cmds, rng, thorough)},
               workers=1, timeout=1500)
    vf.tlc_ok(r, "P2PFrame")
    chk.add_tlc(r, "P2PFrame.tla complete over %d commands x classes x declared lengths x cuts" % len(cmds))
    cases, st = ec.last_steps(r)
    st["classes"] = {}
    for c in cases:
        k = c["args"]["class"] + ":" + c["exp"]["stage"]
        st["classes"][k] = st["classes"].get(k, 0) + 1
    chk.cov.setdefault("extraction", []).append(st)
    recs, _ = vf.run_driver(binary, ["run", ec.write_cases("cases.jsonl", [to_driver(c) for c in cases])], timeout=3000)
    ec.absorb(chk, recs, "cases on p2p.ReadMessage")

    # binding self-tests
    bad = to_driver(next(c for c in cases if c["args"]["class"] == "none" and c["args"]["cmd"] == "main/inv"))
    bad["exp"] = dict(verdict="reject", stage="checksum", read=24, alloc=0)
    recs, _ = vf.run_driver(binary, ["run", ec.write_cases("bad1.jsonl", [bad])])
    ec.selftest(chk, "a valid frame declared 'reject'", recs)
    bad = to_driver(next(c for c in cases if c["args"]["class"] == "checksum" and c["args"]["cmd"] == "main/inv"))
    bad["exp"]["read"] -= 1
    recs, _ = vf.run_driver(binary, ["run", ec.write_cases("bad2.jsonl", [bad])])
    ec.selftest(chk, "expected bytes consumed lowered by one", recs)

    chk.assumptions += [
        "one valid instance per command the factories of p2p/peer + elanet (main network) and dpos/p2p/peer + dpos (DPoS network) "
        "know; merkleblock (sent, never read) and the DPoS daddr/reject types (not in the factory) are not instances",
        "header fields are corrupted at every byte offset with the patterns ^0x01, ^0x80, ^0xff (command: ^0x01, ^0x20, ^0x80; a "
        "change that yields another command of the same network is a different frame and skipped); payload bytes at every "
        "offset up to 192 bytes, sampled beyond",
        "declared lengths >= 2^30 are one class in the spec (TLC integers are 32 bit) and are run as 0xffffffff, 0x80000000, "
        "0x80000000|n, 0xff000000|n, 0x40000000|n",
        "in-memory connection with EOF at the end of the supplied bytes (a blocking socket would time out instead); valid "
        "instances additionally go through net.Pipe",
        "allocation = runtime/metrics /gc/heap/allocs:bytes delta around ReadMessage, re-measured exactly with runtime.MemStats.TotalAlloc when above the bound with the logger above warning level, 64 KiB slack",
    ]
    # the spec's case space is enumerated and run completely; payload offsets of long payloads are sampled
    return chk.finish(exhaustive=False)
