"""C33 - side-chain withdrawals need the arbiter quorum and are single-use."""
import json, os, random
import vf

META = dict(
    text="Withdraw.tla transcribes the Schnorr (payload v2) withdrawal checker -- threshold per height band, cross-chain-only "
         "inputs, signer indexes in range and distinct from the restriction height on, the program being the Schnorr script of "
         "exactly the listed keys, and the single-use test against the Tx3 index -- and TLC checks AcceptedIsAuthorised / "
         "AuthorisedIsAccepted over arbiter sets of 3 and 4 with every signer list (and sets of 12 and 36 with structured lists at the threshold: distinct, one index repeated, one out of range, one short) of up to 4 indexes with repetition and an "
         "out-of-range index, both bands, both sides of the restriction height, cross-chain or mixed inputs, three program "
         "kinds and fresh / already withdrawn hashes. Each case becomes a real v2 withdrawal with really aggregated keys and "
         "Schnorr signatures spending a real cross-chain output on a full-stack node (arbiter set through ArbitratorsMock) and "
         "goes through CheckTransactionSanity + CheckTransactionContext; accepting an unauthorised or re-used withdrawal is a "
         "violation.",
    note="Payload v2 only (the form accepted after SchnorrStartHeight); the multisig forms v0/v1 share the Tx3 test that C13 "
         "exercises at storage level. Below the restriction height repeated signer indexes are accepted by design of the "
         "height-gated hardening and are not counted as violations; an out-of-range index below that height panics (C03's "
         "subject) and is skipped here. The already-withdrawn hash is planted in the Tx3 index directly.",
    technique="TLA+ decision model checked exhaustively by TLC, one implementation test per sampled/enumerated case on a "
              "full-stack node with real Schnorr aggregation",
)

CFG = """SPECIFICATION Spec
CONSTANTS
  Ns = {3, 4}
  BigNs = {12, 36}
  MaxSigners = 4
  SingleUseV2 = %s
VIEW view
%s
CHECK_DEADLOCK FALSE
"""


def cls(c):
    return "%s/%s/%s/%s/%s/%s" % (c["accept"], c["authorised"], c["panics"], c["prog"], c["restricted"], c["used"])


def run(chk):
    thorough = chk.tier == "thorough"
    rng = random.Random(vf.seed())
    binary = vf.go_build("withdraw")
    r = vf.tlc("Policy", "Withdraw", "w.cfg", cfg_text=CFG % ("TRUE", "INVARIANTS AcceptedIsAuthorised AuthorisedIsAccepted\nACTION_CONSTRAINT Emit"),
               workers=1, timeout=1500)
    vf.tlc_ok(r, "Withdraw exhaustive")
    chk.add_tlc(r, "exhaustive Withdraw.tla with the single-use test")
    r2 = vf.tlc("Policy", "Withdraw", "w0.cfg", cfg_text=CFG % ("FALSE", "INVARIANTS AcceptedIsAuthorised"), workers=4, timeout=900)
    if r2["timed_out"]:
        raise vf.Infra("TLC timed out")
    if r2["rc"] == 0:
        raise vf.Infra("vacuity: without the single-use test the model still satisfies AcceptedIsAuthorised")
    chk.cov["tlc_finds_reuse_without_single_use_test"] = True
    behs, _ = vf.behaviours(r, dedupe_prefixes=False)
    cases = [b[0] for b in behs]
    chk.cov["cases_enumerated"] = len(cases)
    if not thorough:
        groups = {}
        big = [c for c in cases if c["n"] > 4]      # structured lists over 12 / 36 arbiters: all of them, always
        for c in cases:
            if c["n"] <= 4:
                groups.setdefault(cls(c), []).append(c)
        pick = list(big)
        for k in sorted(groups):
            g = groups[k]
            rng.shuffle(g)
            pick += g[:120]
        cases = pick
    chk.cov["cases_replayed"] = len(cases)
    path = os.path.join(vf.scratch(), "wd.jsonl")
    vf.write_json_lines(path, cases)
    env = {"TMPDIR": "/dev/shm"} if os.path.isdir("/dev/shm") else None
    recs, _ = vf.run_driver(binary, ["run", path], env=env, timeout=3000)
    chk.absorb(recs, "CheckTransactionSanity + CheckTransactionContext on real Schnorr withdrawals")
    # the other half of "withdrawn on the active chain can never be withdrawn again": the Tx3 index the checker
    # consults holds exactly the hashes of the withdrawals on the active chain (Index.tla, shared with C13),
    # for every payload version and output layout, across connect / disconnect / reconnect
    import importlib.util
    _sp = importlib.util.spec_from_file_location("prop_C13", os.path.join(os.path.dirname(__file__), "C13.py"))
    c13 = importlib.util.module_from_spec(_sp)
    _sp.loader.exec_module(c13)
    ibin = vf.go_build("index")
    tpl = ["P1", "W0", "W1", "W2", "W3", "W4"]
    ri = vf.tlc("Chain", "Index", "w.cfg", cfg_text=c13.cfg(tpl, 4 if thorough else 3, 2 if thorough else 1, c13.asis(), "ACTION_CONSTRAINT Emit"),
                workers=1, timeout=1700)
    vf.tlc_ok(ri, "Index extraction (withdrawals)")
    chk.add_tlc(ri, "Index.tla edges over the withdrawal templates (payload v0/v1/v2, change-first layouts)")
    ib, ist = vf.behaviours(ri, limit=4000 if thorough else 250, rng=rng, per_class=200 if thorough else 12, strat_key=c13.cls)
    ipath = os.path.join(vf.scratch(), "wd-idx.jsonl")
    vf.write_json_lines(ipath, ib)
    chk.absorb(vf.run_sharded(ibin, lambda i, n: ["replay", ipath, str(i), str(n)], env={"VERIF_INDEX_FOR": "C33"}),
               "recorded withdrawal hashes follow the active chain (real ChainStore)")
    bad = dict(next(c for c in cases if c["authorised"] and not c["panics"])); bad["authorised"] = False
    p = os.path.join(vf.scratch(), "wd-bad.jsonl")
    vf.write_json_lines(p, [bad])
    recs, _ = vf.run_driver(binary, ["run", p], env=env)
    chk.selftest("authorised verdict flipped", any(x.get("kind") == "violation" for x in recs))
    return chk.finish(exhaustive=thorough)
