"""C39 - bloom filters have no false negatives.

 1. TLC checks spec/Edge/Bloom.tla: the filter abstracted to the set of added items (the only
    sound abstraction), MatchTxAndUpdate with the protocol's update modes over transaction
    templates that form spend chains; invariants / action properties NoFalseNegative, Monotone,
    WatchedMatches, SpendOfMatchedOutput for ordinary tweaks; the side-chain tweak (0xffffffff) is the
    specified action MatchTxSideChain with its own rule SideChainRule (type listed or output pays a
    program hash of the bit array; no updates).
 2. One behaviour per explored edge (and deeper simulated ones) is run on real filters of every
    size {0,1,8,36000} x hash-function count {0,1,3,50} x tweak, built by LoadFilter, NewFilter
    and TxFilter.Load; one-sided oracle: spec "must match" => the real filter matches.
"""
import os, random, json
import vf

META = dict(
    text="The bloom filter is specified as the set of items added to it (one-sided oracle); Add/AddHash/AddOutPoint and "
         "MatchTxAndUpdate with the update modes none/all/pay-to-pubkey-only are TLA+ actions over transaction templates forming "
         "spend chains, TLC checks that watched items, payments to them and spends of their outputs always match, and every "
         "explored edge is replayed on real bloom.Filter and TxFilter objects for filter sizes {0,1,8,36000} bytes x {0,1,3,50} hash "
         "functions x several tweaks (and NewFilter-built ones): after every step every item the spec holds must match.",
    note="One-sided by nature (a bloom filter may always answer yes); item sets <= 3 explicit additions, 4 transaction "
         "templates, behaviours <= 5 steps (simulation 7); tweak 0xffffffff is the specified side-chain mode with its own rule.",
    technique="TLA+ set abstraction (TLC exhaustive) + per-edge behaviour replay on real filters across the parameter grid",
)

CFG = """SPECIFICATION Spec
CONSTANTS
  NPh = 3
  MaxOps = %(ops)d
  MaxAdds = %(adds)d
VIEW view
INVARIANTS TypeOK NoFalseNegative
%(props)s
%(emit)s
CHECK_DEADLOCK FALSE
"""


def cfg(ops, adds, emit=None, props=True):
    return CFG % dict(ops=ops, adds=adds, props="PROPERTIES Monotone WatchedMatches SpendOfMatchedOutput SideChainRule" if props else "",
                      emit=("ACTION_CONSTRAINT " + emit) if emit else "")


def strat(b):
    s = b[-1]
    return "%s/%s/%s/%s/%s/%s" % (s["act"], s.get("mode"), s.get("side"), s.get("bits"), ",".join(s.get("listed") or []), s.get("why"))


def absorb(chk, recs, label):
    """A property violation takes precedence over model mismatches of the same run (the shared absorb stops at
    the first mismatch): when the driver found violations that are not known findings, its mismatch records
    are set aside and noted, so that the check ends with VIOLATION / exit 1 rather than exit 2."""
    known = {k["key"] for k in chk.known}
    fresh = [r for r in recs if r.get("kind") == "violation" and r.get("key") not in known]
    mism = [r for r in recs if r.get("kind") == "mismatch"]
    if fresh and mism:
        chk.notes.append("%s: %d model mismatches set aside because the run found violations" % (label, len(mism)))
        recs = [r for r in recs if r.get("kind") != "mismatch"]
    chk.absorb(recs, label)


def run(chk):
    thorough = chk.tier == "thorough"
    rng = random.Random(vf.seed() * 17 + 39)
    binary = vf.go_build("bloom")
    tier = "thorough" if thorough else "quick"

    # 1. exhaustive check of the model (thorough: a deeper one without extraction first)
    if thorough:
        r = vf.tlc("Edge", "Bloom", "mc.cfg", cfg_text=cfg(6, 3), workers=8, timeout=1500, jvm=("-XX:ParallelGCThreads=4",))
        vf.tlc_ok(r, "Bloom exhaustive")
        chk.add_tlc(r, "exhaustive Bloom.tla (ops<=6, adds<=3)")

    # 2. exhaustive check + one behaviour per edge -> real filters
    ops, adds = (5, 3) if thorough else (4, 2)
    r = vf.tlc("Edge", "Bloom", "x.cfg", cfg_text=cfg(ops, adds, emit="Emit"), workers=8, timeout=1500,
               jvm=("-XX:ParallelGCThreads=4",))
    vf.tlc_ok(r, "Bloom exhaustive + extraction")
    behs, st = vf.behaviours(r, limit=12000 if thorough else 1500, rng=rng, strat_key=strat, per_class=200 if thorough else 20)
    chk.add_tlc(r, "exhaustive Bloom.tla + edge extraction (ops<=%d, adds<=%d)" % (ops, adds))
    chk.cov.setdefault("extraction", []).append(st)
    path = os.path.join(vf.scratch(), "bl.jsonl")
    vf.write_json_lines(path, behs)
    recs, _ = vf.run_driver(binary, ["replay", path, tier])
    absorb(chk, recs, "replay edges on real filters")

    # 3. deeper simulated behaviours
    num = 4000 if thorough else 400
    r = vf.tlc("Edge", "Bloom", "sim.cfg", cfg_text=cfg(7, 3, emit="EmitLast", props=False), workers=1, timeout=900,
               simulate="num=%d" % num, depth=8, seed_arg=vf.seed())
    vf.tlc_ok(r, "Bloom simulation")
    sims, st2 = vf.behaviours(r, limit=None, strat_key=strat)
    chk.cov.setdefault("extraction", []).append(dict(simulate=st2))
    path = os.path.join(vf.scratch(), "bl-sim.jsonl")
    vf.write_json_lines(path, sims)
    recs, _ = vf.run_driver(binary, ["replay", path, tier])
    absorb(chk, recs, "replay simulated behaviours on real filters")

    # binding self-test: claim an item is in the filter that never was added -> a real filter that is
    # large enough does not match it, the driver must object
    cand = [b for b in behs if b[-1]["act"] == "Add" and not b[-1]["side"] and len(b[-1]["added"]) == 1]
    bad = json.loads(json.dumps(cand[len(cand) // 2]))
    ghost = ["ph", 3] if bad[-1]["added"][0] != ["ph", 3] else ["ph", 2]
    bad[-1]["added"].append(ghost)
    p1 = os.path.join(vf.scratch(), "bl-bad.jsonl")
    vf.write_json_lines(p1, [bad])
    recs, _ = vf.run_driver(binary, ["replay", p1, tier])
    chk.selftest("replay: an item that was never added claimed to be in the filter",
                 any(x.get("kind") == "violation" and x.get("key", "").startswith("C39:false-negative") for x in recs))

    chk.assumptions += [
        "one-sided oracle: only 'must match' is checked (false positives are legitimate; unforced matches are counted in "
        "the evidence)",
        "items: 3 program hashes (standard / multisig / other prefix), 4 transaction templates with spend chains, 5 outpoints; "
        "<= %d explicit additions, <= %d steps exhaustively (replayed: <= %d), 7 by simulation" % ((3, 6, 5) if thorough else (2, 4, 4)),
        "the real MatchTxAndUpdate ignores the update flags and always adds the outpoint (a superset of every mode), which the "
        "one-sided oracle admits",
        "tweak 0xffffffff is the protocol's side-chain mode (specified action MatchTxSideChain): there the real verdict is compared "
        "exactly with the rule evaluated on the real filter's own Matches() (type listed, or an output's program hash matches "
        "a non-empty bit array) and the bit array must stay unchanged; type lists: none / the templates' type / another type",
    ]
    return chk.finish(exhaustive=False)
