"""C20 - height-indexed change history rolls back exactly (utils.History).

 1. TLC exhaustively checks spec/Consensus/History.tla (the reference semantics
    with the component's usage protocol) for small constants.
 2. Behaviour extraction: one behaviour per explored edge of a smaller
    configuration, each replayed step by step on the real utils.History with
    S / Height() / len(Changes()) compared after every action.
 3. Simulation behaviours (deeper, seeded) replayed the same way.
 4. Trace validation: long seeded random runs of the real object are recorded
    and checked against TraceHistory.tla (spec as oracle beyond TLC's bounds).
"""
import os, random, json
import vf

META = dict(
    text="TLC exhaustively checks the reference semantics of the height-indexed change log (History.tla: state = fold of "
         "committed changes <= the positioned height, capacity eviction, temporary overlay, seek/rollback-seek) and every "
         "explored edge is replayed on the real utils.History comparing state, height and retained entries after every "
         "call; long seeded random runs of the real object are validated as traces against the same spec.",
    note="Trusts TLC and the usage protocol stated in the evidence assumptions (shapes of changes the repository's callers "
         "use); bounded: 2 keys, capacity 3/5, <= 7 operations exhaustively, 80-120 operations per recorded run.",
    technique="TLA+ reference model (TLC exhaustive) + per-edge behaviour replay on utils.History + trace validation of "
              "recorded random runs",
)

CFG = """SPECIFICATION Spec
CONSTANTS
  Keys = {%(keys)s}
  Cap = %(cap)d
  MaxH = %(maxh)d
  MaxOps = %(ops)d
  Deltas = {%(deltas)s}
  MaxPerH = 2
VIEW view
INVARIANTS TypeOK StateIsFold WithinCapacity Ordered
%(props)s
%(emit)s
CHECK_DEADLOCK FALSE
"""


def cfg(keys='"a", "b"', cap=3, maxh=4, ops=6, deltas="1, 2", emit=False, props=True):
    return CFG % dict(keys=keys, cap=cap, maxh=maxh, ops=ops, deltas=deltas,
                      props="PROPERTIES CommitIgnoresSeek" if props else "",
                      emit="ACTION_CONSTRAINT Emit" if emit else "")


TRACE_CFG = """SPECIFICATION TraceSpec
CONSTANTS
  Keys = {"a", "b"}
  Cap = %d
  MaxH = 100000
  MaxOps = 10000000
  Deltas = {1, 2, 3}
  MaxPerH = 1000
  TraceFile = "%s"
VIEW TraceView
CONSTRAINT HighWater
INVARIANTS StateIsFold WithinCapacity Ordered
POSTCONDITION TraceAccepted
CHECK_DEADLOCK FALSE
"""


def run(chk):
    thorough = chk.tier == "thorough"
    rng = random.Random(vf.seed())
    binary = vf.go_build("history")

    # 1. exhaustive model check
    r = vf.tlc("Consensus", "History", "mc.cfg", cfg_text=cfg(ops=7 if thorough else 6), workers=16,
               timeout=1500)
    vf.tlc_ok(r, "History exhaustive")
    chk.add_tlc(r, "exhaustive History.tla (Cap=3, MaxH=4, ops<=%d)" % (7 if thorough else 6))

    # 2. one behaviour per edge of a smaller configuration -> real code
    for cap, ops, keys, deltas, limit in ((2, 6 if thorough else 5, '"a"', "1, 2", 400000 if thorough else 60000),
                                          (3, 6 if thorough else 5, '"a", "b"', "1", 400000 if thorough else 60000)):
        r = vf.tlc("Consensus", "History", "x.cfg", cfg_text=cfg(keys=keys, cap=cap, maxh=4, ops=ops, deltas=deltas,
                                                               emit=True, props=False), workers=1, timeout=1500)
        vf.tlc_ok(r, "History extraction")
        behs, st = vf.behaviours(r, limit=limit, rng=rng, per_class=2000)
        chk.add_tlc(r, "edge extraction Cap=%d ops<=%d" % (cap, ops))
        chk.cov.setdefault("extraction", []).append(st)
        path = os.path.join(vf.scratch(), "beh-%d.jsonl" % cap)
        vf.write_json_lines(path, behs)
        recs, _ = vf.run_driver(binary, ["replay", path, str(cap)])
        chk.absorb(recs, "replay edges cap=%d" % cap)

    # binding self-test: corrupt one expected value -> the driver must object
    bad = json.loads(json.dumps(behs[len(behs) // 2]))
    k0 = sorted(bad[-1]["S"])[0]
    bad[-1]["S"][k0] += 7
    p2 = os.path.join(vf.scratch(), "beh-bad.jsonl")
    vf.write_json_lines(p2, [bad])
    recs, _ = vf.run_driver(binary, ["replay", p2, "3"])
    chk.selftest("replay: expected S corrupted", any(x.get("kind") == "violation" for x in recs))

    # 3. simulation: deeper behaviours
    num = 20000 if thorough else 3000
    sim_cfg = cfg(cap=3, maxh=8, ops=14, deltas="1, 2, 3", emit=False, props=False).replace(
        "CHECK_DEADLOCK FALSE", "ACTION_CONSTRAINT EmitLast\nCHECK_DEADLOCK FALSE")
    r = vf.tlc("Consensus", "History", "sim.cfg", cfg_text=sim_cfg, workers=1, timeout=900,
               simulate="num=%d" % num, depth=15, seed_arg=vf.seed())
    vf.tlc_ok(r, "History simulation")
    behs, st = vf.behaviours(r, limit=None)
    chk.cov.setdefault("extraction", []).append(dict(simulate=st))
    path = os.path.join(vf.scratch(), "beh-sim.jsonl")
    vf.write_json_lines(path, behs)
    recs, _ = vf.run_driver(binary, ["replay", path, "3"])
    chk.absorb(recs, "replay simulated behaviours")

    # 4. trace validation of long random runs of the real object
    for cap in (3, 5):
        tr = os.path.join(vf.scratch(), "trace-%d.ndjson" % cap)
        n, length = (400, 120) if thorough else (60, 80)
        recs, _ = vf.run_driver(binary, ["record", str(n), str(length), str(cap), tr])
        nev = sum(1 for _ in open(tr))
        r = vf.tlc("Consensus", "TraceHistory", "trace.cfg", cfg_text=TRACE_CFG % (cap, tr), workers=1, timeout=1500)
        if r["timed_out"]:
            raise vf.Infra("trace validation timed out")
        chk.add_tlc(r, "trace validation cap=%d (%d events)" % (cap, nev))
        if r["rc"] != 0:
            # the longest accepted prefix ends where the real run left the spec
            consumed = max(r["depth"] - 1, 0)
            lines = open(tr).read().splitlines()
            bad = json.loads(lines[min(consumed, len(lines) - 1)]) if lines else {}
            start = max(i for i in range(0, min(consumed, len(lines) - 1) + 1) if '"Reset"' in lines[i])
            hist = [json.loads(x) for x in lines[start:consumed + 1]]
            kinds = sorted({h["ev"] for h in hist[:-1]} - {"Reset", "Append", "Commit"})
            key = "C20:%s:after:%s" % (bad.get("op", bad.get("ev", "?")) if bad.get("ev") == "Panic" else bad.get("ev", "?"),
                                       "+".join(kinds))
            if bad.get("ev") == "Panic":
                key = "C20:panic:" + bad.get("op", "?")
            chk.violations.append((key, "recorded run of utils.History is not a behaviour of History.tla: event %d %s "
                                        "(TLC: %s)" % (consumed + 1, json.dumps(bad)[:300], r["tail"].strip().splitlines()[-4:]),
                                   dict(trace=hist, cap=cap)))
        chk.absorb(recs, "record cap=%d" % cap)
        if cap == 3 and r["rc"] == 0:
            # binding self-test: corrupt one recorded value -> TLC must reject the trace
            lines = open(tr).read().splitlines()
            idx = max(i for i, x in enumerate(lines) if '"Commit"' in x)
            ev = json.loads(lines[idx]); ev["S"]["a"] += 5; lines[idx] = json.dumps(ev)
            tr2 = os.path.join(vf.scratch(), "trace-bad.ndjson")
            open(tr2, "w").write("\n".join(lines) + "\n")
            r2 = vf.tlc("Consensus", "TraceHistory", "trace2.cfg", cfg_text=TRACE_CFG % (cap, tr2), workers=1, timeout=900)
            chk.selftest("trace: one recorded state corrupted", r2["rc"] != 0 and not r2["timed_out"])
    chk.assumptions += [
        "usage protocol of utils.History as its callers follow it: within one height a field is either incremented or "
        "assigned (old value captured at Append), temporary changes are committed exactly once and not assigned over "
        "by the next height, RollbackTo only when not seeked, SeekTo only with one retained entry per consecutive height",
        "TLC exhaustive bounds: 2 keys, capacity 3, heights <= 4, <= 6 (quick) / 7 (thorough) operations",
    ]
    return chk.finish(exhaustive=False)
