"""C23, CR committee part (called from tools/props/C23.py):

    import importlib.util, os
    spec = importlib.util.spec_from_file_location("C23_cr", os.path.join(os.path.dirname(__file__), "C23_cr.py"))
    CR = importlib.util.module_from_spec(spec); spec.loader.exec_module(CR)
    CR.run_part(chk)                       # builds the driver, generates the behaviours, absorbs the results
    # or:  behs = CR.behaviours(chk); CR.run_part(chk, binary, behs)

spec/Gov/CR.tla carries the action CheckpointRestore (Snapshot/Restore = identity on the abstract state, history
truncated) and the action property CheckpointLossless; it is enabled by the transaction kind "Checkpoint".
`behaviours(chk)` lets TLC explore / simulate the committee model with that action enabled (the property is checked)
and returns the printed behaviours.  `run_part` runs `crstate checkpoint` on them: at EVERY height of the final chain
of every behaviour (start-state blocks included) the registered CR checkpoint is taken as the checkpoint manager does
(Snapshot = Serialize -> Deserialize into a fresh Checkpoint), compared with the live key frames over every exported and
unexported field (C23:cr-checkpoint:<field>), re-serialized (same bytes up to map order), and a fresh committee restored
from the bytes (Deserialize into its registered checkpoint + OnInit -> Committee.Recover, the manager's Restore path)
is fed the remaining blocks and must end in the state of the uninterrupted run (C23:cr-restore-diverges:<field>).
Each distinct violation key is reported once per driver shard; the summary record carries `violation_counts` and
`never_populated` (struct fields of the key frames that were zero in all snapshots taken)."""
import importlib.util, json, os
import vf

_spec = importlib.util.spec_from_file_location("_crgov", os.path.join(os.path.dirname(__file__), "_crgov.py"))
G = importlib.util.module_from_spec(_spec); _spec.loader.exec_module(G)

_session = None


def behaviours(chk, binary=None):
    """TLC runs with the Checkpoint action enabled; returns the behaviours (and remembers the start-state blocks)."""
    global _session
    thorough = chk.tier == "thorough"
    s = G.Session(chk, binary=binary)
    allk = G.ALL_KINDS + ["Checkpoint"]
    if thorough:
        s.job("C23 cr: agreed, checkpoint between blocks", "agreed", G.PROP_KINDS + ["Checkpoint"], 4, emit="all", limit=1500, rolls=1)
        s.job("C23 cr: voting, checkpoint between blocks", "voting", G.CR_KINDS + ["Checkpoint"], 4, emit="all", limit=1500, rolls=1)
        s.job("C23 cr: simulation election, 30 steps", "election", allk, 30, emit="last", simulate="num=150", rolls=2, timeout=1700)
        s.job("C23 cr: simulation duty, 30 steps", "duty", allk, 30, emit="last", simulate="num=150", rolls=2, timeout=1700)
        s.job("C23 cr: simulation handover, 16 steps", "handover", allk, 16, emit="last", simulate="num=150", rolls=2, timeout=1700)
    else:
        s.job("C23 cr: agreed, checkpoint between blocks", "agreed", ["Tracking", "Withdraw", "RealWithdraw", "Checkpoint"], 3,
              emit="all", limit=150, rolls=0)
        s.job("C23 cr: simulation election, 12 steps", "election", allk, 12, emit="last", simulate="num=25", rolls=1)
        # across a committee change that succeeds: next members with claimed nodes, members of a second term, candidates
        # canceled when the voting period ends, reject votes, proposal results, the used amount at the start of a term
        s.job("C23 cr: simulation handover, 10 steps", "handover", allk, 10, emit="last", simulate="num=25", rolls=1)
    s.run_jobs(parallel=4)
    _session = s
    out = []
    for _, b in s.behs:
        out += b
    return out


def run_part(chk, binary=None, behs=None, shards=8):
    """Runs the CR checkpoint conformance and absorbs the driver's records into chk.  Returns the merged summary."""
    global _session
    if behs is None or _session is None:
        behs = behaviours(chk, binary)
    s = _session
    binary = binary or s.binary
    cfgp = G.driver_cfg(s.preambles[""])     # (all jobs of this part use the default constant set)
    path = os.path.join(vf.scratch(), "crstate-c23-behaviours.jsonl")
    vf.write_json_lines(path, behs)
    import concurrent.futures
    with concurrent.futures.ThreadPoolExecutor(max_workers=shards) as ex:
        futs = [ex.submit(vf.run_driver, binary, ["checkpoint", cfgp, path, "0", str(i), str(shards)], None, 3000) for i in range(shards)]
        raw = [f.result()[0] for f in futs]
    recs, never, counts, tot = [], None, {}, dict(cases=0, snapshots=0, restores=0, blocks=0)
    seen = set()
    for shard in raw:
        for r in shard:
            if r.get("kind") == "summary":
                never = set(r.get("never_populated") or []) if never is None else never & set(r.get("never_populated") or [])
                for k, v in (r.get("violation_counts") or {}).items():
                    counts[k] = counts.get(k, 0) + v
                for k in tot:
                    tot[k] += int(r.get(k, 0))
            elif r.get("kind") == "violation":
                if r.get("key") not in seen:        # each key once
                    seen.add(r.get("key"))
                    recs.append(r)
            else:
                recs.append(r)
    summary = dict(kind="summary", mode="checkpoint", never_populated=sorted(never or []), violation_counts=counts, samples=[], **tot)
    recs.append(summary)
    chk.cov["cr_checkpoint_never_populated"] = summary["never_populated"]
    chk.cov["cr_checkpoint_violation_counts"] = counts
    chk.absorb(recs, "CR committee checkpoint / restore at every height of %d behaviours" % len(behs))
    return summary


def run_fields(chk, binary=None):
    """Complementary sweep (`crstate fields <n> <seed>`, harness/cmd/crstate/fields.go): the CR Checkpoint is generated field
    by field with reflect (every scalar non-zero and distinct from its neighbours, every map with >= 2 entries at every
    nesting level -- e.g. two heights of RegisteredSideChainPayloadInfo with two side chains each --, every slice >= 2
    elements, pointers non-nil, real public keys / codes, all proposal types); per instance (a) Serialize -> Deserialize
    (and Checkpoint.Generator) must give the same canonical dump over every field, and mutating one container of the
    restored object (a key added to a map, a slice element / pointed-to object changed) must change nothing else (shared
    sub-objects); (b) the node's path live Committee -> Checkpoint.Snapshot -> bytes -> registered Checkpoint of a fresh
    Committee -> OnInit / Recover leaves every field equal and the first committee untouched.  Violations:
    C23:cr-checkpoint-field:<field>[:shared]; the known unsigned-CRInfo loss keeps C23:cr-checkpoint:<...>.Info.Signature.
    The driver fails (mismatch) if a field of the key frames is never populated by the generator or a field of
    crstate.Checkpoint is neither dumped nor on its exclusion list (Checkpoint.committee: back pointer, not state)."""
    s = _session
    binary = binary or (s.binary if s is not None else vf.go_build("crstate"))
    n = 1500 if chk.tier == "thorough" else 300
    recs, _ = vf.run_driver(binary, ["fields", str(n), str(vf.seed())], timeout=900)
    for r in recs:
        if r.get("kind") == "summary":
            chk.cov["cr_checkpoint_generated"] = dict(instances=r.get("cases"), compares=r.get("compares"),
                                                      mutations=r.get("mutations"), mutated_containers=r.get("mutated_containers"),
                                                      never_populated=r.get("never_populated") or [], excluded=r.get("excluded"),
                                                      violation_counts=r.get("violation_counts"))
    chk.absorb(recs, "CR checkpoint generated field by field: %d instances" % n)
    # binding self-test: a restored checkpoint in which two sessions of HistoryCandidates share one inner map
    st, _ = vf.run_driver(binary, ["fields", "2", str(vf.seed())], env={"CRSTATE_SELFTEST": "alias"}, timeout=300)
    chk.selftest("generated CR checkpoint: two outer keys made to share one inner map",
                 any(r.get("kind") == "violation" and str(r.get("key", "")).startswith("C23:cr-checkpoint-field:StateKeyFrame.HistoryCandidates")
                     for r in st))


def run_all(chk, shards=8):
    """Everything for the CR part of C23: builds harness/cmd/crstate, lets TLC generate the behaviours (Checkpoint
    action enabled, CheckpointLossless checked), runs `crstate checkpoint` on them and absorbs the records into chk;
    then the generated-checkpoint sweep (run_fields)."""
    summary = run_part(chk, None, None, shards=shards)
    run_fields(chk)
    return summary
