"""C27 - DPoS reward distribution never pays out more than the pool.

 1. TLC checks spec/Consensus/Reward.tla: the four distribution rules in exact
    integer arithmetic over arbiter / candidate multisets, vote vectors (with
    all-zero rounds), rewards, configured arbiter counts, POW/DPOS; invariants
    NoNegativePayout, PaidAtMostReward, ChangeNonNegative.
 2. Every enumerated case (boundary cases always, the rest sampled by the seed
    in the thorough tier) is run on the real distributeDPOSReward at both ends
    of the era's height range: the three facts are evaluated on the real return
    values (VIOLATION), per-payee amounts are compared with the spec
    (float64 may lose 1 sela per vote share; more is a model mismatch).
 3. Seeded random rounds of mainnet size (36 arbiters, 72 candidates, 10^14
    votes) - the three facts only.
"""
import sys, os, json, concurrent.futures
import vf
sys.path.insert(0, os.path.dirname(os.path.abspath(__file__)))
from cons_helpers import JVM_FAST, verdict_first

META = dict(
    text="TLC enumerates the decision table of distributeDPOSReward (Reward.tla: rules V0-V3 transcribed in exact integer "
         "arithmetic; CRC members elected/not, claimed/unclaimed node, DPoS arbiters, candidates, vote vectors including "
         "all-zero rounds, rewards 0..10^8+1, configured arbiter counts, POW) and proves the three facts on the model; "
         "every case is replayed on the real function (verif export) where the same three facts - no negative payout, "
         "attributed sum <= reward, change >= 0 - are evaluated exactly on the returned map and change, and payee amounts "
         "are compared with the spec; seeded random rounds of mainnet size are checked for the three facts.",
    note="Bounded: <= 1 (2 thorough) CRC, <= 2 (3) DPoS arbiters, <= 1 (2) candidates, votes in {0,1,5} (+2) for the enumerated table; "
         "random rounds cover sizes/magnitudes but only against the three facts. The float64 arithmetic of the code is "
         "compared with exact arithmetic up to 1 sela per share. Observation outside the property: rules V2/V3 enter "
         "the block-confirm reward of missing arbiters in the map without deducting it from the change.",
    technique="TLA+ decision table (TLC exhaustive over the bounded case space) + one real-code test per enumerated case "
              "+ seeded random rounds checked against the property's facts",
)

CFG = """SPECIFICATION Spec
CONSTANTS
  Eras = {%(eras)s}
  Pows = {%(pows)s}
  Votes = {%(votes)s}
  Rewards = {%(rewards)s}
  MaxCRC = %(crc)d
  MaxDpos = %(dpos)d
  MaxCand = %(cand)d
  CfgCRCs = {%(ccrc)s}
  CfgNormals = {%(cnorm)s}
  SampleMod = %(mod)d
  SampleRes = %(res)d
VIEW view
INVARIANTS NoNegativePayout PaidAtMostReward ChangeNonNegative OverissueOnlyMissing
ACTION_CONSTRAINT Emit
CHECK_DEADLOCK FALSE
"""



def cfg(eras, pows=("TRUE", "FALSE"), votes=(0, 1, 5), rewards=(0, 3, 100000001), crc=1, dpos=2, cand=1,
        ccrc=(0, 1), cnorm=(1, 2), mod=1):
    j = lambda xs: ", ".join(map(str, xs))
    return CFG % dict(eras=j(eras), pows=j(pows), votes=j(votes), rewards=j(rewards), crc=crc, dpos=dpos, cand=cand,
                      ccrc=j(ccrc), cnorm=j(cnorm), mod=mod, res=vf.seed() % mod)


def run(chk):
    thorough = chk.tier == "thorough"
    vf._copy_spec(os.path.join(vf.SPEC, "Consensus"))
    if thorough:
        big = dict(rewards=(0, 3, 100, 100000001), crc=2, dpos=2, cand=2, ccrc=(0, 2), cnorm=(1, 2), mod=3)
        runs = [("era %d" % e, cfg([e], **big)) for e in (0, 1, 2)]
        runs += [("era 3 DPOS", cfg([3], pows=("FALSE",), **big)), ("era 3 POW (everything destroyed)", cfg([3], pows=("TRUE",), rewards=(0, 1, 100000001), crc=1, dpos=2, cand=1,
                                                        ccrc=(0, 1, 2), cnorm=(1, 2))),
                 ("all eras, votes {0,1,2,5}, 3 DPoS arbiters", cfg([0, 1, 2, 3], votes=(0, 1, 2, 5), rewards=(3, 100),
                                                                     crc=1, dpos=3, cand=1, ccrc=(1, 3), cnorm=(2,), mod=2))]
    else:
        runs = [("eras 0,1", cfg([0, 1], cnorm=(2,))), ("eras 2,3", cfg([2, 3], cnorm=(2,)))]
    with concurrent.futures.ThreadPoolExecutor(max_workers=len(runs) + 1) as ex:
        fb = ex.submit(vf.go_build, "reward")
        fs = [ex.submit(vf.tlc, "Consensus", "Reward", "c27-%d.cfg" % i, workers=1, timeout=2400, cfg_text=c,
                        jvm=() if thorough else JVM_FAST) for i, (_, c) in enumerate(runs)]
        binary = fb.result()
        results = [f.result() for f in fs]

    allb = []
    for (label, _), r in zip(runs, results):
        vf.tlc_ok(r, "Reward.tla " + label)
        chk.add_tlc(r, label)
        behs, st = vf.behaviours(r, dedupe_prefixes=False)
        st["label"] = label
        st["cases_enumerated"] = r["distinct"] // 2
        chk.cov.setdefault("extraction", []).append(st)
        if not behs:
            raise vf.Infra("no cases extracted for " + label)
        allb += behs
    if not any(b[0]["args"]["total"] == 0 and not b[0]["exp"]["err"] for b in allb):
        raise vf.Infra("no zero-vote round among the cases (vacuous)")
    path = os.path.join(vf.scratch(), "c27-cases.jsonl")
    vf.write_json_lines(path, allb)
    recs, _ = vf.run_driver(binary, ["replay", path], timeout=3000)
    chk.absorb(verdict_first(chk, recs), "replay of %d cases" % len(allb))
    for x in recs:
        if x.get("kind") == "summary" and x.get("attributed_plus_change_exceeds_reward"):
            chk.notes.append("observation outside C27's statement: in %d cases (rules V2/V3 with fewer current arbiters "
                             "than configured) attributed amounts + change exceed the reward by the block-confirm reward "
                             "of the missing arbiters, which is entered for the destroy address but not deducted from the "
                             "change" % x["attributed_plus_change_exceeds_reward"])

    # binding self-test: one expected payee amount corrupted
    cand = [b for b in allb if not b[0]["exp"]["err"] and b[0]["exp"]["dpos"] and b[0]["args"]["reward"] > 100
            and b[0]["exp"]["dpos"][0] > 0]
    bad = json.loads(json.dumps(cand[len(cand) // 2]))
    bad[0]["exp"]["dpos"][0] += 5
    p2 = os.path.join(vf.scratch(), "c27-bad.jsonl")
    vf.write_json_lines(p2, [bad])
    recs, _ = vf.run_driver(binary, ["replay", p2])
    chk.selftest("replay: one expected payout corrupted", any(x.get("kind") == "mismatch" for x in recs))
    bad = json.loads(json.dumps(cand[0]))
    bad[0]["exp"]["change"] -= 3
    vf.write_json_lines(p2, [bad])
    recs, _ = vf.run_driver(binary, ["replay", p2])
    chk.selftest("replay: expected change corrupted", any(x.get("kind") == "mismatch" for x in recs))

    # 3. random rounds of realistic size
    n = 300000 if thorough else 10000
    recs, _ = vf.run_driver(binary, ["random", str(n)], timeout=3000)
    chk.absorb(verdict_first(chk, recs), "random rounds")

    chk.assumptions += [
        "the vote total of a round is the sum of the recorded votes (as snapshotVotesStates builds it); payees have "
        "distinct addresses; CRC members are built with NewCRCArbiter, other arbiters and candidates with NewOriginArbiter",
        "member lists are enumerated as multisets: the rules treat members independently of their position",
        "per-payee amounts: exact integer arithmetic in the spec, float64 in the code; a difference of 1 sela per vote "
        "share is accepted, the three facts of the property are evaluated exactly on the real values",
        "clearingDPOSReward / accumulateReward (how the reward pool is accumulated and the result stored) are not driven",
    ]
    return chk.finish(exhaustive=False)
