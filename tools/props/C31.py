"""C31 - cross-chain UTXO spending follows the emergency policy.

 1. spec/Policy/CrossChainUTXO.tla: the validation pipeline of
    checkTransactionCrossChainUTXO over (freeze height, restriction height, block
    height, transaction class, payload version, mix of referenced address
    classes); TLC enumerates every case and checks the property's invariants.
    Every case is materialised (all transaction types the factory instantiates,
    four embeddings of the abstract heights incl. the coordinated mainnet
    heights) and run through the real helper (verif export).
 2. spec/Policy/NetConfig.tla: how Settings.SetupConfig arrives at the effective
    heights; every (ActiveNet name x local override) case becomes a config file
    that the real SetupConfig loads.
"""
import json, os, sys
sys.path.insert(0, os.path.dirname(os.path.abspath(__file__)))
import vf
import edgetwo_common as ec

META = dict(
    text="TLC enumerates every case of the cross-chain UTXO policy pipeline (CrossChainUTXO.tla: freeze/restriction/block "
         "height, transaction class, payload version, referenced address mix) checking the freeze-window and "
         "restricted-spender invariants, and every case is run on the real checkTransactionCrossChainUTXO for every "
         "instantiable transaction type and four height embeddings, and as signed transfers through the node's "
         "CheckTransactionContext; NetConfig.tla enumerates ActiveNet names x local "
         "overrides and each case is loaded by the real Settings.SetupConfig from a generated config file.",
    note="Decision table over abstract classes (heights relative to the two thresholds, <= 2-3 references per address class, "
         "payload versions 0..3 plus larger ones); end to end (BlockChain.CheckTransactionContext on a regnet node) only for "
         "the cases a signed TransferAsset realises -- withdrawals and deposit returns reach the policy through the export only.",
    technique="TLA+ pipeline model (TLC complete enumeration) + per-case conformance run on the real policy helper and the "
              "real configuration loader",
)

CFG = """SPECIFICATION %(spec)s
CONSTANTS
  MaxH = %(maxh)d
  Versions = {%(vers)s}
  MaxRefs = %(refs)d
VIEW view
INVARIANTS TypeOK FreezeWindow Restricted OnlyPolicy
%(extra)s
CHECK_DEADLOCK FALSE
"""


def cfg(maxh, refs, vers="0, 1, 2, 3", emit=False, live=False):
    return CFG % dict(spec="FairSpec" if live else "Spec", maxh=maxh, refs=refs, vers=vers,
                      extra=("ACTION_CONSTRAINT Emit" if emit else "") + ("\nPROPERTIES Terminates" if live else ""))


def run(chk):
    thorough = chk.tier == "thorough"
    binary = vf.go_build("ccutxo")

    if getattr(chk, "replay", None):
        cases = ec.replay_cases(chk.replay)
        pol = [c for c in cases if c.get("act") == "Case"]
        con = [c for c in cases if c.get("act") == "Config"]
        if pol:
            recs, _ = vf.run_driver(binary, ["policy", ec.write_cases("replay-policy.jsonl", pol)])
            ec.absorb(chk, recs, "replay policy")
            recs, _ = vf.run_driver(binary, ["e2e", ec.write_cases("replay-policy.jsonl", pol)])
            ec.absorb(chk, recs, "replay policy end to end")
        if con:
            recs, _ = vf.run_driver(binary, ["config", ec.write_cases("replay-config.jsonl", con)])
            ec.absorb(chk, recs, "replay config")
        return chk.finish(exhaustive=False)

    # 1a. larger constants, all invariants + termination of the pipeline (no extraction)
    if thorough:
        r = vf.tlc("Policy", "CrossChainUTXO", "mc.cfg", cfg_text=cfg(6, 3, "0, 1, 2, 3, 4", live=True), workers=16, timeout=1500)
        vf.tlc_ok(r, "CrossChainUTXO exhaustive")
        chk.add_tlc(r, "CrossChainUTXO.tla complete, MaxH=6 MaxRefs=3 versions 0..4, invariants + termination")

    # 1b. complete enumeration -> cases -> real helper
    maxh, refs, vers = (5, 3, "0, 1, 2, 3, 4") if thorough else (3, 2, "0, 1, 2, 3")
    r = vf.tlc("Policy", "CrossChainUTXO", "x.cfg", cfg_text=cfg(maxh, refs, vers, emit=True), workers=1, timeout=1500)
    vf.tlc_ok(r, "CrossChainUTXO extraction")
    chk.add_tlc(r, "CrossChainUTXO.tla complete, MaxH=%d MaxRefs=%d versions {%s}, one case per initial state" % (maxh, refs, vers))
    cases, st = ec.last_steps(r)
    st["classes"] = {}
    for c in cases:
        k = c["exp"] + ":" + c["why"]
        st["classes"][k] = st["classes"].get(k, 0) + 1
    chk.cov.setdefault("extraction", []).append(st)
    recs, _ = vf.run_driver(binary, ["policy", ec.write_cases("policy.jsonl", cases)])
    ec.absorb(chk, recs, "policy cases on checkTransactionCrossChainUTXO")

    # 1c. end to end: the cases a signed TransferAsset can realise, through the node's own
    #     BlockChain.CheckTransactionContext on a regnet node holding cross-chain outputs
    recs, _ = vf.run_driver(binary, ["e2e", ec.write_cases("policy.jsonl", cases)])
    ec.absorb(chk, recs, "TransferAsset cases end to end on BlockChain.CheckTransactionContext")
    bad = json.loads(json.dumps(next(c for c in cases if c["exp"] == "accept" and c["why"] == "before-freeze"
                                     and c["args"]["kind"] == "other" and c["args"]["nX"] > 0 and c["args"]["ver"] == 0)))
    bad["exp"], bad["why"] = "reject", "frozen"
    recs, _ = vf.run_driver(binary, ["e2e", ec.write_cases("e2e-bad.jsonl", [bad])])
    ec.selftest(chk, "e2e: an accepted transfer declared 'reject'", recs)

    # binding self-test: an accepted case declared 'reject' must be reported
    bad = json.loads(json.dumps(next(c for c in cases if c["exp"] == "accept" and c["why"] == "withdraw")))
    bad["exp"] = "reject"
    recs, _ = vf.run_driver(binary, ["policy", ec.write_cases("policy-bad.jsonl", [bad])])
    ec.selftest(chk, "policy: expected verdict of one case flipped to reject", recs)

    # 2. configuration half
    ccases = ec.netconfig_cases(chk)
    recs, _ = vf.run_driver(binary, ["config", ec.write_cases("config.jsonl", ccases)])
    ec.absorb(chk, recs, "config cases on Settings.SetupConfig")
    bad = json.loads(json.dumps(next(c for c in ccases if c["args"]["name"] == "testnet" and c["args"]["ovF"] == "zero")))
    bad["exp"]["F"] = "main"
    recs, _ = vf.run_driver(binary, ["config", ec.write_cases("config-bad.jsonl", [bad])])
    ec.selftest(chk, "config: expected freeze height of a testnet case changed", recs)

    chk.cov["exhaustive"] = True
    chk.assumptions += [
        "heights are abstracted to their order relative to the freeze and restriction heights (all of h<F, h=F, F<h<R, h=R-1, h=R, "
        "h>R occur); each case runs under four order-preserving embeddings: small numbers, the coordinated mainnet heights, "
        "the top of the uint32 range, and both heights MaxUint32 (the disabled setting)",
        "freeze height <= restriction height, which NetConfig.tla shows for every configuration SetupConfig can produce",
        "transaction class 'other' = every type byte core/transaction.GetTransaction instantiates except WithdrawFromSideChain "
        "and ReturnSideChainDepositCoin; the largest payload version of the spec stands for all larger ones (it is run as itself, +1, 0x7f, 0xff)",
        "a node is 'on mainnet' when SetupConfig selected the mainnet parameter set (the driver checks the resulting magic)",
        "every case runs on the helper through its verif export; the cases of class 'other' with payload version 0 additionally run "
        "end to end as signed TransferAsset transactions (cross-chain outputs owned by a harness-made 1-of-2 cross-chain script, "
        "which the signature check accepts for any prefix-X output) through BlockChain.CheckTransactionContext on a regnet node; "
        "WithdrawFromSideChain / ReturnSideChainDepositCoin are not built end to end (their own context checks are C33's subject)",
        "command-line (screw) overrides are not exercised: SetupConfig is run with withScrew=false",
    ]
    return chk.finish(exhaustive=True)
