"""C25 - a block confirmation needs a two-thirds quorum of distinct current arbiters.

 1. TLC checks spec/Consensus/Confirm.tla: the decision table of
    ConfirmSanityCheck /\\ ConfirmContextCheck over arbiter sets and vote
    multisets (duplicates, rejects, foreign / abnormal signers, wrong proposal
    hash, bad signatures, foreign sponsor, forged proposal), invariants
    AcceptedOnlyWithQuorum and ThresholdExact, quorum intersection as ASSUMEs
    (arithmetic n <= 100, set enumeration n <= 7).
 2. Every case TLC enumerates (boundary cases always, the rest sampled by the
    seed when the space is large) is built with real ECDSA keys/signatures and
    run through the real checks with the real state.Arbiters and with
    state.ArbitratorsMock in blockchain.DefaultLedger, in two vote orders.
 3. GetArbitersMajorityCount / HasArbitersMajorityCount of the real Arbiters
    for every n <= 100.
"""
import sys, os, json, concurrent.futures
import vf
sys.path.insert(0, os.path.dirname(os.path.abspath(__file__)))
from cons_helpers import JVM_FAST, verdict_first

META = dict(
    text="TLC enumerates the decision table of the confirmation checks (Confirm.tla: arbiter sets of size 1..12 with "
         "abnormal members, vote multisets with duplicates, rejects, foreign signers, wrong proposal hashes and bad "
         "signatures, foreign sponsors) and proves 'accepted => more than floor(2n/3) distinct valid current signers and "
         "a current sponsor' plus quorum intersection for n <= 100 on the model; every enumerated case is replayed with "
         "real ECDSA votes on blockchain.ConfirmSanityCheck + ConfirmContextCheck over the real state.Arbiters and the "
         "repository's ArbitratorsMock, and the threshold function is compared for every n <= 100.",
    note="Bounded: all vote-count shapes for n <= 4 (5 thorough) with <= 1 (2 thorough) defective votes, boundary shapes "
         "(threshold-1, threshold, all, with one duplicate) for n <= 12; larger spaces are sampled by the seed for replay. "
         "IllegalConfirmContextCheck and the *ByHeight variants are not exercised.",
    technique="TLA+ decision table (TLC exhaustive over the bounded case space) + one real-code test per enumerated case",
)

CFG = """SPECIFICATION Spec
CONSTANTS
  Ns = {%(ns)s}
  MaxAbn = %(abn)d
  MaxBad = %(bad)d
  Shapes = "%(shapes)s"
  Sponsors = "%(sponsors)s"
  BadSigners = "%(badsigners)s"
  ArithNs = {%(arith)s}
  SampleMod = %(mod)d
  SampleRes = %(res)d
VIEW view
INVARIANTS AcceptedOnlyWithQuorum ThresholdExact
ACTION_CONSTRAINT Emit
CHECK_DEADLOCK FALSE
"""




def cfg(ns, abn=1, bad=1, shapes="all", sponsors="all", badsigners="all", arith=(), mod=1):
    return CFG % dict(ns=", ".join(map(str, ns)), abn=abn, bad=bad, shapes=shapes, sponsors=sponsors,
                      badsigners=badsigners, arith=", ".join(map(str, arith)), mod=mod, res=vf.seed() % mod)


def run(chk):
    thorough = chk.tier == "thorough"
    vf._copy_spec(os.path.join(vf.SPEC, "Consensus"))
    if thorough:
        runs = [
            ("all shapes n<=4, <=2 defective votes", cfg(range(1, 5), bad=2, arith=range(1, 101), mod=7), 1500),
            ("all shapes n=5, <=1 defective vote", cfg([5], bad=1), 1500),
            ("all shapes n=5, abnormal<=1, 2 defective votes (ends)", cfg([5], bad=2, sponsors="ends",
                                                                          badsigners="ends", mod=5), 1500),
            ("boundary shapes n=4..12, every signer/sponsor", cfg(range(4, 13), shapes="boundary", mod=3), 1500),
        ]
    else:
        runs = [
            ("all shapes n<=3, <=1 defective vote", cfg(range(1, 4), bad=1, arith=range(1, 101)), 600),
            ("boundary shapes n=4..12 (ends)", cfg(range(4, 13), shapes="boundary", sponsors="ends",
                                                   badsigners="ends"), 600),
        ]
    with concurrent.futures.ThreadPoolExecutor(max_workers=len(runs) + 1) as ex:
        fb = ex.submit(vf.go_build, "confirm")
        fs = [ex.submit(vf.tlc, "Consensus", "Confirm", "c25-%d.cfg" % i, workers=1, timeout=t, cfg_text=c,
                        jvm=() if thorough else JVM_FAST)
              for i, (_, c, t) in enumerate(runs)]
        binary = fb.result()
        results = [f.result() for f in fs]

    allb = []
    for (label, _, _), r in zip(runs, results):
        vf.tlc_ok(r, "Confirm.tla " + label)
        chk.add_tlc(r, label)
        behs, st = vf.behaviours(r, dedupe_prefixes=False)
        st["label"] = label
        st["cases_enumerated"] = r["distinct"] // 2
        chk.cov.setdefault("extraction", []).append(st)
        if not behs:
            raise vf.Infra("no cases extracted for " + label)
        allb += behs
    path = os.path.join(vf.scratch(), "c25-cases.jsonl")
    vf.write_json_lines(path, allb)
    recs, _ = vf.run_driver(binary, ["replay", path], timeout=3000)
    chk.absorb(verdict_first(chk, recs), "replay of %d cases" % len(allb))

    # binding self-test: an accepted case whose expectation is corrupted to
    # "not legitimate" must be reported
    acc = [b for b in allb if b[0]["act"] == "Case" and b[0]["exp"]["sanity"] and b[0]["exp"]["context"]]
    if not acc:
        raise vf.Infra("no accepted case among the enumerated ones (vacuous)")
    bad = json.loads(json.dumps(acc[len(acc) // 2]))
    bad[0]["exp"]["legit"] = False
    bad[0]["exp"]["class"] = "selftest"
    p2 = os.path.join(vf.scratch(), "c25-bad.jsonl")
    vf.write_json_lines(p2, [bad])
    recs, _ = vf.run_driver(binary, ["replay", p2])
    chk.selftest("accepted case with expectation corrupted to 'not legitimate'",
                 any(x.get("kind") == "violation" for x in recs))
    bad = json.loads(json.dumps(acc[0]))
    bad[0]["exp"]["context"] = False
    vf.write_json_lines(p2, [bad])
    recs, _ = vf.run_driver(binary, ["replay", p2])
    chk.selftest("transcribed ConfirmContextCheck verdict corrupted", any(x.get("kind") == "mismatch" for x in recs))
    maj = [b for b in allb if b[0]["act"] == "Majority" and b[0]["args"]["n"] == 36]
    bad = json.loads(json.dumps(maj[0]))
    bad[0]["exp"]["majority"] += 1
    vf.write_json_lines(p2, [bad])
    recs, _ = vf.run_driver(binary, ["replay", p2])
    chk.selftest("expected majority count of n=36 raised by one", any(x.get("kind") == "violation" for x in recs))

    chk.assumptions += [
        "a vote is modelled by (signer, accept, proposal hash right/wrong, signature valid/invalid); arbiters are "
        "interchangeable, so vote-count vectors are enumerated up to permutation while sponsor and the signer of a "
        "defective vote range over every arbiter",
        "Legit (what the property demands) counts abnormal CR arbiters as current arbiters and requires the proposal "
        "to carry its sponsor's valid signature; the code is stricter (normal arbiters only), never weaker",
        "quorum intersection is an arithmetic fact of the model (ASSUME for n <= 100, all signer-set pairs for n <= 7); "
        "on the code side only the threshold GetArbitersMajorityCount is compared for n <= 100",
        "confirm checks at the current height only (ConfirmContextCheck); IllegalConfirmContextCheck and "
        "Vote/ProposalContextCheckByHeight are not covered",
    ]
    return chk.finish(exhaustive=False)
