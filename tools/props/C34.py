"""C34 - the mempool stays consistent and conflict-free (and the mempool half of C06)."""
import json, os, random
import vf

META = dict(
    text="Mempool.tla puts the transaction pool on top of Ledger.tla's block tree: Submit = AppendToTxPool (duplicate, "
         "sanity, context, pool conflict, size limit), and on every ProcessBlock the pool is folded over the exact "
         "connected / disconnected / processed notification sequence (CleanSubmittedTransactions, re-insertion of detached "
         "transactions, CheckAndCleanAllTransactions). TLC checks conflict-freedom, validity after cleanup and the size bound "
         "in every state; behaviours are replayed on a full-stack node where, after every step, pool membership must equal "
         "the spec's and the real fee list, size accounting, conflict slots and proposal budget (verif snapshot accessor) "
         "must be exactly the image of the transactions held.",
    note="Seven colliding transfer templates and four producer registrations colliding on owner key, node key and nickname "
         "(real RegisterProducer transactions with 5000 ELA deposits funded from the genesis coinbase; the DPoS state processes "
         "them from the first block on).  The other 30+ conflict slots (side-chain hashes of every withdrawal layout, deposit returns, "
         "CR keys / DIDs / nicknames, every proposal resource, special transactions, stake / NFT operations) are specified per "
         "transaction kind in PoolKeys.tla (Claims) and replayed at conflict-manager level (VerifyTx / AppendTx / block cleanup) with "
         "the complete slot contents compared after every step.  The pool reacts to chain notifications through a harness copy of "
         "netsync/manager.go's handler (the sync manager needs a P2P server); pool size limit lowered through the verif knob.",
    technique="TLA+ mempool-over-block-tree model checked by TLC + behaviour replay on a full-stack node with internal-index "
              "snapshot comparison",
)

CFG = """SPECIFICATION MSpec
CONSTANTS
  Txs = {%(txs)s}
  MaxBlocks = %(blocks)d
  MaxTxPerBlock = %(tpb)d
  MaxBad = %(bad)d
  MaxDeliver = %(deliver)d
  FixFailedReorg = %(fix)s
  WithProducers = %(prod)s
  MaxPool = %(maxpool)d
  MaxSubmit = %(submit)d
VIEW mview
%(inv)s
%(extra)s
CHECK_DEADLOCK FALSE
"""
INV = "INVARIANTS PoolConflictFree PoolValidWhenClean PoolWithinLimit PoolNoChainDoubleSpend NoDoubleSpend ActiveValid"


def cfg(txs, blocks, tpb, bad, deliver, submit, maxpool, inv="", extra=""):
    fix = bool(os.environ.get("VERIF_ASSUME_REORG_FIX")) or not any(k.get("key") == "C12:failed-reorg-strands-node" and k.get("status", "open") == "open"
                  for k in vf.load_known())
    return CFG % dict(txs=", ".join('"%s"' % t for t in txs), blocks=blocks, tpb=tpb, bad=bad, deliver=deliver,
                      submit=submit, maxpool=maxpool, fix="TRUE" if fix else "FALSE", inv=inv, extra=extra,
                      prod="TRUE" if any(t.startswith("R") for t in txs) else "FALSE")


def why(b):
    return b[-1].get("act", "?") + ":" + b[-1].get("res", {}).get("why", "?")


def run(chk):
    thorough = chk.tier == "thorough"
    rng = random.Random(vf.seed())
    binary = vf.go_build("ledger")
    runs = []
    # 1. exhaustive
    big = dict(txs=["T1", "T2", "T3", "T6"], blocks=3, tpb=1, bad=0, deliver=4 if thorough else 3,
               submit=4 if thorough else 3, maxpool=500)
    r = vf.tlc("Chain", "Mempool", "mc.cfg", cfg_text=cfg(inv=INV, **big), workers=16, timeout=1700)
    vf.tlc_ok(r, "Mempool exhaustive")
    chk.add_tlc(r, "exhaustive Mempool.tla: %s" % json.dumps(big))
    # 2. edges of a small configuration, two pool limits
    for maxpool, lim in ((500, 5000 if thorough else 350), (100000, 5000 if thorough else 350)):
        small = dict(txs=["T1", "T2", "T3", "T6"], blocks=2, tpb=1, bad=0, deliver=3 if thorough else 2,
                     submit=3, maxpool=maxpool)
        r = vf.tlc("Chain", "Mempool", "x.cfg", cfg_text=cfg(extra="ACTION_CONSTRAINT MEmit", **small), workers=1, timeout=1700)
        vf.tlc_ok(r, "Mempool extraction")
        chk.add_tlc(r, "edge extraction MaxPool=%d" % maxpool)
        behs, st = vf.behaviours(r, limit=lim, rng=rng, per_class=max(20, lim // 12), strat_key=why)
        st["label"] = "edges MaxPool=%d" % maxpool
        chk.cov.setdefault("extraction", []).append(st)
        runs.append((maxpool, behs))
    # 2b. unique resources: producer registrations colliding on owner key, node key and nickname
    prod = dict(txs=["R1", "R2", "R3", "R4", "T1"], blocks=2, tpb=2 if thorough else 1, bad=0, deliver=2, submit=3, maxpool=100000)
    r = vf.tlc("Chain", "Mempool", "mcp.cfg", cfg_text=cfg(inv=INV, **dict(prod, tpb=2, deliver=3 if thorough else 2)), workers=16, timeout=1700)
    vf.tlc_ok(r, "Mempool exhaustive (producers)")
    chk.add_tlc(r, "exhaustive Mempool.tla with producer registrations: %s" % json.dumps(prod))
    r = vf.tlc("Chain", "Mempool", "xp.cfg", cfg_text=cfg(extra="ACTION_CONSTRAINT MEmit", **prod), workers=1, timeout=1700)
    vf.tlc_ok(r, "Mempool extraction (producers)")
    chk.add_tlc(r, "edge extraction, producer registrations")
    behs, st = vf.behaviours(r, limit=4000 if thorough else 300, rng=rng, per_class=max(20, (4000 if thorough else 300) // 12), strat_key=why)
    st["label"] = "edges, producer registrations"
    chk.cov.setdefault("extraction", []).append(st)
    runs.append((100001, behs))
    # 3. simulation: deeper, all templates, reorganisations with pool re-insertion
    sim = dict(txs=["T1", "T2", "T3", "T4", "T5", "T6", "T7", "R1", "R2", "R3", "R4"], blocks=5, tpb=2, bad=1, deliver=6, submit=6, maxpool=1200)
    r = vf.tlc("Chain", "Mempool", "sim.cfg", cfg_text=cfg(extra="ACTION_CONSTRAINT MEmitLast", **sim), workers=1,
               timeout=1700, simulate="num=%d" % (4000 if thorough else 300), depth=20, seed_arg=vf.seed())
    vf.tlc_ok(r, "Mempool simulation")
    behs, st = vf.behaviours(r, strat_key=why)
    st["label"] = "simulate " + json.dumps(sim)
    chk.cov.setdefault("extraction", []).append(st)
    runs.append((1200, behs))
    allrecs = []
    for maxpool, behs in runs:
        path = os.path.join(vf.scratch(), "mbeh-%d.jsonl" % maxpool)
        vf.write_json_lines(path, behs)
        chk.absorb(vf.run_sharded(binary, lambda i, n: ["mempool", path, str(i), str(n), str(maxpool)]),
                   "replay MaxPool=%d" % maxpool)
    # binding self-test: claim a transaction is in the pool that is not
    b = next(x for x in runs[1][1] if x[-1].get("act") == "Submit" and x[-1]["res"]["why"] == "ok")
    bad = json.loads(json.dumps(b))
    bad[-1]["pool"] = [t for t in bad[-1]["pool"] if t != bad[-1]["args"]["tx"]]
    p = os.path.join(vf.scratch(), "mbeh-bad.jsonl")
    vf.write_json_lines(p, [bad])
    recs, _ = vf.run_driver(binary, ["mempool", p, "0", "1", "100000"], env={"TMPDIR": "/dev/shm"})
    chk.selftest("replay: expected pool membership corrupted", any(x.get("kind") == "violation" for x in recs))
    # what every other transaction kind claims in the per-resource indexes (PoolKeys.tla)
    import importlib.util
    _sp = importlib.util.spec_from_file_location("C34_keys", os.path.join(os.path.dirname(os.path.abspath(__file__)), "C34_keys.py"))
    keys = importlib.util.module_from_spec(_sp)
    _sp.loader.exec_module(keys)
    keys.run_all(chk)
    chk.assumptions += ["full-pool behaviours: TransferAsset and RegisterProducer transactions (CR and proposal conflict slots must stay "
                        "empty there); the key functions of all 39 conflict slots are exercised at conflict-manager level (PoolKeys.tla)",
                        "harness copy of netsync/manager.go handleBlockchainEvents drives the pool",
                        "template sizes in Mempool.tla TxSize are checked against the real serialisation on every run"]
    return chk.finish(exhaustive=False)
