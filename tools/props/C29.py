"""C29 - proposal spending stays within approved budgets.

 1. TLC checks the invariants of spec/Gov/Proposal.tla (total paid <= approved stages, a stage paid at most once and only
    after it became withdrawable, the pending withdraw orders covered by stages marked withdrawn, owed <=
    CRCCommitteeUsedAmount <= CRCCurrentStageAmount) on the committee model of CR.tla, whose blocks are admitted as the node
    admits them: CheckDuplicateTx on the block, every transaction against the state before the block.  Both withdraw
    payload versions are modelled (version 0 spends the expenses address itself, version 1 orders a payment that
    CRCProposalRealWithdraw makes); rollback steps disconnect blocks of withdrawals / trackings / real withdrawals and
    other transactions follow (a re-issued withdrawal has another hash).
 2. harness/cmd/crstate replays the behaviours on a real crstate.Committee: the real SpecialContextCheck of
    CRCProposal / review / tracking / withdraw (+ its HeightVersionCheck) / real withdraw / appropriation and
    blockchain.CheckDuplicateTx must admit exactly what the spec admits; after every step probe transactions around the
    limits (withdrawals of the available amount +-1 and with the payload version the height refuses, two withdrawals /
    two trackings of one proposal in one block, proposals at the 10% cap and at the remaining room +-1, with budgets asked
    earlier in the block) are put to the real checkers and compared with the spec's verdict table; the budget
    invariants -- the payable set WithdrawableTxInfo included -- are evaluated on the real state, also right after a
    rollback whose result differs from the directly built state.
"""
import json, os, importlib.util
import vf

_spec = importlib.util.spec_from_file_location("_crgov", os.path.join(os.path.dirname(__file__), "_crgov.py"))
G = importlib.util.module_from_spec(_spec); _spec.loader.exec_module(G)

META = dict(
    text="TLC checks the budget invariants of the proposal model (paid <= approved stages, each stage paid once and only "
         "after it became withdrawable, pending withdraw orders covered by withdrawn stages, owed <= used <= stage amount) "
         "over all explored blocks of proposal transactions and rollbacks, for both withdraw payload versions; the "
         "behaviours are replayed on a real crstate.Committee where the real CRCProposal / tracking / withdraw / "
         "appropriation checkers and CheckDuplicateTx must give the spec's verdicts (also for probe transactions around "
         "every limit and for two withdrawals / trackings of one proposal in one block) and the invariants, the payable "
         "set included, are evaluated on the real state after every step and after every rollback.",
    note="Unit-level Committee and checkers (SpecialContextCheck, HeightVersionCheck of the withdrawal only; sanity, "
         "signatures of non-proposal transactions and UTXO validation are not exercised); bounded: 2 proposals x 3 stages, "
         "amounts 1/2/5 units, stage amount 80 units; the 'room' limit can bind only through budgets asked earlier in the "
         "block at these bounds; CRCProposal / review / tracking payload version 01 only.",
    technique="TLA+ model of proposal budgets and committee funds (TLC invariants, rollback steps, two withdraw payload "
              "versions) + replay on the real Committee with checker-verdict comparison, limit probes and real-state "
              "invariants",
)

TABLE_CFG = """SPECIFICATION Spec
CONSTANTS
  CRs = {1, 2, 3}
  Props = {1, 2}
  Owners = {1, 2}
  Voters = {1, 2}
  AgreeCount = 2
  PropCRVote = 1
  PropPubVote = 1
  RejectThreshold = 2
  MaxTracking = 4
  StageAmounts = {20, 80}
  UsedAtStart = {0, 10}
  UsedNow = {0, 10, 12, 70, 76}
  AskedInBlock = {0, 2, 5}
  Totals = {3, 4, 5, 6, 7, 8, 9}
VIEW view
INVARIANT RegistrationWithinFunds
ACTION_CONSTRAINT Emit
CHECK_DEADLOCK FALSE
"""


def budget_table(chk, s, cfgp):
    """Decision table of the two budget limits (BudgetTable.tla) on the real CRCProposal checker."""
    r = vf.tlc("Gov", "BudgetTable", "budget-table.cfg", cfg_text=TABLE_CFG, workers=1, timeout=600,
               jvm=("-Xmx2g", "-XX:ParallelGCThreads=2"))
    vf.tlc_ok(r, "budget decision table")
    chk.add_tlc(r, "budget limits decision table (BudgetTable.tla)")
    cases, st = vf.behaviours(r, dedupe_prefixes=False)
    path = os.path.join(vf.scratch(), "budget-cases.jsonl")
    vf.write_json_lines(path, cases)
    recs, _ = vf.run_driver(s.binary, ["budget", cfgp, path], timeout=600)
    chk.absorb(G.verdict_first(chk, recs), "budget limits decision table: %d cases" % len(cases))
    return cases


BUDGET_KINDS = ["Proposal", "Review", "Reject", "Tracking", "Withdraw", "RealWithdraw", "Close", "Approp"]


def rollback_jobs(s, limit, small, steps=2):
    """The budgets across a reorganisation: a block of tracking / withdrawal / real withdrawal is disconnected and other
    transactions (a re-issued withdrawal has another hash) follow; both withdraw payload versions; the funds at the
    committee change."""
    s.job("agreed: withdrawal and tracking undone and re-issued", "agreed", ["Tracking", "Withdraw", "RealWithdraw"], 3, emit="all",
          limit=limit, rolls=1)
    s.job("legacy agreed: both withdraw payload versions, undone and re-issued", "agreed", ["Tracking", "Withdraw", "RealWithdraw"], 3,
          emit="all", limit=limit, rolls=1, variant="legacy")
    s.job("h2 handover: proposals decided at the committee change", "handover", ["Review", "Reject", "Impeach"], steps, emit="all",
          limit=small, rolls=1, variant="h2")
    s.job("seated: appropriation, registration, review", "seated", ["Approp", "Proposal", "Review"], 3, emit="all", limit=small,
          rolls=1)


def run(chk):
    thorough = chk.tier == "thorough"
    s = G.Session(chk)
    if thorough:
        rollback_jobs(s, 3000, 1500, steps=3)
        s.job("exhaustive agreed: tracking/withdraw/close/review/reject, 4 blocks", "agreed",
              ["Tracking", "Withdraw", "RealWithdraw", "Close", "Review", "Reject"], 4, workers=2, rolls=0, timeout=1700)
        s.job("exhaustive duty: registration to withdrawal, 4 blocks", "duty", ["Proposal", "Review", "Withdraw", "Tracking"], 4,
              workers=2, rolls=0, timeout=1700)
        s.job("duty: registration and reviews", "duty", ["Proposal", "Review", "Reject", "Approp", "Impeach"], 3, emit="all",
              limit=4000, rolls=0)
        s.job("agreed: tracking, withdrawal, close", "agreed", ["Tracking", "Withdraw", "RealWithdraw", "Close", "Review", "Reject"], 3,
              emit="all", limit=4000, rolls=0)
        s.job("simulation duty, 30 steps", "duty", BUDGET_KINDS + ["Impeach", "Claim"], 30, emit="last", simulate="num=500", rolls=0,
              timeout=1700)
        s.job("simulation election, 30 steps", "election", G.ALL_KINDS, 30, emit="last", simulate="num=300", rolls=0, timeout=1700)
    else:
        s.job("agreed: tracking, withdrawal, close", "agreed", ["Tracking", "Withdraw", "RealWithdraw", "Close", "Review"], 3,
              emit="all", limit=400, rolls=0)
        s.job("duty: registration and reviews", "duty", ["Proposal", "Review", "Reject", "Approp"], 3, emit="all", limit=300, rolls=0)
        s.job("simulation duty, 12 steps", "duty", BUDGET_KINDS, 12, emit="last", simulate="num=40", rolls=0)
        rollback_jobs(s, 350, 250)
    s.run_jobs(parallel=4 if not thorough else 8)
    cap = 500 if thorough else 40
    for i, (label, behs) in enumerate(s.behs):
        if label.startswith("simulation") and len(behs) > cap:
            s.rng.shuffle(behs)
            s.behs[i] = (label, sorted(behs[:cap], key=lambda b: json.dumps(b, sort_keys=True)))
    cfgp, allb = s.replay(sweep=0)      # rollbacks are C22's subject
    for b in allb[:: max(1, len(allb) // 3)][:3]:
        chk.sample([dict(act=x["act"], args=x["args"]) for x in b][:8])

    cases = budget_table(chk, s, cfgp)
    bad = json.loads(json.dumps(next(c for c in cases if c[0]["exp"])))
    bad[0]["exp"] = False
    p3 = os.path.join(vf.scratch(), "budget-bad.jsonl")
    vf.write_json_lines(p3, [bad])
    recs, _ = vf.run_driver(s.binary, ["budget", cfgp, p3], timeout=300)
    chk.selftest("budget table: one verdict flipped", G.rejected(recs))

    # binding self-tests: a corrupted verdict table must be contradicted by the real checkers
    wb = G.pick(allb, lambda b: any(a > 0 for a in b[-1]["vd"]["avail"]), s.rng)
    if wb is None:
        raise vf.Infra("no behaviour ends in a state with a withdrawable amount")
    i = next(k for k, a in enumerate(wb[-1]["vd"]["avail"]) if a > 0)
    wb[-1]["vd"]["avail"][i] += 1
    chk.selftest("withdraw verdicts: available amount corrupted", G.rejected(s.driver_once(cfgp, [wb], sweep=0)))
    pb = G.pick(allb, lambda b: b[-1]["vd"]["cap"] > 3, s.rng)
    if pb is None:
        raise vf.Infra("no behaviour ends in a state where proposals are allowed")
    pb[-1]["vd"]["cap"] -= 1
    chk.selftest("proposal verdicts: 10% cap corrupted", G.rejected(s.driver_once(cfgp, [pb], sweep=0)))
    ob = G.pick(allb, lambda b: len(b) > 2, s.rng)
    recs = s.driver_once(cfgp, [ob], sweep=0, env={"CRSTATE_SELFTEST": "payable"})
    chk.selftest("payable set: a withdraw order nobody issued",
                 any(r.get("kind") == "violation" and r.get("key") == "C29:payable-unknown-order" for r in recs))
    chk.assumptions += G.ASSUMPTIONS
    return chk.finish(exhaustive=False)
