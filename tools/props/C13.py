"""C13 - disconnecting a block exactly undoes connecting it."""
import json, os, random
import vf

META = dict(
    text="Index.tla defines every persistent index (unspent outputs, per-address UTXO lists, transaction locations, recorded "
         "side-chain withdrawal hashes, recorded deposit returns, stored proposal drafts) as the fold of a linear chain and "
         "enumerates connect / disconnect / reconnect sequences of blocks built from thirteen transaction templates covering "
         "every kind with an index effect (transfers incl. zero-value outputs and cross-height spends, WithdrawFromSideChain "
         "payload v0/v1/v2 (also with a plain output in front of the withdraw output), ReturnSideChainDepositCoin, CRCProposal, two reviews sharing one opinion hash, tracking). Every "
         "explored edge is replayed through ChainStore.SaveBlock / RollbackBlock on a real store and all six query surfaces "
         "are compared with the fold after every step.",
    note="Storage level (no block validation), so that payload kinds that are hard to get through full validation are "
         "covered; node-level reorganisations of transfers are covered by C12/C14's behaviours. Draft removal is modelled as "
         "the code does it (named deviation DraftRemoveUnconditional) while that finding is open.",
    technique="TLA+ index model (fold semantics) checked by TLC + per-edge behaviour replay on the real ChainStore",
)

ALL = ["P1", "P2", "P3", "W0", "W1", "W2", "W3", "W4", "R1", "CP", "CR1", "CR2", "CT"]
CFG = """SPECIFICATION Spec
CONSTANTS
  Templates = {%s}
  MaxOps = %d
  MaxTxPerBlock = %d
  DraftRemoveUnconditional = %s
VIEW view
%s
CHECK_DEADLOCK FALSE
"""


def asis():
    return any(k.get("key") == "C13:drafts-shared-hash-removed" and k.get("status", "open") == "open" for k in vf.load_known())


def cfg(tpl, ops, tpb, uncond, extra):
    return CFG % (", ".join('"%s"' % t for t in tpl), ops, tpb, "TRUE" if uncond else "FALSE", extra)


def cls(b):
    return b[-1]["act"] + ":" + ",".join(b[-1]["block"])


def run(chk):
    thorough = chk.tier == "thorough"
    rng = random.Random(vf.seed())
    binary = vf.go_build("index")
    # 1. the property in the model: with reference-counted drafts it holds ...
    r = vf.tlc("Chain", "Index", "mc.cfg", cfg_text=cfg(ALL, 5 if thorough else 4, 1, False,
               "INVARIANTS DraftsAgree\nPROPERTIES DisconnectUndoesConnect"), workers=16, timeout=1700)
    vf.tlc_ok(r, "Index exhaustive")
    chk.add_tlc(r, "exhaustive Index.tla (ideal draft store): %d templates, <=%d ops, 1 tx per block" % (len(ALL), 5 if thorough else 4))
    if thorough:
        r = vf.tlc("Chain", "Index", "mc2.cfg", cfg_text=cfg(ALL, 3, 2, False,
                   "INVARIANTS DraftsAgree\nPROPERTIES DisconnectUndoesConnect"), workers=16, timeout=1700)
        vf.tlc_ok(r, "Index exhaustive, 2 tx per block")
        chk.add_tlc(r, "exhaustive Index.tla (ideal draft store): %d templates, <=3 ops, 2 tx per block" % len(ALL))
    behs = []
    # 2. every edge of connect/disconnect/reconnect sequences, single-transaction blocks
    r = vf.tlc("Chain", "Index", "x1.cfg", cfg_text=cfg(ALL, 4 if thorough else 3, 1, asis(), "ACTION_CONSTRAINT Emit"),
               workers=1, timeout=1700)
    vf.tlc_ok(r, "Index extraction")
    chk.add_tlc(r, "edge extraction, 1 tx per block")
    b, st = vf.behaviours(r, limit=6000 if thorough else 450, rng=rng, per_class=200 if thorough else 12, strat_key=cls)
    st["label"] = "edges, 1 tx per block"; st["classes"] = dict(list(st["classes"].items())[:30])
    chk.cov.setdefault("extraction", []).append(st)
    behs += b
    # 3. deeper, two transactions per block (simulation)
    r = vf.tlc("Chain", "Index", "sim.cfg", cfg_text=cfg(ALL, 8, 2, asis(), "ACTION_CONSTRAINT EmitLast"), workers=1,
               timeout=900, simulate="num=%d" % (3000 if thorough else 250), depth=9, seed_arg=vf.seed())
    vf.tlc_ok(r, "Index simulation")
    b, st = vf.behaviours(r, limit=3000 if thorough else 150, rng=rng)
    st["label"] = "simulate 8 ops, 2 tx per block"; st["classes"] = {}
    chk.cov.setdefault("extraction", []).append(st)
    behs += b
    path = os.path.join(vf.scratch(), "idx.jsonl")
    vf.write_json_lines(path, behs)
    chk.absorb(vf.run_sharded(binary, lambda i, n: ["replay", path, str(i), str(n)]), "replay on the real ChainStore")
    # binding self-test
    b0 = next(x for x in behs if x[-1]["act"] == "Connect" and x[-1]["tx3"])
    bad = json.loads(json.dumps(b0)); bad[-1]["tx3"] = bad[-1]["tx3"][1:]
    p = os.path.join(vf.scratch(), "idx-bad.jsonl")
    vf.write_json_lines(p, [bad])
    recs, _ = vf.run_driver(binary, ["replay", p], env={"TMPDIR": "/dev/shm"})
    chk.selftest("replay: expected Tx3 index corrupted", any(x.get("kind") == "violation" for x in recs))
    chk.assumptions += ["blocks are saved / rolled back at the tip of a linear chain through ChainStore (no validation)",
                        "blocks never spend an output created in the same block (the node's validation forbids it)"]
    return chk.finish(exhaustive=False)
