"""C37 - wallet signatures verify and only for the signed data.

 Sig.tla with the WalletSign action only (no forged signatures): standard, m-of-n multisig
 and (aggregated) Schnorr accounts sign through account.SignStandardTransaction /
 account.SignMultiSignTransaction / account.NewSchnorrAggregateAccount +
 crypto.AggregateSignatures, in every order and number the bounds allow, the signed content
 may change once (every byte class of the unsigned serialisation) before, between or after
 the signatures.  TLC checks WalletComplete (enough distinct holders signed the current
 content => accepted) and Sound; every submitted transaction is rebuilt by replaying the
 wallet calls on real accounts and verified by the node's checkTransactionSignature.
 VIOLATION = the verdicts differ (either direction).
"""
import json, os, random, sys
import vf
sys.path.insert(0, os.path.dirname(os.path.abspath(__file__)))
from sigcfg import cfg, strat, absorb, violations_first

META = dict(
    text="TLC enumerates every sequence of wallet signing steps of Sig.tla (holders of standard, m-of-n multisig and aggregated "
         "Schnorr accounts signing one or two programs in any order, a holder signing twice, too few / too many signers, the "
         "signed content changing once in any byte class before, between or after the signatures) and checks WalletComplete "
         "(>= m distinct holders over the current content => accepted) and Sound (anything else => rejected); every submitted "
         "transaction is rebuilt by replaying the calls on account.SignStandardTransaction / SignMultiSignTransaction / "
         "NewSchnorrAggregateAccount + crypto.AggregateSignatures with real keys and must get the same verdict from the node's "
         "checkTransactionSignature -> RunPrograms.",
    note="Wallets hold one key each (SignMultiSignTransaction picks the first script key the wallet holds); n <= 3. Amount and "
         "address strings: Codec.tla is a decision table over the boundaries of the amount format (sign, 1..11 digit integer "
         "parts, fractions, smallest / largest Fixed64) and over every issued address prefix x code-hash patterns; the base58 / "
         "checksum arithmetic itself is not specified (round trip, length and first character are).",
    technique="TLA+ model (TLC exhaustive, invariants WalletComplete/Sound) + per-case replay through the account package and "
              "the node's signature check",
)


@violations_first
def run(chk):
    thorough = chk.tier == "thorough"
    rng = random.Random(vf.seed())
    binary = vf.go_build("sig")
    runs = [("wallet", cfg("2, 3, 4, 5, 7, 8, 9", pfx='"std", "multi"', maxin=2, maxprogs=2, maxsigs=3 if thorough else 2,
                           forge="", wallets="1, 2, 3", maxver=1, garbage=False, aligned=True),
             80000 if thorough else 25000)]
    if not thorough:
        runs.append(("wallet-3sig", cfg("5, 8, 9", pfx='"std", "multi"', maxin=1, maxprogs=1, maxsigs=3, forge="",
                                        wallets="1, 2, 3", maxver=1, garbage=False, aligned=True), 10000))
    last = None
    for name, text, limit in runs:
        r = vf.tlc("Edge", "Sig", "c37-%s.cfg" % name, cfg_text=text, workers=16, timeout=1700)
        vf.tlc_ok(r, "Sig.tla " + name)
        chk.add_tlc(r, "Sig.tla %s (exhaustive, invariants WalletComplete/Sound/StaleWorthless)" % name)
        behs, st = vf.behaviours(r, dedupe_prefixes=False, limit=limit, rng=rng, strat_key=strat, per_class=60)
        st.pop("classes", None)
        st["config"] = name
        chk.cov.setdefault("extraction", []).append(st)
        if not behs:
            raise vf.Infra("no cases extracted for " + name)
        path = os.path.join(vf.scratch(), "c37-%s.jsonl" % name)
        vf.write_json_lines(path, behs)
        recs, _ = vf.run_driver(binary, ["c37", path])
        absorb(chk, recs, "wallet-signed %s cases through checkTransactionSignature" % name)
        if sum(1 for b in behs if b[0]["exp"]) == 0:
            raise vf.Infra("no accepted wallet case: vacuous")
        last = behs

    # binding self-test: flip the expected verdict both ways
    acc = next(b for b in last if b[0]["exp"])
    rej = next(b for b in last if not b[0]["exp"] and b[0]["args"]["ver"] == 1)
    bad1 = json.loads(json.dumps(acc)); bad1[0]["exp"] = False; bad1[0]["why"] = "selftest"
    bad2 = json.loads(json.dumps(rej)); bad2[0]["exp"] = True
    p2 = os.path.join(vf.scratch(), "c37-bad.jsonl")
    vf.write_json_lines(p2, [bad1, bad2])
    recs, _ = vf.run_driver(binary, ["c37", p2])
    chk.selftest("replay: accepted wallet case expected rejected -> violation",
                 any(x.get("kind") == "violation" and x.get("key", "").startswith("C37:accepts:selftest") for x in recs))
    chk.selftest("replay: tampered wallet case expected accepted -> violation",
                 any(x.get("kind") == "violation" and x.get("key", "").startswith("C37:wallet-signed-rejected") for x in recs))
    # amount and address strings (Codec.tla decision tables)
    cbin = vf.go_build("codec")
    rc = vf.tlc("Edge", "Codec", "c.cfg", cfg_text="SPECIFICATION Spec\nINVARIANTS TextShape\nACTION_CONSTRAINT Emit\nCHECK_DEADLOCK FALSE\n",
                workers=1, timeout=600)
    vf.tlc_ok(rc, "Codec table")
    chk.add_tlc(rc, "Codec.tla: amount format boundaries and address prefixes x hash patterns")
    cb, _ = vf.behaviours(rc, dedupe_prefixes=False)
    pc = os.path.join(vf.scratch(), "codec.jsonl")
    vf.write_json_lines(pc, cb)
    recs, _ = vf.run_driver(cbin, ["run", pc])
    chk.absorb(recs, "amount / address strings: text and round trip on common.Fixed64 and common.Uint168")
    badc = json.loads(json.dumps(next(b for b in cb if b[0]["act"] == "Amount" and b[0]["args"]["neg"])))
    badc[0]["exp"]["text"] = badc[0]["exp"]["text"][1:]
    vf.write_json_lines(pc + ".bad", [badc])
    recs, _ = vf.run_driver(cbin, ["run", pc + ".bad"])
    chk.selftest("codec: expected amount text without its sign", any(x.get("kind") == "violation" for x in recs))
    chk.assumptions += [
        "ideal cryptography in the model; one key per wallet; n <= 3 keys per multisig script, aggregated Schnorr keys of 1 and "
        "2 holders; <= 2 programs per transaction; one change of the signed content",
        "the byte classes of a change: tx version byte, tx type byte, payload version byte (TransferAsset has an empty "
        "payload), nonce attribute, input (txid / index / sequence), output (value / program hash), lock time",
        "address strings: round trip, length and first character per issued prefix; the base58check arithmetic is not modelled",
    ]
    return chk.finish(exhaustive=False)
