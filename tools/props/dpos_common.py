"""Shared by the C21 / C28 recipes: configurations of spec/Consensus/DPoS.tla
(preludes, alphabets, constants), TLC runs and the replay on the real code
(harness/cmd/dposstate)."""
import json, os, random
import vf

ALL_KINDS = ["Reg", "Upd", "Can", "Act", "Vote1", "Unvote1", "Stake", "Vote2", "Renew", "RetVotes", "TopUp",
             "RetDep", "Illegal", "Inact", "ToPOW", "ToDPOS", "Sponsor"]
# C28: the alphabet is biased towards what moves deposits, penalties and vote rights
BALANCE_KINDS = ["Reg", "Can", "Act", "Stake", "Vote2", "Renew", "RetVotes", "TopUp", "RetDep", "Illegal", "Inact"]

# rollback closures recorded as inexact (known_findings.d/C21.json): RollbackExact is
# not asserted when one of these change kinds is undone
TOLERATE = []


def it(k, p="-", a="-", x=0, y=0):
    return '[k |-> "%s", p |-> "%s", a |-> "%s", x |-> %d, y |-> %d]' % (k, p, a, x, y)


E = []
# Forced first blocks (every one must be accepted by the spec; the driver checks that
# the real code follows).  Free exploration starts after them.
PRELUDES = {
    # p1 (v1) and p3 (v2) registered, active at height 6; irreversibility bookkeeping starts at 7
    "basic": dict(su=12, blocks=[[it("Reg", "p1"), it("Reg", "p3")], E, E, E, E, E]),
    # stakes, a top-up, a v2 vote that expires at 10, a v1 vote, one sponsored block
    "votes": dict(su=14, blocks=[[it("Reg", "p1"), it("Reg", "p3")], [it("Stake", a="a1", x=3)], [it("Stake", a="a2", x=2)],
                                 [it("TopUp", "p1", x=6)], [it("Reg", "p2")], E,
                                 [it("Vote2", "p3", "a1", 1, 9), it("Vote1", "p1", "a2")], [it("Sponsor", "p3")]]),
    # p1 made inactive (emergency penalty 5), tops up and asks for activation; p2 pending
    "penalty": dict(su=14, blocks=[[it("Reg", "p1"), it("Reg", "p3")], E, E, E, [it("Reg", "p2")], E,
                                   [it("Inact", "p1")], [it("TopUp", "p1", x=6)], [it("Act", "p1")]]),
    # p1 canceled at 7 (deposit unlocks at 10), p2 illegal, p1 topped up
    "cancel": dict(su=14, blocks=[[it("Reg", "p1"), it("Reg", "p2")], E, E, E, E, E,
                                  [it("Can", "p1")], [it("Illegal", "p2"), it("TopUp", "p1", x=1)], E, E]),
    # POW at 7, back-to-DPOS requested at 8 (takes effect at 18)
    "mode": dict(su=30, blocks=[[it("Reg", "p1"), it("Reg", "p3")], E, E, E, E, E, [it("ToPOW")], [it("ToDPOS")],
                                E, E, E, E, E, E, E, E]),
    # what only time brings: the v2 producer p3 (StakeUntil 10) and the vote it holds (lock 10) both expire in block 11, the
    # inactive p1 (penalty 5, topped up, activation requested at 8) becomes active again in block 13; free blocks 12, 13
    "late": dict(su=10, blocks=[[it("Reg", "p1"), it("Reg", "p3")], [it("Stake", a="a1", x=3)], [it("Reg", "p2")], E, E, E,
                                [it("Vote2", "p3", "a1", 1, 10), it("Inact", "p1"), it("TopUp", "p1", x=6)], [it("Act", "p1")],
                                E, E, E]),
    # a stale activation request: p1 inactive at 7, asks for activation at 9, cancels at 10 (never activated, the request
    # height stays), illegal evidence at 16 makes it Illegal again; from 17 on an ActivateProducer finds a request height
    # that is neither "never" nor recent, and the activation six blocks after the old request fires at once
    "reactivate": dict(su=30, blocks=[[it("Reg", "p1"), it("Reg", "p3")], E, E, E, E, E, [it("Inact", "p1")],
                                      [it("TopUp", "p1", x=6)], [it("Act", "p1")], [it("Can", "p1")], E, E, E, E, E,
                                      [it("Illegal", "p1")]]),
    # the whole POW period forced: POW at 7, back-to-DPOS requested at 8, DPOS again at 18 (= DPOSWorkHeight); the free
    # blocks start with 19 = DPOSWorkHeight + 1, the block that appends two changes of DPOSStartHeight ("from pow" and
    # the regular advance).  Stakes, a v1 vote (output worth more than the vote) and a v2 vote (expires at 21) are live.
    "switch": dict(su=30, blocks=[[it("Reg", "p1"), it("Reg", "p3")], [it("Stake", a="a1", x=3)], [it("Stake", a="a2", x=2)], E,
                                  [it("Reg", "p2")], E, [it("ToPOW")], [it("ToDPOS")], [it("Vote1", "p1", "a2")],
                                  E, E, E, E, E, E, E, [it("Vote2", "p3", "a1", 1, 20)], E]),
}

CONSTS = dict(Lockup=3, IrrStart=7, MaxInactive=2, InactivePen=1, EmergencyPen=5, IllegalPen=2, MinLock=2, MaxLock=20,
              DepV1=5000, DepV2=2000, RegExtra=1, V1Amt=3, MaxRights=5, MaxUtxo=3, WorkInterval=10)


def mc_module(name, prelude, kinds):
    blocks = PRELUDES[prelude]["blocks"]
    pre = "<<" + ", ".join("<<" + ", ".join(b) + ">>" for b in blocks) + ">>"
    return ("---- MODULE %s ----\nEXTENDS DPoS\nPSeqV == <<\"p1\", \"p2\", \"p3\">>\nASeqV == <<\"a1\", \"a2\">>\n"
            "PreludeV == %s\nKindsV == {%s}\nTolerateV == {%s}\n====\n"
            % (name, pre, ", ".join('"%s"' % k for k in kinds), ", ".join('"%s"' % k for k in TOLERATE)))


def cfg_text(prelude, maxh, maxitems, rollbacks, span, emit=None, simlen=1000, invariants=True, tolerate=True,
             checkpoint=False, sample=1):
    su = PRELUDES[prelude]["su"]
    lines = ["SPECIFICATION Spec", "CONSTANTS", "  PSeq <- PSeqV", "  ASeq <- ASeqV", '  V2Reg = {"p3"}', '  V2Upd = {"p1"}',
             "  SU = %d" % su, "  MaxH = %d" % maxh, "  Prelude <- PreludeV", "  MaxItems = %d" % maxitems, "  Kinds <- KindsV",
             "  MaxRollbacks = %d" % rollbacks, "  RollbackSpan = %d" % span,
             "  StakeAmts = {2, 3}", "  TopUps = {1, 6}", "  VoteAmts = {1}", "  LockSpans = {2, 3}",
             "  Tolerate <- TolerateV" if tolerate else "  Tolerate = {}", "  SimLen = %d" % simlen,
             "  WithCheckpoint = %s" % ("TRUE" if checkpoint else "FALSE"), "  SampleN = %d" % sample]
    lines += ["  %s = %d" % kv for kv in sorted(CONSTS.items())]
    lines.append("VIEW view")
    if invariants:
        lines.append("INVARIANTS TypeOK RollbackExact IsDirectBuild NonNegative VotesWithinRights UsedIsSum TotalIsUtxo")
        lines.append("PROPERTIES NoOverdraw CheckpointIsIdentity")
    if emit:
        lines.append("ACTION_CONSTRAINT " + emit)
    lines.append("CHECK_DEADLOCK FALSE")
    return "\n".join(lines) + "\n"


def free_len(prelude, maxh):
    return maxh - len(PRELUDES[prelude]["blocks"])


def strat(b):
    """class of a behaviour: what its last two steps do"""
    def k(s):
        if s.get("act") == "RollbackTo":
            return "RB"
        ks = sorted({i["k"] for i in s.get("items", [])}) or ["empty"]
        tag = "" if s.get("applied") else ("!dev" if s.get("dev") else "!rej")
        return "+".join(ks) + tag
    return "/".join(k(s) for s in b[-2:])


def tlc_run(chk, label, prelude, kinds, maxh, maxitems, rollbacks, span=4, emit=None, workers=8, timeout=1500,
            simulate=None, depth=None, simlen=1000, invariants=True, seed=None, checkpoint=False, sample=1):
    name = "MC" + "".join(c for c in label.title() if c.isalnum())
    r = vf.tlc("Consensus", name, name + ".cfg",
               cfg_text=cfg_text(prelude, maxh, maxitems, rollbacks, span, emit=emit, simlen=simlen, invariants=invariants,
                                 checkpoint=checkpoint, sample=sample),
               files={name + ".tla": mc_module(name, prelude, kinds)}, workers=workers, timeout=timeout,
               simulate=simulate, depth=depth, seed_arg=seed)
    vf.tlc_ok(r, "DPoS " + label)
    if chk is not None:
        chk.add_tlc(r, "%s: DPoS.tla prelude=%s kinds=%d items<=%d heights<=%d rollbacks<=%d" % (
            label, prelude, len(kinds), maxitems, maxh, rollbacks))
    return r


_bin = None


def driver():
    global _bin
    if _bin is None:
        _bin = vf.go_build("dposstate")
    return _bin


def replay(chk, behs, prelude, label, span=6, shards=4):
    """Run behaviours on the real code (sharded); returns the result records."""
    path = os.path.join(vf.scratch(), "beh-%s.jsonl" % "".join(c for c in label if c.isalnum()))
    su = PRELUDES[prelude]["su"]
    shards = max(1, min(shards, len(behs)))
    parts = []
    for i in range(shards):
        p = path + ".%d" % i
        vf.write_json_lines(p, behs[i::shards])
        parts.append(p)
    return vf.run_sharded(driver(), lambda i, n: ["replay", parts[i], str(span), str(su)], shards=shards, timeout=3000,
                          env={"GOGC": "300", "GOMAXPROCS": "2"})


def tags(b, last=2):
    """What the closures of the last blocks of a behaviour exercise (from the change kinds the spec logs per block):
    every change kind, and every set of >= 2 different change kinds that one block applies to one subject
    (a producer 'P:', a stake address 'A:', the consensus-mode / irreversibility fields 'G:').  The second kind is where a
    rollback closure that undoes its step symmetrically (x-- for x++) instead of restoring the captured value, or a
    value captured at the wrong moment, becomes visible."""
    t = set()
    for s in b[-last:]:
        if s.get("act") != "Block" or not s.get("applied"):
            continue
        by = {}
        for k, sub in s.get("ck", []):
            t.add(k)
            by.setdefault(sub, set()).add(k)
        for sub, ks in by.items():
            if len(ks) >= 2:
                t.add(("G:" if sub == "-" else "P:" if sub.startswith("p") else "A:") + "+".join(sorted(ks)))
    return t


def pick(behs, limit, rng, per_tag=2, tag_share=0.5):
    """Selection of the behaviours to replay.  First every tag (see tags()) gets `per_tag` behaviours (rarest tags
    first, at most tag_share of the limit), then round-robin over the classes (item kinds of the last two steps)
    until `limit`."""
    if limit is None or len(behs) <= limit:
        return behs
    keyed = [(json.dumps(b, sort_keys=True), b) for b in behs]
    keyed.sort(key=lambda kb: kb[0])
    order = list(range(len(keyed)))
    rng.shuffle(order)
    taken = set()
    bytag = {}
    for i in order:
        for t in tags(keyed[i][1]):
            bytag.setdefault(t, []).append(i)
    have = {}
    for t in sorted(bytag, key=lambda t: (len(bytag[t]), t)):
        for i in bytag[t]:
            if have.get(t, 0) >= per_tag or len(taken) >= limit * tag_share:
                break
            if i in taken:
                continue
            taken.add(i)
            for u in tags(keyed[i][1]):
                have[u] = have.get(u, 0) + 1
    classes = {}
    for i in order:
        if i not in taken:
            classes.setdefault(strat(keyed[i][1]), []).append(i)
    keys = sorted(classes)
    rng.shuffle(keys)
    while len(taken) < limit:
        progressed = False
        for k in keys:
            if classes[k] and len(taken) < limit:
                taken.add(classes[k].pop())
                progressed = True
        if not progressed:
            break
    return [keyed[i][1] for i in sorted(taken)]


def _explore(chk, job, rng_seed):
    label, prelude, kinds, maxh, maxitems, rb, limit = job[:7]
    span = job[7] if len(job) > 7 else 6
    sample = job[8] if len(job) > 8 else 1
    r = tlc_run(None, label, prelude, kinds, maxh, maxitems, rb, span=4, emit="Emit", workers=1, sample=sample,
                seed=rng_seed)
    behs, st = vf.behaviours(r, limit=None)
    behs = pick(behs, limit, random.Random(rng_seed))
    st["selected"] = len(behs)
    st.pop("classes", None)
    st["label"] = label
    recs = replay(chk, behs, prelude, label, span=span, shards=3)
    return r, behs, st, recs


def exhaustive_all(chk, jobs, workers=3):
    """Model checking only (no extraction): larger bounds, several workers, one configuration after the other.
    job = (label, prelude, kinds, last height, items per block, rollbacks)"""
    for label, prelude, kinds, maxh, maxitems, rb in jobs:
        tlc_run(chk, "x-" + label, prelude, kinds, maxh, maxitems, rb, span=4, workers=workers, timeout=1500)


def explore_all(chk, jobs, parallel=3):
    """Each job = one TLC run that is both the exhaustive check of the invariants and the extraction of one
    behaviour per explored edge, followed by the replay on the real code.  Jobs run side by side."""
    import concurrent.futures
    vf._copy_spec(os.path.join(vf.SPEC, "Consensus"))
    driver()
    out = []
    with concurrent.futures.ThreadPoolExecutor(max_workers=parallel) as ex:
        futs = [ex.submit(_explore, chk, j, vf.seed() * 1000 + i) for i, j in enumerate(jobs)]
        res = [f.result() for f in futs]
    for j, (r, behs, st, recs) in zip(jobs, res):
        chk.add_tlc(r, "%s: DPoS.tla prelude=%s kinds=%d items<=%d heights<=%d rollbacks<=%d" % (
            j[0], j[1], len(j[2]), j[4], j[3], j[5]))
        chk.cov.setdefault("extraction", []).append(st)
        chk.absorb(recs, "replay " + j[0])
        out.append(behs)
    return out


def simulate(chk, label, prelude, kinds, maxh, num, rng_seed, maxitems=2, rollbacks=2, span=6):
    simlen = maxh
    r = tlc_run(chk, label, prelude, kinds, maxh + 5, maxitems, rollbacks, span=span, emit="EmitLast", workers=1,
                simulate="num=%d" % num, depth=simlen + 1, simlen=simlen, invariants=False, seed=rng_seed, timeout=1500)
    behs, st = vf.behaviours(r, limit=None)
    # in simulation mode TLC evaluates the action constraint for every candidate successor of the last
    # state: one simulated trace is printed with each possible last step; two of them are kept
    seen = {}
    keep = []
    for b in behs:
        k = json.dumps(b[:-1], sort_keys=True)
        seen[k] = seen.get(k, 0) + 1
        if seen[k] <= 2:
            keep.append(b)
    st["traces"] = len(seen)
    st["selected"] = len(keep)
    st.pop("classes", None)
    st["label"] = label
    chk.cov.setdefault("extraction", []).append(st)
    return keep, replay(chk, keep, prelude, label, span=span)


ASSUMPTIONS = [
    "unit-level driver: the real state.Arbiters/State is fed synthetic blocks (as test/unit/arbitratorsrollback_test.go does); "
    "all era thresholds lie below the first block (main-net code paths of today, DPoSV2ActiveHeight not reached), lock-up 3 blocks, "
    "MaxInactiveRounds 2; the arbiter round machine is kept quiescent (a round never ends) because DPoS.tla does not model arbiter "
    "election: next/current arbiter sets, rewards and CR members are compared by the differential oracle but never change",
    "the arbiter set seen by the inactivity counting is stubbed as 'every producer of the active map' (in the spec and in the driver)",
    "an amount-map entry holding 0 is identified with an absent entry when snapshots are compared",
    "3 producers (p1,p2 v1; p3 v2; p1 may upgrade to v1v2), 2 stake addresses, amounts in whole ELA (a registration pays the minimum "
    "deposit + 1 ELA, so totalAmount and the locked depositAmount differ from the start); blocks carry 0..2 items and two "
    "items share a block only if they touch the same producer / address / mode; CR candidate and member deposits (the CR half of C28) "
    "are not modelled",
]
