"""C22 - CR committee state after a rollback equals the state built directly.

 1. TLC checks spec/Gov/CR.tla + Proposal.tla (one step = one block of CR transactions processed as
    Committee.ProcessBlock does, or Committee.RollbackTo) from several start states and prints one behaviour per
    explored edge; seeded simulation gives behaviours that cross an election boundary.
 2. harness/cmd/crstate replays every behaviour on a real crstate.Committee (instance A) and after every step
    (i)  compares a canonical dump of the whole committee state (every exported field of KeyFrame, StateKeyFrame,
         ProposalKeyFrame) of A -- which went through the behaviour's RollbackTo steps and through a sweep
         "roll back to t, compare, re-process, compare" over earlier heights -- with instance B that processed only
         the blocks of the current chain (differential oracle on the real code);
    (ii) compares the spec's state record with the projection of A.
"""
import json, os, importlib.util
import vf

_spec = importlib.util.spec_from_file_location("_crgov", os.path.join(os.path.dirname(__file__), "_crgov.py"))
G = importlib.util.module_from_spec(_spec); _spec.loader.exec_module(G)

META = dict(
    text="TLC explores the CR committee model (candidates, votes, deposits, election / claim / duty periods, impeachment, "
         "proposals, funds; blocks of up to two CR transactions and RollbackTo) from five start states; every behaviour is "
         "replayed on a real crstate.Committee and after every block the committee is rolled back to earlier heights and "
         "re-processed: its complete state (canonical dump of all key frames) must equal that of a second committee that "
         "processed only the blocks up to that height, and the spec's state record must equal the real one.",
    note="Unit-level Committee fed with synthetic blocks (no chain store); bounded model (3 CRs, 2 proposals, <= 2 tx per "
         "block, short periods); the History objects themselves are not compared, only the state they restore; see the "
         "evidence assumptions for the transaction kinds and code paths not modelled.",
    technique="TLA+ model of Committee.ProcessBlock/RollbackTo (TLC, per-edge behaviour extraction + seeded simulation) "
              "replayed on the real Committee with a differential rollback oracle and spec-state projection",
)

ALL = G.ALL_KINDS


def run(chk):
    thorough = chk.tier == "thorough"
    s = G.Session(chk)
    if thorough:
        s.job("fresh: CR registration", "fresh", G.CR_KINDS, 6, emit="all", limit=1500, rolls=2)
        s.job("voting: first election", "voting", G.CR_KINDS, 5, emit="all", limit=2500, rolls=2, rolldepth=4)
        s.job("duty: proposals and impeachment", "duty", ["Proposal", "Review", "Reject", "Impeach", "Withdraw"], 3, emit="all",
              limit=2000, rolls=1)
        s.job("agreed: tracking, withdrawal, close", "agreed", ["Tracking", "Withdraw", "RealWithdraw", "Close", "Impeach"], 3,
              emit="all", limit=2000, rolls=1)
        s.job("election: second election", "election", ["RegisterCR", "UnregisterCR", "VoteCR", "Claim", "Impeach", "ReturnDeposit"], 3,
              emit="all", limit=2000, rolls=1)
        s.job("simulation duty, 30 steps", "duty", ALL, 30, emit="last", simulate="num=300", rolls=3, timeout=1700)
        s.job("simulation election, 30 steps", "election", ALL, 30, emit="last", simulate="num=300", rolls=3, timeout=1700)
        s.job("simulation voting, 30 steps", "voting", ALL, 30, emit="last", simulate="num=300", rolls=3, timeout=1700)
    else:
        s.job("voting: first election", "voting", G.CR_KINDS, 3, emit="all", limit=350, rolls=1)
        s.job("agreed: tracking, withdrawal", "agreed", ["Tracking", "Withdraw", "RealWithdraw"], 3, emit="all",
              limit=350, rolls=1)
        s.job("simulation election, 12 steps", "election", ALL, 12, emit="last", simulate="num=40", rolls=2)
        s.job("simulation duty, 12 steps", "duty", ALL, 12, emit="last", simulate="num=40", rolls=2)
    s.run_jobs(parallel=4 if not thorough else 8)
    # simulation prints every successor of the last step: keep a bounded sample of those
    cap = 400 if thorough else 40
    for i, (label, behs) in enumerate(s.behs):
        if label.startswith("simulation") and len(behs) > cap:
            s.rng.shuffle(behs)
            s.behs[i] = (label, sorted(behs[:cap], key=lambda b: json.dumps(b, sort_keys=True)))
    cfgp, allb = s.replay(sweep=2 if thorough else 1)
    for b in allb[:: max(1, len(allb) // 3)][:3]:
        chk.sample([dict(act=x["act"], args=x["args"]) for x in b][:8])

    # binding self-tests
    rb = G.pick(allb, lambda b: any(x["act"] == "Rollback" for x in b), s.rng) or G.pick(allb, lambda b: len(b) > 1, s.rng)
    idx = max(i for i, x in enumerate(rb) if x["act"] == "Rollback") if any(x["act"] == "Rollback" for x in rb) else len(rb) - 1
    rb = rb[: idx + 1]
    rb[idx]["st"]["per"][1] += 1          # LastVotingStartHeight
    chk.selftest("replay: expected state after a step corrupted", G.rejected(s.driver_once(cfgp, [rb])))
    fw = G.pick(allb, lambda b: sum(1 for x in b if x["act"] == "Block") >= 2, s.rng)
    recs = s.driver_once(cfgp, [fw], sweep=1, env={"CRSTATE_SELFTEST": "perturb"})
    chk.selftest("differential oracle: one field left behind by a rollback",
                 any(r.get("kind") == "violation" and str(r.get("key", "")).startswith("C22:rollback-diff:") for r in recs))
    chk.assumptions += G.ASSUMPTIONS
    return chk.finish(exhaustive=False)
