"""C22 - CR committee state after a rollback equals the state built directly.

 1. TLC checks spec/Gov/CR.tla + Proposal.tla (one step = one block of CR transactions processed as
    Committee.ProcessBlock does, or a rollback as the chain does it: checkpoint.Manager.OnRollbackTo -> cr
    Checkpoint.OnRollbackTo -> reset below CRVotingStartHeight / Committee.RollbackTo) from several start states and under
    three constant sets and prints one behaviour per explored edge; seeded simulation gives behaviours that cross an
    election boundary and a committee change.
 2. harness/cmd/crstate replays every behaviour on a real crstate.Committee (instance A, fed and rolled back through its
    checkpoint.Manager) and after every step
    (i)  compares a canonical dump of the whole committee state (every exported field of KeyFrame, StateKeyFrame,
         ProposalKeyFrame) of A -- which went through the behaviour's rollbacks and through a sweep "roll back to t,
         compare, re-process, compare" over earlier heights, the bounds of the rollback path (CRVotingStartHeight+1,
         CRVotingStartHeight, CRVotingStartHeight-1 = reset) included -- with instance B that processed only the blocks of
         the current chain (differential oracle on the real code);
    (ii) compares the spec's state record with the projection of A;
    (iii) evaluates the CR deposit balance invariant of CR.tla (C28, CR side) and the budget invariants (C29) on A.
"""
import json, os, importlib.util
import vf

_spec = importlib.util.spec_from_file_location("_crgov", os.path.join(os.path.dirname(__file__), "_crgov.py"))
G = importlib.util.module_from_spec(_spec); _spec.loader.exec_module(G)

META = dict(
    text="TLC explores the CR committee model (candidates, votes, deposits, election / claim / duty periods, impeachment, "
         "proposals, funds; blocks of up to two CR transactions and rollbacks) from nine start states (among them the end of "
         "a term, where proposals are decided, candidates' lockups end, the next members are chosen and the committee "
         "changes in the same blocks) under three constant sets; every behaviour is replayed on a real crstate.Committee "
         "that is fed and rolled back through its checkpoint.Manager as in the node, and after every block the committee is "
         "rolled back to earlier heights -- the bounds of the rollback path included -- and re-processed: its complete state "
         "(canonical dump of all key frames) must equal that of a second committee that processed only the blocks up to that "
         "height, and the spec's state record must equal the real one.",
    note="Unit-level Committee + checkpoint.Manager fed with synthetic blocks (no chain store, no checkpoint files); bounded "
         "model (3 CRs, 2 proposals, <= 2 tx per block, short periods, CRVotingStartHeight 1); the History objects "
         "themselves are not compared, only the state they restore; see the evidence assumptions for the transaction kinds "
         "and code paths not modelled.",
    technique="TLA+ model of Committee.ProcessBlock and of the chain's rollback path (TLC, per-edge behaviour extraction + "
              "seeded simulation, three constant sets) replayed on the real Committee with a differential rollback oracle, "
              "spec-state projection and real-state invariants",
)

ALL = G.ALL_KINDS


def handover_jobs(s, limit, small, steps=2):
    """Blocks in which several change histories write the same fields, and the bounds of the rollback path."""
    # heights 1..3: rollbacks to CRVotingStartHeight, the height above and the one below (reset) are steps of the model
    s.job("fresh: registration from the first block", "fresh", G.CR_KINDS, 3, emit="all", limit=small, rolls=1)
    # the end of a term, second election decided: the voting period ends at 24, the committee changes at 25 (the start
    # state "handover" is at 23, "handover21" at 21 with the votes still to be cast)
    #  - two seats, three candidates, lockup 1: a candidate unregisters at lockup distance 2 / 1 / 0 from the end of the
    #    voting period (all behaviours are replayed: the interesting ones are few)
    s.job("h2 handover: unregister and vote around the end of the voting period", "handover21", ["UnregisterCR", "VoteCR"], 4,
          emit="all", limit=None, rolls=1, maxtx=1, variant="h2")
    s.job("h2 first election: unregister and vote", "voting4", ["UnregisterCR", "VoteCR"], 4, emit="all", limit=small, rolls=1,
          maxtx=1, variant="h2")
    #  - long review period: proposals are decided (budget given back: manager history) in the blocks in which the
    #    next members are chosen and the committee changes (committee history), with reviews, reject votes, impeachment
    #    and node claims (state history) in the same blocks
    s.job("h2 handover: proposals decided at the committee change", "handover",
          ["Review", "Reject", "Impeach", "Claim", "UnregisterCR"], steps, emit="all", limit=limit, rolls=1, variant="h2")
    #  - default constants: tracking / withdrawal (state history) and impeachment in the committee-change block
    s.job("handover: tracking, withdrawal, impeachment at the committee change", "handover",
          ["Tracking", "Withdraw", "Impeach", "Claim", "UnregisterCR"], steps, emit="all", limit=limit, rolls=1)
    # a first election with nothing on the CR assets address: the committee history raises NeedAppropriation and the
    # appropriation history drops it again in the same block (the node's CreateCRCAppropriationTransaction has nothing
    # to appropriate)
    s.job("unfunded first election: no appropriation to make", "unfunded", ["VoteCR", "Claim"], 4, emit="all", limit=small,
          rolls=1, maxtx=1)
    # the committee has just been seated: appropriation (appropriation history of the block before), first proposals
    s.job("seated: appropriation, registration, review", "seated", ["Approp", "Proposal", "Review"], 3, emit="all", limit=small,
          rolls=1)
    # withdrawals with payload version 0 (blocks 14, 15) and 1 (from 16) and their rollback
    s.job("legacy agreed: both withdraw payload versions", "agreed", ["Tracking", "Withdraw", "RealWithdraw"], 3, emit="all",
          limit=small, rolls=1, variant="legacy")


def run(chk):
    thorough = chk.tier == "thorough"
    s = G.Session(chk)
    if thorough:
        handover_jobs(s, 2500, 1500, steps=3)
        s.job("fresh: CR registration", "fresh", G.CR_KINDS, 6, emit="all", limit=1500, rolls=2)
        s.job("voting: first election", "voting", G.CR_KINDS, 5, emit="all", limit=2500, rolls=2, rolldepth=4)
        s.job("duty: proposals and impeachment", "duty", ["Proposal", "Review", "Reject", "Impeach", "Withdraw"], 3, emit="all",
              limit=2000, rolls=1)
        s.job("agreed: tracking, withdrawal, close", "agreed", ["Tracking", "Withdraw", "RealWithdraw", "Close", "Impeach"], 3,
              emit="all", limit=2000, rolls=1)
        s.job("election: second election", "election", ["RegisterCR", "UnregisterCR", "VoteCR", "Claim", "Impeach", "ReturnDeposit"], 3,
              emit="all", limit=2000, rolls=1)
        s.job("simulation duty, 30 steps", "duty", ALL, 30, emit="last", simulate="num=300", rolls=3, timeout=1700)
        s.job("simulation election, 30 steps", "election", ALL, 30, emit="last", simulate="num=300", rolls=3, timeout=1700)
        s.job("simulation voting, 30 steps", "voting", ALL, 30, emit="last", simulate="num=300", rolls=3, timeout=1700)
        # (16 steps: up to 39; the third committee change at 41 would appropriate a fraction of a unit)
        s.job("simulation handover, 16 steps", "handover", ALL, 16, emit="last", simulate="num=400", rolls=3, timeout=1700)
        s.job("simulation h2 handover, 16 steps", "handover", ALL, 16, emit="last", simulate="num=400", rolls=3, timeout=1700,
              variant="h2")
        s.job("simulation legacy agreed, 30 steps", "agreed", ALL, 30, emit="last", simulate="num=200", rolls=3, timeout=1700,
              variant="legacy")
    else:
        s.job("voting: first election", "voting", G.CR_KINDS, 3, emit="all", limit=350, rolls=1)
        s.job("agreed: tracking, withdrawal, close", "agreed", ["Tracking", "Withdraw", "RealWithdraw", "Close"], 3, emit="all",
              limit=350, rolls=1)
        s.job("simulation election, 12 steps", "election", ALL, 12, emit="last", simulate="num=25", rolls=2)
        s.job("simulation duty, 12 steps", "duty", ALL, 12, emit="last", simulate="num=40", rolls=2)
        # across a committee change that succeeds, into the next term (appropriation, proposals of the new term)
        s.job("simulation handover, 10 steps", "handover", ALL, 10, emit="last", simulate="num=25", rolls=2)
        s.job("simulation h2 handover, 10 steps", "handover", ALL, 10, emit="last", simulate="num=20", rolls=2, variant="h2")
        handover_jobs(s, 300, 250)
    s.run_jobs(parallel=4 if not thorough else 8)
    # simulation prints every successor of the last step: keep a bounded sample of those
    cap = 400 if thorough else 40
    for i, (label, behs) in enumerate(s.behs):
        if label.startswith("simulation") and len(behs) > cap:
            s.rng.shuffle(behs)
            s.behs[i] = (label, sorted(behs[:cap], key=lambda b: json.dumps(b, sort_keys=True)))
    cfgp, allb = s.replay(sweep=2 if thorough else 1)
    for b in allb[:: max(1, len(allb) // 3)][:3]:
        chk.sample([dict(act=x["act"], args=x["args"]) for x in b][:8])

    # binding self-tests
    rb = G.pick(allb, lambda b: any(x["act"] == "Rollback" for x in b), s.rng) or G.pick(allb, lambda b: len(b) > 1, s.rng)
    idx = max(i for i, x in enumerate(rb) if x["act"] == "Rollback") if any(x["act"] == "Rollback" for x in rb) else len(rb) - 1
    rb = rb[: idx + 1]
    rb[idx]["st"]["per"][1] += 1          # LastVotingStartHeight
    chk.selftest("replay: expected state after a step corrupted", G.rejected(s.driver_once(cfgp, [rb])))
    fw = G.pick(allb, lambda b: sum(1 for x in b if x["act"] == "Block") >= 2, s.rng)
    recs = s.driver_once(cfgp, [fw], sweep=1, env={"CRSTATE_SELFTEST": "perturb"})
    chk.selftest("differential oracle: one field left behind by a rollback",
                 any(r.get("kind") == "violation" and str(r.get("key", "")).startswith(("C22:rollback-diff:", "C22:rollback-reset-diff:"))
                     for r in recs))
    recs = s.driver_once(cfgp, [fw], sweep=1, env={"CRSTATE_SELFTEST": "deposit"})
    chk.selftest("deposit invariant on the real committee: one deposit released once too often",
                 any(r.get("kind") == "violation" and str(r.get("key", "")).startswith("C28:cr-deposit-negative:") for r in recs))
    chk.assumptions += G.ASSUMPTIONS
    return chk.finish(exhaustive=False)
