"""C17 - the block database (database/ffldb) survives a crash at any point.

 1. TLC exhaustively checks spec/Store/Crash.tla: one action per durable step of
    the write path (block-file writes incl. torn body, roll-over, file creation,
    staging, cache commit, flush = sync + two atomic leveldb batches, Close,
    recovery = scan + delete + truncate + sync), Crash enabled between any two
    steps (also inside the recovery); invariants: a stop always leaves a state the
    property allows (completed-commit prefix containing every flushed commit, or
    that plus the interrupted commit; with flush-every-commit: exactly the last
    completed or the interrupted one), never corruption, every visible block is
    completely on disk, after recovery the files end at the visible cursor.
 2. Fault enumeration on the real code: every behaviour TLC prints at a stop is
    re-enacted with CHILD PROCESSES that run the real ffldb and SIGKILL themselves
    at the crash-point hook call the spec's Crash follows; the parent compares the
    hook events (name, end of the flat files) with the spec's steps, reopens a
    copy (database.Open -> reconcileDB) and compares metadata / HasBlock /
    FetchBlock of every block ever attempted / file lengths with the spec's
    prediction and the allowed set, performs two further commits, Close, reopen.
 3. Seeded random scenarios beyond the bounds (3-5 lifetimes, any block size,
    kill / exit / Close) are recorded from the real code and validated as traces
    against TraceCrash.tla.
"""
import json, os, random
import vf

META = dict(
    text="TLC exhaustively checks a model of ffldb's durable-write protocol (Crash.tla: one action per durable step of "
         "writePendingAndCommit / writeBlock / commitTx / flush / Close / reconcileDB+handleRollback, a Crash between any two "
         "steps incl. torn block bodies and crashes during recovery) against 'a stop shows a completed-commit prefix containing "
         "all flushed commits or that plus the interrupted commit, never a mixture; visible blocks are complete; recovery never "
         "reports corruption; later commits continue'.  Every stop TLC enumerates is re-enacted on the real code by child "
         "processes that SIGKILL themselves at the armed crash-point hook call; the parent compares every hook event with the "
         "spec step, reopens the directory and compares the visible state with the spec's prediction and the allowed set, then "
         "runs two more commits.  Random multi-lifetime scenarios are validated as traces against the same spec.",
    note="Process-stop model: SIGKILL keeps what was written to the OS page cache, so loss of written-but-unsynced data (power "
         "failure) is outside the check (torn block bodies are simulated by truncation); leveldb batches are taken as atomic; "
         "bounded to 2-3 commits x <= 2 blocks x 2 crashes exhaustively (3-5 lifetimes x <= 3 commits x <= 3 blocks in recorded "
         "runs), max file size 64/100 bytes.",
    technique="TLA+ protocol model with crash actions (TLC exhaustive) + fault enumeration by SIGKILL of child processes at "
              "build-tagged crash points on real ffldb + trace validation of recorded crash scenarios",
)

JVM = ("-Xmx8g",)

CFG = """SPECIFICATION Spec
CONSTANTS
  MaxFile = %(maxfile)d
  BlockSizes = {%(sizes)s}
  MaxTxBlocks = %(txb)d
  FlushModes = {%(modes)s}
  MaxCommits = %(commits)d
  MaxCrashes = %(crashes)d
  MaxCloses = %(closes)d
VIEW view
%(inv)s
%(emit)s
CHECK_DEADLOCK FALSE
"""

INV = ("INVARIANTS TypeOK NeverCorrupt StopShowsAllowedState StrictWhenFlushing CloseIsDurable VisibleBlocksComplete "
       "IdleConsistent WritesAppend NoFileTooLong")


def cfg(commits, crashes, closes, modes="TRUE, FALSE", maxfile=64, sizes="4, 40", txb=2, emit=False):
    return CFG % dict(maxfile=maxfile, sizes=sizes, txb=txb, modes=modes, commits=commits, crashes=crashes, closes=closes,
                      inv="" if emit else INV, emit="ACTION_CONSTRAINT EmitStop" if emit else "")


TRACE_CFG = """SPECIFICATION TraceSpec
CONSTANTS
  MaxFile = %d
  BlockSizes = {1}
  MaxTxBlocks = 3
  FlushModes = {TRUE, FALSE}
  MaxCommits = 100000000
  MaxCrashes = 100000000
  MaxCloses = 100000000
  TraceFile = "%s"
VIEW TraceView
CONSTRAINT HighWater
INVARIANTS NeverCorrupt StopShowsAllowedState CloseIsDurable VisibleBlocksComplete IdleConsistent WritesAppend NoFileTooLong
POSTCONDITION TraceAccepted
CHECK_DEADLOCK FALSE
"""


def last_hook_before_stop(b):
    """class of a behaviour = the step its final stop follows (+ kind of stop)"""
    hooks = [s["act"] for s in b if s.get("h") == 1]
    tail = b[-1]
    kind = tail["act"] + ("-torn" if tail.get("torn") else "")
    nstops = sum(1 for s in b if s["act"] in ("Crash", "Exit"))
    # a commit that rolled over to the next file and ended at the offset it started from (equal-size blocks,
    # one record per file): the write cursor's offset alone does not show that it moved
    same = False
    start = None
    for s in b:
        if s.get("h") == 1 and "at" in s:
            if s["act"] == "commit:begin":
                start = s["at"]
            elif start is not None and s["at"]["f"] > start["f"] and s["at"]["o"] == start["o"] and start["o"] > 0:
                same = True
    return "%s|%s|%d%s" % (hooks[-1] if hooks else "-", kind, nstops, "|rolled-to-same-offset" if same else "")


def absorb(chk, recs, label):
    """chk.absorb, except that a model mismatch does not mask a property violation already found: the violation is
    the stronger verdict, the mismatch (most likely a consequence of the same deviation) becomes a note."""
    try:
        chk.absorb(recs, label)
    except vf.Infra as e:
        if not chk.violations:
            raise
        chk.notes.append("not reported separately because violations were found: " + str(e)[:400])


def run(chk):
    thorough = chk.tier == "thorough"
    rng = random.Random(vf.seed())
    binary = vf.go_build("storecrash")

    # 1. exhaustive model check: caching and flushing commits mixed; flush-every-commit (strict reading); cache only
    plans = [(3, 2, 1, "TRUE, FALSE"), (3, 2, 1, "TRUE"), (3, 2, 1, "FALSE")] if thorough else \
            [(2, 2, 1, "TRUE, FALSE"), (2, 2, 1, "TRUE")]
    for commits, crashes, closes, modes in plans:
        r = vf.tlc("Store", "Crash", "mc.cfg", cfg_text=cfg(commits, crashes, closes, modes), workers=8, timeout=3000, jvm=JVM)
        vf.tlc_ok(r, "Crash exhaustive")
        chk.add_tlc(r, "exhaustive Crash.tla commits<=%d crashes<=%d closes<=%d flush in {%s}" % (commits, crashes, closes, modes))

    # 2. fault enumeration: behaviours printed at every stop -> child processes on the real code
    if thorough:
        xplans = [(2, 1, 1, 1200), (3, 2, 1, 1000)]
    else:
        xplans = [(2, 2, 1, 160)]
    first = None
    for i, (commits, crashes, closes, limit) in enumerate(xplans):
        r = vf.tlc("Store", "Crash", "x%d.cfg" % i, cfg_text=cfg(commits, crashes, closes, emit=True), workers=1,
                   timeout=3000, jvm=JVM)
        vf.tlc_ok(r, "Crash extraction")
        behs, st = vf.behaviours(r, dedupe_prefixes=False, limit=limit, rng=rng, strat_key=last_hook_before_stop,
                                 per_class=max(2, (limit or 0) // 60))
        chk.add_tlc(r, "stop extraction commits<=%d crashes<=%d closes<=%d" % (commits, crashes, closes))
        chk.cov.setdefault("extraction", []).append(dict(st, commits=commits, crashes=crashes, closes=closes))
        path = os.path.join(vf.scratch(), "beh-%d.jsonl" % i)
        vf.write_json_lines(path, behs)
        recs, _ = vf.run_driver(binary, ["replay", path, "64", "8"], timeout=3000)
        absorb(chk, recs, "fault enumeration commits<=%d crashes<=%d closes<=%d" % (commits, crashes, closes))
        if first is None:
            first = behs

    # binding self-tests
    #  (a) the spec's prediction at a stop is corrupted -> the driver must object
    cand = [b for b in first if b[-1]["act"] == "Crash" and b[-1]["exp"]["n"] >= 1
            and any(s.get("h") == 1 and s["act"] == "network" for s in b)][:1]
    if not cand:
        raise vf.Infra("no behaviour suitable for the self-test")
    bad = json.loads(json.dumps(cand[0]))
    bad[-1]["exp"]["n"] -= 1
    bad[-1]["allowed"] = [bad[-1]["exp"]["n"]]
    p1 = os.path.join(vf.scratch(), "beh-bad1.jsonl")
    vf.write_json_lines(p1, [bad])
    recs, _ = vf.run_driver(binary, ["replay", p1, "64", "1"])
    chk.selftest("replay: predicted commit number at a stop corrupted",
                 any(x.get("kind") in ("violation", "mismatch") for x in recs))
    #  (b) one expected hook event is corrupted -> step mismatch
    bad = json.loads(json.dumps(cand[0]))
    k = max(i for i, s in enumerate(bad) if s.get("h") == 1 and s["act"] == "network")
    bad[k]["at"]["o"] += 1
    p2 = os.path.join(vf.scratch(), "beh-bad2.jsonl")
    vf.write_json_lines(p2, [bad])
    recs, _ = vf.run_driver(binary, ["replay", p2, "64", "1"])
    chk.selftest("replay: one expected hook event corrupted", any(x.get("kind") in ("violation", "mismatch") for x in recs))

    # 3. recorded random scenarios -> trace validation
    for mf, runs in ((100, 25), (64, 15), (400, 15)) if thorough else ((100, 5),):
        tr = os.path.join(vf.scratch(), "ctrace-%d.ndjson" % mf)
        recs, _ = vf.run_driver(binary, ["record", str(runs), str(mf), tr], timeout=3000)
        absorb(chk, recs, "record MaxFile=%d" % mf)
        nev = sum(1 for _ in open(tr))
        r = vf.tlc("Store", "TraceCrash", "trace.cfg", cfg_text=TRACE_CFG % (mf, tr), workers=1, timeout=3000, jvm=JVM)
        if r["timed_out"]:
            raise vf.Infra("trace validation timed out")
        chk.add_tlc(r, "trace validation MaxFile=%d (%d events)" % (mf, nev))
        if r["rc"] != 0:
            consumed = max(r["depth"] - 1, 0)
            lines = open(tr).read().splitlines()
            k = min(consumed, len(lines) - 1)
            start = max(i for i in range(0, k + 1) if '"Reset"' in lines[i])
            hist = [json.loads(x) for x in lines[start:k + 1]]
            brief = [h.get("name") or (h["ev"] + (json.dumps(h.get("obs")) if h.get("obs") else "")) for h in hist]
            msg = ("MODEL-MISMATCH: the recorded run of the real ffldb is not a behaviour of Crash.tla at event %d "
                   "(%s): %s" % (k + 1, json.dumps(hist[-1])[:400], json.dumps(brief)[-1500:]))
            if not chk.violations:
                raise vf.Infra(msg)
            chk.notes.append(msg[:600])
            continue
        if mf == 100 and not chk.violations:
            lines = open(tr).read().splitlines()
            idx = max(i for i, x in enumerate(lines) if '"obs"' in x)
            ev = json.loads(lines[idx])
            ev["obs"]["n"] += 1
            lines[idx] = json.dumps(ev)
            tr2 = os.path.join(vf.scratch(), "ctrace-bad.ndjson")
            open(tr2, "w").write("\n".join(lines) + "\n")
            r2 = vf.tlc("Store", "TraceCrash", "trace2.cfg", cfg_text=TRACE_CFG % (mf, tr2), workers=1, timeout=1200, jvm=JVM)
            chk.selftest("trace: one observed reopened state corrupted", r2["rc"] != 0 and not r2["timed_out"])

    # 4. informational, not part of the verdict: the same protocol under POWER FAILURE (unsynced flat-file data lost)
    if thorough:
        for sync in ("FALSE", "TRUE"):
            pcfg = cfg(2, 2, 1).replace("SPECIFICATION Spec", "SPECIFICATION PSpec").replace("VIEW view", "VIEW pview") \
                .replace("MaxCloses = 1", "MaxCloses = 1\n  SyncOnRollover = " + sync) \
                .replace(INV, "INVARIANTS NeverCorrupt StopShowsAllowedState VisibleBlocksComplete IdleConsistent")
            r = vf.tlc("Store", "CrashPower", "power.cfg", cfg_text=pcfg, workers=8, timeout=1200, jvm=JVM)
            with open(r["outfile"], errors="replace") as fo:
                viol = [l.strip() for l in fo if l.startswith("Error: Invariant")]
            chk.notes.append("informational (power-failure semantics, outside C17's 'the process stops'): CrashPower.tla with "
                             "SyncOnRollover=%s: %s" % (sync, (viol[0] + " - a block written before a roll-over and indexed by a "
                             "later flush is visible but its unsynced bytes are lost; reconcileDB does not notice") if viol
                             else "no invariant violated (%d distinct states)" % r["distinct"]))

    runs = chk.cov.get("driver_runs", [])
    chk.cov["fault_enumeration"] = dict(
        stops_checked=sum(int(r.get("stops_checked", 0)) for r in runs),
        child_processes_killed_or_exited=sum(int(r.get("child_processes", 0)) for r in runs))
    chk.assumptions += [
        "crash = the process stops (SIGKILL at a crash-point hook call); what had been written stays in the OS page cache, so "
        "loss of written-but-unsynced file data on power failure is NOT examined (e.g. a roll-over closes the previous block "
        "file without fsync and flush syncs only the current one); torn block bodies are simulated by truncating the file",
        "crash points are the build-tagged hook calls: after every field of a block record, after roll-over, after creating a "
        "block file, at begin/staging of a commit, after each step of commitTx/flush and of handleRollback; stops inside "
        "goleveldb are not enumerated - a leveldb batch/transaction is assumed atomic",
        "reading of the property: unflushed commits may be lost by design of the write cache; a stop must show a "
        "completed-commit prefix that contains every flushed commit, or that plus the interrupted commit; under "
        "flush-every-commit this is 'the last completed commit or the interrupted one' (checked by StrictWhenFlushing)",
        "bounds: %s commits x <= 2 blocks (4 / 40 bytes, max file 64: roll-over forced) x <= 2 crashes x 1 clean close "
        "exhaustively in TLC; replay: %s; recorded runs: 3-5 lifetimes x <= 3 commits x <= 3 blocks of any size"
        % ("3" if thorough else "2", "stratified samples (every step name x kind of stop) of the 2-commit/1-crash and 3-commit/2-crash models" if thorough
           else "stratified sample (every step name x kind of stop)"),
        "blocks fit a flat file; disk write errors (the in-process rollback path of writePendingAndCommit) are not injected",
    ]
    return chk.finish(exhaustive=False)
