#!/usr/bin/env python3
"""Regenerates /verif/MANIFEST.json from tools/props/*.py (META dicts) and
tools/not_applicable.json.  A property without a check module must be listed in
not_applicable.json (with its reason)."""
import importlib.util, json, os, sys, subprocess
HERE = os.path.dirname(os.path.abspath(__file__))
VERIF = os.path.dirname(HERE)
sys.path.insert(0, os.path.join(HERE, "lib"))

props = [json.loads(l) for l in open(os.path.join(VERIF, "properties.jsonl")) if l.strip()]
ids = [p["id"] for p in props]
na = json.load(open(os.path.join(HERE, "not_applicable.json")))
# a property is claimed once it has a check module AND is no longer listed in
# not_applicable.json (the lead removes it there when the check is integrated)
checks = []
claimed = []
for pid in ids:
    path = os.path.join(HERE, "props", pid + ".py")
    if not os.path.exists(path) or pid in na:
        continue
    spec = importlib.util.spec_from_file_location("prop_" + pid, path)
    mod = importlib.util.module_from_spec(spec)
    spec.loader.exec_module(mod)
    meta = getattr(mod, "META", None)
    if not meta or meta.get("disabled"):
        continue
    claimed.append(pid)
    checks.append({
        "property_id": pid,
        "quick_cmd": "tools/check %s --tier quick" % pid,
        "thorough_cmd": "tools/check %s --tier thorough" % pid,
        "evidence_file": "/verif/evidence/%s.json" % pid,
        "replay_cmd_template": "tools/check %s --replay {path}" % pid,
        "engine": meta.get("engine", "tlc+go-conformance"),
        "level_claimed": {"category": meta.get("category", "model_checking"), "text": meta["text"],
                          "design_ref": meta.get("design_ref", "DESIGN.md section 6, " + pid)},
        "level_note": meta["note"],
        "technique": meta.get("technique", "TLA+ spec checked by TLC; behaviours replayed on the real code and recorded "
                                           "real-code traces validated against the spec"),
    })
not_app = []
for pid in ids:
    if pid in claimed:
        continue
    if pid not in na:
        print("property %s has neither a check nor a not_applicable reason" % pid)
        sys.exit(1)
    not_app.append({"property_id": pid, "reason": na[pid]})

def repo_hook_commits():
    try:
        out = subprocess.run(["git", "-C", "/repo", "log", "--format=%h %s"], capture_output=True, text=True).stdout
        return [l.split()[0] for l in out.splitlines() if l.split(" ", 1)[1].startswith("verif hook:")]
    except Exception:
        return []

man = {
    "version": 1,
    "setup_cmd": "tools/setup",
    "hooks": {
        "guard": "verif",
        "enable": "go build -tags verif (the harness module in /verif/harness replaces github.com/elastos/Elastos.ELA by /repo)",
        "baseline_off_cmd": "cd /repo && go test -mod=mod -json -vet=off -count=1 -timeout 25m ./...",
        "source_commits": repo_hook_commits(),
        "add_only": True,
    },
    "engines": [
        {"name": "tlc", "path": "tools/lib/vf.py", "serves_properties": claimed,
         "kind_free_text": "TLC exhaustive model checking of the TLA+ modules under spec/, behaviour extraction "
                           "(one behaviour per explored edge, printed as JSON by the spec), simulation, trace validation"},
        {"name": "go-conformance", "path": "harness/", "serves_properties": claimed,
         "kind_free_text": "Go drivers (build tag verif) that step the real code through TLC's behaviours comparing "
                           "projected state and verdicts, and record real-code traces for validation against the spec"},
    ],
    "checks": checks,
    "not_applicable": not_app,
    "notes": "Every check: tools/check <ID> --tier quick|thorough; exit 0 held / 1 VIOLATION / 2 infrastructure. "
             "Open findings are in known_findings.json.",
}
json.dump(man, open(os.path.join(VERIF, "MANIFEST.json"), "w"), indent=1)
print("MANIFEST.json: %d checks, %d not applicable" % (len(checks), len(not_app)))
