------------------------------ MODULE RPCAccess ------------------------------
(***************************************************************************)
(* JSON-RPC access control and service levels (C36).                       *)
(*                                                                         *)
(* The request pipeline of servers/httpjsonrpc/server.go:Handle (and, with *)
(* the same stages, utils/http/jsonrpc/server.go:ServeHTTP):               *)
(*    IPFilter (clientAllowed) -> Verb -> ContentType -> Auth (checkAuth)  *)
(*    -> Dispatch (method registered?) -> ServiceLevel                     *)
(*    (servers/interfaces.go:checkRPCServiceLevel at the top of every      *)
(*    privileged handler) -> Run                                           *)
(* one action per stage.  A case (chosen by Init) is a request and the     *)
(* node's RPC configuration, over abstract classes:                        *)
(*   addr   lo4 127.0.0.1, lo6 ::1, remote4 / remote6 another host,        *)
(*          malformed (RemoteAddr that is not host:port of an IP)          *)
(*   wl     WhiteIPList: empty, listsClient, listsOthers, wildcard         *)
(*          (contains "0.0.0.0", documented as "allow all")                *)
(*   creds  none, userOnly, passOnly, both                                 *)
(*   hdr    Authorization header(s) of the request, see AuthOK             *)
(*   verb, ctype   HTTP method and Content-Type                            *)
(*   method, level   RPC method name and configured RPCServiceLevel        *)
(***************************************************************************)
EXTENDS Integers, Sequences, FiniteSets, TLC, Json

CONSTANTS Addrs, WLs, Creds, Hdrs, Verbs, CTypes,   \* classes tried (subsets of the ones below)
          MethodsTried, LevelsTried,
          Unprivileged     \* registered methods without a service-level gate

\* ---- the service levels: config.RPCServiceLevel, in enum order ---------
LevelNum == [ConfigurationPermitted |-> 0, MiningPermitted |-> 1, TransactionPermitted |-> 2,
             WalletPermitted |-> 3, QueryOnly |-> 4,
             \* RPCServiceLevelFromString maps any other string to ConfigurationPermitted
             bogus |-> 0]

\* ---- privileged handlers: the level each one passes to checkRPCServiceLevel
\* (transcribed from servers/interfaces.go) and why it is privileged
Req == [setloglevel |-> 0, togglemining |-> 0,
        createauxblock |-> 1, submitauxblock |-> 1, discretemining |-> 1,
        sendrawtransaction |-> 2, submitsidechainillegaldata |-> 2, estimatesmartfee |-> 2,
        getutxosbyamount |-> 3, getamountbyinputs |-> 3, listunspent |-> 3,
        createrawtransaction |-> 3, signrawtransactionwithkey |-> 3, decoderawtransaction |-> 3]

Cat == [setloglevel |-> {"settings"}, togglemining |-> {"settings", "mine"},
        createauxblock |-> {"mine"}, submitauxblock |-> {"mine"}, discretemining |-> {"mine"},
        sendrawtransaction |-> {"submit"}, submitsidechainillegaldata |-> {"submit"}, estimatesmartfee |-> {},
        getutxosbyamount |-> {"wallet"}, getamountbyinputs |-> {"wallet"}, listunspent |-> {"wallet"},
        createrawtransaction |-> {"wallet"}, signrawtransactionwithkey |-> {"wallet"}, decoderawtransaction |-> {}]

Privileged == DOMAIN Req
\* the most permissive configured level that still allows a category
CatLevel == [settings |-> 0, mine |-> 1, submit |-> 2, wallet |-> 3]

\* C36, second sentence, as a property of the table: a method that mines,
\* submits transactions, changes settings or uses wallet data is gated at
\* (or below) its category's level.
ASSUME \A m \in Privileged : \A k \in Cat[m] : Req[m] <= CatLevel[k]
ASSUME Privileged \cap Unprivileged = {}

Registered == Privileged \cup Unprivileged

VARIABLES q,        \* the case
          st, verdict, log

vars == <<q, st, verdict, log>>
view == <<q, st, verdict>>

Cases == [addr : Addrs, wl : WLs, creds : Creds, hdr : Hdrs, verb : Verbs, ctype : CTypes,
          method : MethodsTried, level : LevelsTried]

\* ---- what the classes mean ------------------------------------------------
AddrOK == \/ q.addr \in {"lo4", "lo6"}
          \/ q.addr \in {"remote4", "remote6"} /\ q.wl \in {"listsClient", "wildcard"}

\* the first Authorization header is exactly "Basic " + base64(user ":" pass)
AuthOK == \/ q.creds = "none"
          \/ q.hdr \in {"exact", "exactThenWrong"}

VerbOK == q.verb = "POST"
CTypeOK == q.ctype \in {"json", "plain", "jsonCharset", "upperJson"}

Forbidden == q.method \in Privileged /\ Req[q.method] < LevelNum[q.level]

Init == q \in Cases /\ st = "ipfilter" /\ verdict = "none" /\ log = <<>>

Finish(v) == /\ st' = "done" /\ verdict' = v
             /\ log' = Append(log, [act |-> "Case", args |-> q, exp |-> v])
             /\ UNCHANGED q
Go(next) == st' = next /\ UNCHANGED <<q, verdict, log>>

IPFilter    == st = "ipfilter" /\ IF AddrOK THEN Go("verb") ELSE Finish("403")
Verb        == st = "verb"     /\ IF VerbOK THEN Go("ctype") ELSE Finish("405")
ContentType == st = "ctype"    /\ IF CTypeOK THEN Go("auth") ELSE Finish("415")
Auth        == st = "auth"     /\ IF AuthOK THEN Go("dispatch") ELSE Finish("401")
Dispatch    == st = "dispatch" /\ IF q.method \in Registered THEN Go("level") ELSE Finish("notfound")
ServiceLevel == st = "level"   /\ IF Forbidden THEN Finish("outOfLevel") ELSE Go("run")
Run         == st = "run"      /\ Finish("served")

Next == IPFilter \/ Verb \/ ContentType \/ Auth \/ Dispatch \/ ServiceLevel \/ Run

Spec == Init /\ [][Next]_vars

---------------------------------------------------------------------------
Done == st = "done"

\* C36, first sentence: nothing of the RPC surface is reached -- no handler
\* runs, no method table is consulted -- unless the client address is
\* allowed and the credential, when configured, is exact.
ServedOnlyIfAuthorised ==
    (st \in {"dispatch", "level", "run"} \/ verdict \in {"served", "outOfLevel", "notfound"})
        => (AddrOK /\ AuthOK)

\* C36, second sentence: a privileged method does not run when the
\* configured level forbids its category.
PrivilegedRefused ==
    (Done /\ q.method \in Privileged /\
       \E k \in Cat[q.method] : CatLevel[k] < LevelNum[q.level]) => verdict # "served"

\* the access checks let an authorised, well-formed request through
NoCollateral == (Done /\ AddrOK /\ AuthOK /\ VerbOK /\ CTypeOK /\ q.method \in Registered /\ ~Forbidden)
                    => verdict = "served"

TypeOK == Done <=> verdict # "none"

Emit == (log' # log) => PrintT(<<"TRACE", ToJson(log')>>)
=============================================================================
