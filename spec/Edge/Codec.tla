------------------------------- MODULE Codec -------------------------------
(***************************************************************************)
(* C37, last sentence: amount strings and address strings produced by the  *)
(* wallet parse back to the same value / program hash.                     *)
(* common/fixed64.go (Fixed64.String, StringToFixed64) and                 *)
(* common/uint168.go (Uint168.ToAddress, Uint168FromAddress) with the      *)
(* issued prefixes of core/contract/contract.go.                           *)
(*                                                                         *)
(* Decision tables.  An amount is sign, integer part (decimal digits) and  *)
(* 8-digit fraction; the spec writes the string the wallet shows and says  *)
(* that parsing it gives the amount back, for every boundary of the        *)
(* format: zero, the smallest unit, values strictly between -1 and 0 coin, *)
(* 8 / 9 / 11-digit integer parts, the largest and the smallest Fixed64.   *)
(* An address is a prefix byte and a 20-byte code hash (patterns); the     *)
(* spec gives the first character and the length of the string, and says   *)
(* that decoding returns the program hash.                                 *)
(***************************************************************************)
EXTENDS Integers, Sequences, TLC, Json

VARIABLES case, done, log
vars == <<case, done, log>>

IntParts == {"0", "1", "9", "10", "33000000", "99999999", "100000000", "999999999", "12345678901", "92233720368"}
Fracs    == {"00000000", "00000001", "00000010", "10000000", "50000000", "99999999", "54775807", "54775808"}

\* sign * (ip * 10^8 + fr) fits int64
Fits(neg, ip, fr) ==
    ip # "92233720368" \/ fr \in {"00000000", "00000001", "00000010", "10000000", "50000000", "54775807"}
                       \/ (neg /\ fr = "54775808")
IsZero(ip, fr) == ip = "0" /\ fr = "00000000"

AmountText(neg, ip, fr) ==
    (IF neg THEN "-" ELSE "") \o ip \o (IF fr = "00000000" THEN "" ELSE "." \o fr)

\* issued prefixes and the first character of their addresses
Prefixes == { [b |-> 33,  ch |-> "E", name |-> "standard"],
              [b |-> 18,  ch |-> "8", name |-> "multisig"],
              [b |-> 75,  ch |-> "X", name |-> "crosschain"],
              [b |-> 31,  ch |-> "D", name |-> "deposit"],
              [b |-> 103, ch |-> "i", name |-> "crdid"],
              [b |-> 63,  ch |-> "S", name |-> "dposv2"] }
HashPatterns == {"zero", "ones", "low", "high", "rand1", "rand2", "rand3"}

Init == /\ \/ \E neg \in BOOLEAN, ip \in IntParts, fr \in Fracs :
                /\ Fits(neg, ip, fr) /\ ~(neg /\ IsZero(ip, fr))
                /\ case = [kind |-> "amount", neg |-> neg, ip |-> ip, fr |-> fr]
           \/ \E p \in Prefixes, h \in HashPatterns :
                case = [kind |-> "address", prefix |-> p.b, first |-> p.ch, name |-> p.name, pattern |-> h]
        /\ done = FALSE /\ log = <<>>

Decide ==
    /\ ~done /\ done' = TRUE /\ UNCHANGED case
    /\ log' = << IF case.kind = "amount"
                 THEN [act |-> "Amount", args |-> case,
                       exp |-> [text |-> AmountText(case.neg, case.ip, case.fr), parses |-> TRUE]]
                 ELSE [act |-> "Address", args |-> case,
                       exp |-> [first |-> case.first, len |-> 34, parses |-> TRUE]] >>
Next == Decide
Spec == Init /\ [][Next]_vars

\* the text has a sign exactly for negative amounts, a point exactly for a non-zero fraction
TextShape ==
    (done /\ case.kind = "amount") =>
        LET t == log[1].exp.text IN
        /\ (SubSeq(t, 1, 1) = "-") = case.neg
        /\ Len(t) = (IF case.neg THEN 1 ELSE 0) + Len(case.ip) + (IF case.fr = "00000000" THEN 0 ELSE 9)

Emit == PrintT(<<"TRACE", ToJson(log')>>)
=============================================================================
