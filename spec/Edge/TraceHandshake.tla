--------------------------- MODULE TraceHandshake ---------------------------
(* Trace validation for Handshake.tla: the events recorded from REAL peers   *)
(* (p2p/peer.Peer objects joined by net.Pipe / TCP, or one peer against a    *)
(* scripted raw remote) must be a behaviour of Handshake's own actions, the  *)
(* recorded messages and peer flags matching at every event.  Many runs are  *)
(* concatenated; each starts with a Reset event carrying the set-up.         *)
(*   Send    a message was handed to the connection by p     (k, a, b)       *)
(*   Read    p read a complete frame from the connection     (k, a, b)       *)
(*   Deliver Config.MessageFunc of p was called              (k, vk, va, pv) *)
(*   Close   p closed the connection (Peer.Disconnect)       (why, may be "")*)
(*   UserPing the harness queued a ping on p                                 *)
EXTENDS Handshake, Json

CONSTANT TraceFile
Trace == ndJsonDeserialize(TraceFile)

VARIABLE l
tvars == <<vars, l>>

Ev == Trace[l]
IsEv(e) == l <= Len(Trace) /\ Ev.ev = e /\ l' = l + 1
EvMsg == Msg(Ev.k, Ev.a, Ev.b)

Blank(r) ==
    /\ chan' = [p \in Peers |-> <<>>]
    /\ reg' = [n \in {"A", "B", "S"} |-> {}]
    /\ negpc' = [p \in Peers |-> CASE r[p] = "out" -> "wv1" [] r[p] = "in" -> "rv" [] OTHER -> "done"]
    /\ started' = [p \in Peers |-> FALSE]
    /\ inpc' = [p \in Peers |-> "read"]
    /\ cur' = [p \in Peers |-> NoMsg]
    /\ outq' = [p \in Peers |-> <<>>]
    /\ rejWait' = [p \in Peers |-> FALSE]
    /\ disc' = [p \in Peers |-> FALSE]
    /\ versionKnown' = [p \in Peers |-> FALSE]
    /\ verAck' = [p \in Peers |-> FALSE]
    /\ advSeen' = [p \in Peers |-> 0]
    /\ id' = [p \in Peers |-> ""]
    /\ lastH' = [p \in Peers |-> 0]
    /\ early' = [p \in Peers |-> FALSE]
    /\ late' = [p \in Peers |-> 0]
    /\ nVerack' = [p \in Peers |-> 0]
    /\ sentAny' = [p \in Peers |-> FALSE]
    /\ readAny' = [p \in Peers |-> FALSE]
    /\ pings' = [p \in Peers |-> 0]
    /\ raws' = [p \in Peers |-> 0]

TraceInit ==
    /\ l = 1 /\ TLCSet(1, 1)
    /\ role = [p \in Peers |-> "raw"] /\ cfgVer = [p \in Peers |-> 0] /\ adv = [p \in Peers |-> 0]
    /\ same = FALSE /\ protoVer = [p \in Peers |-> 0]
    /\ chan = [p \in Peers |-> <<>>]
    /\ reg = [n \in {"A", "B", "S"} |-> {}]
    /\ negpc = [p \in Peers |-> "done"]
    /\ started = [p \in Peers |-> FALSE]
    /\ inpc = [p \in Peers |-> "read"]
    /\ cur = [p \in Peers |-> NoMsg]
    /\ outq = [p \in Peers |-> <<>>]
    /\ rejWait = [p \in Peers |-> FALSE]
    /\ disc = [p \in Peers |-> FALSE]
    /\ versionKnown = [p \in Peers |-> FALSE]
    /\ verAck = [p \in Peers |-> FALSE]
    /\ advSeen = [p \in Peers |-> 0]
    /\ id = [p \in Peers |-> ""]
    /\ lastH = [p \in Peers |-> 0]
    /\ early = [p \in Peers |-> FALSE]
    /\ late = [p \in Peers |-> 0]
    /\ nVerack = [p \in Peers |-> 0]
    /\ sentAny = [p \in Peers |-> FALSE]
    /\ readAny = [p \in Peers |-> FALSE]
    /\ pings = [p \in Peers |-> 0]
    /\ raws = [p \in Peers |-> 0]

TReset ==
    /\ IsEv("Reset")
    /\ role' = [p \in Peers |-> IF p = "A" THEN Ev.roleA ELSE Ev.roleB]
    /\ cfgVer' = [p \in Peers |-> IF p = "A" THEN Ev.cfgA ELSE Ev.cfgB]
    /\ adv' = [p \in Peers |-> IF p = "A" THEN Ev.advA ELSE Ev.advB]
    /\ same' = Ev.same
    /\ protoVer' = cfgVer'
    /\ Blank(role')

Sent(p) == chan'[p][Len(chan'[p])]

TSend ==
    /\ IsEv("Send")
    /\ LET p == Ev.p IN
       IF role[p] = "raw" THEN RawSend(p, EvMsg)
       ELSE /\ (NegWriteVersion(p) \/ NegReject(p) \/ OutSend(p))
            /\ Sent(p) = EvMsg

TRead ==
    /\ IsEv("Read")
    /\ LET p == Ev.p IN
       /\ chan[Other(p)] # <<>> /\ Head(chan[Other(p)]) = EvMsg
       /\ IF role[p] = "raw" THEN RawRead(p) ELSE (NegRead(p) \/ InRead(p))

TDeliver ==
    /\ IsEv("Deliver")
    /\ LET p == Ev.p IN
       /\ cur[p].k = Ev.k
       /\ (NegVersion(p) \/ InDeliver(p))
       /\ versionKnown'[p] = Ev.vk /\ verAck'[p] = Ev.va /\ protoVer'[p] = Ev.pv

Why(w) == Ev.why = "" \/ Ev.why = w

TClose ==
    /\ IsEv("Close")
    /\ LET p == Ev.p IN
       /\ ~disc[p]
       /\ IF role[p] = "raw" THEN RawClose(p)
          ELSE \/ Ev.why = "user" /\ UserDisconnect(p)     \* only when the harness called Disconnect
               \/ Why("negtimeout") /\ NegTimeout(p)
               \/ Why("idle") /\ IdleTimeout(p)
               \/ Why("ioerr") /\ (NegIOErr(p) \/ InReadErr(p) \/ OutWriteErr(p))
               \/ Why("refuse") /\ NegRefuse(p)
               \/ Why("noversion") /\ NegRejected(p)
               \/ Why("rejected") /\ InRejectDone(p)
               \/ Why("dupverack") /\ InSwitch(p)

TUserPing == IsEv("UserPing") /\ UserPing(Ev.p)

\* the one step of the code no event shows: the switch of inHandler between a Read and its Deliver
THidden == /\ l <= Len(Trace) /\ UNCHANGED l
           /\ \E p \in Peers : InSwitch(p) /\ disc'[p] = disc[p]

TraceNext == TReset \/ TSend \/ TRead \/ TDeliver \/ TClose \/ TUserPing \/ THidden
TraceSpec == TraceInit /\ [][TraceNext]_tvars

\* high-water mark of consumed trace lines (register 1)
HighWater == IF l > TLCGet(1) THEN TLCSet(1, l) ELSE TRUE
TraceAccepted == IF TLCGet(1) = Len(Trace) + 1 THEN TRUE
                 ELSE PrintT(<<"REJECTED_AT_LINE", TLCGet(1)>>) /\ FALSE
TraceView == <<vars, l>>
=============================================================================
