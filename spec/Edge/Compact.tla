------------------------------ MODULE Compact ------------------------------
(***************************************************************************)
(* Proof-of-work target encoding, the proof-of-work check and difficulty   *)
(* retargeting (property C09): blockchain/difficulty.go CompactToBig,      *)
(* BigToCompact, CalcNextRequiredDifficulty and blockvalidator.go          *)
(* CheckProofOfWork, transcribed.                                          *)
(*                                                                         *)
(* A compact value is  exponent * 2^24 + sign * 2^23 + mantissa  and means *)
(* (-1)^sign * mantissa * 256^(exponent-3).  TLC's integers are 32-bit, so *)
(* the model is a SCALED SUB-DOMAIN: exponents 0..4 (5 after               *)
(* renormalisation), targets below 2^31.  The whole case analysis of the   *)
(* two conversions (exponent <= 3 or > 3, sign bit, renormalisation when   *)
(* the mantissa's top bit is set, loss of low bytes) happens inside this   *)
(* domain.  The driver (harness/cmd/compact) executes every case on the    *)
(* real functions and additionally LIFTS it by k = 0..28 byte positions    *)
(* (compact + k * 2^24, value * 256^k with math/big): above exponent 3 the *)
(* encoding is shift invariant, so the lifted expectation is exact and the *)
(* real 256-bit range is reached.                                          *)
(*                                                                         *)
(* Decision-table form: Init picks a case, Decide computes the outcome.    *)
(***************************************************************************)
EXTENDS Integers, Sequences, FiniteSets, TLC, Json

CONSTANTS Exponents,      \* exponents of enumerated compact values (subset of 0..4)
          Mantissas,      \* 23-bit mantissas of enumerated compact values
          Targets,        \* targets (positive) enumerated for encoding; their negatives are added
          PosSpans,       \* actual timespans (seconds) ...
          NegSpans,       \* ... and magnitudes of negative ones (timestamps went backwards)
          Factors,        \* adjustment factors
          TargetTimespan, \* seconds
          LimitBits       \* PowLimitBits of the scaled network

VARIABLES case, res, log
vars == <<case, res, log>>
view == <<case, res>>

Spans == PosSpans \cup {-s : s \in NegSpans}

P23 == 8388608        \* 2^23
P24 == 16777216       \* 2^24

Abs(n) == IF n < 0 THEN -n ELSE n

---------------------------------------------------------------------------
(* CompactToBig *)

MantOf(c) == c % P23
NegOf(c) == (c \div P23) % 2 = 1
ExpOf(c) == c \div P24
Pack(e, neg, m) == e * P24 + (IF neg THEN P23 ELSE 0) + m

ToBig(c) ==
    LET m == MantOf(c)
        e == ExpOf(c)
        bn == IF e <= 3 THEN m \div (256 ^ (3 - e))      \* mantissa >>= 8*(3-exponent)
                        ELSE m * (256 ^ (e - 3))          \* Lsh(8*(exponent-3))
    IN IF NegOf(c) THEN -bn ELSE bn

\* representable in the model (32-bit)
InDomain(c) == IF ExpOf(c) <= 3 THEN TRUE ELSE ExpOf(c) = 4

---------------------------------------------------------------------------
(* BigToCompact *)

\* len(n.Bytes())
RECURSIVE ByteLenFrom(_, _)
ByteLenFrom(a, k) == IF a < 256 ^ k THEN k ELSE IF k = 3 THEN 4 ELSE ByteLenFrom(a, k + 1)
ByteLen(a) == IF a = 0 THEN 0 ELSE ByteLenFrom(a, 1)

ToCompact(n) ==
    IF n = 0 THEN 0
    ELSE LET a == Abs(n)
             e0 == ByteLen(a)
             d == 256 ^ (e0 - 3)
             \* mantissa <<= 8*(3-exponent), or big.Int.Rsh(8*(exponent-3)) which
             \* rounds towards minus infinity: a negative number's magnitude is
             \* rounded up
             m0 == IF e0 <= 3 THEN a * (256 ^ (3 - e0))
                   ELSE a \div d + (IF n < 0 /\ a % d # 0 THEN 1 ELSE 0)
             renorm == m0 >= P23                                 \* mantissa & 0x00800000 != 0
             m == IF renorm THEN m0 \div 256 ELSE m0
             e == IF renorm THEN e0 + 1 ELSE e0
         IN Pack(e, n < 0, m)

\* A compact value is canonical when it is what encoding produces: zero, or
\* a mantissa of at least 0x008000 (its top byte is in use, or only the top
\* bit of its second byte -- the encoder then shifts one byte down to keep
\* the sign bit clear), with no digits lost below the unit.
Canonical(c) ==
    \/ c = 0
    \/ /\ MantOf(c) >= 32768
       /\ ExpOf(c) <= 3 => MantOf(c) % (256 ^ (3 - ExpOf(c))) = 0

---------------------------------------------------------------------------
(* CheckProofOfWork(header, powLimit): the hash is the parent-chain header *)
(* hash read as a 256-bit number.                                          *)

PowVerdict(bits, limit, hash) ==
    LET target == ToBig(bits) IN
      IF target <= 0 THEN "target-not-positive"
      ELSE IF target > limit THEN "target-above-limit"
      ELSE IF hash > target THEN "hash-above-target"
      ELSE "ok"

---------------------------------------------------------------------------
(* CalcNextRequiredDifficulty(prevNode, _) *)
(*   cls: "genesis"      prevNode.Height = 0                               *)
(*        "instant"      PowLimitBits = 0x207fffff (blocks on demand)      *)
(*        "off"          not at a retarget height                          *)
(*        "retarget"                                                       *)

InstantBits == 545259519     \* 0x207fffff

MinSpan(f) == TargetTimespan \div f
MaxSpan(f) == TargetTimespan * f

\* prevNode.Timestamp - firstNode.Timestamp is computed in uint32: a
\* negative span wraps to more than 2^32 - 2^31 seconds, far above the cap
Adjusted(span, f) ==
    IF span < 0 THEN MaxSpan(f)
    ELSE IF span < MinSpan(f) THEN MinSpan(f)
    ELSE IF span > MaxSpan(f) THEN MaxSpan(f)
    ELSE span

NextBits(cls, oldBits, span, f, limitBits) ==
    IF cls = "genesis" \/ limitBits = InstantBits THEN limitBits
    ELSE IF cls = "off" THEN oldBits
    ELSE LET old == ToBig(oldBits)
             new == (old * Adjusted(span, f)) \div TargetTimespan
             lim == ToBig(limitBits)
         IN ToCompact(IF new > lim THEN lim ELSE new)

---------------------------------------------------------------------------
(* Cases *)

NoRes == [done |-> FALSE]

CompactValues == {Pack(e, neg, m) : e \in Exponents, neg \in BOOLEAN, m \in Mantissas}
AllTargets == Targets \cup {-t : t \in {u \in Targets : u <= 1073741824}} \cup {0}

\* previous targets of a chain: canonical, positive, at most the limit
OldBits == {ToCompact(t) : t \in {u \in Targets : u <= ToBig(LimitBits)}}

Init == /\ \/ \E c \in CompactValues : InDomain(c) /\ case = [kind |-> "decode", c |-> c]
           \/ \E t \in AllTargets : case = [kind |-> "encode", t |-> t]
           \/ \E c \in CompactValues, lim \in {ToBig(LimitBits), 255, 2147483647}, hrel \in {"lt", "eq", "gt"} :
                 /\ InDomain(c)
                 /\ case = [kind |-> "pow", c |-> c, limit |-> lim, hrel |-> hrel]
           \/ \E cls \in {"genesis", "instant", "off", "retarget"}, ob \in OldBits, sp \in Spans, f \in Factors :
                 /\ cls # "retarget" => sp = TargetTimespan        \* the span only matters when retargeting
                 /\ case = [kind |-> "retarget", cls |-> cls, old |-> ob, span |-> sp, f |-> f,
                            limitbits |-> IF cls = "instant" THEN InstantBits ELSE LimitBits]
        /\ res = NoRes
        /\ log = <<>>

Outcome(c) ==
    CASE c.kind = "decode" ->
           [done |-> TRUE, big |-> ToBig(c.c), canonical |-> Canonical(c.c), back |-> ToCompact(ToBig(c.c))]
      [] c.kind = "encode" ->
           [done |-> TRUE, compact |-> ToCompact(c.t), back |-> ToBig(ToCompact(c.t))]
      [] c.kind = "pow" ->
           LET t == ToBig(c.c)
               \* a hash standing in the stated relation to the target (any hash when the target is not positive)
               hash == IF t <= 0 THEN 1 ELSE IF c.hrel = "lt" THEN t - 1 ELSE IF c.hrel = "eq" THEN t ELSE t + 1
           IN [done |-> TRUE, target |-> t, hash |-> hash, verdict |-> PowVerdict(c.c, c.limit, hash)]
      [] c.kind = "retarget" ->
           LET nb == NextBits(c.cls, c.old, c.span, c.f, c.limitbits)
               old == ToBig(c.old)
           IN [done |-> TRUE, bits |-> nb, old |-> old,
               limit |-> IF c.cls = "instant" THEN 0 ELSE ToBig(c.limitbits),
               new |-> IF c.cls = "instant" THEN 0 ELSE ToBig(nb),
               exact |-> (old * Adjusted(c.span, c.f)) % TargetTimespan = 0,
               floor |-> IF c.cls = "instant" THEN 0 ELSE ToBig(ToCompact(old \div c.f)),
               adjusted |-> Adjusted(c.span, c.f)]

Decide == /\ ~res.done
          /\ res' = Outcome(case)
          /\ UNCHANGED case
          /\ log' = Append(log, [act |-> "Case", args |-> case, exp |-> res'])

Next == Decide
Spec == Init /\ [][Next]_vars

---------------------------------------------------------------------------
(* Properties (C09) *)

Is(k) == res.done /\ case.kind = k

\* decoding a canonical encoding and re-encoding it is the identity
RoundTrip == (Is("decode") /\ res.canonical) => res.back = case.c

\* ... and re-encoding anything yields a canonical value of the same number
\* (so "canonical" above is exactly "produced by the encoder")
Normalises == Is("decode") => /\ Canonical(res.back)
                              /\ ToBig(res.back) = res.big
                              /\ (res.back = case.c) = res.canonical

\* encoding a target never yields a larger target (and loses less than one
\* unit of the last kept byte)
EncodeNotLarger == (Is("encode") /\ case.t > 0) =>
                      /\ res.back <= case.t
                      /\ res.back > 0
                      /\ Canonical(res.compact)
                      /\ case.t - res.back <= case.t \div 32768        \* at least 15 significant bits kept
EncodeSign == Is("encode") => /\ (case.t < 0 => res.back < 0)
                              /\ (case.t = 0 => res.compact = 0)

\* a header passes only with a positive target within the limit and a hash
\* not above the target
PowSound == Is("pow") =>
               (res.verdict = "ok" <=> /\ res.target > 0
                                       /\ res.target <= case.limit
                                       /\ res.hash <= res.target)

\* each retarget moves the target by at most the adjustment factor (up to
\* the encoder's truncation) and never above the limit
RetargetBounded ==
    (Is("retarget") /\ case.cls = "retarget") =>
        /\ res.new <= res.limit
        /\ res.new <= res.old * case.f
        /\ res.new >= res.floor
        /\ res.new >= 0
        /\ Canonical(res.bits)
RetargetOff == (Is("retarget") /\ case.cls = "off") => res.bits = case.old
RetargetLimit == (Is("retarget") /\ case.cls \in {"genesis", "instant"}) => res.bits = case.limitbits

Emit == PrintT(<<"TRACE", ToJson(log')>>)
=============================================================================
