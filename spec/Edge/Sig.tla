-------------------------------- MODULE Sig --------------------------------
(***************************************************************************)
(* Who may spend: the signature stage of transaction validation            *)
(*   core/transaction/transactionchecker.go: checkTransactionSignature     *)
(*   blockchain/validation.go: GetTxProgramHashes, SortPrograms,           *)
(*                             RunPrograms, CheckStandardSignature,        *)
(*                             checkSchnorrSignatures,                     *)
(*                             checkCrossChainSignatures                   *)
(*   crypto/crypto.go: CheckMultiSigSignatures, VerifyMultisigSignatures   *)
(* and the wallet side that produces the signatures                        *)
(*   account/client.go: SignStandardTransaction, SignMultiSignTransaction  *)
(*   crypto/schnorr.go: AggregateSignatures (aggregated Schnorr account).  *)
(*                                                                         *)
(* A transaction is built step by step (spend an output, add a script      *)
(* attribute, attach a program, let a wallet sign, let the adversary put   *)
(* any signature anywhere, change the signed content afterwards) and is    *)
(* finally submitted to the verifier.  Cryptography is ideal:              *)
(*      Verify(sig(k, d), k', d')  ==  k = k' /\ d = d'                    *)
(* and hashing is injective.  The signed content is abstracted to a        *)
(* version number: every change of the unsigned bytes gives a new version. *)
(*                                                                         *)
(* Properties (invariants of every reachable transaction):                 *)
(*   C05  Sound:          the verifier accepts only if every distinct      *)
(*                        spent address / script attribute has a program   *)
(*                        whose code hashes to it and that carries valid   *)
(*                        signatures over the current content of at least  *)
(*                        m distinct keys of its script                    *)
(*   C37  WalletComplete: a transaction whose programs were produced only  *)
(*                        by the wallets of enough distinct key holders is *)
(*                        accepted                                         *)
(*        WalletBound:    (Sound again) after any change of the signed     *)
(*                        content it no longer is.                         *)
(*                                                                         *)
(* One named deviation (known finding, see known_findings): RunPrograms    *)
(* verifies nothing for a standard/deposit-prefixed address whose code is  *)
(* none of standard / multisig / Schnorr.  The reference verifier `Accept` *)
(* rejects that shape; action SubmitFallthrough states what the code does. *)
(***************************************************************************)
EXTENDS Integers, Sequences, FiniteSets, TLC, Json

CONSTANTS UseCodes,    \* indexes into Universe: the program codes in play
          UsePfx,      \* address prefixes in play
          MaxIn,       \* inputs (spent outputs) per transaction
          MaxAttr,     \* script attributes per transaction
          MaxProgs,    \* programs per transaction
          MaxSigs,     \* signatures per program
          ForgeKeys,   \* plain keys the adversary signs with ({} = none)
          Wallets,     \* plain keys whose holders sign through the wallet
          MaxVer,      \* 0: content never changes, 1: one change
          Garbage,     \* TRUE: the adversary may also insert random bytes
          Aligned      \* TRUE: programs are attached only for codes of spent
                       \* addresses (any code once a cross-chain address is
                       \* spent); FALSE: any code for any address

(* ----------------------------------------------------------------------- *)
(* Codes.  A key is a set of plain key numbers: {k} is the key of holder k, *)
(* a larger set is an aggregated Schnorr key.  Holder 4 never appears in a  *)
(* script (outsider).  The position in Universe is the (injective) hash of  *)
(* the code: the verifier sorts addresses and programs by it.               *)
Code(kind, m, keys) == [kind |-> kind, m |-> m, keys |-> keys]

Universe == <<
   Code("cross",   1, {{1}, {2}}),
   Code("std",     1, {{1}}),
   Code("multi",   1, {{1}, {2}}),
   Code("schnorr", 1, {{1, 2}}),
   Code("multi",   2, {{1}, {2}}),
   Code("other",   0, {}),
   Code("std",     1, {{2}}),
   Code("multi",   2, {{1}, {2}, {3}}),
   Code("schnorr", 1, {{1}}),
   Code("multi",   0, {{1}, {2}}),
   Code("cross",   2, {{1}, {2}, {3}}) >>

CodeIds == UseCodes \cap (1..Len(Universe))

(* An address is [pfx, h]: h is the hash it commits to.  For every prefix   *)
(* but "cross" that is the hash of a code.  Cross-chain addresses commit to *)
(* a side chain genesis block; the two used here hash below (0) and above   *)
(* (99) every code.                                                         *)
Addresses == [pfx : UsePfx \ {"cross"}, h : CodeIds]
             \cup (IF "cross" \in UsePfx THEN [pfx : {"cross"}, h : {0, 99}] ELSE {})

(* A signature: by key k over content version v.  k = {} is random bytes.   *)
(* w = TRUE: produced by a wallet (C37), otherwise put there by anybody.    *)
Sig(k, v, w) == [k |-> k, v |-> v, w |-> w]

VARIABLES inputs,   \* sequence of addresses of the spent outputs
          attrs,    \* set of addresses named by script attributes
          progs,    \* sequence of [code |-> id, sigs |-> sequence of Sig]
          ver,      \* version of the unsigned content
          phase,    \* "build" | "done"
          verdict,  \* what the node answered (phase = "done")
          dev,      \* TRUE if the answer came from the named deviation
          log

vars == <<inputs, attrs, progs, ver, phase, verdict, dev, log>>
view == <<inputs, attrs, progs, ver, phase, verdict, dev>>

Range(s) == {s[i] : i \in 1..Len(s)}

(* ----------------------------------------------------------------------- *)
(* The verifier, transcribed.                                              *)

\* GetTxProgramHashes: spent addresses and script attributes, duplicates removed
Hashes == Range(inputs) \cup attrs

RECURSIVE SortByHash(_)
SortByHash(S) == IF S = {} THEN <<>>
                 ELSE LET x == CHOOSE y \in S : \A z \in S : y.h <= z.h
                      IN <<x>> \o SortByHash(S \ {x})

\* SortPrograms: by code hash; equal codes keep their order
SortedProgs == SortSeq(progs, LAMBDA p, q : p.code < q.code)

Valid(s, key) == s.k = key /\ s.v = ver        \* ideal Verify over the current content

\* crypto.VerifyMultisigSignatures(m, n, keys, signatures, data)
Matched(p, keys) == {k \in keys : \E i \in 1..Len(p.sigs) : Valid(p.sigs[i], k)}
Duplicated(p, keys) == \E i, j \in 1..Len(p.sigs) :
                          i < j /\ \E k \in keys : Valid(p.sigs[i], k) /\ Valid(p.sigs[j], k)
MultisigWhy(m, keys, p) ==
    IF Len(p.sigs) < m THEN "multi-not-enough-signatures"
    ELSE IF Len(p.sigs) > Cardinality(keys) THEN "multi-too-many-signatures"
    ELSE IF Duplicated(p, keys) THEN "multi-duplicated-signer"
    ELSE IF Cardinality(Matched(p, keys)) < m THEN "multi-matched-not-enough"
    ELSE "ok"

\* crypto.CheckMultiSigSignatures: m, n are read from the PUSHk bytes, the
\* script must end in CHECKMULTISIG
CheckMultiSigWhy(p) ==
    LET c == Universe[p.code] IN
    IF c.kind # "multi" THEN "not-a-multisig-script"
    ELSE IF c.m < 1 \/ c.m > Cardinality(c.keys) THEN "multi-invalid-m"
    ELSE MultisigWhy(c.m, c.keys, p)

\* checkCrossChainSignatures: the script must end in CROSSCHAIN; m is not
\* range checked
CrossWhy(p) ==
    LET c == Universe[p.code] IN
    IF c.kind # "cross" THEN "not-a-crosschain-script"
    ELSE MultisigWhy(c.m, c.keys, p)

\* CheckStandardSignature: exactly one signature, by the key of the script
StandardWhy(p) ==
    LET c == Universe[p.code] IN
    IF Len(p.sigs) # 1 THEN "std-signature-length"
    ELSE IF \E k \in c.keys : Valid(p.sigs[1], k) THEN "ok" ELSE "std-signature"

\* checkSchnorrSignatures: the first 64 bytes of the parameter are the
\* signature of the (aggregated) key in the script.  (A parameter shorter
\* than 64 bytes is a shape of C03, not generated here.)
SchnorrWhy(p) ==
    LET c == Universe[p.code] IN
    IF Len(p.sigs) >= 1 /\ \E k \in c.keys : Valid(p.sigs[1], k) THEN "ok" ELSE "schnorr-signature"

\* contract.IsStandard / IsMultiSig / IsSchnorr
Recognised(c) == c.kind \in {"std", "schnorr"} \/ (c.kind = "multi" /\ c.m >= 1)

\* one iteration of the loop of RunPrograms; `strict` = reference behaviour
PairWhy(a, p, strict) ==
    LET c == Universe[p.code] IN
    IF a.pfx = "cross"
    THEN IF c.kind = "schnorr" THEN SchnorrWhy(p) ELSE CrossWhy(p)
    ELSE IF a.h # p.code THEN "code-hash-mismatch"
    ELSE IF a.pfx \in {"std", "deposit"}
         THEN IF c.kind = "schnorr" THEN SchnorrWhy(p)
              ELSE IF c.kind = "std" THEN StandardWhy(p)
              ELSE IF Recognised(c) THEN CheckMultiSigWhy(p)
              ELSE IF strict THEN "unrecognised-code" ELSE "ok"
    ELSE IF a.pfx = "multi" THEN CheckMultiSigWhy(p)
    ELSE "unknown-prefix"

RECURSIVE FirstWhy(_, _, _, _)
FirstWhy(hs, ps, i, strict) ==
    IF i > Len(hs) THEN "ok"
    ELSE LET w == PairWhy(hs[i], ps[i], strict)
         IN IF w # "ok" THEN w ELSE FirstWhy(hs, ps, i + 1, strict)

Why(strict) == LET hs == SortByHash(Hashes) IN
               IF Len(hs) # Len(progs) THEN "program-count"
               ELSE FirstWhy(hs, SortedProgs, 1, strict)

Accept     == Why(TRUE) = "ok"      \* the reference verifier
CodeAccept == Why(FALSE) = "ok"     \* what blockchain.RunPrograms computes

(* ----------------------------------------------------------------------- *)
(* The property, stated without reference to the algorithm.                *)

\* the keys of code c that signed the current content in program p
Signers(c, p) == {k \in c.keys : \E i \in 1..Len(p.sigs) : Valid(p.sigs[i], k)}

Threshold(c) == IF c.kind \in {"multi", "cross"} THEN c.m ELSE 1

\* a program authorises spending from address a
Authorises(p, a) ==
    LET c == Universe[p.code] IN
    /\ \/ a.pfx # "cross" /\ a.h = p.code /\ Recognised(c)
       \* cross-chain addresses are owned by the arbiter set of the day: the
       \* program is bound to it by the withdraw transaction's own checks
       \* (C31/C33), here only its signatures are demanded
       \/ a.pfx = "cross" /\ c.kind \in {"cross", "schnorr"}
    /\ Cardinality(Signers(c, p)) >= Threshold(c)

Authorised == \A a \in Hashes : \E j \in 1..Len(progs) : Authorises(progs[j], a)

(* ----------------------------------------------------------------------- *)
Init == /\ inputs = <<>> /\ attrs = {} /\ progs = <<>> /\ ver = 0
        /\ phase = "build" /\ verdict = FALSE /\ dev = FALSE /\ log = <<>>

Building == phase = "build"

\* no two addresses of one transaction commit to the same hash under
\* different prefixes (the pairing after sorting would depend on the sort)
Fresh(a) == \A b \in Hashes : b.h = a.h => b = a

\* (inputs are listed in hash order w.l.o.g.: the verifier collects them from
\* a map; the same address may be spent twice)
Spend(a) ==
    /\ Building /\ Len(inputs) < MaxIn /\ Fresh(a) /\ progs = <<>> /\ attrs = {}
    /\ inputs # <<>> => inputs[Len(inputs)].h <= a.h
    /\ inputs' = Append(inputs, a)
    /\ UNCHANGED <<attrs, progs, ver, phase, verdict, dev, log>>

ScriptAttr(a) ==
    /\ Building /\ Cardinality(attrs) < MaxAttr /\ Fresh(a) /\ a \notin Hashes /\ progs = <<>>
    /\ inputs # <<>>                  \* a transaction spends at least one output
    /\ attrs' = attrs \cup {a}
    /\ UNCHANGED <<inputs, progs, ver, phase, verdict, dev, log>>

CodeOnce(c) == Cardinality({j \in 1..Len(progs) : progs[j].code = c}) = 1

AttachProgram(c) ==
    /\ Building /\ Len(progs) < MaxProgs /\ ver = 0
    /\ \A j \in 1..Len(progs) : progs[j].code # c
    /\ Aligned => \E a \in Hashes : a.h = c \/ a.pfx = "cross"
    /\ progs' = Append(progs, [code |-> c, sigs |-> <<>>])
    /\ UNCHANGED <<inputs, attrs, ver, phase, verdict, dev, log>>

\* the same program twice (only as the last step before submitting)
DupProgram(j) ==
    /\ Building /\ Len(progs) < MaxProgs /\ CodeOnce(progs[j].code)
    /\ progs' = Append(progs, progs[j])
    /\ UNCHANGED <<inputs, attrs, ver, phase, verdict, dev, log>>

AddSig(j, s) == progs' = [progs EXCEPT ![j].sigs = Append(@, s)]

\* account.SignStandardTransaction / SignMultiSignTransaction by the wallet
\* of holder w (it holds exactly the key {w}); for an aggregated Schnorr
\* account all its holders sign together (crypto.AggregateSignatures)
WalletSign(w, j) ==
    LET c == Universe[progs[j].code] IN
    /\ Building /\ CodeOnce(progs[j].code) /\ Len(progs[j].sigs) < MaxSigs
    /\ \/ /\ c.kind = "std" /\ {w} \in c.keys
          /\ progs' = [progs EXCEPT ![j].sigs = <<Sig({w}, ver, TRUE)>>]
       \/ /\ c.kind = "multi" /\ c.m >= 1 /\ {w} \in c.keys
          /\ AddSig(j, Sig({w}, ver, TRUE))
       \/ /\ c.kind = "schnorr" /\ \E k \in c.keys : w \in k /\ k \subseteq Wallets
          /\ progs' = [progs EXCEPT ![j].sigs = <<Sig(CHOOSE k \in c.keys : TRUE, ver, TRUE)>>]
    /\ UNCHANGED <<inputs, attrs, ver, phase, verdict, dev, log>>

\* anybody may put a signature made with the keys he holds, over the current
\* or an earlier content, or random bytes, into any program
AggregatedForgeKeys == IF {1, 2} \subseteq ForgeKeys THEN {{1, 2}} ELSE {}
ForgeSigs == {Sig(k, v, FALSE) : k \in {{h} : h \in ForgeKeys} \cup AggregatedForgeKeys, v \in 0..ver}
             \cup (IF Garbage THEN {Sig({}, 0, FALSE)} ELSE {})

Forge(j, s) ==
    /\ Building /\ CodeOnce(progs[j].code) /\ Len(progs[j].sigs) < MaxSigs
    /\ AddSig(j, s)
    /\ UNCHANGED <<inputs, attrs, ver, phase, verdict, dev, log>>

\* the unsigned content changes after (some) signatures were made
Tamper ==
    /\ Building /\ ver < MaxVer /\ progs # <<>>
    /\ \E j \in 1..Len(progs) : progs[j].sigs # <<>>
    /\ ver' = ver + 1
    /\ UNCHANGED <<inputs, attrs, progs, phase, verdict, dev, log>>

TamperClasses == {"version", "type", "payload", "attribute", "input", "output", "locktime"}

UsedCodes == ({a.h : a \in Hashes} \cup {progs[j].code : j \in 1..Len(progs)}) \ {0, 99}

Case(cls, exp, why, isdev) ==
    [act |-> "Case",
     args |-> [inputs |-> inputs, attrs |-> attrs, progs |-> progs, ver |-> ver,
               tamper |-> cls,
               codes |-> {[id |-> i, def |-> Universe[i]] : i \in UsedCodes}],
     exp |-> exp, why |-> why, dev |-> isdev,
     authorised |-> Authorised,
     wallet |-> (\A j \in 1..Len(progs) : \A i \in 1..Len(progs[j].sigs) : progs[j].sigs[i].w)]

\* the node validates the transaction (reference behaviour)
Submit(cls) ==
    /\ Building /\ Hashes # {} /\ progs # <<>>
    /\ cls \in (IF ver = 0 THEN {"none"} ELSE TamperClasses)
    /\ ~(CodeAccept /\ ~Accept)
    /\ phase' = "done" /\ verdict' = Accept /\ dev' = FALSE
    /\ log' = <<Case(cls, Accept, Why(TRUE), FALSE)>>
    /\ UNCHANGED <<inputs, attrs, progs, ver>>

\* DEVIATION (known finding C05:accepts:unrecognised-code): every pair passes
\* RunPrograms although a standard/deposit-prefixed address carries a code
\* that is none of standard, multisig, Schnorr and nothing was verified for it
SubmitFallthrough(cls) ==
    /\ Building /\ Hashes # {} /\ progs # <<>>
    /\ cls \in (IF ver = 0 THEN {"none"} ELSE TamperClasses)
    /\ CodeAccept /\ ~Accept
    /\ phase' = "done" /\ verdict' = TRUE /\ dev' = TRUE
    /\ log' = <<Case(cls, FALSE, Why(TRUE), TRUE)>>
    /\ UNCHANGED <<inputs, attrs, progs, ver>>

Next == \/ \E a \in Addresses : Spend(a) \/ ScriptAttr(a)
        \/ \E c \in CodeIds : AttachProgram(c)
        \/ \E j \in 1..Len(progs) : DupProgram(j)
        \/ \E j \in 1..Len(progs) : \E w \in Wallets : WalletSign(w, j)
        \/ \E j \in 1..Len(progs) : \E s \in ForgeSigs : Forge(j, s)
        \/ Tamper
        \/ \E cls \in TamperClasses \cup {"none"} : Submit(cls) \/ SubmitFallthrough(cls)

Spec == Init /\ [][Next]_vars

(* ----------------------------------------------------------------------- *)
TypeOK == /\ Len(inputs) <= MaxIn /\ Cardinality(attrs) <= MaxAttr
          /\ Len(progs) <= MaxProgs /\ ver \in 0..MaxVer
          /\ \A j \in 1..Len(progs) : Len(progs[j].sigs) <= MaxSigs

\* C05: whatever the reference verifier accepts is authorised by every
\* spent address (checked on every transaction under construction, not only
\* the submitted ones)
Sound == (Hashes # {} /\ Accept) => Authorised

\* the node's answer is the reference verifier's, except in the named deviation
Answer == phase = "done" => (verdict = Accept \/ dev)

\* the deviation is exactly the shape described
DeviationShape ==
    dev => \E a \in Hashes : /\ a.pfx \in {"std", "deposit"}
                             /\ \E j \in 1..Len(progs) : /\ progs[j].code = a.h
                                                         /\ ~Recognised(Universe[a.h])

\* NOT an invariant (selftest of the model: TLC must report a violation whose
\* counterexample is the known finding): soundness of what the code computes
CodeSound == (Hashes # {} /\ CodeAccept) => Authorised

\* C37 (positive half): one program per address, signed only through
\* wallets, by at least the threshold of distinct holders and no holder
\* twice, over the content as it is now => accepted
WalletMade ==
    /\ Hashes # {} /\ Len(progs) = Cardinality(Hashes)
    /\ \A a \in Hashes : a.pfx \in {"std", "multi"} /\ \E j \in 1..Len(progs) : progs[j].code = a.h
    /\ \A a \in Hashes : (a.pfx = "multi") = (Universe[a.h].kind = "multi")
    /\ \A j \in 1..Len(progs) :
         LET p == progs[j]  c == Universe[p.code] IN
         /\ Recognised(c) /\ p.sigs # <<>>
         /\ \A i \in 1..Len(p.sigs) : p.sigs[i].w /\ p.sigs[i].v = ver
         /\ \A i, k \in 1..Len(p.sigs) : i # k => p.sigs[i].k # p.sigs[k].k
         /\ Len(p.sigs) >= Threshold(c) /\ Len(p.sigs) <= Cardinality(c.keys)
WalletComplete == WalletMade => Accept

\* C37 (negative half): signatures made before the content changed are
\* worth nothing afterwards
StaleWorthless ==
    \A j \in 1..Len(progs) :
       (\A i \in 1..Len(progs[j].sigs) : progs[j].sigs[i].v < ver)
          => Signers(Universe[progs[j].code], progs[j]) = {}

\* printing: one case per submitted transaction
Emit == phase' = "done" => PrintT(<<"TRACE", ToJson(log')>>)
=============================================================================
