------------------------------ MODULE Validate ------------------------------
(***************************************************************************)
(* C03: validating any decoded block or transaction never crashes.         *)
(*                                                                         *)
(* The validators that index into attacker supplied data are transcribed   *)
(* over SHAPES of that data (lengths, counts, opcodes), with every index   *)
(* access made explicit:                                                   *)
(*   classify  core/contract/common.go: IsStandard, IsSchnorr, IsMultiSig  *)
(*             over program codes given byte by byte                       *)
(*   runprog   blockchain/validation.go: RunPrograms ->                    *)
(*             checkSchnorrSignatures / CheckStandardSignature /           *)
(*             CheckMultiSigSignatures / checkCrossChainSignatures over    *)
(*             (address prefix, code class, parameter length)              *)
(*   auxpow    auxpow/auxpow.go: AuxPow.Check, GetExpectedIndex over       *)
(*             (parent coinbase inputs, script layout, bytes after the     *)
(*             root, aux merkle branch length, size field, index)          *)
(*   coinbase  core/transaction/coinbasetransaction.go + blockchain/       *)
(*             blockvalidator.go: checkCoinbaseTransactionContext over     *)
(*             (output count, height regime, amounts)                      *)
(*   withdraw  core/transaction/withdrawfromsidechaintransaction.go:       *)
(*             checkSchnorrWithdrawFromSidechain over signer indexes below *)
(*             and above the restriction height                            *)
(*   txshape   DefaultChecker.SanityCheck + checkTransactionSignature over *)
(*             counts of inputs / outputs / attributes / programs, script  *)
(*             attribute length, code and parameter lengths                *)
(*   context   the crash shapes inside complete transactions on a node     *)
(*                                                                         *)
(* Every validator exists twice: as the property demands it (`ref`: an     *)
(* access out of range is a reject) and as it was coded before the fix     *)
(* commits (`coded`: an access out of range is "crash").  One initial      *)
(* state per shape; Decide computes the verdict.                           *)
(*   NeverCrashes       the verdict is accept or reject (AsCoded = FALSE)  *)
(*   FixIsConservative  wherever the coded validator does not crash the    *)
(*                      reference one gives the same answer                *)
(*   OneKind            a code is at most one of standard/Schnorr/multisig *)
(* With AsCoded = TRUE TLC reports the crash shapes (the defects).         *)
(***************************************************************************)
EXTENDS Integers, Sequences, FiniteSets, TLC, Json

CONSTANTS Mechs,     \* mechanisms to enumerate
          AsCoded,   \* FALSE: reference validators; TRUE: as coded before the fixes
          MaxTail    \* classify: number of free bytes after the key pushes

VARIABLES case, phase, verdict, log
vars == <<case, phase, verdict, log>>
view == <<case, phase, verdict>>

(* ----------------------------------------------------------------------- *)
(* bytes                                                                   *)
PUSH1 == 81   PUSH16 == 96   CHECKSIG == 172   CHECKMULTISIG == 174   CROSSCHAIN == 175
KEYLEN == 33  FILL == 7

RECURSIVE Rep(_, _)
Rep(b, n) == IF n <= 0 THEN <<>> ELSE <<b>> \o Rep(b, n - 1)

RECURSIVE KeyPushes(_)
KeyPushes(n) == IF n = 0 THEN <<>> ELSE <<KEYLEN>> \o Rep(FILL, 33) \o KeyPushes(n - 1)

\* a program code: head bytes, n complete key pushes, free tail bytes
CodeBytes(s) == s.head \o KeyPushes(s.nkeys) \o s.tail

\* zero based access as in Go; -1 = out of range
At(code, i) == IF i >= 0 /\ i < Len(code) THEN code[i + 1] ELSE -1
Int16At(code, i) == IF i + 1 < Len(code) THEN At(code, i) * 256 + At(code, i + 1) ELSE 0  \* binary.Read fails -> 0

(* ----------------------------------------------------------------------- *)
(* classify                                                                *)
IsStandard(code) == Len(code) = 35 /\ At(code, 0) = 33 /\ At(code, 34) = CHECKSIG
IsSchnorr(code)  == Len(code) = 35 /\ At(code, 0) = PUSH1 /\ At(code, 1) + 2 = Len(code)

\* the key push loop of IsMultiSig: returns <<i, n>> or <<-1, n>> when the
\* code ends inside / right after a key push
RECURSIVE SkipKeys(_, _, _)
SkipKeys(code, i, n) ==
    IF At(code, i) # 33 THEN <<i, n>>
    ELSE IF Len(code) <= i + 34 THEN <<-1, n>>
    ELSE SkipKeys(code, i + 34, n + 1)

\* result "true" | "false" | "crash"
IsMultiSig(code, coded) ==
    LET L  == Len(code)
        c0 == At(code, 0)
        oor == IF coded THEN "crash" ELSE "false"
    IN
    IF L < 37 THEN "false"
    ELSE IF c0 > PUSH16 THEN "false"
    ELSE IF c0 < PUSH1 /\ c0 # 1 /\ c0 # 2 THEN "false"
    ELSE LET m  == IF c0 = 1 THEN At(code, 1) ELSE IF c0 = 2 THEN Int16At(code, 1) ELSE c0 - 80
             i0 == IF c0 = 1 THEN 2 ELSE IF c0 = 2 THEN 3 ELSE 1
         IN
         IF m < 1 \/ m > 1024 THEN "false"
         ELSE LET sk == SkipKeys(code, i0, 0)
                  i  == sk[1]
                  n  == sk[2]
              IN
              IF i = -1 THEN "false"
              ELSE IF n < m \/ n > 1024 THEN "false"
              ELSE LET t == At(code, i) IN      \* i < L here
                   \* the byte(s) encoding n
                   LET afterN ==
                         IF t = 1 THEN (IF i + 1 >= L THEN -2                \* code[i] read past the end
                                        ELSE IF n # At(code, i + 1) THEN -1 ELSE i + 2)
                         ELSE IF t = 2 THEN (IF n # Int16At(code, i + 1) THEN -1 ELSE i + 3)
                         ELSE (IF n # t - 80 THEN -1 ELSE i + 1)
                   IN
                   IF afterN = -2 THEN oor
                   ELSE IF afterN = -1 THEN "false"
                   ELSE IF afterN >= L THEN oor                               \* code[i] read past the end
                   ELSE IF At(code, afterN) # CHECKMULTISIG THEN "false"
                   ELSE IF L # afterN + 1 THEN "false"
                   ELSE "true"

Heads == {<<>>, <<PUSH1>>, <<PUSH1 + 1>>, <<PUSH1 + 2>>, <<1, 1>>, <<1, 2>>, <<2, 0, 1>>, <<2, 0, 2>>,
          <<PUSH1 - 1>>, <<PUSH16 + 1>>}
TailBytes == {1, 2, 0, PUSH1, PUSH1 + 1, PUSH1 + 2, CHECKMULTISIG, CHECKSIG, 33, FILL}
RECURSIVE Tails(_)
Tails(n) == IF n = 0 THEN {<<>>} ELSE Tails(n - 1) \cup {Append(t, b) : t \in {x \in Tails(n - 1) : Len(x) = n - 1}, b \in TailBytes}

ClassifyShapes == [mech : {"classify"}, head : Heads, nkeys : 0..3, tail : Tails(MaxTail)]

ClassifyVerdict(s, coded) ==
    LET code == CodeBytes(s)  ms == IsMultiSig(code, coded) IN
    IF ms = "crash" THEN "crash"
    ELSE IF IsStandard(code) THEN "standard"
    ELSE IF ms = "true" THEN "multisig"
    ELSE IF IsSchnorr(code) THEN "schnorr"
    ELSE "custom"

(* ----------------------------------------------------------------------- *)
(* runprog: one (address, program) pair whose code hashes to the address;  *)
(* the parameter is random bytes of a given length                         *)
CodeClasses == {"std", "std-badkey", "schnorr", "schnorr-badkey", "multi-1of2", "multi-truncated",
                "multi-bad-n", "cross-2of3", "cross-m0", "other-25", "min-23"}
ParamLens == {0, 1, 63, 64, 65, 66, 129, 130, 195, 260}
Prefixes == {"std", "deposit", "multi", "cross", "stake"}

RunprogShapes == [mech : {"runprog"}, pfx : Prefixes, code : CodeClasses, plen : ParamLens]

SchnorrCode(c)  == c \in {"schnorr", "schnorr-badkey"}
StandardCode(c) == c \in {"std", "std-badkey"}
\* contract.IsMultiSig on the class (multi-truncated: two keys, n, no CHECKMULTISIG -> index past the end)
MultiSigCode(c, coded) == IF c = "multi-1of2" THEN "true"
                          ELSE IF c = "multi-truncated" THEN (IF coded THEN "crash" ELSE "false")
                          ELSE "false"
\* number of keys of a well formed multisig / cross-chain script, 0 otherwise
NKeys(c) == CASE c = "multi-1of2" -> 2 [] c = "cross-2of3" -> 3 [] c = "cross-m0" -> 2 [] OTHER -> 0
MOf(c)   == CASE c = "multi-1of2" -> 1 [] c = "cross-2of3" -> 2 [] c = "cross-m0" -> 0 [] OTHER -> -1

\* checkSchnorrSignatures: Parameter[:64]; random bytes never verify
SchnorrVerdict(plen, coded) == IF plen < 64 THEN (IF coded THEN "crash" ELSE "reject") ELSE "reject"

\* crypto.VerifyMultisigSignatures with random signatures
MultisigVerdict(m, n, plen) ==
    IF plen % 65 # 0 THEN "reject"
    ELSE IF plen \div 65 < m THEN "reject"
    ELSE IF plen \div 65 > n THEN "reject"
    ELSE IF 0 < m THEN "reject" ELSE "accept"        \* nothing matches; m <= 0 needs nothing

RunprogVerdict(s, coded) ==
    IF s.pfx = "cross"
    THEN IF SchnorrCode(s.code) THEN SchnorrVerdict(s.plen, coded)
         ELSE IF s.code \in {"cross-2of3", "cross-m0"} THEN MultisigVerdict(MOf(s.code), NKeys(s.code), s.plen)
         ELSE "reject"                                \* ParseCrossChainScript refuses
    ELSE IF s.pfx \in {"std", "deposit"}
         THEN IF SchnorrCode(s.code) THEN SchnorrVerdict(s.plen, coded)
              ELSE IF StandardCode(s.code) THEN "reject"
              ELSE LET ms == MultiSigCode(s.code, coded) IN
                   IF ms = "crash" THEN "crash"
                   ELSE IF ms = "true" THEN MultisigVerdict(MOf(s.code), NKeys(s.code), s.plen)
                   ELSE "accept"                      \* falls through unverified (finding of C05)
    ELSE IF s.pfx = "multi"
         THEN IF s.code = "multi-1of2" THEN MultisigVerdict(1, 2, s.plen) ELSE "reject"
    ELSE "reject"                                     \* unknown signature type

(* ----------------------------------------------------------------------- *)
(* auxpow                                                                  *)
AuxShapes == [mech : {"auxpow"},
              txin : 0..2,                            \* inputs of the parent coinbase
              parroot : {"match", "mismatch"},        \* parent coinbase merkle root vs parent header
              hdr : 0..2,                             \* occurrences of the merged mining magic in the script
              root : {"after-header", "gap", "missing"},
              tail : 0..9,                            \* bytes after the aux root
              h : {0, 1, 2, 31, 32, 33},              \* aux merkle branch length
              sizeok : BOOLEAN,                       \* the size field equals uint32(1 << h)
              idx : {"expected", "other"}]

AuxVerdict(s, coded) ==
    LET oor == IF coded THEN "crash" ELSE "reject" IN
    IF s.parroot = "mismatch" THEN "reject"
    ELSE IF s.txin = 0 THEN oor                                      \* ParCoinbaseTx.TxIn[0]
    ELSE IF s.hdr = 0 \/ s.root = "missing" THEN "reject"
    ELSE IF s.hdr = 2 THEN "reject"
    ELSE IF s.root # "after-header" THEN "reject"
    ELSE IF s.tail < 4 THEN "reject"                                 \* the code's own length check (8 hex digits)
    ELSE IF ~coded /\ s.tail < 8 THEN "reject"
    ELSE IF ~s.sizeok THEN "reject"
    ELSE IF s.tail < 8 THEN oor                                      \* script[r+4 : r+8] with fewer than 8 bytes left
    ELSE IF s.h >= 32 THEN oor                                       \* rand % (1 << 32) = rand % 0
    ELSE IF s.idx = "expected" THEN "accept" ELSE "reject"

\* shapes a block producer can never need are not excluded: a peer can send them

(* ----------------------------------------------------------------------- *)
(* coinbase                                                                *)
CoinbaseShapes == [mech : {"coinbase"}, nout : 0..4,
                   regime : {"pre-h2", "h2", "dposv2"},
                   amounts : {"right", "wrong"}]

CoinbaseVerdict(s, coded) ==
    \* sanity: CoinBaseTransaction.CheckTransactionOutput needs two outputs
    \* before anything indexes Outputs()[0], [1]
    IF s.nout < 2 THEN "reject"
    ELSE IF s.amounts = "wrong" THEN "reject"
    ELSE CASE s.regime = "pre-h2" -> "accept"
           [] s.regime = "h2"     -> IF s.nout = 2 THEN "accept" ELSE "reject"   \* no arbiter rewards pending
           [] s.regime = "dposv2" -> IF s.nout = 3 THEN "accept" ELSE "reject"

(* ----------------------------------------------------------------------- *)
(* withdraw: Signers of a v2 WithdrawFromSideChain payload; NArb arbiters   *)
WithdrawShapes == [mech : {"withdraw"},
                   signers : {"in-range", "one-equals-len", "one-255", "duplicate"},
                   validate : BOOLEAN,              \* height >= CrossChainUTXORestrictionHeight
                   program : {"aggregate-of-signers", "other-schnorr", "not-schnorr"}]

WithdrawVerdict(s, coded) ==
    IF s.signers \in {"one-equals-len", "one-255"}
    THEN IF s.validate \/ ~coded THEN "reject" ELSE "crash"          \* arbiters[index]
    ELSE IF s.signers = "duplicate" /\ s.validate THEN "reject"
    ELSE IF s.program = "aggregate-of-signers" THEN "accept" ELSE "reject"

(* ----------------------------------------------------------------------- *)
(* txshape: counts and lengths through SanityCheck and the signature stage *)
TxShapes == [mech : {"txshape"}, version : {0, 9}, nin : 0..2, nout : 0..1, nattr : 0..1,
             script : {-1, 0, 20, 21, 22},         \* length of a Script attribute's data (-1: no such attribute)
             nprog : 0..2, codelen : {0, 22, 23, 35}, plen : {0, 65}]

TxVerdict(s, coded) ==
    IF s.nin = 0 \/ s.nout = 0 \/ s.nprog = 0 THEN "reject"
    ELSE IF s.codelen < 23 THEN "reject"
    ELSE IF s.script \notin {-1, 21} THEN "reject"      \* GetTxProgramHashes: Uint168FromBytes fails
    ELSE "reject"                                             \* random programs never authorise

(* ----------------------------------------------------------------------- *)
(* context: the crash shapes above inside complete transactions that spend  *)
(* really existing outputs, through CheckTransactionSanity and              *)
(* CheckTransactionContext of a node (what a peer or RPC client reaches)    *)
ContextShapes == [mech : {"context"},
                  path : {"transfer-spends-truncated-multisig-address",
                          "transfer-schnorr-parameter-short",
                          "return-deposit-coin-truncated-multisig-program",
                          "withdraw-v2-signer-index-255"}]

ContextVerdict(s, coded) ==
    IF coded THEN "crash"
    \* IsMultiSig = false: the address counts as unrecognised and RunPrograms
    \* falls through (finding of C05); everything else is refused
    ELSE IF s.path = "transfer-spends-truncated-multisig-address" THEN "accept"
    ELSE "reject"

(* ----------------------------------------------------------------------- *)
Shapes == (IF "classify" \in Mechs THEN ClassifyShapes ELSE {})
          \cup (IF "runprog" \in Mechs THEN RunprogShapes ELSE {})
          \cup (IF "auxpow" \in Mechs THEN AuxShapes ELSE {})
          \cup (IF "coinbase" \in Mechs THEN CoinbaseShapes ELSE {})
          \cup (IF "withdraw" \in Mechs THEN WithdrawShapes ELSE {})
          \cup (IF "txshape" \in Mechs THEN TxShapes ELSE {})
          \cup (IF "context" \in Mechs THEN ContextShapes ELSE {})

Verdict(s, coded) ==
    CASE s.mech = "classify" -> ClassifyVerdict(s, coded)
      [] s.mech = "runprog"  -> RunprogVerdict(s, coded)
      [] s.mech = "auxpow"   -> AuxVerdict(s, coded)
      [] s.mech = "coinbase" -> CoinbaseVerdict(s, coded)
      [] s.mech = "withdraw" -> WithdrawVerdict(s, coded)
      [] s.mech = "txshape"  -> TxVerdict(s, coded)
      [] s.mech = "context"  -> ContextVerdict(s, coded)

Init == /\ case \in Shapes /\ phase = "new" /\ verdict = "none" /\ log = <<>>

Decide == /\ phase = "new"
          /\ phase' = "done"
          /\ verdict' = Verdict(case, AsCoded)
          /\ log' = <<[act |-> "Case", args |-> case, exp |-> Verdict(case, FALSE),
                       coded |-> Verdict(case, TRUE)]>>
          /\ UNCHANGED case

Next == Decide
Spec == Init /\ [][Next]_vars

(* ----------------------------------------------------------------------- *)
Returns == {"accept", "reject", "standard", "multisig", "schnorr", "custom"}

\* C03 on the model: every shape is answered
NeverCrashes == phase = "done" => verdict \in Returns

\* the reference validators differ from the coded ones only where those crash
FixIsConservative ==
    Verdict(case, TRUE) # "crash" => Verdict(case, FALSE) = Verdict(case, TRUE)

\* a code is at most one of standard / Schnorr / multisig
OneKind == case.mech = "classify" =>
    LET code == CodeBytes(case) IN
    Cardinality({k \in {"s", "x", "m"} :
                   \/ k = "s" /\ IsStandard(code)
                   \/ k = "x" /\ IsSchnorr(code)
                   \/ k = "m" /\ IsMultiSig(code, FALSE) = "true"}) <= 1

Emit == PrintT(<<"TRACE", ToJson(log')>>)
=============================================================================
