--------------------------- MODULE AuxPowParams ---------------------------
(* Seed-dependent parameters of AuxPow.tla.  tools/props/C10.py replaces   *)
(* this module by one generated from VERIF_SEED (TLC configuration files   *)
(* cannot hold tuples); the committed values are those of seed 1.          *)
SeedNonces == {<<21, 205, 91, 7>>}     \* nonces as 4 little-endian bytes
=============================================================================
