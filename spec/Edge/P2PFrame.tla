------------------------------ MODULE P2PFrame ------------------------------
(***************************************************************************)
(* P2P message framing (C35): the reader p2p/message.go:ReadMessage with   *)
(* p2p/header.go:Deserialize/Verify and the peer layer's message factory   *)
(* (p2p/peer/peer.go:createMessage -> CheckAndCreateMessage /              *)
(* CheckAndCreateTxMessage, falling back to elanet's / dpos's factory).    *)
(*                                                                         *)
(* A frame is header (24 bytes: magic 4, command 12 NUL padded, payload    *)
(* length 4, checksum 4) followed by the payload.  A case is a valid frame *)
(* of one command -- PLen[cmd] payload bytes, the command's maximum         *)
(* PMax[cmd] -- with one corruption class applied:                          *)
(*   none, twoFrames (two valid frames back to back), magic, cmdUnknown,   *)
(*   cmdNoNul, length (declared length d /= PLen), checksum, payload (a     *)
(*   payload byte changed), truncHeader / truncPayload (the stream ends    *)
(*   after d header / payload bytes), maxFill (declared = PMax with that    *)
(*   many bytes supplied).                                                 *)
(*                                                                         *)
(* One action per stage of the reader.  `read` counts the bytes the reader *)
(* consumed from the stream for the current frame, `alloc` the size of the *)
(* payload buffer it allocated.  The property: a frame is accepted only if *)
(* it is authentic, and whatever happens the reader consumes no more than  *)
(* header + declared length and allocates no more than the declared length *)
(* and the command's maximum -- nothing at all when the declared length    *)
(* exceeds the maximum.                                                    *)
(***************************************************************************)
EXTENDS Integers, Sequences, FiniteSets, TLC, Json

CONSTANTS Cmds,      \* command instances, e.g. "main/ping"
          PLen,       \* [Cmds -> Nat]  payload length of the valid instance
          PMax,       \* [Cmds -> Nat]  MaxLength() of the command
          Decls,     \* [Cmds -> SUBSET Nat]  declared lengths to try (/= PLen)
          HdrCuts,   \* SUBSET 0..23 : stream lengths for truncHeader
          PayCuts,   \* [Cmds -> SUBSET Nat] : payload bytes present for truncPayload
          Huge       \* stands for every declared length >= 2^30

HeaderSize == 24

Plain == {"none", "twoFrames", "magic", "cmdUnknown", "cmdNoNul", "checksum", "payload", "maxFill"}

Cases == [cmd : Cmds, class : Plain \ {"payload", "maxFill"}, d : {0}]
           \cup {x \in [cmd : Cmds, class : {"payload"}, d : {0}] : PLen[x.cmd] > 0}
           \cup {x \in [cmd : Cmds, class : {"maxFill"}, d : {0}] : PMax[x.cmd] > PLen[x.cmd]}
           \cup UNION {[cmd : {k}, class : {"length"}, d : Decls[k]] : k \in Cmds}
           \cup [cmd : Cmds, class : {"truncHeader"}, d : HdrCuts]
           \cup UNION {[cmd : {k}, class : {"truncPayload"}, d : PayCuts[k]] : k \in Cmds}

VARIABLES c,        \* the case
          st,       \* stage of the reader
          got,      \* frames accepted so far (twoFrames)
          read, alloc, verdict, why, log

vars == <<c, st, got, read, alloc, verdict, why, log>>
view == <<c, st, got, read, alloc, verdict, why>>

N == PLen[c.cmd]
M == PMax[c.cmd]

\* the fields of the frame on the wire
Declared  == CASE c.class = "length"  -> c.d
               [] c.class = "maxFill" -> M
               [] OTHER               -> N
Available == CASE c.class = "truncHeader"  -> c.d                    \* stream bytes for this frame
               [] c.class = "truncPayload" -> HeaderSize + c.d
               [] c.class = "maxFill"      -> HeaderSize + M
               [] OTHER                    -> HeaderSize + N
MagicOK   == c.class # "magic"
HasNul    == c.class # "cmdNoNul"
CmdKnown  == c.class # "cmdUnknown"
\* the checksum in the header matches the bytes that will be read as payload
SumOK     == c.class \notin {"checksum", "payload", "maxFill"} /\ Declared = N

Authentic == /\ MagicOK /\ HasNul /\ CmdKnown /\ Declared = N /\ SumOK
             /\ Available >= HeaderSize + N

Init == /\ c \in Cases
        /\ st = "header" /\ got = 0 /\ read = 0 /\ alloc = 0
        /\ verdict = "none" /\ why = "" /\ log = <<>>

Finish(v, w, r) ==
    /\ st' = "done" /\ verdict' = v /\ why' = w /\ read' = r
    /\ log' = Append(log, [act |-> "Case", args |-> c,
                           exp |-> [verdict |-> v, stage |-> w, read |-> r, alloc |-> alloc]])
    /\ UNCHANGED <<c, got, alloc>>

Go(next) == st' = next /\ UNCHANGED <<c, got, read, alloc, verdict, why, log>>

(* io.ReadFull(r, headerBytes[:]) *)
ReadHeader ==
    /\ st = "header"
    /\ IF Available < HeaderSize THEN Finish("reject", "short", Available)
       ELSE /\ st' = "parse" /\ read' = HeaderSize
            /\ UNCHANGED <<c, got, alloc, verdict, why, log>>

(* Header.Deserialize: the command field must contain a NUL *)
ParseHeader == /\ st = "parse"
               /\ IF HasNul THEN Go("magic") ELSE Finish("reject", "header", read)

CheckMagic == /\ st = "magic"
              /\ IF MagicOK THEN Go("dispatch") ELSE Finish("reject", "magic", read)

(* createMessage: the peer's switch, then the network's; unknown -> error *)
Dispatch == /\ st = "dispatch"
            /\ IF CmdKnown THEN Go("length") ELSE Finish("reject", "other", read)

(* hdr.Length > message.MaxLength() *)
CheckLength == /\ st = "length"
               /\ IF Declared > M THEN Finish("reject", "length", read) ELSE Go("alloc")

(* payload := make([]byte, hdr.Length) *)
Allocate == /\ st = "alloc"
            /\ alloc' = Declared /\ st' = "payload"
            /\ UNCHANGED <<c, got, read, verdict, why, log>>

(* io.ReadFull(r, payload) *)
ReadPayload ==
    /\ st = "payload"
    /\ LET avail == Available - HeaderSize IN
       IF avail < Declared THEN Finish("reject", "short", read + avail)
       ELSE /\ read' = read + Declared /\ st' = "checksum"
            /\ UNCHANGED <<c, got, alloc, verdict, why, log>>

(* hdr.Verify(payload) *)
VerifyChecksum == /\ st = "checksum"
                  /\ IF SumOK THEN Go("decode") ELSE Finish("reject", "checksum", read)

(* message.Deserialize(payload): an authentic payload decodes.  With two   *)
(* frames on the stream the reader is called again for the second one.     *)
Decode ==
    /\ st = "decode"
    /\ IF c.class = "twoFrames" /\ got = 0
       THEN /\ got' = 1 /\ st' = "header" /\ read' = 0 /\ alloc' = 0
            /\ read = HeaderSize + N            \* the next frame starts where this one ended
            /\ UNCHANGED <<c, verdict, why, log>>
       ELSE Finish("accept", "accept", read)

Next == \/ ReadHeader \/ ParseHeader \/ CheckMagic \/ Dispatch \/ CheckLength
        \/ Allocate \/ ReadPayload \/ VerifyChecksum \/ Decode

Spec == Init /\ [][Next]_vars

---------------------------------------------------------------------------
Done == st = "done"

\* C35: only well-formed authentic frames are accepted ...
AcceptOnlyAuthentic == verdict = "accept" => Authentic
\* ... and a frame the node wrote is read back (first sentence).
WrittenIsRead == (Done /\ c.class \in {"none", "twoFrames"}) => verdict = "accept"
\* an accepted frame consumed exactly its own bytes
NoOverRead == verdict = "accept" => read = HeaderSize + N
\* whatever the frame, the reader consumes at most header + declared length,
\* and only the header when the declared length exceeds the maximum
BoundedRead == /\ read <= HeaderSize + Declared
               /\ Declared > M => read <= HeaderSize
\* and the payload buffer is bounded by the declared length and the maximum;
\* nothing is allocated for an oversize declaration
BoundedAlloc == alloc <= Declared /\ alloc <= M
RejectedEarly == (Done /\ ~(MagicOK /\ HasNul /\ CmdKnown /\ Declared <= M)) =>
                     (verdict = "reject" /\ alloc = 0 /\ read <= HeaderSize)

TypeOK == /\ verdict \in {"none", "accept", "reject"}
          /\ Done <=> verdict # "none"
          /\ read >= 0 /\ alloc >= 0 /\ got \in {0, 1}

Emit == (log' # log) => PrintT(<<"TRACE", ToJson(log')>>)
=============================================================================
