---------------------------- MODULE MerkleBlock ----------------------------
(***************************************************************************)
(* SPV merkle proofs (property C08).                                       *)
(*                                                                         *)
(* The partial-merkle-tree procedures of elanet/bloom (and their copy in   *)
(* elanet/filter, which is what the server actually calls) transcribed     *)
(* over a symbolic, collision-free hash:                                   *)
(*                                                                         *)
(*   Build        mblock.go  MBlock.TraverseAndBuild / CalcHash and the    *)
(*                flag packing of merkleblock.go NewMerkleBlock            *)
(*   Check        merkleblock.go CheckMerkleBlock: the stack machine over  *)
(*                tree positions, with inDeadZone / MakeMerkleParent       *)
(*   Branch       merklebranch.go GetTxMerkleBranch: getNodes (the same    *)
(*                machine recording every node), calcTxIndex,              *)
(*                calcBranchRoute, calcNodeIndex                           *)
(*   EvalBranch   auxpow.go GetMerkleRoot                                  *)
(*   LevelRoot    crypto/merkletree.go ComputeRoot (how a block's header   *)
(*                root is made)                                            *)
(*                                                                         *)
(* A hash is a term: <<"tx", i>> (id of transaction i), <<"H", l, r>>      *)
(* (parent of l and r), <<"junk", j>> (a value that is nothing in the      *)
(* block: a bit-flipped or invented hash).  Two terms are equal iff they   *)
(* are the same term, which is exactly collision freedom.                  *)
(*                                                                         *)
(* Decision-table form: Init picks one case (number of transactions, set   *)
(* of matched transactions, one corruption of the served message), Decide  *)
(* computes what the procedures produce.  TLC checks the properties below  *)
(* on every case; every case is then executed on the real functions by     *)
(* harness/cmd/merkleblock and everything in `res` is compared.            *)
(***************************************************************************)
EXTENDS Integers, Sequences, FiniteSets, TLC, Json, Bitwise

CONSTANTS MinN, MaxN,     \* numbers of transactions enumerated
          Kinds           \* corruption kinds enumerated (subset of AllKinds)

VARIABLES case,           \* [n, M, corr]
          res,            \* outputs of the procedures for this case (NoRes before Decide)
          log             \* history variable for extraction

vars == <<case, res, log>>
view == <<case, res>>

AllKinds == {"none", "flip", "rephash", "drophash", "addhash", "inshash", "swaphash", "duphash",
             "ntx", "root", "noflags", "truncflags", "dupleaf"}

---------------------------------------------------------------------------
(* Symbolic hashes *)

NIL == <<>>                       \* "no hash yet" (a nil *Uint256)
Tx(i) == <<"tx", i>>
H(l, r) == <<"H", l, r>>
Junk(j) == <<"junk", j>>

Min(a, b) == IF a < b THEN a ELSE b

---------------------------------------------------------------------------
(* Tree geometry shared by builder and checker *)

\* MBlock.CalcTreeWidth
Width(n, h) == (n + 2 ^ h - 1) \div (2 ^ h)

\* height loop of NewMerkleBlock: for CalcTreeWidth(height) > 1 { height++ }
RECURSIVE HeightFrom(_, _)
HeightFrom(n, h) == IF Width(n, h) > 1 THEN HeightFrom(n, h + 1) ELSE h
Height(n) == HeightFrom(n, 0)

\* treeDepth: for ; (1 << e) < n; e++ {}
RECURSIVE DepthFrom(_, _)
DepthFrom(n, e) == IF 2 ^ e < n THEN DepthFrom(n, e + 1) ELSE e
TreeDepth(n) == DepthFrom(n, 0)
NextPow2(n) == 2 ^ TreeDepth(n)

\* inDeadZone(pos, size)
RECURSIVE DZLoop(_, _, _, _)
DZLoop(pos, h, last, msb) ==
    IF pos >= h THEN DZLoop(pos, shiftR(h, 1) | msb, shiftR(last, 1) | msb, msb)
                ELSE pos > last
InDeadZone(pos, size) ==
    LET msb == NextPow2(size) IN
      IF pos > 2 * msb - 2 THEN TRUE ELSE DZLoop(pos, msb, size - 1, msb)

---------------------------------------------------------------------------
(* crypto.ComputeRoot: level by level, an odd last node is paired with     *)
(* itself.                                                                 *)

RECURSIVE LevelUp(_)
LevelUp(nodes) ==
    IF Len(nodes) = 0 THEN <<>>
    ELSE IF Len(nodes) = 1 THEN <<H(nodes[1], nodes[1])>>
    ELSE <<H(nodes[1], nodes[2])>> \o LevelUp(SubSeq(nodes, 3, Len(nodes)))

RECURSIVE LevelRootOf(_)
LevelRootOf(nodes) == IF Len(nodes) = 1 THEN nodes[1] ELSE LevelRootOf(LevelUp(nodes))

Leaves(n) == [i \in 1..n |-> Tx(i - 1)]
BlockRoot(n) == LevelRootOf(Leaves(n))

---------------------------------------------------------------------------
(* Builder: MBlock.CalcHash, MBlock.TraverseAndBuild, NewMerkleBlock        *)

RECURSIVE CalcHash(_, _, _)
CalcHash(n, h, pos) ==
    IF h = 0 THEN Tx(pos)
    ELSE LET l == CalcHash(n, h - 1, pos * 2)
             r == IF pos * 2 + 1 < Width(n, h - 1) THEN CalcHash(n, h - 1, pos * 2 + 1) ELSE l
         IN H(l, r)

\* returns [bits, hashes] appended in depth-first order
RECURSIVE Traverse(_, _, _, _)
Traverse(n, M, h, pos) ==
    LET isParent == \E i \in (pos * 2 ^ h)..(Min((pos + 1) * 2 ^ h, n) - 1) : i \in M IN
      IF h = 0 \/ ~isParent
      THEN [bits |-> <<IF isParent THEN 1 ELSE 0>>, hashes |-> <<CalcHash(n, h, pos)>>]
      ELSE LET L == Traverse(n, M, h - 1, pos * 2)
               R == IF pos * 2 + 1 < Width(n, h - 1) THEN Traverse(n, M, h - 1, pos * 2 + 1)
                    ELSE [bits |-> <<>>, hashes |-> <<>>]
           IN [bits |-> <<1>> \o L.bits \o R.bits, hashes |-> L.hashes \o R.hashes]

Zeros(k) == [i \in 1..k |-> 0]
PadTo8(bits) == bits \o Zeros((8 - (Len(bits) % 8)) % 8)

\* the served message; `bits` are the flag bytes bit by bit (LSB first), so
\* Len(bits) is always a multiple of 8; root is the header's merkle root
Build(n, M) ==
    LET t == Traverse(n, M, Height(n), 0) IN
      [ntx |-> n, hashes |-> t.hashes, bits |-> PadTo8(t.bits), root |-> BlockRoot(n)]

---------------------------------------------------------------------------
(* MakeMerkleParent *)

MkParent(l, r) ==
    IF l # NIL /\ r # NIL /\ l = r THEN [ok |-> FALSE, h |-> NIL]      \* "DUP HASH CRASH"
    ELSE IF l = NIL THEN [ok |-> FALSE, h |-> NIL]                      \* "Left child is nil"
    ELSE [ok |-> TRUE, h |-> H(l, IF r = NIL THEN l ELSE r)]

---------------------------------------------------------------------------
(* The stack machine of CheckMerkleBlock and merkleNodes.getNodes.          *)
(* st = [s, pos, hs, bi, r, nodes]                                          *)
(*   s      stack of [p, h]   (h = NIL: pushed empty, to be computed)       *)
(*   pos    current position in the tree (bottom row 0..msb-1, next row     *)
(*          msb.., root 2*msb-2)                                            *)
(*   hs     message hashes not yet consumed                                 *)
(*   bi     index of the next flag bit                                      *)
(*   r      txids of interest found so far (CheckMerkleBlock)               *)
(*   nodes  position -> hash of every known node (getNodes)                 *)

Fail(why) == [v |-> "err", why |-> why, r |-> <<>>, nodes |-> <<>>]

Put(nodes, p, h) == [q \in (DOMAIN nodes) \cup {p} |-> IF q = p THEN h ELSE nodes[q]]

RECURSIVE Run(_, _, _, _)
Run(m, msb, st, fuel) ==        \* msb = nextPowerOfTwo(m.Transactions)
    LET tip == Len(st.s) - 1                 \* Go index of the stack tip
    IN
    IF fuel = 0 THEN Fail("diverge")
    ELSE IF tip = 0 /\ st.s[1].h # NIL
    THEN IF st.s[1].h = m.root THEN [v |-> "ok", why |-> "", r |-> st.r, nodes |-> st.nodes]
                               ELSE Fail("root")
    ELSE IF InDeadZone(st.pos, m.ntx)
    THEN IF tip < 1 THEN Fail("panic")       \* s[tip-1] out of range
         ELSE LET par == MkParent(st.s[tip + 1].h, NIL) IN
              IF ~par.ok THEN Fail("parent")
              ELSE LET s2 == [SubSeq(st.s, 1, tip) EXCEPT ![tip].h = par.h] IN
                   Run(m, msb, [st EXCEPT !.s = s2, !.pos = s2[tip].p | 1,
                                     !.nodes = Put(st.nodes, s2[tip].p, par.h)], fuel - 1)
    ELSE IF tip > 1 /\ st.s[tip].h # NIL /\ st.s[tip + 1].h # NIL
    THEN LET par == MkParent(st.s[tip].h, st.s[tip + 1].h) IN
         IF ~par.ok THEN Fail("parent")
         ELSE LET s2 == [SubSeq(st.s, 1, tip - 1) EXCEPT ![tip - 1].h = par.h] IN
              Run(m, msb, [st EXCEPT !.s = s2, !.pos = s2[tip - 1].p | 1,
                                !.nodes = Put(st.nodes, s2[tip - 1].p, par.h)], fuel - 1)
    ELSE IF st.hs = <<>> THEN Fail("hashes")          \* "Ran out of hashes"
    ELSE IF st.bi > Len(m.bits) THEN Fail("flags")    \* "Ran out of flag bits"
    ELSE LET bit == m.bits[st.bi]
             hd == Head(st.hs)
         IN
         IF (st.pos & msb) # 0
         THEN \* upper, non-txid node
              IF bit = 0
              THEN Run(m, msb, [st EXCEPT !.s = Append(st.s, [p |-> st.pos, h |-> hd]),
                                     !.hs = Tail(st.hs),
                                     !.pos = IF (st.pos & 1) # 0 THEN shiftR(st.pos, 1) | msb
                                                                 ELSE st.pos | 1,
                                     !.nodes = Put(st.nodes, st.pos, hd),
                                     !.bi = st.bi + 1], fuel - 1)
              ELSE Run(m, msb, [st EXCEPT !.s = Append(st.s, [p |-> st.pos, h |-> NIL]),
                                     !.pos = (st.pos ^^ msb) * 2,
                                     !.bi = st.bi + 1], fuel - 1)
         ELSE \* bottom row: a txid
              IF st.pos >= m.ntx THEN Fail("invalid txid node")
              ELSE Run(m, msb, [st EXCEPT !.s = Append(st.s, [p |-> st.pos, h |-> hd]),
                                     !.hs = Tail(st.hs),
                                     !.r = IF bit # 0 THEN Append(st.r, hd) ELSE st.r,
                                     !.pos = IF (st.pos & 1) = 0 THEN st.pos | 1 ELSE st.pos,
                                     !.nodes = Put(st.nodes, st.pos, hd),
                                     !.bi = st.bi + 1], fuel - 1)

Machine(m) ==
    IF m.ntx = 0 THEN Fail("no transactions")
    ELSE IF Len(m.bits) = 0 THEN Fail("no flag bits")
    ELSE LET msb == NextPow2(m.ntx) IN
         Run(m, msb, [s |-> <<>>, pos |-> 2 * msb - 2, hs |-> m.hashes, bi |-> 1, r |-> <<>>,
                 nodes |-> <<>>], 16 * (m.ntx + Len(m.hashes) + 4))

\* CheckMerkleBlock: verdict and the txids of interest
Check(m) == LET x == Machine(m) IN [v |-> x.v, why |-> x.why, r |-> x.r]

---------------------------------------------------------------------------
(* GetTxMerkleBranch and auxpow.GetMerkleRoot *)

\* calcNodeIndex(height, pos)
RECURSIVE SubPow(_, _, _)
SubPow(x, i, top) == IF i > top THEN x ELSE SubPow(x - 2 ^ i, i + 1, top)
NodeIndex(n, height, pos) == SubPow(NextPow2(n) * 2 - 2, 1, TreeDepth(n) - height) + pos

\* calcBranchRoute: position of the sibling at every height (the node
\* itself where it is the last, unpaired node of its row)
Route(n, txIndex) ==
    [k \in 1..TreeDepth(n) |->
        LET height == k - 1
            idx == shiftR(txIndex, height)
        IN IF idx = Width(n, height) - 1 /\ idx % 2 = 0 THEN NodeIndex(n, height, idx)
           ELSE IF idx % 2 = 0 THEN NodeIndex(n, height, idx + 1)
           ELSE NodeIndex(n, height, idx - 1)]

RECURSIVE IndexBits(_, _)
IndexBits(route, k) ==
    IF k > Len(route) THEN 0
    ELSE (IF route[k] % 2 = 0 THEN 2 ^ (k - 1) ELSE 0) + IndexBits(route, k + 1)

\* GetTxMerkleBranch(msg, txid).  calcTxIndex looks the txid up among the
\* recorded bottom-row nodes; a txid that is not there is an error (the
\* property: a branch is only ever derived for a transaction of the block).
\* (x is Machine(m): getNodes' result.)
BranchFrom(x, m, txid) ==
    IF x.v # "ok" THEN [v |-> "err", branch |-> <<>>, index |-> 0]
    ELSE LET width == Width(m.ntx, 0)
             cands == {p \in DOMAIN x.nodes : p <= width /\ x.nodes[p] = txid}
         IN IF cands = {} THEN [v |-> "err", branch |-> <<>>, index |-> 0]
            ELSE LET txIndex == CHOOSE p \in cands : TRUE
                     route == Route(m.ntx, txIndex)
                 IN IF \E k \in 1..Len(route) : route[k] \notin DOMAIN x.nodes
                    THEN [v |-> "panic", branch |-> <<>>, index |-> 0]
                    ELSE [v |-> "ok", branch |-> [k \in 1..Len(route) |-> x.nodes[route[k]]],
                          index |-> IndexBits(route, 1)]
Branch(m, txid) == BranchFrom(Machine(m), m, txid)

\* auxpow.GetMerkleRoot(hash, branch, index)
RECURSIVE EvalBranch(_, _, _)
EvalBranch(h, branch, index) ==
    IF branch = <<>> THEN h
    ELSE EvalBranch(IF index % 2 = 1 THEN H(Head(branch), h) ELSE H(h, Head(branch)),
                    Tail(branch), index \div 2)

---------------------------------------------------------------------------
(* Corruptions of a served message (one field each) *)

Flip(b) == 1 - b
RemoveAt(s, j) == SubSeq(s, 1, j - 1) \o SubSeq(s, j + 1, Len(s))
InsertAt(s, j, x) == SubSeq(s, 1, j - 1) \o <<x>> \o SubSeq(s, j, Len(s))

\* arguments a corruption kind can take on message m
CorrArgs(kind, m) ==
    CASE kind = "none"       -> {0}
      [] kind = "flip"       -> 1..Len(m.bits)
      [] kind = "rephash"    -> 1..Len(m.hashes)
      [] kind = "drophash"   -> 1..Len(m.hashes)
      [] kind = "addhash"    -> {0}
      [] kind = "inshash"    -> 1..Len(m.hashes)
      [] kind = "swaphash"   -> 1..(Len(m.hashes) - 1)
      [] kind = "duphash"    -> 1..(Len(m.hashes) - 1)
      [] kind = "ntx"        -> ({0, m.ntx - 1, m.ntx + 1, 2 * m.ntx, NextPow2(m.ntx) + 1}) \ {m.ntx}
      [] kind = "root"       -> {0}
      [] kind = "noflags"    -> {0}
      [] kind = "truncflags" -> IF Len(m.bits) > 8 THEN {0} ELSE {}
      [] kind = "dupleaf"    -> IF m.ntx % 2 = 1 THEN {0} ELSE {}

\* The CVE-2012-2459 shape.  A tree over an odd number n of leaves pairs the
\* last leaf with itself, so it has the root of the tree over n+1 leaves
\* whose last two are equal.  DupLeaf(n, M) is the message an attacker
\* builds for that n+1 tree (last leaf matched): it verifies against the
\* block's root unless equal siblings are refused.
RECURSIVE Subst(_, _, _)
Subst(t, from, to) == IF t = from THEN to
                      ELSE IF Len(t) = 3 THEN H(Subst(t[2], from, to), Subst(t[3], from, to))
                      ELSE t
DupLeaf(n, M) ==
    LET b == Build(n + 1, M \cup {n}) IN
      [b EXCEPT !.hashes = [k \in 1..Len(b.hashes) |-> Subst(b.hashes[k], Tx(n), Tx(n - 1))],
                !.root = BlockRoot(n)]

Apply(kind, a, m) ==
    CASE kind = "none"       -> m
      [] kind = "flip"       -> [m EXCEPT !.bits[a] = Flip(@)]
      [] kind = "rephash"    -> [m EXCEPT !.hashes[a] = Junk(a)]
      [] kind = "drophash"   -> [m EXCEPT !.hashes = RemoveAt(@, a)]
      [] kind = "addhash"    -> [m EXCEPT !.hashes = Append(@, Junk(0))]
      [] kind = "inshash"    -> [m EXCEPT !.hashes = InsertAt(@, a, Junk(a))]
      [] kind = "swaphash"   -> [m EXCEPT !.hashes = [@ EXCEPT ![a] = m.hashes[a + 1], ![a + 1] = m.hashes[a]]]
      [] kind = "duphash"    -> [m EXCEPT !.hashes[a + 1] = m.hashes[a]]
      [] kind = "ntx"        -> [m EXCEPT !.ntx = a]
      [] kind = "root"       -> [m EXCEPT !.root = Junk(0)]
      [] kind = "noflags"    -> [m EXCEPT !.bits = <<>>]
      [] kind = "truncflags" -> [m EXCEPT !.bits = SubSeq(@, 1, Len(@) - 8)]
      [] kind = "dupleaf"    -> m      \* replaced as a whole, see Outcome

---------------------------------------------------------------------------
(* Cases *)

NoRes == [done |-> FALSE]

Init == /\ \E n \in MinN..MaxN, k \in Kinds :
             \E M \in SUBSET (0..(n - 1)) :
               \E a \in CorrArgs(k, Build(n, M)) :
                 case = [n |-> n, M |-> M, kind |-> k, arg |-> a]
        /\ res = NoRes
        /\ log = <<>>

MatchedSeq(n, M) == [i \in 1..n |-> IF (i - 1) \in M THEN 1 ELSE 0]

\* what the procedures produce for the case
Outcome(c) ==
    LET honest == Build(c.n, c.M)
        m == IF c.kind = "dupleaf" THEN DupLeaf(c.n, c.M) ELSE Apply(c.kind, c.arg, honest)
        mach == Machine(m)
        chk == [v |-> mach.v, why |-> mach.why, r |-> mach.r]
        \* branches are derived from the message as served, for every
        \* transaction of the block and for one id that is not in the block
        probes == [i \in 1..(c.n + 1) |->
                     LET id == IF i <= c.n THEN Tx(i - 1) ELSE Junk(99)
                         b == BranchFrom(mach, m, id)
                     IN [id |-> id, v |-> b.v, branch |-> b.branch, index |-> b.index,
                         root |-> IF b.v = "ok" THEN EvalBranch(id, b.branch, b.index) ELSE NIL]]
    IN [done |-> TRUE, msg |-> m, v |-> chk.v, why |-> chk.why, matched |-> chk.r,
        probes |-> IF c.kind = "none" THEN probes ELSE <<>>,
        calcroot |-> CalcHash(c.n, Height(c.n), 0)]

Decide == /\ ~res.done
          /\ res' = Outcome(case)
          /\ UNCHANGED case
          /\ log' = Append(log, [act |-> "Case",
                                 args |-> [n |-> case.n, matched |-> MatchedSeq(case.n, case.M),
                                           kind |-> case.kind, arg |-> case.arg],
                                 exp |-> res'])

Next == Decide
Spec == Init /\ [][Next]_vars

---------------------------------------------------------------------------
(* Properties (C08) -- evaluated on every decided case *)

Honest == case.kind = "none"
TxIds == {Tx(i) : i \in 0..(case.n - 1)}
WantedSeq == LET idx == SelectSeq([i \in 1..case.n |-> i - 1], LAMBDA i : i \in case.M)
             IN [k \in 1..Len(idx) |-> Tx(idx[k])]

\* the two root computations of the repository agree (bloom's CalcHash and
\* crypto.ComputeRoot)
RootsAgree == res.done => res.calcroot = BlockRoot(case.n)

\* Completeness: the served message verifies and yields exactly the matched
\* transactions, in block order.
Complete == (res.done /\ Honest) => (res.v = "ok" /\ res.matched = WantedSeq)

\* Soundness: whatever happened to hashes and flags, a message that verifies
\* against the block's root (and states the block's transaction count) only
\* ever yields ids of transactions of the block, each at most once.
Sound == (res.done /\ res.v = "ok" /\ (res.msg.ntx = case.n \/ case.kind = "dupleaf")
                   /\ res.msg.root = BlockRoot(case.n)) =>
            /\ \A k \in 1..Len(res.matched) : res.matched[k] \in TxIds
            /\ \A k, l \in 1..Len(res.matched) : k # l => res.matched[k] # res.matched[l]

\* A message whose hashes were altered where the checker reads them, or
\* whose header root was altered, does not verify.
CorruptionDetected ==
    (res.done /\ case.kind \in {"rephash", "drophash", "inshash", "swaphash", "duphash", "root",
                                "noflags", "dupleaf"}) => res.v = "err"

\* The checker never indexes outside its stack and always terminates.
NoPanic == res.done => (res.v = "err" => res.why \notin {"panic", "diverge"})

\* Branches: for an honest message every matched transaction gets a branch
\* that evaluates to the block's root; a branch is never returned for
\* something that does not evaluate to the root; no lookup panics.
BranchesSound ==
    (res.done /\ Honest) =>
        \A k \in 1..Len(res.probes) :
            LET p == res.probes[k] IN
              /\ p.v # "panic"
              /\ (p.v = "ok" => p.root = BlockRoot(case.n))
              /\ ((k - 1) \in case.M => p.v = "ok")
              /\ (k = case.n + 1 => p.v = "err")

\* Used with ACTION_CONSTRAINT to print one behaviour per explored edge.
Emit == PrintT(<<"TRACE", ToJson(log')>>)
=============================================================================
