------------------------------- MODULE AuxPow -------------------------------
(***************************************************************************)
(* Merged-mining proofs (property C10): auxpow/auxpow.go AuxPow.Check,     *)
(* GetMerkleRoot and GetExpectedIndex.                                     *)
(*                                                                         *)
(* Two levels are kept apart.                                              *)
(*                                                                         *)
(*  - Commits(p, blk, chain) is the property: what it MEANS for a proof to *)
(*    commit to a block.  It is stated on the structure of the parent      *)
(*    coinbase script (a sequence of tokens: marker, aux root, size,       *)
(*    nonce, filler, raw nibbles) and on symbolic hashes.                  *)
(*                                                                         *)
(*  - Check(p, blk, chain) is the decision procedure as the code performs  *)
(*    it: the script is turned into its hex string, the marker and the     *)
(*    reversed aux root are located by substring search on that string     *)
(*    (so an occurrence can start in the middle of a byte), the size and   *)
(*    nonce are read back from the bytes at rootHashIndex/2, the slot is   *)
(*    the linear congruential formula in 32-bit unsigned arithmetic.       *)
(*                                                                         *)
(* TLC checks Check => Commits on every enumerated proof (a valid proof    *)
(* for every branch length / nonce, and every single-field mutation of     *)
(* it).  The driver (harness/cmd/auxpow) builds every proof for real and   *)
(* runs AuxPow.Check; a VIOLATION is "the real code accepts a proof that    *)
(* does not commit".                                                       *)
(*                                                                         *)
(* Hashes are symbolic terms (collision free): <<"blk",i>>, <<"sib",i>>,   *)
(* <<"psib",i>>, <<"junk",i>>, <<"zero">>, <<"H",l,r>>, <<"rev",x>> (byte  *)
(* reversal), <<"cb",tokens>> (hash of the coinbase carrying that          *)
(* script).  In the hex string a 64-digit hash is scaled to RL digits; its *)
(* last digit is given by the case (it matters when the procedure reads    *)
(* bytes across the end of a misaligned root).  32-bit unsigned numbers    *)
(* are little-endian byte quadruples because TLC's integers are 32-bit     *)
(* signed.                                                                 *)
(***************************************************************************)
EXTENDS Integers, Sequences, FiniteSets, TLC, Json, AuxPowParams

CONSTANTS Heights,       \* aux branch lengths enumerated
          BigHeights,    \* branch lengths around the 32-bit shift boundary (reduced mutation set)
          Nonces,        \* nonces (as 4 little-endian bytes)
          LastDigits,    \* values of the last hex digit of the committed aux root
          ChainID,       \* this chain's id (auxpow.AuxPowChainID)
          OtherChainID

VARIABLES case, res, log
vars == <<case, res, log>>
view == <<case, res>>

\* Nonces <- AllNonces in the configuration
AllNonces == {<<0, 0, 0, 0>>, <<7, 0, 0, 0>>, <<64, 226, 1, 0>>, <<255, 255, 255, 255>>} \cup SeedNonces

RL == 4     \* hex digits of a hash in the model (64 in reality; only parity and the last digit matter)

---------------------------------------------------------------------------
(* 32-bit unsigned arithmetic on little-endian byte quadruples *)

U32(n) == <<n % 256, (n \div 256) % 256, (n \div 65536) % 256, (n \div 16777216) % 256>>   \* 0 <= n < 2^31

\* a + b mod 2^32
Add32(a, b) ==
    LET s1 == a[1] + b[1]
        s2 == a[2] + b[2] + s1 \div 256
        s3 == a[3] + b[3] + s2 \div 256
        s4 == a[4] + b[4] + s3 \div 256
    IN <<s1 % 256, s2 % 256, s3 % 256, s4 % 256>>

\* a * b mod 2^32 (schoolbook on bytes, columns 0..3)
Mul32(a, b) ==
    LET c1 == a[1] * b[1]
        c2 == a[1] * b[2] + a[2] * b[1] + c1 \div 256
        c3 == a[1] * b[3] + a[2] * b[2] + a[3] * b[1] + c2 \div 256
        c4 == a[1] * b[4] + a[2] * b[3] + a[3] * b[2] + a[4] * b[1] + c3 \div 256
    IN <<c1 % 256, c2 % 256, c3 % 256, c4 % 256>>

LcgA == <<109, 78, 198, 65>>      \* 1103515245 = 0x41C64E6D
LcgC == <<57, 48, 0, 0>>          \* 12345

\* uint32(1 << uint32(h)): zero from h = 32 on
Pow2U32(h) == IF h >= 32 THEN <<0, 0, 0, 0>>
              ELSE [i \in 1..4 |-> IF (i - 1) = h \div 8 THEN 2 ^ (h % 8) ELSE 0]

\* x % 2^h for h <= 31, as an integer
ModPow2(x, h) ==
    LET full == h \div 8
        part == h % 8
        byteval(i) == IF i <= full THEN x[i] ELSE IF i = full + 1 THEN x[i] % (2 ^ part) ELSE 0
    IN byteval(1) + 256 * byteval(2) + 65536 * byteval(3) + 16777216 * byteval(4)

\* GetExpectedIndex(nonce, chainID, h); "panic" where the code divides by zero
Slot(nonce, chain) ==
    LET r1 == Add32(Mul32(nonce, LcgA), LcgC)
        r2 == Add32(r1, U32(chain))
    IN Add32(Mul32(r2, LcgA), LcgC)

ExpectedIndex(nonce, chain, h) == IF h >= 32 THEN -2 ELSE ModPow2(Slot(nonce, chain), h)   \* -2: panics

---------------------------------------------------------------------------
(* Symbolic hashes *)

Blk(i) == <<"blk", i>>
Sib(i) == <<"sib", i>>
PSib(i) == <<"psib", i>>
Junk(i) == <<"junk", i>>
Zero == <<"zero">>
H(l, r) == <<"H", l, r>>
Rev(x) == IF Len(x) = 2 /\ x[1] = "rev" THEN x[2] ELSE <<"rev", x>>
Cb(tokens) == <<"cb", tokens>>
CbNoInput == <<"cbnoin">>

\* GetMerkleRoot(hash, branch, index)
RECURSIVE EvalFrom(_, _, _, _)
EvalFrom(h, branch, index, k) ==
    IF k > Len(branch) THEN h
    ELSE EvalFrom(IF index % 2 = 1 THEN H(branch[k], h) ELSE H(h, branch[k]), branch, index \div 2, k + 1)
GetMerkleRoot(h, branch, index) == IF index = -1 THEN Zero ELSE EvalFrom(h, branch, index, 1)

---------------------------------------------------------------------------
(* The parent coinbase script: tokens and their hex digits *)

Mark == [t |-> "mark"]
Root(h) == [t |-> "root", h |-> h]
Word(b) == [t |-> "u32", b |-> b]            \* 4 bytes, little endian (size, nonce)
Fill(k) == [t |-> "fill", k |-> k]            \* k bytes 0x11
Nib(n) == [t |-> "nib", n |-> n]              \* raw hex digits

MarkHex == <<15, 10, 11, 14, 6, 13, 6, 13>>   \* fa be 6d 6d

\* distinct root terms of a case get distinct hex strings; all end in the
\* case's last digit
RootHex(h, terms, last) ==
    LET i == CHOOSE j \in 1..Len(terms) : terms[j] = h /\ \A l \in 1..(j - 1) : terms[l] # h
    IN <<1 + i, 3, 3, last>>

ByteHex(b) == <<b \div 16, b % 16>>

TokHex(tok, terms, last) ==
    CASE tok.t = "mark" -> MarkHex
      [] tok.t = "root" -> RootHex(tok.h, terms, last)
      [] tok.t = "u32"  -> ByteHex(tok.b[1]) \o ByteHex(tok.b[2]) \o ByteHex(tok.b[3]) \o ByteHex(tok.b[4])
      [] tok.t = "fill" -> [i \in 1..(2 * tok.k) |-> 1]
      [] tok.t = "nib"  -> tok.n

RECURSIVE ScriptHex(_, _, _)
ScriptHex(tokens, terms, last) ==
    IF tokens = <<>> THEN <<>>
    ELSE TokHex(Head(tokens), terms, last) \o ScriptHex(Tail(tokens), terms, last)

\* strings.Index: 0-based position of the first occurrence, -1 if none
IndexOf(s, pat) ==
    LET hits == {i \in 0..(Len(s) - Len(pat)) : SubSeq(s, i + 1, i + Len(pat)) = pat}
    IN IF hits = {} THEN -1 ELSE CHOOSE i \in hits : \A j \in hits : i <= j

\* bytes k..k+3 (0-based) of the script whose hex digits are s
WordAt(s, k) == [i \in 1..4 |-> 16 * s[2 * (k + i - 1) + 1] + s[2 * (k + i - 1) + 2]]

---------------------------------------------------------------------------
(* A proof, as handed to AuxPow.Check *)
(*   auxBranch, auxIndex, script (tokens; <<>> with hasIn = FALSE: a       *)
(*   coinbase without inputs), parBranch, parIndex, parRoot (header's      *)
(*   merkle root)                                                           *)

CbHash(p) == IF p.hasIn THEN Cb(p.script) ELSE CbNoInput

\* every aux root term that can occur in a case: what the procedure
\* computes, and what the script carries
RootTerms(p, blk) ==
    <<Rev(GetMerkleRoot(Rev(blk), p.auxBranch, p.auxIndex))>> \o
    SelectSeq([i \in 1..Len(p.script) |-> IF p.script[i].t = "root" THEN p.script[i].h ELSE Zero],
              LAMBDA x : x # Zero)

(* AuxPow.Check(hashAuxBlock, chainID), step by step.  Results: "accept",  *)
(* "reject", or "panic:<where>" where the code indexes out of range or     *)
(* divides by zero (known robustness defects, tracked under C03).          *)
Check(p, blk, chain, last) ==
    IF GetMerkleRoot(CbHash(p), p.parBranch, p.parIndex) # p.parRoot THEN "reject"
    ELSE IF ~p.hasIn THEN "panic:TxIn0"
    ELSE
    LET auxRoot == GetMerkleRoot(Rev(blk), p.auxBranch, p.auxIndex)
        terms == RootTerms(p, blk)
        s == ScriptHex(p.script, terms, last)
        rootStr == RootHex(Rev(auxRoot), terms, last)
        headerIndex == IndexOf(s, MarkHex)
        rootIndex == IndexOf(s, rootStr)
        h == Len(p.auxBranch)
    IN
    IF headerIndex = -1 \/ rootIndex = -1 THEN "reject"
    ELSE IF headerIndex % 2 # 0 THEN "reject"               \* the marker starts inside a byte
    ELSE IF IndexOf(SubSeq(s, headerIndex + 3, Len(s)), MarkHex) # -1 THEN "reject"     \* scriptStr[headerIndex+2:]
    ELSE IF headerIndex + Len(MarkHex) # rootIndex THEN "reject"
    ELSE LET r2 == rootIndex + RL
             k == r2 \div 2
             nbytes == Len(s) \div 2
         IN
         IF Len(s) - r2 < 8 THEN "reject"
         ELSE IF WordAt(s, k) # Pow2U32(h) THEN "reject"
         ELSE IF k + 8 > nbytes THEN "panic:nonce-read"     \* script[k+4 : k+8] after a 4-byte length check
         ELSE IF h >= 32 THEN "panic:GetExpectedIndex"      \* rand % (1 << 32) == rand % 0
         ELSE IF p.auxIndex # ExpectedIndex(WordAt(s, k + 4), chain, h) THEN "reject"
         ELSE "accept"

(* The property: the proof commits to block blk of chain `chain`.          *)
(*   - the parent coinbase lies under the parent header's merkle root;     *)
(*   - its script contains the marker exactly once, as whole bytes;        *)
(*   - the marker is immediately followed by an aux root, the tree size    *)
(*     and the nonce;                                                      *)
(*   - the aux root is the root of this block's (reversed) hash through    *)
(*     the aux branch at index auxIndex, the size is 2^len(branch) and     *)
(*     auxIndex is the slot derived from nonce and chain id.               *)
NibsBefore(tokens, k, terms, last) == Len(ScriptHex(SubSeq(tokens, 1, k - 1), terms, last))

Commits(p, blk, chain, last) ==
    /\ p.hasIn
    /\ GetMerkleRoot(CbHash(p), p.parBranch, p.parIndex) = p.parRoot
    /\ LET terms == RootTerms(p, blk)
           s == ScriptHex(p.script, terms, last)
           marks == {k \in 1..Len(p.script) : p.script[k].t = "mark"}
           \* byte-level occurrences of the marker anywhere in the script
           byteHits == {i \in 0..(Len(s) - 8) : i % 2 = 0 /\ SubSeq(s, i + 1, i + 8) = MarkHex}
           h == Len(p.auxBranch)
       IN /\ Cardinality(byteHits) = 1
          /\ \E k \in marks :
               /\ NibsBefore(p.script, k, terms, last) % 2 = 0
               /\ NibsBefore(p.script, k, terms, last) \in byteHits
               /\ k + 3 <= Len(p.script)
               /\ p.script[k + 1].t = "root"
               /\ p.script[k + 1].h = Rev(GetMerkleRoot(Rev(blk), p.auxBranch, p.auxIndex))
               /\ p.auxIndex # -1
               /\ p.script[k + 2].t = "u32" /\ h < 32 /\ p.script[k + 2].b = Pow2U32(h)
               /\ p.script[k + 3].t = "u32" /\ p.auxIndex = ExpectedIndex(p.script[k + 3].b, chain, h)

---------------------------------------------------------------------------
(* The valid proof for (h, nonce) and its single-field mutations *)

AuxBranch(h) == [i \in 1..h |-> Sib(i)]
ParBranch == <<PSib(1), PSib(2)>>

ValidIndex(h, nonce, chain) == IF h >= 32 THEN 0 ELSE ExpectedIndex(nonce, chain, h)
ValidRoot(b, h, nonce, chain) == Rev(GetMerkleRoot(Rev(b), AuxBranch(h), ValidIndex(h, nonce, chain)))

Commitment(b, h, nonce, chain) ==
    <<Mark, Root(ValidRoot(b, h, nonce, chain)), Word(Pow2U32(h)), Word(nonce)>>

ValidScript(b, h, nonce, chain) == <<Fill(2)>> \o Commitment(b, h, nonce, chain) \o <<Fill(1)>>

WithScript(p, script) ==     \* the coinbase carries `script`, the parent header is built for it
    [p EXCEPT !.script = script,
              !.parRoot = GetMerkleRoot(Cb(script), p.parBranch, p.parIndex)]

Valid(h, nonce) ==
    WithScript([auxBranch |-> AuxBranch(h), auxIndex |-> ValidIndex(h, nonce, ChainID), script |-> <<>>,
                hasIn |-> TRUE, parBranch |-> ParBranch, parIndex |-> 0, parRoot |-> Zero],
               ValidScript(Blk(0), h, nonce, ChainID))

OtherNonce(nonce) == Add32(nonce, <<1, 0, 0, 0>>)

\* hex digits that, read at byte offset floor(odd/2) across the end of a
\* root whose last digit is (2^h) \div 16, give size 2^h (h <= 7) and the nonce
CraftedTail(h, nonce) ==
    <<(2 ^ h) % 16, 0, 0, 0, 0, 0, 0>> \o        \* low digit of the size's first byte (its high digit is the root's last)
    SubSeq(ByteHex(nonce[1]) \o ByteHex(nonce[2]) \o ByteHex(nonce[3]) \o ByteHex(nonce[4]), 1, 8)

ScriptMutations == {
    "nomarker", "twomarkers_after", "twomarkers_before", "marker_gap", "root_before_marker", "root_twice",
    "wrongroot", "otherblock_root", "size_zero", "size_double", "size_half", "nonce_other",
    "trunc_0", "trunc_2", "trunc_4", "trunc_6", "mark_at_start", "no_trailing",
    "shift_all", "shift_crafted", "shift_marker_gap", "extra_misaligned_marker", "misaligned_marker_first",
    "misaligned_then_second"}

OtherMutations == {
    "none", "blockhash", "chainid", "otherblock_consistent", "branch_elem", "branch_drop", "branch_add",
    "auxindex_flip", "auxindex_minus1", "auxindex_high", "parbranch_elem", "parindex_1", "parroot",
    "stale_script", "parindex_minus1", "no_txin", "parindex_wire_allones"}

BigMutations == {"none", "size_zero", "size_one", "trunc_4", "blockhash", "branch_elem"}

MutatedScript(m, h, nonce) ==
    LET C == Commitment(Blk(0), h, nonce, ChainID)
        mk == C[1]  rt == C[2]  sz == C[3]  nc == C[4]
    IN CASE m = "nomarker"           -> <<Fill(2), rt, sz, nc, Fill(1)>>
         [] m = "twomarkers_after"   -> <<Fill(2), mk, rt, sz, nc, mk>>
         [] m = "twomarkers_before"  -> <<mk, Fill(1), mk, rt, sz, nc>>
         [] m = "marker_gap"         -> <<Fill(2), mk, Fill(1), rt, sz, nc>>
         [] m = "root_before_marker" -> <<Fill(2), rt, mk, sz, nc, Fill(1)>>
         [] m = "root_twice"         -> <<rt, Fill(1), mk, rt, sz, nc>>
         [] m = "wrongroot"          -> <<Fill(2), mk, Root(Junk(1)), sz, nc, Fill(1)>>
         [] m = "otherblock_root"    -> ValidScript(Blk(1), h, nonce, ChainID)
         [] m = "size_zero"          -> <<Fill(2), mk, rt, Word(<<0, 0, 0, 0>>), nc, Fill(1)>>
         [] m = "size_one"           -> <<Fill(2), mk, rt, Word(<<1, 0, 0, 0>>), nc, Fill(1)>>
         [] m = "size_double"        -> <<Fill(2), mk, rt, Word(Pow2U32(h + 1)), nc, Fill(1)>>
         [] m = "size_half"          -> <<Fill(2), mk, rt, Word(Pow2U32(h - 1)), nc, Fill(1)>>
         [] m = "nonce_other"        -> <<Fill(2), mk, rt, sz, Word(OtherNonce(nonce)), Fill(1)>>
         [] m = "trunc_0"            -> <<Fill(2), mk, rt>>
         [] m = "trunc_2"            -> <<Fill(2), mk, rt, Nib(SubSeq(TokHex(sz, <<>>, 0), 1, 4))>>
         [] m = "trunc_4"            -> <<Fill(2), mk, rt, sz>>
         [] m = "trunc_6"            -> <<Fill(2), mk, rt, sz, Nib(SubSeq(TokHex(nc, <<>>, 0), 1, 4))>>
         [] m = "mark_at_start"      -> <<mk, rt, sz, nc, Fill(1)>>
         [] m = "no_trailing"        -> <<Fill(2), mk, rt, sz, nc>>
         \* everything moved by half a byte
         [] m = "shift_all"          -> <<Fill(1), Nib(<<0>>), mk, rt, sz, nc, Nib(<<1>>)>>
         \* ... and the digits after the root arranged for the byte-level read
         [] m = "shift_crafted"      -> <<Fill(1), Nib(<<0>>), mk, rt, Nib(CraftedTail(h, nonce))>>
         [] m = "shift_marker_gap"   -> <<Fill(1), Nib(<<0>>), mk, Nib(<<0>>), rt, sz, nc>>
         \* a valid commitment plus a marker that exists only in the hex string
         [] m = "extra_misaligned_marker" -> <<Fill(2), mk, rt, sz, nc, Nib(<<0>>), mk, Nib(<<1>>)>>
         [] m = "misaligned_marker_first" -> <<Nib(<<0>>), mk, Nib(<<1>>), mk, rt, sz, nc>>
         \* two genuine commitments, the marker digits also occur off the byte grid between them
         [] m = "misaligned_then_second"  -> <<Fill(2), mk, rt, sz, nc, Nib(<<0>>), mk, Nib(<<1>>), mk, rt, sz, nc>>

\* [p, blk, chain]: the proof and the arguments of Check
Mutate(m, h, nonce, arg) ==
    LET v == Valid(h, nonce)
        call(p) == [p |-> p, blk |-> Blk(0), chain |-> ChainID]
    IN
    CASE m \in ScriptMutations \cup {"size_one"} -> call(WithScript(v, MutatedScript(m, h, nonce)))
      [] m = "none"            -> call(v)
      [] m = "blockhash"       -> [p |-> v, blk |-> Blk(1), chain |-> ChainID]
      [] m = "chainid"         -> [p |-> v, blk |-> Blk(0), chain |-> OtherChainID]
      [] m = "otherblock_consistent" ->
             [p |-> WithScript(v, ValidScript(Blk(1), h, nonce, ChainID)), blk |-> Blk(1), chain |-> ChainID]
      [] m = "branch_elem"     -> call([v EXCEPT !.auxBranch[arg] = Junk(2)])
      [] m = "branch_drop"     -> call([v EXCEPT !.auxBranch = SubSeq(@, 1, h - 1)])
      [] m = "branch_add"      -> call([v EXCEPT !.auxBranch = Append(@, Junk(2))])
      [] m = "auxindex_flip"   -> call([v EXCEPT !.auxIndex = IF (@ \div 2 ^ (arg - 1)) % 2 = 1 THEN @ - 2 ^ (arg - 1)
                                                                                               ELSE @ + 2 ^ (arg - 1)])
      [] m = "auxindex_minus1" -> call([v EXCEPT !.auxIndex = -1])
      [] m = "auxindex_high"   -> call([v EXCEPT !.auxIndex = @ + 2 ^ h])
      [] m = "parbranch_elem"  -> call([v EXCEPT !.parBranch[arg] = Junk(3)])
      [] m = "parindex_1"      -> call([v EXCEPT !.parIndex = 1])
      [] m = "parroot"         -> call([v EXCEPT !.parRoot = Junk(4)])
      [] m = "stale_script"    -> call([v EXCEPT !.script = MutatedScript("nonce_other", h, nonce)])
      [] m = "parindex_minus1" -> call([v EXCEPT !.parIndex = -1])
      \* as received from the wire: index field 0xffffffff (an unsigned 32-bit value; only its low
      \* Len(parBranch) bits steer the evaluation, so 3 stands for it here) under an all-zero parent root.
      \* The driver sends this one through Serialize / Deserialize.
      [] m = "parindex_wire_allones" -> call([v EXCEPT !.parIndex = 3, !.parRoot = Zero])
      [] m = "no_txin"         -> call([v EXCEPT !.hasIn = FALSE, !.script = <<>>,
                                                 !.parRoot = GetMerkleRoot(CbNoInput, v.parBranch, v.parIndex)])

MutArgs(m, h) ==
    CASE m = "branch_elem"    -> 1..h
      [] m = "branch_drop"    -> IF h > 0 THEN {0} ELSE {}
      [] m = "auxindex_flip"  -> 1..(IF h = 0 THEN 1 ELSE IF h > 3 THEN 1 ELSE h)
      [] m = "parbranch_elem" -> 1..2
      [] m = "size_half"      -> IF h > 0 THEN {0} ELSE {}
      [] OTHER                -> {0}

---------------------------------------------------------------------------

NoRes == [done |-> FALSE]

Init == /\ \/ \E h \in Heights, nonce \in Nonces, last \in LastDigits, m \in ScriptMutations \cup OtherMutations :
                \E a \in MutArgs(m, h) : case = [h |-> h, nonce |-> nonce, last |-> last, mut |-> m, arg |-> a]
           \/ \E h \in BigHeights, nonce \in Nonces, m \in BigMutations :
                \E a \in (IF m = "branch_elem" THEN {1, h} ELSE {0}) :
                   case = [h |-> h, nonce |-> nonce, last |-> 3, mut |-> m, arg |-> a]
        /\ res = NoRes
        /\ log = <<>>

Outcome(c) ==
    LET x == Mutate(c.mut, c.h, c.nonce, c.arg)
        terms == RootTerms(x.p, x.blk)
    IN [done |-> TRUE, proof |-> x.p, blk |-> x.blk, chain |-> x.chain,
        check |-> Check(x.p, x.blk, x.chain, c.last),
        commits |-> Commits(x.p, x.blk, x.chain, c.last),
        validroot |-> ValidRoot(Blk(0), c.h, c.nonce, ChainID),
        slot |-> Slot(c.nonce, x.chain),
        expidx |-> ExpectedIndex(c.nonce, x.chain, c.h),
        scripthexlen |-> Len(ScriptHex(x.p.script, terms, c.last)),
        markhits |-> LET s == ScriptHex(x.p.script, terms, c.last)
                     IN Cardinality({i \in 0..(Len(s) - 8) : SubSeq(s, i + 1, i + 8) = MarkHex})]

Decide == /\ ~res.done
          /\ res' = Outcome(case)
          /\ UNCHANGED case
          /\ log' = Append(log, [act |-> "Case", args |-> case, exp |-> res'])

Next == Decide
Spec == Init /\ [][Next]_vars

---------------------------------------------------------------------------
(* Properties *)

\* C10: a proof the procedure accepts commits to the block.
AcceptedCommits == (res.done /\ res.check = "accept") => res.commits

\* the unmutated proof is accepted (the enumeration is not vacuous), and so
\* is a proof consistently rebuilt for another block
ValidAccepted == (res.done /\ case.mut \in {"none", "otherblock_consistent", "mark_at_start", "no_trailing"}
                           /\ case.h < 32) => res.check = "accept"

\* every mutation that changes what is committed is refused (or hits one of
\* the known out-of-range reads)
MutationsRefused ==
    (res.done /\ case.mut \in {"blockhash", "branch_elem", "branch_add", "branch_drop", "auxindex_minus1",
                               "auxindex_high", "nomarker", "twomarkers_after", "twomarkers_before",
                               "marker_gap", "root_before_marker", "root_twice", "wrongroot", "auxindex_flip", "otherblock_root",
                               "size_zero", "size_double", "size_half", "trunc_0", "trunc_2",
                               "shift_all", "shift_crafted", "shift_marker_gap", "extra_misaligned_marker",
                               "misaligned_marker_first", "misaligned_then_second", "parbranch_elem", "parindex_1", "parroot",
                               "stale_script", "parindex_minus1", "parindex_wire_allones"} /\ case.h < 32)
        => res.check = "reject"

\* scripts are whole bytes
WholeBytes == res.done => res.scripthexlen % 2 = 0

Emit == PrintT(<<"TRACE", ToJson(log')>>)
=============================================================================
