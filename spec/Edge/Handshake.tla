------------------------------ MODULE Handshake ------------------------------
(***************************************************************************)
(* Life cycle of a P2P connection as p2p/peer/peer.go implements it (X01): *)
(* version / verack negotiation of an inbound and an outbound peer, ping / *)
(* pong keep-alive, timeouts, disconnect, and what the user of the package *)
(* sees through Config.MessageFunc.                                        *)
(*                                                                         *)
(* Two peers "A" and "B" are joined by two FIFO channels chan[p] (messages *)
(* written by p, read by Other(p)).  A peer's role is                      *)
(*   "out"  NewOutboundPeer: writes its version first, then reads,         *)
(*   "in"   NewInboundPeer : reads a version first, then writes its own,   *)
(*   "raw"  no peer object at all: an arbitrary remote that writes any     *)
(*          message in any order (the adversary of the scripted runs).     *)
(*                                                                         *)
(* One action per step of the goroutines of the code:                      *)
(*   start()/negotiate*Protocol : NegWriteVersion, NegRead, NegVersion,    *)
(*                                NegRefuse, NegReject, NegRejected,       *)
(*                                NegIOErr, NegTimeout                     *)
(*   inHandler                  : InRead, InSwitch, InDeliver, InReadErr,  *)
(*                                InRejectDone, IdleTimeout                *)
(*   outHandler                 : OutSend, OutWriteErr                     *)
(*   user of the package        : UserPing (QueueMessage, what pingHandler *)
(*                                does on its ticker), UserDisconnect      *)
(* Every action but InSwitch is one observable event of a recorded run (a  *)
(* message written to / completely read from the connection, a MessageFunc *)
(* call, the connection being closed by Disconnect), see TraceHandshake.   *)
(*                                                                         *)
(* Named deviations (behaviour of a defective implementation; FALSE for    *)
(* the code the properties are claimed for):                               *)
(*   DevRejectNil   readRemoteVersionMsg returns the (nil) result of       *)
(*                  writing the reject for a non-version first message, so *)
(*                  the negotiation "succeeds" without a version           *)
(*   DevNoNonceReg  the nonce of the local version message is not entered  *)
(*                  into the node's table of sent nonces                   *)
(***************************************************************************)
EXTENDS Integers, Sequences, FiniteSets, TLC

CONSTANTS Setups,        \* set of <<role of A, role of B>>
          Vers,          \* protocol versions a peer may be configured with
          UpVer,         \* version advertised instead once the chain passed NewVersionHeight (0: never)
          SameNode,      \* SUBSET BOOLEAN: A and B may belong to one node (self connection)
          MaxChan,       \* bound on messages in flight per direction
          MaxPing,       \* pings a user / the ping ticker queues per peer
          MaxRaw,        \* messages a raw remote writes
          Timeouts,      \* BOOLEAN: negotiate / idle timers may fire
          UserDisc,      \* BOOLEAN: the user may call Disconnect
          DevRejectNil, DevNoNonceReg

Peers == {"A", "B"}
Other(p) == IF p = "A" THEN "B" ELSE "A"
Height == [p \in Peers |-> IF p = "A" THEN 1 ELSE 2]     \* BestHeight() of the peer's node

Min(a, b) == IF a < b THEN a ELSE b

Msg(k, a, b) == [k |-> k, a |-> a, b |-> b]
NoMsg == Msg("none", 0, "")
\* kinds: version(a = protocol version, b = nonce)  verack  ping(a = height)  pong(a = height)
\*        reject(b = rejected command)  other (any message of the layer above)  bad (a frame the
\*        reader refuses: checksum / length / unknown command)

VARIABLES role, cfgVer, adv, same,     \* the set-up (constant during a run)
          chan,                        \* [Peers -> Seq(Msg)]
          reg,                         \* [node -> set of nonces entered by GetVersionNonce]
          negpc,                       \* negotiation goroutine: "wv1" "rv" "hv" "wv2" "rej" "done" "fail"
          started,                     \* the five handler goroutines run
          inpc,                        \* inHandler: "read" "handle" "deliver" "waitrej" "exit"
          cur,                         \* message read and not yet handled
          outq,                        \* output queue (outputQueue / pendingMsgs / sendQueue)
          rejWait,                     \* inHandler waits for its reject to be written
          disc,                        \* Peer.disconnect # 0 (the connection is closed with it)
          versionKnown, verAck, protoVer, advSeen, id, lastH,     \* the flags of Peer
          early, late, nVerack, sentAny, readAny,                  \* history (properties only)
          pings, raws

pvars == <<versionKnown, verAck, protoVer, advSeen, id, lastH>>
hvars == <<early, late, nVerack, sentAny, readAny>>
setup == <<role, cfgVer, adv, same>>
vars  == <<setup, chan, reg, negpc, started, inpc, cur, outq, rejWait, disc, pvars, hvars, pings, raws>>

Node(p) == IF same THEN "S" ELSE p
Honest(p) == role[p] # "raw"
Nonce(p) == p                          \* the nonce a peer object draws for its version message

Init ==
    /\ \E s \in Setups : role = [p \in Peers |-> IF p = "A" THEN s[1] ELSE s[2]]
    /\ cfgVer \in [Peers -> Vers]
    /\ adv \in [Peers -> Vers \cup (IF UpVer = 0 THEN {} ELSE {UpVer})]
    /\ \A p \in Peers : adv[p] = cfgVer[p] \/ (UpVer # 0 /\ adv[p] = UpVer)
    /\ same \in SameNode
    /\ same => \A p \in Peers : Honest(p)
    /\ chan = [p \in Peers |-> <<>>]
    /\ reg = [n \in {"A", "B", "S"} |-> {}]
    /\ negpc = [p \in Peers |-> CASE role[p] = "out" -> "wv1" [] role[p] = "in" -> "rv" [] OTHER -> "done"]
    /\ started = [p \in Peers |-> FALSE]
    /\ inpc = [p \in Peers |-> "read"]
    /\ cur = [p \in Peers |-> NoMsg]
    /\ outq = [p \in Peers |-> <<>>]
    /\ rejWait = [p \in Peers |-> FALSE]
    /\ disc = [p \in Peers |-> FALSE]
    /\ versionKnown = [p \in Peers |-> FALSE]
    /\ verAck = [p \in Peers |-> FALSE]
    /\ protoVer = cfgVer                      \* newPeerBase: protocolVersion = cfg.ProtocolVersion
    /\ advSeen = [p \in Peers |-> 0]
    /\ id = [p \in Peers |-> ""]
    /\ lastH = [p \in Peers |-> 0]
    /\ early = [p \in Peers |-> FALSE]
    /\ late = [p \in Peers |-> 0]
    /\ nVerack = [p \in Peers |-> 0]
    /\ sentAny = [p \in Peers |-> FALSE]
    /\ readAny = [p \in Peers |-> FALSE]
    /\ pings = [p \in Peers |-> 0]
    /\ raws = [p \in Peers |-> 0]

---------------------------------------------------------------------------
(* helpers *)

Put(p, m) == /\ Len(chan[p]) < MaxChan
             /\ chan' = [chan EXCEPT ![p] = Append(@, m)]
             /\ sentAny' = [sentAny EXCEPT ![p] = TRUE]

Take(p) == LET q == Other(p) IN
           /\ chan[q] # <<>>
           /\ cur' = [cur EXCEPT ![p] = Head(chan[q])]
           /\ chan' = [chan EXCEPT ![q] = Tail(@)]
           /\ readAny' = [readAny EXCEPT ![p] = TRUE]

\* Peer.Disconnect(): the flag, conn.Close(), close(quit)
Close(p) == disc' = [disc EXCEPT ![p] = TRUE]

\* Config.MessageFunc is called with message m
Deliver(p, m) ==
    /\ early' = [early EXCEPT ![p] = @ \/ (m.k # "version" /\ ~versionKnown[p])]
    /\ late' = [late EXCEPT ![p] = IF disc[p] THEN @ + 1 ELSE @]
    /\ nVerack' = [nVerack EXCEPT ![p] = IF m.k = "verack" THEN @ + 1 ELSE @]

\* the negotiation returned nil: start() launches the handlers and queues the verack
NegNext(p) == IF role[p] = "in" /\ negpc[p] # "wv2" THEN "wv2" ELSE "done"
StartIf(p, pc) ==
    /\ negpc' = [negpc EXCEPT ![p] = pc]
    /\ started' = [started EXCEPT ![p] = (pc = "done")]
    /\ outq' = [outq EXCEPT ![p] = IF pc = "done" THEN <<Msg("verack", 0, "")>> ELSE @]

---------------------------------------------------------------------------
(* start(): negotiateInboundProtocol / negotiateOutboundProtocol *)

(* writeLocalVersionMsg: localVersionMsg draws the nonce, writeMessage.  (A *)
(* write into a connection the remote side has just closed is possible: the *)
(* bytes are lost, the failure shows at this or at the next operation.)     *)
NegWriteVersion(p) ==
    /\ Honest(p) /\ negpc[p] \in {"wv1", "wv2"} /\ ~disc[p]
    /\ Put(p, Msg("version", adv[p], Nonce(p)))
    /\ reg' = IF DevNoNonceReg THEN reg ELSE [reg EXCEPT ![Node(p)] = @ \cup {Nonce(p)}]
    /\ IF negpc[p] = "wv1"
       THEN negpc' = [negpc EXCEPT ![p] = "rv"] /\ UNCHANGED <<started, outq>>
       ELSE StartIf(p, "done")
    /\ UNCHANGED <<setup, inpc, cur, rejWait, disc, pvars, early, late, nVerack, readAny, pings, raws>>

(* readRemoteVersionMsg: p.readMessage() returned a message *)
NegRead(p) ==
    /\ Honest(p) /\ negpc[p] = "rv" /\ ~disc[p]
    /\ Take(p)
    /\ negpc' = [negpc EXCEPT ![p] = "hv"]
    /\ UNCHANGED <<setup, reg, started, inpc, outq, rejWait, disc, pvars, early, late, nVerack, sentAny, pings, raws>>

(* the write or the read of the negotiation fails because the remote side   *)
(* closed the connection: start() returns the error, Disconnect             *)
NegIOErr(p) ==
    /\ Honest(p) /\ negpc[p] \in {"wv1", "wv2", "rv"} /\ ~disc[p] /\ disc[Other(p)]
    /\ Close(p)
    /\ negpc' = [negpc EXCEPT ![p] = "fail"]
    /\ UNCHANGED <<setup, chan, reg, started, inpc, cur, outq, rejWait, pvars, hvars, pings, raws>>

(* the message read is a version: handleRemoteVersionMsg, then MessageFunc  *)
NegVersion(p) ==
    /\ Honest(p) /\ negpc[p] = "hv" /\ cur[p].k = "version"
    /\ cur[p].b \notin reg[Node(p)]                   \* IsSelfConnection
    /\ versionKnown' = [versionKnown EXCEPT ![p] = TRUE]
    /\ advSeen' = [advSeen EXCEPT ![p] = cur[p].a]
    /\ protoVer' = [protoVer EXCEPT ![p] = Min(@, cur[p].a)]
    /\ id' = [id EXCEPT ![p] = cur[p].b]
    /\ Deliver(p, cur[p])
    /\ cur' = [cur EXCEPT ![p] = NoMsg]
    /\ IF disc[p] THEN negpc' = [negpc EXCEPT ![p] = "fail"] /\ UNCHANGED <<started, outq>>
                  ELSE StartIf(p, NegNext(p))
    /\ UNCHANGED <<setup, chan, reg, inpc, rejWait, disc, verAck, lastH, sentAny, readAny, pings, raws>>

(* ... a version carrying a nonce this node sent (self connection), or a    *)
(* frame the reader refused: the negotiation fails, Disconnect              *)
NegRefuse(p) ==
    /\ Honest(p) /\ negpc[p] = "hv" /\ ~disc[p]
    /\ \/ cur[p].k = "version" /\ cur[p].b \in reg[Node(p)]
       \/ cur[p].k = "bad"
    /\ Close(p)
    /\ negpc' = [negpc EXCEPT ![p] = "fail"]
    /\ cur' = [cur EXCEPT ![p] = NoMsg]
    /\ UNCHANGED <<setup, chan, reg, started, inpc, outq, rejWait, pvars, hvars, pings, raws>>

(* ... any other message: "A version message must precede all others", a    *)
(* reject is written                                                        *)
NegReject(p) ==
    /\ Honest(p) /\ negpc[p] = "hv" /\ ~disc[p]
    /\ cur[p].k \notin {"version", "bad"}
    /\ Put(p, Msg("reject", 0, cur[p].k))
    /\ cur' = [cur EXCEPT ![p] = NoMsg]
    /\ IF DevRejectNil THEN StartIf(p, NegNext(p))
                       ELSE negpc' = [negpc EXCEPT ![p] = "rej"] /\ UNCHANGED <<started, outq>>
    /\ UNCHANGED <<setup, reg, inpc, rejWait, disc, pvars, early, late, nVerack, readAny, pings, raws>>

(* ... and the negotiation fails: Disconnect                                *)
NegRejected(p) ==
    /\ Honest(p) /\ negpc[p] = "rej" /\ ~disc[p]
    /\ Close(p)
    /\ negpc' = [negpc EXCEPT ![p] = "fail"]
    /\ UNCHANGED <<setup, chan, reg, started, inpc, cur, outq, rejWait, pvars, hvars, pings, raws>>

(* time.After(negotiateTimeout) in start()                                  *)
NegTimeout(p) ==
    /\ Timeouts /\ Honest(p) /\ ~disc[p]
    /\ negpc[p] \in {"wv1", "rv", "hv", "wv2", "rej"}
    /\ Close(p)
    /\ UNCHANGED <<setup, chan, reg, negpc, started, inpc, cur, outq, rejWait, pvars, hvars, pings, raws>>

---------------------------------------------------------------------------
(* inHandler *)

Queue(p, m) == outq' = [outq EXCEPT ![p] = IF disc[p] THEN @ ELSE Append(@, m)]   \* QueueMessage drops unless Connected()

(* p.readMessage() returned.  A second version message and a frame the     *)
(* reader refuses are answered with a reject the handler waits for.        *)
InRead(p) ==
    /\ Honest(p) /\ started[p] /\ inpc[p] = "read" /\ ~disc[p]
    /\ Take(p)
    /\ LET m == Head(chan[Other(p)]) IN
       IF m.k \in {"version", "bad"}
       THEN /\ inpc' = [inpc EXCEPT ![p] = "waitrej"]
            /\ rejWait' = [rejWait EXCEPT ![p] = TRUE]
            /\ Queue(p, Msg("reject", 0, m.k))
       ELSE /\ inpc' = [inpc EXCEPT ![p] = "handle"]
            /\ UNCHANGED <<rejWait, outq>>
    /\ UNCHANGED <<setup, reg, negpc, started, disc, pvars, early, late, nVerack, sentAny, pings, raws>>

(* the read fails because the remote side closed: the loop ends, Disconnect *)
InReadErr(p) ==
    /\ Honest(p) /\ started[p] /\ inpc[p] = "read" /\ ~disc[p] /\ disc[Other(p)]
    /\ Close(p)
    /\ inpc' = [inpc EXCEPT ![p] = "exit"]
    /\ UNCHANGED <<setup, chan, reg, negpc, started, cur, outq, rejWait, pvars, hvars, pings, raws>>

(* the switch of inHandler: a second verack ends the loop (Disconnect);     *)
(* otherwise the flags are set and a ping is answered ...                   *)
InSwitch(p) ==
    /\ Honest(p) /\ started[p] /\ inpc[p] = "handle"
    /\ LET m == cur[p] IN
       IF m.k = "verack" /\ verAck[p]
       THEN \* "Already received 'verack'"
            /\ ~disc[p]
            /\ Close(p)
            /\ inpc' = [inpc EXCEPT ![p] = "exit"]
            /\ cur' = [cur EXCEPT ![p] = NoMsg]
            /\ UNCHANGED <<outq, pvars>>
       ELSE /\ verAck' = [verAck EXCEPT ![p] = @ \/ m.k = "verack"]
            /\ lastH' = [lastH EXCEPT ![p] = IF m.k \in {"ping", "pong"} THEN m.a ELSE @]
            /\ IF m.k = "ping" THEN Queue(p, Msg("pong", Height[p], "")) ELSE UNCHANGED outq
            /\ inpc' = [inpc EXCEPT ![p] = "deliver"]
            /\ UNCHANGED <<disc, cur, versionKnown, protoVer, advSeen, id>>
    /\ UNCHANGED <<setup, chan, reg, negpc, started, rejWait, hvars, pings, raws>>

(* ... and handleMessage passes the message to Config.MessageFunc           *)
InDeliver(p) ==
    /\ Honest(p) /\ started[p] /\ inpc[p] = "deliver"
    /\ Deliver(p, cur[p])
    /\ inpc' = [inpc EXCEPT ![p] = "read"]
    /\ cur' = [cur EXCEPT ![p] = NoMsg]
    /\ UNCHANGED <<setup, chan, reg, negpc, started, outq, rejWait, disc, pvars, sentAny, readAny, pings, raws>>

(* the reject was written (or dropped): the loop ends, Disconnect           *)
InRejectDone(p) ==
    /\ Honest(p) /\ inpc[p] = "waitrej" /\ ~rejWait[p] /\ ~disc[p]
    /\ Close(p)
    /\ inpc' = [inpc EXCEPT ![p] = "exit"]
    /\ UNCHANGED <<setup, chan, reg, negpc, started, cur, outq, rejWait, pvars, hvars, pings, raws>>

(* idleTimer: armed while the handler waits for the next message            *)
IdleTimeout(p) ==
    /\ Timeouts /\ Honest(p) /\ started[p] /\ inpc[p] = "read" /\ ~disc[p]
    /\ Close(p)
    /\ UNCHANGED <<setup, chan, reg, negpc, started, inpc, cur, outq, rejWait, pvars, hvars, pings, raws>>

---------------------------------------------------------------------------
(* outHandler *)

OutSend(p) ==
    /\ Honest(p) /\ started[p] /\ outq[p] # <<>> /\ ~disc[p]
    /\ Put(p, Head(outq[p]))
    /\ outq' = [outq EXCEPT ![p] = Tail(@)]
    /\ rejWait' = [rejWait EXCEPT ![p] = @ /\ Head(outq[p]).k # "reject"]
    /\ UNCHANGED <<setup, reg, negpc, started, inpc, cur, disc, pvars, early, late, nVerack, readAny, pings, raws>>

(* writeMessage fails (the remote side closed; the message may or may not   *)
(* have been handed to the connection before): Disconnect                   *)
OutWriteErr(p) ==
    /\ Honest(p) /\ started[p] /\ ~disc[p] /\ disc[Other(p)]
    /\ Close(p)
    /\ rejWait' = [rejWait EXCEPT ![p] = FALSE]
    /\ UNCHANGED <<setup, chan, reg, negpc, started, inpc, cur, outq, pvars, hvars, pings, raws>>

---------------------------------------------------------------------------
(* the user of the package *)

(* QueueMessage(NewPing(BestHeight())) -- what pingHandler does on its tick *)
UserPing(p) ==
    /\ Honest(p) /\ started[p] /\ pings[p] < MaxPing
    /\ pings' = [pings EXCEPT ![p] = @ + 1]
    /\ Queue(p, Msg("ping", Height[p], ""))
    /\ UNCHANGED <<setup, chan, reg, negpc, started, inpc, cur, rejWait, disc, pvars, hvars, raws>>

UserDisconnect(p) ==
    /\ UserDisc /\ Honest(p) /\ ~disc[p]
    /\ Close(p)
    /\ rejWait' = [rejWait EXCEPT ![p] = FALSE]
    /\ UNCHANGED <<setup, chan, reg, negpc, started, inpc, cur, outq, pvars, hvars, pings, raws>>

---------------------------------------------------------------------------
(* a raw remote: writes anything, reads everything, may close *)

SeenNonces(p) == {cur[p].b} \ {""}       \* a raw remote remembers the nonce of the last version it read

RawMsgs(p) == {Msg("version", v, n) : v \in Vers, n \in {"R"} \cup SeenNonces(p)}
                \cup {Msg("verack", 0, ""), Msg("ping", 7, ""), Msg("pong", 7, ""),
                      Msg("other", 0, ""), Msg("bad", 0, "")}

RawSend(p, m) ==
    /\ role[p] = "raw" /\ ~disc[p] /\ raws[p] < MaxRaw
    /\ raws' = [raws EXCEPT ![p] = @ + 1]
    /\ Put(p, m)
    /\ UNCHANGED <<setup, reg, negpc, started, inpc, cur, outq, rejWait, disc, pvars, early, late, nVerack, readAny, pings>>

RawRead(p) ==
    /\ role[p] = "raw" /\ ~disc[p]
    /\ chan[Other(p)] # <<>>
    /\ cur' = [cur EXCEPT ![p] = IF Head(chan[Other(p)]).k = "version" THEN Head(chan[Other(p)]) ELSE @]
    /\ chan' = [chan EXCEPT ![Other(p)] = Tail(@)]
    /\ UNCHANGED <<setup, reg, negpc, started, inpc, outq, rejWait, disc, pvars, hvars, pings, raws>>

RawClose(p) ==
    /\ role[p] = "raw" /\ ~disc[p]
    /\ Close(p)
    /\ UNCHANGED <<setup, chan, reg, negpc, started, inpc, cur, outq, rejWait, pvars, hvars, pings, raws>>

---------------------------------------------------------------------------
Next == \E p \in Peers :
          \/ NegWriteVersion(p) \/ NegRead(p) \/ NegIOErr(p) \/ NegVersion(p) \/ NegRefuse(p)
          \/ NegReject(p) \/ NegRejected(p) \/ NegTimeout(p)
          \/ InRead(p) \/ InReadErr(p) \/ InSwitch(p) \/ InDeliver(p) \/ InRejectDone(p) \/ IdleTimeout(p)
          \/ OutSend(p) \/ OutWriteErr(p)
          \/ UserPing(p) \/ UserDisconnect(p)
          \/ \E m \in RawMsgs(p) : RawSend(p, m)
          \/ RawRead(p) \/ RawClose(p)

Spec == Init /\ [][Next]_vars

\* fairness of the protocol steps (not of timers, users, raw remotes): liveness runs
Fair == \A p \in Peers :
          /\ WF_vars(NegWriteVersion(p)) /\ WF_vars(NegRead(p)) /\ WF_vars(NegVersion(p))
          /\ WF_vars(InRead(p)) /\ WF_vars(InSwitch(p)) /\ WF_vars(InDeliver(p)) /\ WF_vars(OutSend(p))
FairSpec == Spec /\ Fair

---------------------------------------------------------------------------
(* Properties *)

Kinds == {"version", "verack", "ping", "pong", "reject", "other", "bad", "none"}

TypeOK ==
    /\ \A p \in Peers :
         /\ role[p] \in {"out", "in", "raw"}
         /\ negpc[p] \in {"wv1", "rv", "hv", "wv2", "rej", "done", "fail"}
         /\ inpc[p] \in {"read", "handle", "deliver", "waitrej", "exit"}
         /\ cur[p].k \in Kinds
         /\ Len(chan[p]) <= MaxChan
         /\ late[p] \in 0..2 /\ nVerack[p] \in 0..2
    /\ disc \in [Peers -> BOOLEAN] /\ started \in [Peers -> BOOLEAN]

Established(p) == versionKnown[p] /\ verAck[p]

\* the handshake is reported done (the verack reaches MessageFunc, VerAckReceived()) only after
\* the remote version has been received as well ...
HandshakeOrder == \A p \in Peers : verAck[p] => versionKnown[p]
\* ... and the handlers (hence the local verack, pings, everything of the layer above) run only
\* for a peer whose version is known
StartedOnlyWithVersion == \A p \in Peers : started[p] => versionKnown[p]
\* nothing but a version message reaches MessageFunc before the version is known
NothingBeforeVersion == \A p \in Peers : ~early[p]

\* negotiated version = min(own configured version, version the remote advertised)
NegotiatedIsMin ==
    \A p \in Peers : versionKnown[p] =>
        /\ protoVer[p] = Min(cfgVer[p], advSeen[p])
        /\ Honest(Other(p)) => advSeen[p] = adv[Other(p)]
\* and both sides agree on it when each advertises what it is configured with
NegotiatedAgree ==
    (\A p \in Peers : Honest(p) /\ versionKnown[p] /\ adv[p] = cfgVer[p]) =>
        /\ protoVer["A"] = protoVer["B"]
        /\ protoVer["A"] = Min(cfgVer["A"], cfgVer["B"])
\* (the asymmetry the code has when adv # cfgVer, kept visible)
NegotiatedAgreeAlways ==
    (\A p \in Peers : Honest(p) /\ versionKnown[p]) => protoVer["A"] = protoVer["B"]

\* a connection of a node to itself is never established: the version of a peer whose nonce this
\* node sent is never accepted
NoSelfConnection ==
    /\ same => \A p \in Peers : ~versionKnown[p]
    /\ \A p \in Peers : versionKnown[p] => id[p] \notin reg[Node(p)]

\* who speaks first: an inbound peer writes nothing before it has read a message
InboundSpeaksSecond == \A p \in Peers : (role[p] = "in" /\ sentAny[p]) => readAny[p]

\* a second verack never reaches the handler
OneVerack == \A p \in Peers : nVerack[p] <= 1

\* after Disconnect: at most the one message that was being handled is still delivered ...
LateDelivery == \A p \in Peers : late[p] <= 1
\* ... nothing is read from and nothing is written to the connection any more
QuietAfterDisconnect ==
    [][\A p \in Peers : (Honest(p) /\ disc[p]) =>
          /\ Len(chan'[p]) <= Len(chan[p])
          /\ Len(chan'[Other(p)]) >= Len(chan[Other(p)])
          /\ disc'[p]]_vars

\* what was negotiated never changes afterwards (a second version message does not renegotiate)
Frozen ==
    [][\A p \in Peers : versionKnown[p] =>
          /\ versionKnown'[p] /\ protoVer'[p] = protoVer[p] /\ id'[p] = id[p]
          /\ advSeen'[p] = advSeen[p]]_vars
\* the verack flag is monotone
VerAckMonotone == [][\A p \in Peers : verAck[p] => verAck'[p]]_vars

\* Non-vacuity: two correct peers can complete the handshake ... (checked as an invariant that
\* TLC must refute)
BothEstablished == \A p \in Peers : Established(p) /\ ~disc[p]
NeverBothEstablished == ~BothEstablished
NeverPong == \A p \in Peers : lastH[p] = 0
\* ... and, with fair protocol steps and neither timers nor users nor a remote closing, they do
EventuallyEstablished == <>[]BothEstablished

view == vars
=============================================================================
