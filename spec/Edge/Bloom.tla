------------------------------- MODULE Bloom -------------------------------
(***************************************************************************)
(* Bloom filters have no false negatives (property C39):                   *)
(* elanet/bloom/filter.go Add / AddHash / AddOutPoint / Matches /          *)
(* MatchesOutPoint / MatchTxAndUpdate and txfilter.go.                     *)
(*                                                                         *)
(* The only sound abstraction of a bloom filter is the SET OF ITEMS ADDED  *)
(* to it: the filter answers "maybe" for everything in the set (and for    *)
(* unknown other things).  So the spec is a one-sided oracle: where it     *)
(* says "must match" the real filter must answer true, whatever its size,  *)
(* number of hash functions and tweak; where it says nothing, any answer   *)
(* is fine.                                                                *)
(*                                                                         *)
(* Items: program hashes (the data element of an output), transaction ids, *)
(* outpoints.  Transactions are fixed templates (outputs paying program    *)
(* hashes, inputs spending outpoints, some of them outputs of earlier      *)
(* templates, so that "follow the money" chains exist).                    *)
(*                                                                         *)
(* MatchTx is MatchTxAndUpdate as the protocol (BIP 37) specifies it:      *)
(* match on the transaction id, on the data of any output -- then the      *)
(* output's outpoint is added to the filter according to the update mode   *)
(* (none / all / pay-to-pubkey and multisig only) -- and on any spent      *)
(* outpoint.                                                               *)
(*                                                                         *)
(* Side-chain mode.  The protocol reserves tweak 0xFFFFFFFF for "side chain *)
(* SPV filters": such a filter carries a list of transaction types and,   *)
(* optionally, a bit array of program hashes.  MatchTxAndUpdate then       *)
(* reports a transaction iff its type is listed or (the filter has a bit   *)
(* array and) one of its outputs pays a program hash of the filter; the    *)
(* transaction id and the inputs are not consulted and nothing is added.   *)
(* This is the specified action MatchTxSideChain with its own rule         *)
(* (SideChainRule); the BIP 37 properties are stated for ordinary tweaks.  *)
(* Membership (everything added matches) holds in both modes.              *)
(***************************************************************************)
EXTENDS Integers, Sequences, FiniteSets, TLC, Json

CONSTANTS NPh,        \* program hashes 1..NPh
          MaxOps,     \* length of a behaviour
          MaxAdds     \* explicit additions per behaviour

VARIABLES mode,       \* update mode of the loaded filter: "none" | "all" | "p2pk"
          side,       \* TRUE: loaded with the side-chain tweak 0xFFFFFFFF
          bits,       \* the filter has a bit array (FALSE: zero-length filter, type list only)
          listed,     \* transaction types listed in the filter load (side-chain mode)
          added,      \* items in the filter: each of them must match
          explicit,   \* history: items added by Add
          paid,       \* history: outpoints of processed outputs that paid an item of the filter
          nops, nadds,
          nrel,       \* Reload calls so far
          log

vars == <<mode, side, bits, listed, added, explicit, paid, nops, nadds, nrel, log>>
view == <<mode, side, bits, listed, added, explicit, paid, nops, nadds, nrel>>

---------------------------------------------------------------------------
(* Items and transaction templates *)

Ph(i) == <<"ph", i>>
TxId(j) == <<"tx", j>>
Op(j, i) == <<"op", j, i>>          \* output i of transaction j; j = 0: an output outside the templates

\* script kind of a program hash: standard (pay to public key), multisig, other
PhKind(i) == IF i = 1 THEN "pk" ELSE IF i = 2 THEN "multi" ELSE "other"

Templates == <<
    [outs |-> <<1>>,    ins |-> <<Op(0, 1)>>],            \* T1 pays ph1
    [outs |-> <<2, 1>>, ins |-> <<Op(1, 0)>>],            \* T2 spends T1:0, pays ph2 and ph1
    [outs |-> <<3>>,    ins |-> <<Op(2, 1), Op(0, 2)>>],  \* T3 spends T2:1 (which paid ph1), pays ph3
    [outs |-> <<3, 3>>, ins |-> <<Op(0, 3)>>] >>          \* T4 pays ph3 twice, unrelated input
NTx == Len(Templates)
TxType(j) == IF j = 4 THEN "record" ELSE "transfer"

Addable == {Ph(i) : i \in 1..NPh} \cup {TxId(j) : j \in 1..NTx} \cup {Op(0, i) : i \in 1..3}
              \cup {Op(1, 0), Op(2, 1)}

OutIdx(j) == 0..(Len(Templates[j].outs) - 1)
OutPh(j, i) == Ph(Templates[j].outs[i + 1])
InSet(j) == {Templates[j].ins[k] : k \in 1..Len(Templates[j].ins)}

---------------------------------------------------------------------------
(* The protocol's MatchTxAndUpdate over a set S of items *)

IdHit(S, j) == TxId(j) \in S
OutHits(S, j) == {i \in OutIdx(j) : OutPh(j, i) \in S}
InHit(S, j) == InSet(j) \cap S # {}

Matches(S, j) == IdHit(S, j) \/ OutHits(S, j) # {} \/ InHit(S, j)

Updatable(m, j, i) ==
    \/ m = "all"
    \/ m = "p2pk" /\ PhKind(Templates[j].outs[i + 1]) \in {"pk", "multi"}

Updates(S, m, j) == {Op(j, i) : i \in {k \in OutHits(S, j) : Updatable(m, j, k)}}

\* why the property wants a match (for the report)
Why(S, j) == IF IdHit(S, j) THEN "txid" ELSE IF OutHits(S, j) # {} THEN "output" ELSE IF InHit(S, j) THEN "spend" ELSE "-"

---------------------------------------------------------------------------

\* side-chain mode: type listed, or an output pays an item of the bit array
SideMatches(S, j) == TxType(j) \in listed \/ (bits /\ OutHits(S, j) # {})
SideWhy(S, j) == IF TxType(j) \in listed THEN "type" ELSE IF bits /\ OutHits(S, j) # {} THEN "output" ELSE "-"

Init == /\ mode \in {"none", "all", "p2pk"}
        /\ side \in BOOLEAN
        /\ bits \in BOOLEAN /\ (~side => bits)
        /\ listed \in {{}, {"transfer"}, {"record"}} /\ (~side => listed = {})
        /\ added = {} /\ explicit = {} /\ paid = {}
        /\ nops = 0 /\ nadds = 0 /\ nrel = 0
        /\ log = <<>>

Log(act, args, must, why) ==
    log' = Append(log, [act |-> act, args |-> args, must |-> must, why |-> why,
                        mode |-> mode, side |-> side, bits |-> bits, listed |-> listed, added |-> added'])

(* Filter.Add / AddHash / AddOutPoint *)
Add(x) ==
    /\ nops < MaxOps /\ nadds < MaxAdds
    /\ x \notin added
    /\ added' = added \cup {x}
    /\ explicit' = explicit \cup {x}
    /\ nops' = nops + 1 /\ nadds' = nadds + 1
    /\ UNCHANGED <<mode, side, bits, listed, paid, nrel>>
    /\ Log("Add", [item |-> x], TRUE, "-")

(* Filter.MatchTxAndUpdate with an ordinary tweak: BIP 37 *)
MatchTx(j) ==
    /\ nops < MaxOps /\ ~side
    /\ added' = added \cup Updates(added, mode, j)
    /\ paid' = paid \cup {Op(j, i) : i \in OutHits(added, j)}
    /\ nops' = nops + 1
    /\ UNCHANGED <<mode, side, bits, listed, explicit, nadds, nrel>>
    /\ Log("MatchTx", [tx |-> j], Matches(added, j), Why(added, j))

(* Filter.MatchTxAndUpdate with the side-chain tweak *)
MatchTxSideChain(j) ==
    /\ nops < MaxOps /\ side
    /\ nops' = nops + 1
    /\ UNCHANGED <<mode, side, bits, listed, added, explicit, paid, nadds, nrel>>
    /\ Log("MatchTx", [tx |-> j], SideMatches(added, j), SideWhy(added, j))

(* Filter.Reload(msg) / TxFilter.Load again: the filter is replaced by another one -- of
   another size -- that holds the items S; what was added or matched before is gone *)
ReloadSets == {{}, {Ph(1)}, {Ph(2), TxId(1)}, {Op(0, 1), Ph(3)}}
Reload(S) ==
    /\ nops < MaxOps /\ ~side /\ nrel < 1
    /\ added' = S /\ explicit' = S /\ paid' = {}
    /\ nops' = nops + 1 /\ nrel' = nrel + 1
    /\ UNCHANGED <<mode, side, bits, listed, nadds>>
    /\ Log("Reload", [items |-> S], TRUE, "-")

Next == \/ \E x \in Addable : Add(x)
        \/ \E S \in ReloadSets : Reload(S)
        \/ \E j \in 1..NTx : MatchTx(j)
        \/ \E j \in 1..NTx : MatchTxSideChain(j)

Spec == Init /\ [][Next]_vars

---------------------------------------------------------------------------
(* Properties *)

Last == log'[Len(log')]
Logged(j) == Len(log') = Len(log) + 1 /\ Last.act = "MatchTx" /\ Last.args.tx = j

TypeOK == /\ nops \in 0..MaxOps
          /\ ~side => (bits /\ listed = {})

\* membership, in every mode: whatever was added is in the filter (and the
\* driver demands Matches() of every element of `added` after every step)
NoFalseNegative == explicit \subseteq added

\* nothing ever leaves the filter
Monotone == [][nrel' = nrel => added \subseteq added']_vars

\* ordinary tweak: a transaction that pays to or spends from an item of the
\* filter matches, and so does one whose id is in it
WatchedMatches ==
    [][\A j \in 1..NTx :
         (Logged(j) /\ ~side) =>
              Last.must = (TxId(j) \in added \/ (\E i \in OutIdx(j) : OutPh(j, i) \in added)
                                               \/ (\E o \in InSet(j) : o \in added))]_vars

\* ordinary tweak, follow the money: once an output paying an item of the
\* filter has been processed, a transaction spending that output matches
\* (update mode permitting) -- stated on the history `paid`
SpendOfMatchedOutput ==
    [][\A j \in 1..NTx :
         (Logged(j) /\ ~side) =>
            ((\E o \in InSet(j) \cap paid : o[2] # 0 /\ Updatable(mode, o[2], o[3])) => Last.must)]_vars

\* side-chain tweak: a transaction of a listed type matches, a transaction
\* paying a program hash of the bit array matches, nothing else is required,
\* and the filter is not changed
SideChainRule ==
    [][\A j \in 1..NTx :
         (Logged(j) /\ side) =>
            /\ (TxType(j) \in listed => Last.must)
            /\ ((bits /\ \E i \in OutIdx(j) : OutPh(j, i) \in added) => Last.must)
            /\ (Last.must => (TxType(j) \in listed \/ \E i \in OutIdx(j) : OutPh(j, i) \in added))
            /\ added' = added]_vars

Emit == PrintT(<<"TRACE", ToJson(log')>>)
EmitLast == nops' = MaxOps => PrintT(<<"TRACE", ToJson(log')>>)
=============================================================================
