------------------------------- MODULE Bloom -------------------------------
(***************************************************************************)
(* Bloom filters have no false negatives (property C39):                   *)
(* elanet/bloom/filter.go Add / AddHash / AddOutPoint / Matches /          *)
(* MatchesOutPoint / MatchTxAndUpdate and txfilter.go.                     *)
(*                                                                         *)
(* The only sound abstraction of a bloom filter is the SET OF ITEMS ADDED  *)
(* to it: the filter answers "maybe" for everything in the set (and for    *)
(* unknown other things).  So the spec is a one-sided oracle: where it     *)
(* says "must match" the real filter must answer true, whatever its size,  *)
(* number of hash functions and tweak; where it says nothing, any answer   *)
(* is fine.                                                                *)
(*                                                                         *)
(* Items: program hashes (the data element of an output), transaction ids, *)
(* outpoints.  Transactions are fixed templates (outputs paying program    *)
(* hashes, inputs spending outpoints, some of them outputs of earlier      *)
(* templates, so that "follow the money" chains exist).                    *)
(*                                                                         *)
(* MatchTx is MatchTxAndUpdate as the protocol (BIP 37) specifies it:      *)
(* match on the transaction id, on the data of any output -- then the      *)
(* output's outpoint is added to the filter according to the update mode   *)
(* (none / all / pay-to-pubkey and multisig only) -- and on any spent      *)
(* outpoint.                                                               *)
(*                                                                         *)
(* Named deviation (known finding C39:sidechain-tweak): a filter loaded    *)
(* with tweak 0xFFFFFFFF is treated by the code as a "side chain SPV       *)
(* filter": MatchTxAndUpdate then looks at output program hashes only and  *)
(* never updates.  `want` is what the property demands, `added` what the   *)
(* code as modelled guarantees; they differ only in that mode.             *)
(***************************************************************************)
EXTENDS Integers, Sequences, FiniteSets, TLC, Json

CONSTANTS NPh,        \* program hashes 1..NPh
          MaxOps,     \* length of a behaviour
          MaxAdds     \* explicit additions per behaviour

VARIABLES mode,       \* update mode of the loaded filter: "none" | "all" | "p2pk"
          side,       \* TRUE: loaded with the side-chain tweak
          added,      \* items the (modelled) code guarantees to match
          want,       \* items the property demands to match
          paid,       \* history: outpoints of processed outputs that paid a wanted program hash
          nops, nadds,
          log

vars == <<mode, side, added, want, paid, nops, nadds, log>>
view == <<mode, side, added, want, paid, nops, nadds>>

---------------------------------------------------------------------------
(* Items and transaction templates *)

Ph(i) == <<"ph", i>>
TxId(j) == <<"tx", j>>
Op(j, i) == <<"op", j, i>>          \* output i of transaction j; j = 0: an output outside the templates

\* script kind of a program hash: standard (pay to public key), multisig, other
PhKind(i) == IF i = 1 THEN "pk" ELSE IF i = 2 THEN "multi" ELSE "other"

Templates == <<
    [outs |-> <<1>>,    ins |-> <<Op(0, 1)>>],            \* T1 pays ph1
    [outs |-> <<2, 1>>, ins |-> <<Op(1, 0)>>],            \* T2 spends T1:0, pays ph2 and ph1
    [outs |-> <<3>>,    ins |-> <<Op(2, 1), Op(0, 2)>>],  \* T3 spends T2:1 (which paid ph1), pays ph3
    [outs |-> <<3, 3>>, ins |-> <<Op(0, 3)>>] >>          \* T4 pays ph3 twice, unrelated input
NTx == Len(Templates)

Addable == {Ph(i) : i \in 1..NPh} \cup {TxId(j) : j \in 1..NTx} \cup {Op(0, i) : i \in 1..3}
              \cup {Op(1, 0), Op(2, 1)}

OutIdx(j) == 0..(Len(Templates[j].outs) - 1)
OutPh(j, i) == Ph(Templates[j].outs[i + 1])
InSet(j) == {Templates[j].ins[k] : k \in 1..Len(Templates[j].ins)}

---------------------------------------------------------------------------
(* The protocol's MatchTxAndUpdate over a set S of items *)

IdHit(S, j) == TxId(j) \in S
OutHits(S, j) == {i \in OutIdx(j) : OutPh(j, i) \in S}
InHit(S, j) == InSet(j) \cap S # {}

Matches(S, j) == IdHit(S, j) \/ OutHits(S, j) # {} \/ InHit(S, j)

Updatable(m, j, i) ==
    \/ m = "all"
    \/ m = "p2pk" /\ PhKind(Templates[j].outs[i + 1]) \in {"pk", "multi"}

Updates(S, m, j) == {Op(j, i) : i \in {k \in OutHits(S, j) : Updatable(m, j, k)}}

\* why the property wants a match (for the report)
Why(S, j) == IF IdHit(S, j) THEN "txid" ELSE IF OutHits(S, j) # {} THEN "output" ELSE IF InHit(S, j) THEN "spend" ELSE "-"

---------------------------------------------------------------------------

Init == /\ mode \in {"none", "all", "p2pk"}
        /\ side \in BOOLEAN
        /\ added = {} /\ want = {} /\ paid = {}
        /\ nops = 0 /\ nadds = 0
        /\ log = <<>>

Log(act, args, must, pmust, why) ==
    log' = Append(log, [act |-> act, args |-> args, must |-> must, pmust |-> pmust, why |-> why,
                        mode |-> mode, side |-> side, added |-> added', want |-> want'])

(* Filter.Add / AddHash / AddOutPoint *)
Add(x) ==
    /\ nops < MaxOps /\ nadds < MaxAdds
    /\ x \notin want
    /\ added' = added \cup {x}
    /\ want' = want \cup {x}
    /\ nops' = nops + 1 /\ nadds' = nadds + 1
    /\ UNCHANGED <<mode, side, paid>>
    /\ Log("Add", [item |-> x], TRUE, TRUE, "-")

(* Filter.MatchTxAndUpdate, protocol semantics *)
MatchTx(j) ==
    /\ nops < MaxOps /\ ~side
    /\ added' = added \cup Updates(added, mode, j)
    /\ want' = want \cup Updates(want, mode, j)
    /\ paid' = paid \cup {Op(j, i) : i \in OutHits(want, j)}
    /\ nops' = nops + 1
    /\ UNCHANGED <<mode, side, nadds>>
    /\ Log("MatchTx", [tx |-> j], Matches(added, j), Matches(want, j), Why(want, j))

(* Deviation: the side-chain tweak.  Only output program hashes are looked *)
(* at and nothing is added.  The property still wants the protocol's       *)
(* behaviour (want, pmust).                                                *)
MatchTxSideChain(j) ==
    /\ nops < MaxOps /\ side
    /\ added' = added
    /\ want' = want \cup Updates(want, mode, j)
    /\ paid' = paid \cup {Op(j, i) : i \in OutHits(want, j)}
    /\ nops' = nops + 1
    /\ UNCHANGED <<mode, side, nadds>>
    /\ Log("MatchTx", [tx |-> j], OutHits(added, j) # {}, Matches(want, j), Why(want, j))

Next == \/ \E x \in Addable : Add(x)
        \/ \E j \in 1..NTx : MatchTx(j)
        \/ \E j \in 1..NTx : MatchTxSideChain(j)

Spec == Init /\ [][Next]_vars

---------------------------------------------------------------------------
(* Properties *)

TypeOK == /\ added \subseteq want
          /\ nops \in 0..MaxOps

\* the code (outside the deviation) guarantees everything the property wants
NoFalseNegative == ~side => added = want

\* nothing ever leaves the filter
Monotone == [][added \subseteq added' /\ want \subseteq want']_vars

\* a transaction that pays to or spends from a watched item matches, and so
\* does its id -- as an action property on the logged verdicts
WatchedMatches ==
    [][\A j \in 1..NTx :
         (Len(log') = Len(log) + 1 /\ log'[Len(log')].act = "MatchTx" /\ log'[Len(log')].args.tx = j) =>
            LET e == log'[Len(log')] IN
              /\ e.pmust = (TxId(j) \in want \/ (\E i \in OutIdx(j) : OutPh(j, i) \in want)
                                             \/ (\E o \in InSet(j) : o \in want))
              /\ (~side => e.must = e.pmust)]_vars

\* follow the money: once an output paying a watched program hash has been
\* processed, a transaction spending that output matches (update mode
\* permitting) -- stated on the history `paid`, independently of `want`
SpendOfMatchedOutput ==
    [][\A j \in 1..NTx :
         (Len(log') = Len(log) + 1 /\ log'[Len(log')].act = "MatchTx" /\ log'[Len(log')].args.tx = j) =>
            ((\E o \in InSet(j) \cap paid : o[2] # 0 /\ Updatable(mode, o[2], o[3])) => log'[Len(log')].pmust)]_vars

Emit == PrintT(<<"TRACE", ToJson(log')>>)
EmitLast == nops' = MaxOps => PrintT(<<"TRACE", ToJson(log')>>)
=============================================================================
