----------------------------- MODULE IrrScript -----------------------------
\* overwritten per scenario by tools/props/C30.py; this default is the reorganisation onto a
\* RevertToPOW branch that lowers the recorded irreversible height
Script == << <<"M", 0, "plain">>, <<"M", 0, "toPOW">>, <<"M", 1, "plain">>, <<"M", 2, "plain">>, <<"M", 4, "plain">> >>
=============================================================================
