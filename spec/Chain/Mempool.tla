------------------------------ MODULE Mempool ------------------------------
(***************************************************************************)
(* The transaction pool (mempool/txpool.go) on top of the block tree of    *)
(* Ledger.tla.  One action per public call:                                *)
(*   Submit(t)   = TxPool.AppendToTxPool                                   *)
(*   MDeliver(b) = BlockChain.ProcessBlock; the pool follows the chain's   *)
(*                 notifications as elanet/netsync/manager.go wires them:  *)
(*                 connected    -> CleanSubmittedTransactions(block)       *)
(*                 disconnected -> MaybeAcceptTransaction(tx) for each tx  *)
(*                                 of the block, RemoveTransaction on      *)
(*                                 failure                                 *)
(*                 processed    -> CheckAndCleanAllTransactions            *)
(* The pool is folded over exactly the notification sequence Ledger's      *)
(* Outcome produces.  The pool's internal indexes (fee ordered list, size  *)
(* accounting, conflict slots, pending proposal budget) are required to be *)
(* the image of the set `pool`; the replay driver evaluates that on the    *)
(* real pool through a snapshot accessor after every step.                 *)
(***************************************************************************)
EXTENDS Ledger

CONSTANTS MaxPool,      \* pool size limit in bytes (knob on the real pool)
          MaxSubmit

VARIABLES pool,     \* set of transactions in the pool
          clean,    \* the post-block cleanup ran after the last chain change
          nsub
mvars == <<vars, pool, clean, nsub>>
mview == <<view, pool, clean, nsub>>

\* serialized sizes of the templates (bytes), measured on the real transactions;
\* the driver refuses to run if they differ
TxSize(t) == CASE t = "T1" -> 293 [] t = "T2" -> 227 [] t = "T3" -> 227 [] t = "T4" -> 265
               [] t = "T5" -> 227 [] t = "T6" -> 293 [] t = "T7" -> 367 [] t = "T9" -> 227
               [] t \in {"R1", "R2", "R3", "R4"} -> 459 [] OTHER -> 0

RECURSIVE SumSize(_)
SumSize(P) == IF P = {} THEN 0 ELSE LET t == CHOOSE x \in P : TRUE IN TxSize(t) + SumSize(P \ {t})

CtxOK(t, chain) == /\ InSet(t) \subseteq UtxoOf(chain) /\ t \notin TxsOf(chain)
                   /\ Res(t) \cap ResOn(chain) = {}
\* conflict slots: spent outpoints and every unique resource
Conflicts(t, P) == \E u \in P : InSet(u) \cap InSet(t) # {} \/ Res(u) \cap Res(t) # {}

\* appendToTxPool, in the code's order of checks
SubmitResult(t, P, chain) ==
    IF t \in P THEN "duplicate"
    ELSE IF HasDupInput(t) THEN "sanity"
    ELSE IF ~CtxOK(t, chain) THEN "context"
    ELSE IF Conflicts(t, P) THEN "conflict"
    ELSE IF SumSize(P) + TxSize(t) > MaxPool THEN "oversize"
    ELSE "ok"

Spenders(t, P) == {u \in P : InSet(u) \cap OutSet(t) # {}}

RECURSIVE Reinsert(_, _, _)
\* block disconnected: its transactions go back to the pool one by one
Reinsert(ts, P, chain) ==
    IF ts = <<>> THEN P
    ELSE LET t == Head(ts) IN
         Reinsert(Tail(ts), IF SubmitResult(t, P, chain) = "ok" THEN P \cup {t} ELSE P \ Spenders(t, P), chain)

ChainStep(chain, e) == CASE e[1] = "c" -> Append(chain, e[2])
                         [] e[1] = "d" -> SubSeq(chain, 1, Len(chain) - 1)
                         [] OTHER -> chain

\* chain = the active chain *after* the notification's own change
PoolStep(P, chain, e) ==
    CASE e[1] = "c" -> {u \in P : \A bt \in SeqSet(blocks[e[2]].txs) : InSet(u) \cap InSet(bt) = {}}
      [] e[1] = "d" -> Reinsert(blocks[e[2]].txs, P, chain)
      [] OTHER      -> {u \in P : CtxOK(u, chain)}

RECURSIVE FoldPool(_, _, _)
FoldPool(P, chain, ev) ==
    IF ev = <<>> THEN P
    ELSE LET c2 == ChainStep(chain, Head(ev)) IN FoldPool(PoolStep(P, c2, Head(ev)), c2, Tail(ev))

MInit == Init /\ pool = {} /\ clean = TRUE /\ nsub = 0

MMint(p, ts, bad) == Mint(p, ts, bad) /\ UNCHANGED <<pool, clean, nsub>>
MStart == StartRun /\ UNCHANGED <<pool, clean, nsub>>

MLog(act, args, res, ev) ==
    log' = Append(log, [act |-> act, args |-> args, res |-> res, ev |-> ev,
                        main |-> main', pool |-> pool', clean |-> clean',
                        utxo |-> UtxoOf(main')])

(* TxPool.AppendToTxPool(t) *)
Submit(t) ==
    /\ phase = "run" /\ nsub < MaxSubmit /\ t \in Txs
    /\ nsub' = nsub + 1
    /\ LET r == SubmitResult(t, pool, main) IN
       /\ pool' = IF r = "ok" THEN pool \cup {t} ELSE pool
       /\ UNCHANGED <<blocks, phase, known, orphans, main, ndeliv, strand, clean>>
       /\ MLog("Submit", [tx |-> t], [err |-> r # "ok", why |-> r], <<>>)

(* BlockChain.ProcessBlock(b) with the pool subscribed to the notifications *)
MDeliver(b) ==
    /\ phase = "run" /\ ndeliv < MaxDeliver /\ b \in 1..NB
    /\ ndeliv' = ndeliv + 1
    /\ UNCHANGED <<blocks, phase, nsub>>
    /\ LET o == Outcome(b, FixFailedReorg) IN
       /\ main' = o.main /\ known' = o.known /\ orphans' = o.orphans /\ strand' = o.strand
       /\ pool' = FoldPool(pool, main, o.ev)
       /\ clean' = IF o.ev = <<>> THEN clean ELSE o.ev[Len(o.ev)][1] = "p"
       /\ MLog("Deliver", [id |-> b], o.res, o.ev)

MNext == \/ \E p \in 0..MaxBlocks, ts \in TxSeqs, bad \in {"none", "merkle", "reward"} : MMint(p, ts, bad)
         \/ MStart
         \/ \E b \in 1..MaxBlocks : MDeliver(b)
         \/ \E t \in Txs : Submit(t)

MSpec == MInit /\ [][MNext]_mvars

---------------------------------------------------------------------------
(* C34 / C06 (mempool half) *)
\* no two pool transactions spend the same outpoint
PoolConflictFree == \A u, v \in pool : u # v => InSet(u) \cap InSet(v) = {} /\ Res(u) \cap Res(v) = {}
\* after the post-block cleanup every pool transaction is still valid on the
\* active chain (its inputs are unspent there, it is not already on chain)
PoolValidWhenClean == clean => \A u \in pool : CtxOK(u, main)
PoolWithinLimit == SumSize(pool) <= MaxPool
\* the pool never holds a transaction that double-spends the active chain,
\* cleanup or not, unless a failed reorganisation left the chain mid-way
PoolNoChainDoubleSpend == clean => \A u \in pool : InSet(u) \subseteq UtxoOf(main)

\* C23 (mempool checkpoint): saving the pool and loading it into a restarted pool on the
\* same chain -- every saved transaction is offered again, in any order -- gives the
\* same pool.  (The replay driver performs that round trip on the real pool after
\* every step: Snapshot -> Serialize -> fresh TxPool.Deserialize.)
RECURSIVE Reoffer(_, _)
Reoffer(todo, P) == IF todo = {} THEN P
                    ELSE LET t == CHOOSE x \in todo : TRUE IN
                         Reoffer(todo \ {t}, IF SubmitResult(t, P, main) = "ok" THEN P \cup {t} ELSE P)
RestoreIsIdentity == clean => Reoffer(pool, {}) = pool

MEmit == PrintT(<<"TRACE", ToJson(log')>>)
MEmitLast == (ndeliv' + nsub' = MaxDeliver + MaxSubmit) => PrintT(<<"TRACE", ToJson(log')>>)
=============================================================================
