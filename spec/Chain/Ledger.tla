------------------------------- MODULE Ledger -------------------------------
(***************************************************************************)
(* Block tree, chain selection and UTXO ledger of the node                 *)
(* (blockchain/blockchain.go: processBlock, maybeAcceptBlock,              *)
(* connectBestChain, reorganizeChain, ProcessOrphans;                      *)
(* blockvalidator.go: CheckBlockSanity, CheckBlockContext/checkTxsContext; *)
(* chainstore*.go + indexers: the persistent indexes).                     *)
(*                                                                         *)
(* Abstraction: blocks are ids 1..n minted by the harness on any parent    *)
(* (0 = the tip of a common, already connected prefix whose coinbases      *)
(* funded the outpoints Funds); all blocks carry unit work (regnet instant *)
(* blocks), so "most work" is "highest".  A transaction is a template      *)
(* name; its inputs/outputs are fixed by the operators below.  One action  *)
(* per public call: Deliver(b) = BlockChain.ProcessBlock, with the code's  *)
(* internal steps as operators (Sanity, orphan handling, ExtendMain,       *)
(* side-chain store, Reorganize = detach all then attach one by one with   *)
(* the context check at each step, ProcessOrphans cascade that stops at    *)
(* the first failing orphan).  Mempool actions live in Mempool.tla.        *)
(*                                                                         *)
(* The persistent indexes are *defined* as folds of the active chain; the  *)
(* replay driver projects the real indexes through the node's query API    *)
(* after every action and compares.                                        *)
(***************************************************************************)
EXTENDS Integers, Sequences, FiniteSets, TLC, Json

CONSTANTS Txs,          \* transaction templates available to Mint
          MaxBlocks,    \* number of blocks minted
          MaxTxPerBlock,
          MaxBad,       \* at most this many deliberately bad blocks
          MaxDeliver,   \* bound on Deliver calls (re-deliveries included)
          FixFailedReorg, \* TRUE: model the repaired reorganizeChain (restore old chain)
          WithProducers   \* TRUE: the prefix also funds four 6000 ELA outputs G1..G4 for the
                          \* producer registrations R1..R4 (unique resources, Mempool.tla)

VARIABLES blocks,    \* <<[parent, txs, bad]>> indexed by block id
          phase,     \* "mint" | "run"
          known,     \* ids in the block index (main or side chain)
          orphans,   \* sequence of orphan ids in arrival order
          main,      \* active chain above the prefix: sequence of ids
          ndeliv,
          strand,    \* the last ProcessBlock left the node on a partially attached branch
          log
vars == <<blocks, phase, known, orphans, main, ndeliv, strand, log>>
view == <<blocks, phase, known, orphans, main, ndeliv, strand>>

---------------------------------------------------------------------------
(* Transaction templates.  An outpoint is <<tx, index>>; Funds are outputs *)
(* of the prefix.                                                          *)
Funds == {<<"F1", 0>>, <<"F2", 0>>}
           \cup (IF WithProducers THEN {<<"G1", 0>>, <<"G2", 0>>, <<"G3", 0>>, <<"G4", 0>>} ELSE {})

\* number of outputs of the wide template W1 (output indexes need two bytes in the unspent index)
WideN == 300

\* inputs as a sequence (a repeated element = the same outpoint twice)
TxIns(t) == CASE t = "T1" -> << <<"F1", 0>> >>
              [] t = "T2" -> << <<"F1", 0>> >>                 \* conflicts with T1
              [] t = "T3" -> << <<"T1", 0>> >>                 \* spends T1's output
              [] t = "T4" -> << <<"F2", 0>>, <<"F2", 0>> >>    \* same outpoint twice
              [] t = "T5" -> << <<"X", 0>> >>                  \* never created
              [] t = "T6" -> << <<"F2", 0>> >>
              [] t = "T7" -> << <<"T1", 1>>, <<"F2", 0>> >>    \* conflicts with T6
              [] t = "T9" -> << <<"F1", 0>> >>                 \* F1 again, with another input sequence number
              [] t = "W1" -> << <<"F2", 0>> >>                 \* a transaction with WideN outputs
              [] t = "W2" -> << <<"W1", 1>> >>                 \* spends its output 1
              [] t = "W3" -> << <<"W1", 1>> >>                 \* ... so does this one
              [] t = "W4" -> << <<"W1", 257>> >>               \* output 257 (257 % 256 = 1)
              [] t = "R1" -> << <<"G1", 0>> >>                 \* producer registrations:
              [] t = "R2" -> << <<"G2", 0>> >>                 \* inputs never collide, the
              [] t = "R3" -> << <<"G3", 0>> >>                 \* unique resources do (Res)
              [] t = "R4" -> << <<"G4", 0>> >>
              [] OTHER -> <<>>

\* outputs: sequence of [addr, zero]
TxOuts(t) == CASE t = "T1" -> << [addr |-> "A", zero |-> FALSE], [addr |-> "B", zero |-> FALSE] >>
               [] t = "T2" -> << [addr |-> "B", zero |-> FALSE] >>
               [] t = "T3" -> << [addr |-> "B", zero |-> FALSE] >>
               [] t = "T4" -> << [addr |-> "A", zero |-> FALSE] >>
               [] t = "T5" -> << [addr |-> "A", zero |-> FALSE] >>
               [] t = "T6" -> << [addr |-> "A", zero |-> FALSE], [addr |-> "A", zero |-> TRUE] >>
               [] t = "T7" -> << [addr |-> "A", zero |-> FALSE] >>
               [] t = "T9" -> << [addr |-> "A", zero |-> FALSE] >>
               [] t = "W1" -> [i \in 1..WideN |-> [addr |-> "A", zero |-> FALSE]]
               [] t \in {"W2", "W4"} -> << [addr |-> "B", zero |-> FALSE] >>
               [] t = "W3" -> << [addr |-> "A", zero |-> FALSE] >>
               [] t \in {"R1", "R2", "R3", "R4"} ->      \* deposit + change
                    << [addr |-> "D", zero |-> FALSE], [addr |-> "K", zero |-> FALSE] >>
               [] OTHER -> <<>>

\* unique resources a transaction claims: producer owner key, node key, nickname
Res(t) == CASE t = "R1" -> {"owner:1", "node:1", "nick:a"}
            [] t = "R2" -> {"owner:1", "node:2", "nick:b"}    \* same owner as R1
            [] t = "R3" -> {"owner:2", "node:1", "nick:c"}    \* same node as R1
            [] t = "R4" -> {"owner:2", "node:2", "nick:a"}    \* same nickname as R1
            [] OTHER -> {}
\* CheckDuplicateTx refuses two registrations with one owner or one node key in a
\* block (a repeated nickname inside one block is not looked at)
KeyRes(t) == {r \in Res(t) : r \notin {"nick:a", "nick:b", "nick:c"}}

FundAddr == "K"
InSet(t) == {TxIns(t)[i] : i \in 1..Len(TxIns(t))}
HasDupInput(t) == Cardinality(InSet(t)) < Len(TxIns(t))
OutSet(t) == {<<t, i - 1>> : i \in 1..Len(TxOuts(t))}

---------------------------------------------------------------------------
(* Block tree helpers *)
NB == Len(blocks)
Parent(b) == blocks[b].parent
RECURSIVE Height(_)
Height(b) == IF b = 0 THEN 0 ELSE 1 + Height(Parent(b))
RECURSIVE PathTo(_)          \* ids from just above the prefix to b
PathTo(b) == IF b = 0 THEN <<>> ELSE Append(PathTo(Parent(b)), b)
Tip == IF main = <<>> THEN 0 ELSE main[Len(main)]
InMain(b) == b = 0 \/ \E i \in 1..Len(main) : main[i] = b
SeqSet(s) == {s[i] : i \in 1..Len(s)}

---------------------------------------------------------------------------
(* Ledger state as a fold of a chain (sequence of block ids). *)
\* UTXO set after applying block b's transactions to u (no checks)
ApplyBlock(u, b) ==
    LET ts == SeqSet(blocks[b].txs)
        spent == UNION {InSet(t) : t \in ts}
        made == UNION {OutSet(t) : t \in ts}
    IN (u \ spent) \cup made

RECURSIVE UtxoOf(_)
UtxoOf(chain) == IF chain = <<>> THEN Funds
                 ELSE ApplyBlock(UtxoOf(SubSeq(chain, 1, Len(chain) - 1)), chain[Len(chain)])

TxsOf(chain) == UNION {SeqSet(blocks[chain[i]].txs) : i \in 1..Len(chain)}
\* resources registered by the chain (DPoS state: producers of every state count)
ResOn(chain) == UNION {Res(t) : t \in TxsOf(chain)}

\* where a transaction is recorded on the chain (0 = not on chain)
TxHeight(chain, t) == IF \E i \in 1..Len(chain) : t \in SeqSet(blocks[chain[i]].txs)
                      THEN CHOOSE i \in 1..Len(chain) : t \in SeqSet(blocks[chain[i]].txs)
                      ELSE 0

OutAddr(op) == IF op \in Funds THEN FundAddr ELSE TxOuts(op[1])[op[2] + 1].addr
OutZero(op) == IF op \in Funds THEN FALSE ELSE TxOuts(op[1])[op[2] + 1].zero
\* per-address view: zero-value outputs are never listed
AddrUtxo(chain, a) == {op \in UtxoOf(chain) : OutAddr(op) = a /\ ~OutZero(op)}

---------------------------------------------------------------------------
(* Validation, as the code splits it. *)
\* CheckBlockSanity: merkle root, duplicate tx, duplicate input inside one tx
\* or across the block's transactions.
Sane(b) ==
    LET ts == blocks[b].txs IN
    /\ blocks[b].bad # "merkle"
    /\ \A i, j \in 1..Len(ts) : i # j => ts[i] # ts[j]
    /\ \A i \in 1..Len(ts) : ~HasDupInput(ts[i])
    /\ \A i, j \in 1..Len(ts) : i # j => InSet(ts[i]) \cap InSet(ts[j]) = {}
    /\ \A i, j \in 1..Len(ts) : i # j => KeyRes(ts[i]) \cap KeyRes(ts[j]) = {}

\* CheckBlockContext on top of `chain`: every input is unspent in the state
\* before the block (outputs of the same block do not count), then the
\* coinbase reward check.
CtxValid(b, chain) ==
    /\ \A t \in SeqSet(blocks[b].txs) : InSet(t) \subseteq UtxoOf(chain)
    /\ \A t \in SeqSet(blocks[b].txs) : t \notin TxsOf(chain)
    /\ \A t \in SeqSet(blocks[b].txs) : Res(t) \cap ResOn(chain) = {}
    /\ blocks[b].bad # "reward"

\* A chain (path from the prefix) is valid iff every block is sane and
\* context-valid on its predecessor chain.
RECURSIVE ChainValid(_)
ChainValid(chain) ==
    IF chain = <<>> THEN TRUE
    ELSE LET pre == SubSeq(chain, 1, Len(chain) - 1) IN
         ChainValid(pre) /\ Sane(chain[Len(chain)]) /\ CtxValid(chain[Len(chain)], pre)

---------------------------------------------------------------------------
(* maybeAcceptBlock / connectBestChain for block b on current state        *)
(* (main, known).  Returns [main, known, ok, inMain].                      *)
RECURSIVE AttachFrom(_, _)
\* attach the blocks of `todo` one by one onto `chain`; stops at the first
\* context-invalid block.  Returns [chain, ok].
AttachFrom(chain, todo) ==
    IF todo = <<>> THEN [chain |-> chain, ok |-> TRUE]
    ELSE IF CtxValid(Head(todo), chain)
         THEN AttachFrom(Append(chain, Head(todo)), Tail(todo))
         ELSE [chain |-> chain, ok |-> FALSE]

CommonPrefixLen(p, q) ==
    LET n == IF Len(p) < Len(q) THEN Len(p) ELSE Len(q)
        S == {i \in 0..n : \A j \in 1..i : p[j] = q[j]}
    IN CHOOSE i \in S : \A k \in S : k <= i

\* Notifications the node publishes while it works (events.Notify), in order:
\* <<"c", b>> block connected, <<"d", b>> block disconnected, <<"p", b>> block
\* processed (maybeAcceptBlock succeeded).  Subscribers (mempool, wallet)
\* react to them; Mempool.tla folds the pool over this sequence.
RevSeq(s) == [i \in 1..Len(s) |-> s[Len(s) + 1 - i]]
EvC(s) == [i \in 1..Len(s) |-> <<"c", s[i]>>]
EvD(s) == [i \in 1..Len(s) |-> <<"d", s[i]>>]

Accept(b, m, k, fix) ==
    LET tip == IF m = <<>> THEN 0 ELSE m[Len(m)] IN
    IF Parent(b) = tip
    THEN \* extends the best chain: connectBlock with the context check
         IF CtxValid(b, m)
         THEN [main |-> Append(m, b), known |-> k \cup {b}, ok |-> TRUE, inMain |-> TRUE, strand |-> FALSE,
               ev |-> << <<"c", b>>, <<"p", b>> >>]
         ELSE [main |-> m, known |-> k, ok |-> FALSE, inMain |-> FALSE, strand |-> FALSE, ev |-> <<>>]
    ELSE \* side chain: stored without context validation
         IF Height(b) <= Len(m)
         THEN [main |-> m, known |-> k \cup {b}, ok |-> TRUE, inMain |-> FALSE, strand |-> FALSE,
               ev |-> << <<"p", b>> >>]
         ELSE \* more work: reorganize (detach everything above the fork, attach one by one)
              LET path == PathTo(b)
                  f == CommonPrefixLen(m, path)
                  att == AttachFrom(SubSeq(m, 1, f), SubSeq(path, f + 1, Len(path)))
                  evs == EvD(RevSeq(SubSeq(m, f + 1, Len(m)))) \o EvC(SubSeq(att.chain, f + 1, Len(att.chain)))
              IN IF att.ok
                 THEN [main |-> att.chain, known |-> k \cup {b}, ok |-> TRUE, inMain |-> TRUE, strand |-> FALSE,
                       ev |-> Append(evs, <<"p", b>>)]
                 ELSE \* ReorgPartialFailure (named deviation of today's code): the
                      \* detached blocks are not re-attached, the node stays on the
                      \* fork point plus the part of the branch that did connect.
                      [main |-> IF fix THEN m ELSE att.chain,
                       known |-> k \cup {b}, ok |-> FALSE, inMain |-> FALSE,
                       strand |-> ~fix /\ att.chain # m,
                       \* the repaired code takes the attached part off again and
                       \* re-attaches the blocks it had detached
                       ev |-> IF fix THEN evs \o EvD(RevSeq(SubSeq(att.chain, f + 1, Len(att.chain))))
                                              \o EvC(SubSeq(m, f + 1, Len(m)))
                                     ELSE evs]

(* ProcessOrphans(b): breadth-first over the orphans whose parent was just *)
(* accepted, in arrival order; the first orphan that fails stops the whole *)
(* cascade and stays in the orphan pool.                                   *)
RECURSIVE Cascade(_, _, _, _, _, _)
Cascade(queue, m, k, orph, fix, ev) ==
    IF queue = <<>> THEN [main |-> m, known |-> k, orphans |-> orph, ok |-> TRUE, strand |-> FALSE, ev |-> ev]
    ELSE LET p == Head(queue)
             kids == SelectSeq(orph, LAMBDA o : Parent(o) = p)
         IN IF kids = <<>> THEN Cascade(Tail(queue), m, k, orph, fix, ev)
            ELSE LET o == Head(kids)
                     r == Accept(o, m, k, fix)
                 IN IF ~r.ok
                    THEN [main |-> r.main, known |-> r.known, orphans |-> orph, ok |-> FALSE, strand |-> r.strand,
                          ev |-> ev \o r.ev]
                    ELSE Cascade(Append(queue, o), r.main, r.known,
                                 SelectSeq(orph, LAMBDA x : x # o), fix, ev \o r.ev)

(* The whole of ProcessBlock(b) as a function of the current state.        *)
Outcome(b, fix) ==
    LET same(res) == [main |-> main, known |-> known, orphans |-> orphans, res |-> res, strand |-> FALSE,
                      ev |-> <<>>] IN
    IF b \in known
    THEN same([inMain |-> FALSE, orphan |-> FALSE, err |-> TRUE, why |-> "exists"])
    ELSE IF b \in SeqSet(orphans)
    THEN same([inMain |-> FALSE, orphan |-> TRUE, err |-> FALSE, why |-> "known-orphan"])
    ELSE IF ~Sane(b)
    THEN same([inMain |-> FALSE, orphan |-> FALSE, err |-> TRUE, why |-> "sanity"])
    ELSE IF Parent(b) # 0 /\ Parent(b) \notin known
    THEN [main |-> main, known |-> known, orphans |-> Append(orphans, b), strand |-> FALSE, ev |-> <<>>,
          res |-> [inMain |-> FALSE, orphan |-> TRUE, err |-> FALSE, why |-> "orphan"]]
    ELSE LET r == Accept(b, main, known, fix) IN
         IF ~r.ok
         THEN [main |-> r.main, known |-> r.known, orphans |-> orphans, strand |-> r.strand, ev |-> r.ev,
               res |-> [inMain |-> FALSE, orphan |-> TRUE, err |-> TRUE,
                        why |-> IF r.known = known THEN "context" ELSE "reorg-failed"]]
         ELSE LET c == Cascade(<<b>>, r.main, r.known, orphans, fix, r.ev) IN
              [main |-> c.main, known |-> c.known, orphans |-> c.orphans, strand |-> c.strand, ev |-> c.ev,
               res |-> IF c.ok THEN [inMain |-> r.inMain, orphan |-> FALSE, err |-> FALSE, why |-> "accepted"]
                               ELSE [inMain |-> FALSE, orphan |-> FALSE, err |-> TRUE, why |-> "orphan-failed"]]

---------------------------------------------------------------------------
Log(act, args, res, strd, alt, ev) ==
    log' = Append(log, [act |-> act, args |-> args, res |-> res,
                        strand |-> strd, altMain |-> alt, ev |-> ev,
                        main |-> main',
                        utxo |-> UtxoOf(main'),
                        addrA |-> AddrUtxo(main', "A"),
                        addrB |-> AddrUtxo(main', "B"),
                        addrK |-> AddrUtxo(main', FundAddr),
                        txh |-> [t \in Txs |-> TxHeight(main', t)]])

Init == /\ blocks = <<>> /\ phase = "mint" /\ known = {} /\ orphans = <<>>
        /\ main = <<>> /\ ndeliv = 0 /\ strand = FALSE /\ log = <<>>

NBad == Cardinality({i \in 1..NB : blocks[i].bad # "none"})

\* txs of a block: a sequence without repetition over Txs, canonical order
TxSeqs == {<<>>} \cup {<<t>> : t \in Txs}
            \cup (IF MaxTxPerBlock >= 2 THEN {<<t, u>> : t \in Txs, u \in Txs} ELSE {})

(* The harness builds a block (no interaction with the node). Blocks are   *)
(* minted in canonical order (non-decreasing parent) to avoid isomorphic   *)
(* duplicates.                                                             *)
Mint(p, ts, bad) ==
    /\ phase = "mint" /\ NB < MaxBlocks
    /\ p \in 0..NB
    /\ NB > 0 => p >= blocks[NB].parent
    /\ bad # "none" => NBad < MaxBad
    /\ blocks' = Append(blocks, [parent |-> p, txs |-> ts, bad |-> bad])
    /\ UNCHANGED <<phase, known, orphans, main, ndeliv, strand>>
    /\ log' = Append(log, [act |-> "Mint", args |-> [id |-> NB + 1, parent |-> p, txs |-> ts, bad |-> bad]])

StartRun == /\ phase = "mint" /\ NB > 0 /\ phase' = "run"
            /\ UNCHANGED <<blocks, known, orphans, main, ndeliv, strand, log>>

(* BlockChain.ProcessBlock(b) *)
Deliver(b) ==
    /\ phase = "run" /\ ndeliv < MaxDeliver /\ b \in 1..NB
    /\ ndeliv' = ndeliv + 1
    /\ UNCHANGED <<blocks, phase>>
    /\ LET o == Outcome(b, FixFailedReorg)
           alt == Outcome(b, ~FixFailedReorg)     \* what the other variant of reorganizeChain would leave
       IN /\ main' = o.main /\ known' = o.known /\ orphans' = o.orphans
          /\ strand' = o.strand
          /\ Log("Deliver", [id |-> b], o.res, o.strand, alt.main, o.ev)

Next == \/ \E p \in 0..MaxBlocks, ts \in TxSeqs, bad \in {"none", "merkle", "reward"} : Mint(p, ts, bad)
        \/ StartRun
        \/ \E b \in 1..MaxBlocks : Deliver(b)

Spec == Init /\ [][Next]_vars

---------------------------------------------------------------------------
(* Properties *)

\* C06: on the active chain every outpoint is spent by at most one transaction
\* and only after it was created.
NoDoubleSpend ==
    \A i, j \in 1..Len(main) :
      \A t \in SeqSet(blocks[main[i]].txs), u \in SeqSet(blocks[main[j]].txs) :
        (t # u \/ i # j) => InSet(t) \cap InSet(u) = {}

\* The active chain is valid (C12, first half).
ActiveValid == ChainValid(main)

\* C12: no known valid chain has strictly more work than the active one.
\* After a failed reorganisation today's code sits on the fork prefix, which
\* can be shorter than a known valid chain (the old one): that state is
\* characterised by StrandedByFailedReorg and is excluded here; with
\* FixFailedReorg = TRUE the invariant holds unconditionally.
KnownChains == {PathTo(b) : b \in known}
MostWork == \A c \in KnownChains : ChainValid(c) => Len(c) <= Len(main)

\* every prefix block of a known block is known (index is parent-closed)
KnownClosed == \A b \in known : Parent(b) = 0 \/ Parent(b) \in known
MainKnown == SeqSet(main) \subseteq known
MainIsPath == main = <<>> \/ main = PathTo(Tip)

\* C12, second sentence: a failed switch to an invalid heavier branch leaves
\* the node on its previous chain, i.e. the ReorgPartialFailure deviation
\* never happens.  (Holds in the FixFailedReorg = TRUE model; the replay driver
\* reports every real execution that matches a stranding step.)
NeverStranded == ~strand

Emit == PrintT(<<"TRACE", ToJson(log')>>)
EmitLast == (ndeliv' = MaxDeliver) => PrintT(<<"TRACE", ToJson(log')>>)
=============================================================================
