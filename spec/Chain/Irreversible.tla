---------------------------- MODULE Irreversible ----------------------------
(***************************************************************************)
(* Irreversibility of blocks across consensus-mode transitions             *)
(* (dpos/state/state.go: tryUpdateLastIrreversibleHeight, IsIrreversible,  *)
(* processRevertToPOW, processRevertToDPOS and the POW -> DPOS switch at   *)
(* the end of processTransactions; blockchain/blockchain.go:               *)
(* connectBestChain's guard before reorganizeChain, the exported           *)
(* ReorganizeChain, CkpManager.OnRollbackTo / OnBlockSaved around every    *)
(* detach / attach).                                                       *)
(*                                                                         *)
(* All blocks are valid and carry unit work (the validity half is          *)
(* Ledger.tla's subject).  The chain grows by Mine(p, k): the harness      *)
(* builds a block of kind k on any known block p and hands it to           *)
(* ProcessBlock at once.  k = "toPOW" carries a RevertToPOW transaction,   *)
(* k = "toDPOS" a RevertToDPOS transaction, "plain" neither.               *)
(* ReorgCall(b) is BlockChain.ReorganizeChain(b) on a known side block.    *)
(*                                                                         *)
(* Heights are absolute: the behaviour starts at height Base on a common   *)
(* prefix of plain blocks.  st is the part of the arbiter State the        *)
(* property talks about (LastIrreversibleHeight, DPOSStartHeight,          *)
(* ConsensusAlgorithm, DPOSWorkHeight); `saved` keeps, per main-chain      *)
(* block, the value before it was connected (what the History rollback     *)
(* restores).                                                              *)
(*                                                                         *)
(* State.ProcessBlock collects its changes as closures (History.Append)    *)
(* and runs them at History.Commit: every decision of one block is taken   *)
(* against the state BEFORE the block, the closures then run in the order  *)
(* they were appended.  Apply() transcribes exactly that.                  *)
(***************************************************************************)
EXTENDS Integers, Sequences, FiniteSets, TLC, Json

CONSTANTS Base,          \* height of the common prefix tip
          CRCOnly,       \* ChainParams.CRCOnlyDPOSHeight
          RevertStart,   \* DPoSConfiguration.RevertToPOWStartHeight
          Irr,           \* state.IrreversibleHeight (6)
          WorkInterval,  \* payload.WorkHeightInterval (10)
          MaxBlocks,     \* total blocks mined
          MaxSide,       \* blocks mined on something else than the tip
          MaxForks,      \* competing branches alive at the same time
          MaxForkDepth,  \* competing blocks are mined on parents at most this far below the tip
          MaxModeTx,     \* blocks carrying a mode transaction
          MaxReorgCalls, \* direct ReorganizeChain calls
          ReorgGuardAtTip, \* TRUE: ReorganizeChain's guard uses the best height (repaired code)
          KindSet,       \* block kinds the model mines (subset of Kinds)
          KeepMaxLih     \* FALSE: code as is - a reorganisation restores the fork's irreversible
                         \* height and the new branch may end with a LOWER one (open finding);
                         \* TRUE: a design that never lets the recorded height fall

VARIABLES parent,   \* parent[b] for b in 1..NB (0 = prefix tip)
          kind,     \* kind[b]
          main,     \* active chain above the prefix
          st,       \* [lih, dstart, mode, workH]
          saved,    \* saved[i] = st before main[i] was connected
          nside, ncalls,
          maxLih,   \* highest last irreversible height ever recorded (history variable)
          log
vars == <<parent, kind, main, st, saved, nside, ncalls, maxLih, log>>
view == <<parent, kind, main, st, saved, nside, ncalls, maxLih>>

Kinds == {"plain", "toPOW", "toDPOS"}

NB == Len(parent)
RECURSIVE HeightOf(_)
HeightOf(b) == IF b = 0 THEN Base ELSE 1 + HeightOf(parent[b])
RECURSIVE PathTo(_)
PathTo(b) == IF b = 0 THEN <<>> ELSE Append(PathTo(parent[b]), b)
Tip == IF main = <<>> THEN 0 ELSE main[Len(main)]
TipHeight == Base + Len(main)
OnMain(b) == b = 0 \/ \E i \in 1..Len(main) : main[i] = b
\* tips of competing branches
Leaves == {b \in 1..NB : ~OnMain(b) /\ \A c \in 1..NB : parent[c] # b}
NModeTx == Cardinality({b \in 1..NB : kind[b] # "plain"})

Max(a, b) == IF a > b THEN a ELSE b

---------------------------------------------------------------------------
(* State.ProcessBlock for a block of kind k at height h, pre-state s *)
Apply(s, h, k) ==
    LET \* processTransactions: processRevertToPOW / processRevertToDPOS
        a1 == IF k = "toPOW" THEN [s EXCEPT !.mode = "POW", !.workH = 0]
              ELSE IF k = "toDPOS" THEN [s EXCEPT !.workH = h + WorkInterval]
              ELSE s
        \* end of processTransactions: POW -> DPOS once the work height is reached
        a2 == IF s.workH # 0 /\ h >= s.workH /\ s.mode = "POW" THEN [a1 EXCEPT !.mode = "DPOS"] ELSE a1
        \* tryUpdateLastIrreversibleHeight(h)
    IN  IF h < RevertStart THEN a2
        ELSE IF s.lih = 0 THEN [a2 EXCEPT !.lih = h - Irr, !.dstart = h - Irr]
        ELSE IF s.mode = "DPOS"
             THEN LET e == IF s.workH # 0 /\ h = s.workH + 1 THEN [a2 EXCEPT !.dstart = h] ELSE a2
                  IN IF h - s.dstart >= Irr
                     THEN [e EXCEPT !.dstart = e.dstart + 1,
                                    !.lih = IF KeepMaxLih THEN Max(e.lih, e.dstart + 1) ELSE e.dstart + 1]
                     ELSE e
        ELSE a2

Zero == [lih |-> 0, dstart |-> 0, mode |-> "DPOS", workH |-> 0]
RECURSIVE PlainTo(_)
PlainTo(h) == IF h = 0 THEN Zero ELSE Apply(PlainTo(h - 1), h, "plain")

\* what the transaction checkers let through in a block at height h on a branch whose state is s
\* (RevertToPOWTransaction / RevertToDPOSTransaction HeightVersionCheck + SpecialContextCheck;
\* the no-block time of the NoBlock revert is configured to 0)
KindOK(s, h, k) ==
    CASE k = "plain"  -> TRUE
      [] k = "toPOW"  -> h >= RevertStart
      [] k = "toDPOS" -> h >= RevertStart /\ s.mode = "POW" /\ ~(s.workH > h)

\* state of the branch ending in block b (the fold of its path)
RECURSIVE StateAt(_)
StateAt(b) == IF b = 0 THEN PlainTo(Base) ELSE Apply(StateAt(parent[b]), HeightOf(b), kind[b])

\* IsIrreversible(curBlockHeight, detachNodesLen)
IsIrreversible(cur, n, s) ==
    IF cur <= CRCOnly THEN FALSE
    ELSE IF cur - n <= s.lih THEN TRUE
    ELSE IF cur >= RevertStart THEN s.mode = "DPOS" /\ n >= Irr
    ELSE n > Irr

CommonPrefixLen(p, q) ==
    LET n == IF Len(p) < Len(q) THEN Len(p) ELSE Len(q)
        S == {i \in 0..n : \A j \in 1..i : p[j] = q[j]}
    IN CHOOSE i \in S : \A k \in S : k <= i

\* connect the blocks of `todo` (ids) one by one; kd gives the kind of an id
RECURSIVE ConnectAll(_, _, _, _, _)
ConnectAll(m, sv, s, todo, kd) ==
    IF todo = <<>> THEN [main |-> m, saved |-> sv, st |-> s]
    ELSE LET h == Base + Len(m) + 1
         IN ConnectAll(Append(m, Head(todo)), Append(sv, s), Apply(s, h, kd[Head(todo)]), Tail(todo), kd)

Init == /\ parent = <<>> /\ kind = <<>> /\ main = <<>> /\ st = PlainTo(Base) /\ saved = <<>>
        /\ nside = 0 /\ ncalls = 0 /\ maxLih = PlainTo(Base).lih /\ log = <<>>

Log(act, args, verdict, det) ==
    log' = Append(log, [act |-> act, args |-> args,
                        verdict |-> verdict, detached |-> det,
                        main |-> main', lih |-> st'.lih, mode |-> st'.mode,
                        height |-> Base + Len(main')])

\* detach down to the fork with `path`, attach the rest of `path`
Reorganize(path, kd) ==
    LET f == CommonPrefixLen(main, path)
        n == Len(main) - f
        s0 == IF n = 0 THEN st ELSE saved[f + 1]
        r == ConnectAll(SubSeq(main, 1, f), SubSeq(saved, 1, f), s0, SubSeq(path, f + 1, Len(path)), kd)
    IN IF KeepMaxLih /\ r.st.lih < st.lih THEN [r EXCEPT !.st.lih = st.lih] ELSE r
DetachedHeights(path) ==
    LET f == CommonPrefixLen(main, path)
    IN [i \in 1..(Len(main) - f) |-> Base + Len(main) + 1 - i]

(* mine a block of kind k on p and deliver it *)
Mine(p, k) ==
    /\ NB < MaxBlocks /\ p \in 0..NB
    /\ KindOK(StateAt(p), HeightOf(p) + 1, k)
    /\ k # "plain" => NModeTx < MaxModeTx
    /\ parent' = Append(parent, p)
    /\ kind' = Append(kind, k)
    /\ UNCHANGED ncalls
    /\ LET b == NB + 1
           hb == HeightOf(p) + 1
           args == [id |-> b, parent |-> p, kind |-> k] IN
       IF p = Tip
       THEN \* extends the best chain
            LET r == ConnectAll(main, saved, st, <<b>>, kind') IN
            /\ main' = r.main /\ saved' = r.saved /\ st' = r.st
            /\ maxLih' = Max(maxLih, r.st.lih)
            /\ nside' = nside
            /\ Log("Mine", args, "extended", <<>>)
       ELSE /\ nside < MaxSide /\ nside' = nside + 1
            \* competing blocks are only mined near the tip
            /\ HeightOf(p) + MaxForkDepth >= TipHeight
            \* either a competing branch grows, or a new one starts while fewer
            \* than MaxForks are alive
            /\ p \in Leaves \/ (OnMain(p) /\ Cardinality(Leaves) < MaxForks)
            /\ IF hb <= TipHeight
               THEN /\ UNCHANGED <<main, saved, st, maxLih>>
                    /\ Log("Mine", args, "side", <<>>)
               ELSE LET path == Append(PathTo(p), b)
                        n == Len(main) - CommonPrefixLen(main, path)
                    IN IF IsIrreversible(TipHeight, n, st)
                       THEN /\ UNCHANGED <<main, saved, st, maxLih>>
                            /\ Log("Mine", args, "refused", <<>>)
                       ELSE LET r == Reorganize(path, kind')
                            IN /\ main' = r.main /\ saved' = r.saved /\ st' = r.st
                               /\ maxLih' = Max(maxLih, r.st.lih)
                               /\ Log("Mine", args, "reorganized", DetachedHeights(path))

(* BlockChain.ReorganizeChain(b) for a known block off the active chain: no work comparison.
   ReorgGuardAtTip = FALSE is the code before its repair: the guard was evaluated with the
   height of b instead of the height of the tip. *)
ReorgCall(b) ==
    /\ ncalls < MaxReorgCalls /\ b \in 1..NB /\ ~OnMain(b)
    /\ ncalls' = ncalls + 1
    /\ UNCHANGED <<parent, kind, nside>>
    /\ LET path == PathTo(b)
           n == Len(main) - CommonPrefixLen(main, path)
       IN IF IsIrreversible(IF ReorgGuardAtTip THEN TipHeight ELSE HeightOf(b), n, st)
          THEN /\ UNCHANGED <<main, saved, st, maxLih>>
               /\ Log("Reorg", [id |-> b], "refused", <<>>)
          ELSE LET r == Reorganize(path, kind)
               IN /\ main' = r.main /\ saved' = r.saved /\ st' = r.st
                  /\ maxLih' = Max(maxLih, r.st.lih)
                  /\ Log("Reorg", [id |-> b], "reorganized", DetachedHeights(path))

Next == \/ \E p \in 0..MaxBlocks, k \in KindSet : Mine(p, k)
        \/ \E b \in 1..MaxBlocks : ReorgCall(b)
Spec == Init /\ [][Next]_vars

---------------------------------------------------------------------------
(* C30 *)
Detached(i) == i > Len(main') \/ main'[i] # main[i]

\* no reorganisation detaches a block at or below the irreversible height recorded when it happens
NoDetachBelowIrreversible ==
    [][\A i \in 1..Len(main) : Detached(i) => Base + i > st.lih]_vars

\* ... nor at or below any irreversible height the node ever recorded
NoDetachOnceIrreversible ==
    [][\A i \in 1..Len(main) : Detached(i) => Base + i > maxLih]_vars

\* the irreversible height never decreases while the node moves forward
IrreversibleMonotone ==
    [][Len(main') > Len(main) => st'.lih >= st.lih]_vars
\* the same for plain extensions only
IrreversibleMonotoneOnExtension ==
    [][(Len(main') > Len(main) /\ \A i \in 1..Len(main) : ~Detached(i)) => st'.lih >= st.lih]_vars

\* a chain in DPoS mode never gives up Irr or more blocks
NeverDeepReorg ==
    [][(TipHeight >= RevertStart /\ st.mode = "DPOS") =>
         Cardinality({i \in 1..Len(main) : Detached(i)}) < Irr]_vars

\* the state is the fold of the active chain (rollback = exact inverse, C21's half of the bookkeeping)
StateIsFold == ~KeepMaxLih => st = StateAt(Tip)

Emit == PrintT(<<"TRACE", ToJson(log')>>)
EmitLast == (Len(parent') = MaxBlocks) => PrintT(<<"TRACE", ToJson(log')>>)
=============================================================================
