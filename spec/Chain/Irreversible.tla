---------------------------- MODULE Irreversible ----------------------------
(***************************************************************************)
(* Irreversibility of blocks under DPoS consensus                          *)
(* (dpos/state/state.go: tryUpdateLastIrreversibleHeight, IsIrreversible;  *)
(* blockchain/blockchain.go: connectBestChain's guard before               *)
(* reorganizeChain, CkpManager.OnRollbackTo / OnBlockSaved around every    *)
(* detach / attach).                                                       *)
(*                                                                         *)
(* All blocks are valid and carry unit work (the validity half is          *)
(* Ledger.tla's subject).  The chain grows by Mine(p): the harness builds  *)
(* a block on any known block p and hands it to ProcessBlock at once.      *)
(* Heights are absolute: the behaviour starts at height Base on a common   *)
(* prefix.  lih / dstart are State.LastIrreversibleHeight and              *)
(* State.DPOSStartHeight; `saved` keeps, per main-chain block, the values  *)
(* before it was connected (what the History rollback restores).           *)
(***************************************************************************)
EXTENDS Integers, Sequences, FiniteSets, TLC, Json

CONSTANTS Base,        \* height of the common prefix tip
          CRCOnly,     \* ChainParams.CRCOnlyDPOSHeight
          RevertStart, \* DPoSConfiguration.RevertToPOWStartHeight
          Irr,         \* state.IrreversibleHeight (6)
          MaxBlocks,   \* total blocks mined
          MaxSide,     \* blocks mined on something else than the tip
          MaxForks     \* competing branches alive at the same time

VARIABLES parent,   \* parent[b] for b in 1..NB (0 = prefix tip)
          main,     \* active chain above the prefix
          lih, dstart,
          saved,    \* saved[i] = <<lih, dstart>> before main[i] was connected
          nside,
          log
vars == <<parent, main, lih, dstart, saved, nside, log>>
view == <<parent, main, lih, dstart, saved, nside>>

NB == Len(parent)
RECURSIVE HeightOf(_)
HeightOf(b) == IF b = 0 THEN Base ELSE 1 + HeightOf(parent[b])
RECURSIVE PathTo(_)
PathTo(b) == IF b = 0 THEN <<>> ELSE Append(PathTo(parent[b]), b)
Tip == IF main = <<>> THEN 0 ELSE main[Len(main)]
TipHeight == Base + Len(main)
OnMain(b) == b = 0 \/ \E i \in 1..Len(main) : main[i] = b
\* tips of competing branches
Leaves == {b \in 1..NB : ~OnMain(b) /\ \A c \in 1..NB : parent[c] # b}

\* tryUpdateLastIrreversibleHeight(h) in DPOS mode
Upd(l, d, h) ==
    IF h < RevertStart THEN <<l, d>>
    ELSE IF l = 0 THEN <<h - Irr, h - Irr>>
    ELSE IF h - d >= Irr THEN <<d + 1, d + 1>>
    ELSE <<l, d>>

\* IsIrreversible(curBlockHeight, detachNodesLen), consensus = DPOS
IsIrreversible(cur, n, l) ==
    IF cur <= CRCOnly THEN FALSE
    ELSE IF cur - n <= l THEN TRUE
    ELSE IF cur >= RevertStart THEN n >= Irr
    ELSE n > Irr

CommonPrefixLen(p, q) ==
    LET n == IF Len(p) < Len(q) THEN Len(p) ELSE Len(q)
        S == {i \in 0..n : \A j \in 1..i : p[j] = q[j]}
    IN CHOOSE i \in S : \A k \in S : k <= i

\* connect the blocks of `todo` (ids) one by one
RECURSIVE ConnectAll(_, _, _, _, _)
ConnectAll(m, sv, l, d, todo) ==
    IF todo = <<>> THEN [main |-> m, saved |-> sv, lih |-> l, dstart |-> d]
    ELSE LET h == Base + Len(m) + 1
             u == Upd(l, d, h)
         IN ConnectAll(Append(m, Head(todo)), Append(sv, <<l, d>>), u[1], u[2], Tail(todo))

Init == /\ parent = <<>> /\ main = <<>> /\ lih = 0 /\ dstart = 0 /\ saved = <<>>
        /\ nside = 0 /\ log = <<>>

Log(p, verdict, det) ==
    log' = Append(log, [act |-> "Mine", args |-> [id |-> NB + 1, parent |-> p],
                        verdict |-> verdict, detached |-> det,
                        main |-> main', lih |-> lih', height |-> Base + Len(main')])

(* mine a block on p and deliver it *)
Mine(p) ==
    /\ NB < MaxBlocks /\ p \in 0..NB
    /\ parent' = Append(parent, p)
    /\ LET b == NB + 1
           hb == HeightOf(p) + 1 IN
       IF p = Tip
       THEN \* extends the best chain
            LET r == ConnectAll(main, saved, lih, dstart, <<b>>) IN
            /\ main' = r.main /\ saved' = r.saved /\ lih' = r.lih /\ dstart' = r.dstart
            /\ nside' = nside
            /\ Log(p, "extended", <<>>)
       ELSE /\ nside < MaxSide /\ nside' = nside + 1
            \* competing blocks are only mined near the tip (older forks can never
            \* win and only multiply isomorphic states)
            /\ HeightOf(p) + Irr + 1 >= TipHeight
            \* either a competing branch grows, or a new one starts while fewer
            \* than MaxForks are alive
            /\ p \in Leaves \/ (OnMain(p) /\ Cardinality(Leaves) < MaxForks)
            /\ IF hb <= TipHeight
               THEN /\ UNCHANGED <<main, saved, lih, dstart>>
                    /\ Log(p, "side", <<>>)
               ELSE LET path == [i \in 1..(Len(PathTo(p)) + 1) |->
                                    IF i <= Len(PathTo(p)) THEN PathTo(p)[i] ELSE b]
                        f == CommonPrefixLen(main, path)
                        n == Len(main) - f
                    IN IF IsIrreversible(TipHeight, n, lih)
                       THEN /\ UNCHANGED <<main, saved, lih, dstart>>
                            /\ Log(p, "refused", <<>>)
                       ELSE \* detach n blocks (state rolled back to the fork point), attach the branch
                            LET l0 == IF n = 0 THEN lih ELSE saved[f + 1][1]
                                d0 == IF n = 0 THEN dstart ELSE saved[f + 1][2]
                                r == ConnectAll(SubSeq(main, 1, f), SubSeq(saved, 1, f), l0, d0,
                                                SubSeq(path, f + 1, Len(path)))
                            IN /\ main' = r.main /\ saved' = r.saved /\ lih' = r.lih /\ dstart' = r.dstart
                               /\ Log(p, "reorganized",
                                      [i \in 1..n |-> Base + Len(main) + 1 - i])

Next == \E p \in 0..MaxBlocks : Mine(p)
Spec == Init /\ [][Next]_vars

---------------------------------------------------------------------------
(* C30 *)
\* no reorganisation detaches a block at or below the recorded irreversible height
NoDetachBelowIrreversible ==
    [][\A i \in 1..Len(main) : (i > Len(main') \/ main'[i] # main[i]) => Base + i > lih]_vars

\* the irreversible height never decreases while the node moves forward
IrreversibleMonotone ==
    [][Len(main') > Len(main) => lih' >= lih]_vars

\* a chain in DPoS mode never gives up Irr or more blocks
NeverDeepReorg ==
    [][TipHeight >= RevertStart =>
         Cardinality({i \in 1..Len(main) : i > Len(main') \/ main'[i] # main[i]}) < Irr]_vars

\* irreversible height stays below the tip
LihBelowTip == lih <= TipHeight

Emit == PrintT(<<"TRACE", ToJson(log')>>)
EmitLast == (Len(parent') = MaxBlocks) => PrintT(<<"TRACE", ToJson(log')>>)
=============================================================================
