------------------------------- MODULE Index -------------------------------
(***************************************************************************)
(* The persistent indexes behind SaveBlock / RollbackBlock                 *)
(* (blockchain/chainstore.go persist/rollback, chainstoreffldb.go,         *)
(* blockchain/indexers/{unspent,utxo,tx,returndeposit}index.go and the     *)
(* per-transaction save / rollback processors of core/transaction:         *)
(* WithdrawFromSideChain -> Tx3 index, CRCProposal / Review / Tracking ->  *)
(* proposal draft data).                                                   *)
(*                                                                         *)
(* Storage level: blocks are connected and disconnected at the tip of a    *)
(* linear chain without validation, so every transaction kind with an      *)
(* index effect can be exercised.  The reference semantics is the fold of  *)
(* the chain; C13 (disconnect exactly undoes connect) is the action        *)
(* property DisconnectUndoesConnect.                                       *)
(***************************************************************************)
EXTENDS Integers, Sequences, FiniteSets, TLC, Json

CONSTANTS Templates,          \* transaction templates usable in blocks
          MaxOps, MaxTxPerBlock,
          DraftRemoveUnconditional  \* TRUE: rollback deletes a draft hash even if another
                                    \* transaction on the chain stored the same hash (code as is)

VARIABLES chain,     \* sequence of blocks; a block is a sequence of templates
          parked,    \* blocks that were disconnected and may be connected again
          drafts,    \* draft-data index as the code maintains it (set of hashes)
          nops, log
vars == <<chain, parked, drafts, nops, log>>
view == <<chain, parked, drafts, nops>>

---------------------------------------------------------------------------
(* Templates: inputs, outputs [addr, zero], and index effects. *)
Ins(t)  == CASE t = "P1" -> {<<"F1", 0>>}
             [] t = "P2" -> {<<"P1", 0>>}
             [] t = "P3" -> {<<"F2", 0>>, <<"P1", 1>>}
             [] OTHER -> {}
Outs(t) == CASE t = "P1" -> << [addr |-> "A", zero |-> FALSE], [addr |-> "B", zero |-> FALSE] >>
             [] t = "P2" -> << [addr |-> "A", zero |-> FALSE], [addr |-> "A", zero |-> TRUE] >>
             [] t = "P3" -> << [addr |-> "B", zero |-> FALSE] >>
             [] t \in {"W3", "W4"} -> << [addr |-> "B", zero |-> FALSE], [addr |-> "A", zero |-> FALSE] >>
             [] OTHER    -> << [addr |-> "A", zero |-> FALSE] >>
\* side-chain withdrawal hashes recorded (Tx3 index)
Tx3Of(t) == CASE t = "W0" -> {"h1", "h2"}     \* payload v0: hashes in the payload
              [] t = "W1" -> {"h3"}           \* payload v1: hash in the output payload
              [] t = "W2" -> {"h4"}           \* payload v2 (Schnorr)
              [] t = "W3" -> {"h5"}           \* v1, a plain (change) output before the withdraw output
              [] t = "W4" -> {"h6"}           \* v2, a plain (change) output before the withdraw output
              [] OTHER -> {}
RetDepOf(t) == IF t = "R1" THEN {"d1"} ELSE {}
DraftOf(t) == CASE t = "CP"  -> {"g1"}
                [] t = "CR1" -> {"g2"}
                [] t = "CR2" -> {"g2"}        \* another review carrying the same opinion
                [] t = "CT"  -> {"g3", "g4"}
                [] OTHER -> {}

Funds == {<<"F1", 0>>, <<"F2", 0>>}
SeqSet(s) == {s[i] : i \in 1..Len(s)}
OutSet(t) == {<<t, i - 1>> : i \in 1..Len(Outs(t))}
TxsOn(c) == UNION {SeqSet(c[i]) : i \in 1..Len(c)}

RECURSIVE UtxoOf(_)
UtxoOf(c) == IF c = <<>> THEN Funds
             ELSE LET ts == SeqSet(c[Len(c)])
                      pre == UtxoOf(SubSeq(c, 1, Len(c) - 1))
                  IN (pre \ UNION {Ins(t) : t \in ts}) \cup UNION {OutSet(t) : t \in ts}
OutAddr(op) == IF op \in Funds THEN "K" ELSE Outs(op[1])[op[2] + 1].addr
OutZero(op) == IF op \in Funds THEN FALSE ELSE Outs(op[1])[op[2] + 1].zero
AddrUtxo(c, a) == {op \in UtxoOf(c) : OutAddr(op) = a /\ ~OutZero(op)}
Tx3On(c) == UNION {Tx3Of(t) : t \in TxsOn(c)}
RetDepOn(c) == UNION {RetDepOf(t) : t \in TxsOn(c)}
DraftsOn(c) == UNION {DraftOf(t) : t \in TxsOn(c)}
TxHeight(c, t) == IF t \in TxsOn(c) THEN CHOOSE i \in 1..Len(c) : t \in SeqSet(c[i]) ELSE 0

\* a block may only spend what is unspent before it (the driver feeds blocks
\* the node's own validation would let through in this respect)
Spendable(ts, c) == /\ \A t \in SeqSet(ts) : Ins(t) \subseteq UtxoOf(c)
                    /\ \A i, j \in 1..Len(ts) : i # j => Ins(ts[i]) \cap Ins(ts[j]) = {}

Blocks == {<<t>> : t \in Templates}
            \cup (IF MaxTxPerBlock >= 2 THEN {<<t, u>> : t \in Templates, u \in Templates} \ {<<t, t>> : t \in Templates} ELSE {})

Init == chain = <<>> /\ parked = {} /\ drafts = {} /\ nops = 0 /\ log = <<>>

Log(act, blk, lost) ==
    log' = Append(log, [act |-> act, block |-> blk, lost |-> lost,
                        height |-> Len(chain'),
                        utxo |-> UtxoOf(chain'),
                        addrA |-> AddrUtxo(chain', "A"), addrB |-> AddrUtxo(chain', "B"),
                        addrK |-> AddrUtxo(chain', "K"),
                        tx3 |-> Tx3On(chain'), retdep |-> RetDepOn(chain'),
                        drafts |-> drafts',
                        txh |-> [t \in Templates |-> TxHeight(chain', t)]])

(* ChainStore.SaveBlock *)
Connect(ts) ==
    /\ nops < MaxOps
    /\ SeqSet(ts) \cap TxsOn(chain) = {}
    /\ Spendable(ts, chain)
    /\ chain' = Append(chain, ts)
    /\ parked' = parked \ {ts}
    /\ drafts' = drafts \cup UNION {DraftOf(t) : t \in SeqSet(ts)}
    /\ nops' = nops + 1
    /\ Log("Connect", ts, {})

(* ChainStore.RollbackBlock of the tip *)
Disconnect ==
    /\ nops < MaxOps /\ chain # <<>>
    /\ LET ts == chain[Len(chain)]
           rest == SubSeq(chain, 1, Len(chain) - 1)
           mine == UNION {DraftOf(t) : t \in SeqSet(ts)}
           \* hashes another transaction still on the chain also stored
           shared == mine \cap DraftsOn(rest)
       IN /\ chain' = rest
          /\ parked' = parked \cup {ts}
          /\ drafts' = IF DraftRemoveUnconditional THEN drafts \ mine ELSE (drafts \ mine) \cup shared
          /\ nops' = nops + 1
          /\ Log("Disconnect", ts, IF DraftRemoveUnconditional THEN shared ELSE {})

Next == \/ \E ts \in Blocks \cup parked : Connect(ts)
        \/ Disconnect
Spec == Init /\ [][Next]_vars

---------------------------------------------------------------------------
\* the draft index equals what the transactions on the chain carry
DraftsAgree == drafts = DraftsOn(chain)

\* C13: connecting a block and then disconnecting it leaves every index as it was.
\* All other indexes are folds of `chain`; the only index kept as a variable is the
\* draft store, so this is the whole content of the property in this model.
DisconnectUndoesConnect ==
    [][(Len(chain') < Len(chain)) => drafts' = DraftsOn(chain')]_vars

Emit == PrintT(<<"TRACE", ToJson(log')>>)
EmitLast == (nops' = MaxOps) => PrintT(<<"TRACE", ToJson(log')>>)
=============================================================================
