------------------------------ MODULE Issuance ------------------------------
(***************************************************************************)
(* C11: issuance follows the schedule.                                     *)
(* (common/config/config.go GetBlockReward / newRewardPerBlock;            *)
(* blockchain/blockvalidator.go checkCoinbaseTransactionContext, DPoS v2   *)
(* branch; pow/service.go AssignCoinbaseTxRewards is the producer side.)   *)
(*                                                                         *)
(* Part 1, the schedule: Subsidy(h) is Old below NewH and                  *)
(* Base \div 2^(factor-1) from NewH on, factor = 1 below HalvH and         *)
(* 2 + (h - HalvH) \div Interval afterwards.                               *)
(* Part 2, the coinbase rule after DPoS v2 is active: a case is a height,  *)
(* a fee total, the consensus mode and a coinbase described relative to    *)
(* the correct one: per-share value offsets, address choices and output    *)
(* count.  CoinbaseAccept transcribes the code's comparisons.              *)
(***************************************************************************)
EXTENDS Integers, Sequences, FiniteSets, TLC, Json

CONSTANTS Old, Base, NewH, HalvH, Interval, MinH, MaxH,   \* schedule (scaled); coinbase cases at MinH..MaxH
          Fees                                      \* fee totals tried

RECURSIVE Pow2(_)
Pow2(n) == IF n = 0 THEN 1 ELSE 2 * Pow2(n - 1)
Factor(h) == IF h < HalvH THEN 1 ELSE 2 + (h - HalvH) \div Interval
Subsidy(h) == IF h < NewH THEN Old ELSE Base \div Pow2(Factor(h) - 1)

\* ceil(x * p / 100)
CeilPct(x, p) == (x * p + 99) \div 100
CRShare(t) == CeilPct(t, 30)
DPShare(t) == CeilPct(t, 35)
MinerShare(t) == t - CRShare(t) - DPShare(t)

Modes == {"POW", "DPOS"}
Addrs == {"cr", "dpos", "destroy", "other"}
Offsets == {-1, 0, 1}

VARIABLES h, fee, mode, dcr, dminer, ddp, acr, adp, aminer, nout, done, log
vars == <<h, fee, mode, dcr, dminer, ddp, acr, adp, aminer, nout, done, log>>
view == <<h, fee, mode, dcr, dminer, ddp, acr, adp, aminer, nout, done>>

Total == Subsidy(h) + fee
\* the coinbase the case describes
Out0 == [value |-> CRShare(Total) + dcr, addr |-> acr]
Out1 == [value |-> MinerShare(Total) + dminer, addr |-> aminer]
Out2 == [value |-> DPShare(Total) + ddp, addr |-> adp]

\* checkCoinbaseTransactionContext, branch blockHeight > DPoSV2ActiveHeight + 1
CoinbaseAccept ==
    /\ nout >= 2                      \* (guaranteed earlier by the coinbase sanity check)
    /\ Out0.value = CRShare(Total)
    /\ Out1.value = MinerShare(Total)
    /\ nout = 3
    /\ Out2.value = DPShare(Total)
    /\ IF mode = "POW" THEN Out2.addr = "destroy" /\ Out0.addr = "destroy"
                       ELSE Out0.addr = "cr" /\ Out2.addr = "dpos"

Init == /\ h \in MinH..MaxH /\ fee \in Fees /\ mode \in Modes
        /\ dcr \in Offsets /\ dminer \in Offsets /\ ddp \in Offsets
        /\ acr \in Addrs /\ adp \in Addrs /\ aminer \in {"miner", "other"}
        /\ nout \in {2, 3, 4}
        \* cases are single or double deviations from the correct coinbase
        /\ Cardinality({x \in {"v0", "v1", "v2", "a0", "a2", "am", "n"} :
                (x = "v0" /\ dcr # 0) \/ (x = "v1" /\ dminer # 0) \/ (x = "v2" /\ ddp # 0)
                \/ (x = "a0" /\ acr # IF mode = "POW" THEN "destroy" ELSE "cr")
                \/ (x = "a2" /\ adp # IF mode = "POW" THEN "destroy" ELSE "dpos")
                \/ (x = "am" /\ aminer # "miner") \/ (x = "n" /\ nout # 3)}) <= 2
        /\ done = FALSE /\ log = <<>>

Decide == /\ ~done /\ done' = TRUE
          /\ UNCHANGED <<h, fee, mode, dcr, dminer, ddp, acr, adp, aminer, nout>>
          /\ log' = <<[act |-> "Case", h |-> h, fee |-> fee, mode |-> mode,
                       dcr |-> dcr, dminer |-> dminer, ddp |-> ddp,
                       acr |-> acr, adp |-> adp, aminer |-> aminer, nout |-> nout,
                       factor |-> Factor(h), newSchedule |-> h >= NewH,
                       accept |-> CoinbaseAccept]>>
Next == Decide
Spec == Init /\ [][Next]_vars

---------------------------------------------------------------------------
(* C11 *)
SubsidyNonNegative == \A x \in 0..MaxH : Subsidy(x) >= 0
SubsidyNonIncreasing == \A x \in NewH..(MaxH - 1) : Subsidy(x + 1) <= Subsidy(x)
\* an accepted coinbase pays exactly subsidy + fees, split as fixed, to the fixed addresses
\* (the miner's own address is free by design)
AcceptedPaysExactly ==
    CoinbaseAccept =>
        /\ nout = 3
        /\ Out0.value + Out1.value + Out2.value = Subsidy(h) + fee
        /\ Out0.value = CRShare(Total) /\ Out2.value = DPShare(Total)
        /\ Out0.addr = (IF mode = "POW" THEN "destroy" ELSE "cr")
        /\ Out2.addr = (IF mode = "POW" THEN "destroy" ELSE "dpos")
\* and the correct coinbase is accepted
CorrectAccepted ==
    (dcr = 0 /\ dminer = 0 /\ ddp = 0 /\ nout = 3
     /\ acr = (IF mode = "POW" THEN "destroy" ELSE "cr")
     /\ adp = (IF mode = "POW" THEN "destroy" ELSE "dpos")) => CoinbaseAccept

Emit == PrintT(<<"TRACE", ToJson(log')>>)
=============================================================================
