---------------------------- MODULE IrrScenario ----------------------------
(***************************************************************************)
(* A scripted behaviour of Irreversible.tla: the spec computes verdicts,   *)
(* chains and irreversible heights of a fixed sequence of deliveries       *)
(* (<<"M", parent, kind>> mines a block, <<"R", b, "">> calls ReorganizeChain(b)).  *)
(* The check recipe writes Script (IrrScript.tla) per scenario.            *)
(***************************************************************************)
EXTENDS Irreversible, IrrScript
Step == Len(log) + 1
SNext == /\ Step <= Len(Script)
         /\ LET e == Script[Step]
            IN IF e[1] = "R" THEN ReorgCall(e[2]) ELSE Mine(e[2], e[3])
SSpec == Init /\ [][SNext]_vars
SEmit == (Len(log') = Len(Script)) => PrintT(<<"TRACE", ToJson(log')>>)
=============================================================================
