------------------------------- MODULE Wallet -------------------------------
(***************************************************************************)
(* The wallet's coins checkpoint (wallet/coincheckpoint.go) on top of the  *)
(* block tree of Ledger.tla: a checkpoint registered with the checkpoint   *)
(* manager, fed by OnBlockSaved for every connected block and              *)
(* OnRollbackTo(h-1) before the block at height h is disconnected.         *)
(*                                                                         *)
(* `wal` is the set of outpoints the wallet holds.  It is folded over      *)
(* exactly the notification sequence Ledger's Outcome produces:            *)
(*   connected(b)    -> spent outpoints leave, outputs paying a wallet     *)
(*                      address enter                                      *)
(*   disconnected(b) -> the block's outputs leave, the wallet-owned        *)
(*                      outputs its transactions spent come back           *)
(* C23 for the wallet: the checkpoint is lossless (the replay driver       *)
(* serializes and restores it after every step and compares every field),  *)
(* and a wallet that is replaced by its restored copy at any step and then *)
(* follows the chain ends like one that was never restarted -- both are    *)
(* compared with this fold, which in turn must be the wallet's share of    *)
(* the UTXO set of the active chain (WalletIsLedgerView).                  *)
(***************************************************************************)
EXTENDS Ledger

CONSTANTS WalletAddrs,    \* addresses in the wallet's address book
          RollbackWorks   \* FALSE: OnRollbackTo as the code had it (loop never entered)

VARIABLES wal
wvars == <<vars, wal>>
wview == <<view, wal>>

Mine(op) == OutAddr(op) \in WalletAddrs

BlockIns(b)  == UNION {InSet(t)  : t \in SeqSet(blocks[b].txs)}
BlockOuts(b) == UNION {OutSet(t) : t \in SeqSet(blocks[b].txs)}

WalStep(W, e) ==
    CASE e[1] = "c" -> (W \ BlockIns(e[2])) \cup {op \in BlockOuts(e[2]) : Mine(op)}
      [] e[1] = "d" -> IF RollbackWorks
                       THEN (W \ BlockOuts(e[2])) \cup {op \in BlockIns(e[2]) : Mine(op)}
                       ELSE W
      [] OTHER      -> W

RECURSIVE FoldWal(_, _)
FoldWal(W, ev) == IF ev = <<>> THEN W ELSE FoldWal(WalStep(W, Head(ev)), Tail(ev))

WInit == Init /\ wal = {op \in Funds : Mine(op)}

WMint(p, ts, bad) == Mint(p, ts, bad) /\ UNCHANGED wal
WStart == StartRun /\ UNCHANGED wal

WDeliver(b) ==
    /\ phase = "run" /\ ndeliv < MaxDeliver /\ b \in 1..NB
    /\ ndeliv' = ndeliv + 1
    /\ UNCHANGED <<blocks, phase>>
    /\ LET o == Outcome(b, FixFailedReorg) IN
       /\ main' = o.main /\ known' = o.known /\ orphans' = o.orphans /\ strand' = o.strand
       /\ wal' = FoldWal(wal, o.ev)
       /\ log' = Append(log, [act |-> "Deliver", args |-> [id |-> b], res |-> o.res, ev |-> o.ev,
                              main |-> main', wal |-> wal',
                              view |-> {op \in UtxoOf(main') : Mine(op)}])

WNext == \/ \E p \in 0..MaxBlocks, ts \in TxSeqs, bad \in {"none", "merkle", "reward"} : WMint(p, ts, bad)
         \/ WStart
         \/ \E b \in 1..MaxBlocks : WDeliver(b)
WSpec == WInit /\ [][WNext]_wvars

---------------------------------------------------------------------------
\* the wallet holds exactly its addresses' share of the UTXO set of the active chain
\* (unless a failed reorganisation was left half-way, which `strand` records)
WalletIsLedgerView == ~strand => wal = {op \in UtxoOf(main) : Mine(op)}

WEmit == PrintT(<<"TRACE", ToJson(log')>>)
WEmitLast == (ndeliv' = MaxDeliver) => PrintT(<<"TRACE", ToJson(log')>>)
=============================================================================
