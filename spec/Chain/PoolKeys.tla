------------------------------ MODULE PoolKeys ------------------------------
(***************************************************************************)
(* C34, the unique resources of the transaction pool:                      *)
(*   "the pool holds no two transactions that claim the same unique        *)
(*    resource; its per-resource index agrees exactly with the             *)
(*    transactions it holds".                                              *)
(*                                                                         *)
(* mempool/conflictmanager.go keeps one index ("slot") per kind of unique  *)
(* resource; mempool/conflictfunc.go derives, per transaction type, the    *)
(* keys a transaction occupies in every slot.  Mempool.tla exercises       *)
(* outpoints and producer registrations through the whole pool; this       *)
(* module states WHAT EVERY TRANSACTION KIND CLAIMS (KindClaims, written   *)
(* from the meaning of the payloads) for transaction templates that        *)
(* deliberately collide, and differ only in payload version, output order  *)
(* or the number of hashes they carry.                                     *)
(*                                                                         *)
(* A claim is <<slot, key>>.  Slot names are the names of the pool's       *)
(* indexes; keys are symbolic (the replay driver maps them to real public  *)
(* keys, hashes, program hashes, outpoints...).                            *)
(*                                                                         *)
(*   DoAppend(t)  = the pool half of appendToTxPool: side-chain pow        *)
(*                  replacement, VerifyTx, size check, AppendTx,           *)
(*                  doAddTransaction (transaction list, fee list)          *)
(*   DoConnect(t) = TxPool.CleanSubmittedTransactions on a block holding   *)
(*                  the one transaction t, which may or may not be pooled: *)
(*                  what a connected block does to the pool                *)
(*                  (cleanTransactions, cleanSideChainPowTx,               *)
(*                  cleanCanceledProducerAndCR), modelled as the code does *)
(*                  it, including the transient state it leaves until the  *)
(*                  post-block CheckAndCleanAllTransactions: the keys of   *)
(*                  the block's transaction are dropped from the index     *)
(*                  whoever owns them.                                     *)
(***************************************************************************)
EXTENDS Integers, Sequences, FiniteSets, TLC, Json

CONSTANTS Family,      \* which family of templates (see Tpl)
          MaxOps,      \* number of pool operations in a behaviour
          Connects     \* which one-transaction blocks are connected: "none" | "held" (pooled transactions
                       \* only) | "related" (see Related) | "all"

VARIABLES pool,    \* templates held (transaction list)
          index,   \* the per-resource index: set of <<slot, key, owner template>>
          dropped, \* index entries of still pooled transactions that a connected block dropped
          nops, log
vars == <<pool, index, dropped, nops, log>>
view == <<pool, index, dropped, nops>>

Range(s) == {s[i] : i \in 1..Len(s)}
One(slot, k)   == {<<slot, k>>}
Many(slot, ks) == {<<slot, k>> : k \in ks}

---------------------------------------------------------------------------
(* The state of the chain the pool sits on: producers registered on chain, *)
(* owner key -> node key.  (A CancelProducer only names the owner key.)    *)
Registered == [K0 |-> "N0", K8 |-> "N8", K9 |-> "N9"]

(* Outputs of a transaction are listed in order; "plain" is an ordinary    *)
(* (change / fee) output, anything else is the hash carried by a withdraw  *)
(* / return-deposit output at that position.                               *)
Carried(outs) == {o \in Range(outs) : o # "plain"}

(* Public key a CR registration is made with: the key of a standard or     *)
(* Schnorr script, the whole script for a multi-signature CR.              *)
CRKey(d) == IF d.script = "multi" THEN "code:" \o d.key ELSE d.key

(***************************************************************************)
(* What each transaction kind claims.                                      *)
(***************************************************************************)
KindClaims(d) ==
  CASE d.kind \in {"RegisterProducer", "UpdateProducer"} ->
         \* one producer per owner key, per node key, per nickname; a key serves as owner
         \* or as node key of one producer only
         One("DPoSOwnerPublicKey", d.owner) \cup One("DPoSNodePublicKey", d.node)
         \cup Many("DPoSOwnerNodePublicKeys", {d.owner, d.node}) \cup One("DPoSNickname", d.nick)
    [] d.kind = "CancelProducer" ->
         \* the producer (owner key) and, against a concurrent activation, its node key
         One("DPoSOwnerPublicKey", d.owner) \cup One("DPoSActivateCancel", Registered[d.owner])
    [] d.kind = "ActivateProducer" ->
         One("DPoSNodePublicKey", d.node) \cup One("DPoSActivateCancel", d.node)
    [] d.kind = "RegisterCR" ->
         \* a CR's key may not be a producer's owner or node key; one registration per CID, per nickname
         One("DPoSOwnerPublicKey", CRKey(d)) \cup One("DPoSNodePublicKey", CRKey(d))
         \cup One("CrDID", d.cid) \cup One("CrNickname", d.nick)
    [] d.kind = "UpdateCR" ->
         One("CrDID", d.cid) \cup One("CrNickname", d.nick)
    [] d.kind = "UnregisterCR" ->
         One("CrDID", d.cid)
    [] d.kind \in {"ReturnDepositCoin", "ReturnCRDepositCoin"} ->
         \* one deposit return per signing script
         One("ProgramCode", d.code)
    [] d.kind = "CRCouncilMemberClaimNode" ->
         One("DPoSNodePublicKey", d.node) \cup One("CRCouncilMemberNodePublicKey", d.node)
         \cup One("CRCouncilMemberDID", d.did)
    [] d.kind = "CRCProposal" ->
         \* every proposal: its draft and its sponsoring council member; then per proposal type
         One("CRCProposalDraftHash", d.draft) \cup One("CRCProposalDID", d.member)
         \cup (CASE d.ptype = "CloseProposal"       -> One("CloseProposalTargetProposalHash", d.target)
                 [] d.ptype = "ChangeProposalOwner" -> One("ChangeProposalOwnerTargetProposalHash", d.target)
                 [] d.ptype = "SecretaryGeneral"    -> One("CRCSecretaryGeneral", "Secretary General")
                 [] d.ptype = "ReserveCustomID"     -> One("ReserveCustomID", "Reserve custom ID")
                 [] d.ptype = "ReceiveCustomID"     -> Many("CRCProposalCustomID", Range(d.ids))
                 [] d.ptype = "ChangeCustomIDFee"   -> One("ChangeCustomIDFee", "Change the fee of custom ID")
                 [] d.ptype = "RegisterSideChain"   -> One("CRCProposalRegisterSideChainName", d.name)
                                                       \cup One("CRCProposalRegisterSideChainMagicNumber", d.magic)
                                                       \cup One("CRCProposalRegisterSideChainGenesisHash", d.genesis)
                 [] OTHER -> {})      \* Normal, ELIP
    [] d.kind = "CRCProposalReview" ->
         \* one opinion per council member and proposal
         One("CRCProposalReviewKey", d.did \o "+" \o d.proposal)
    [] d.kind = "CRCProposalTracking" ->
         One("CRCProposalTrackingHash", d.proposal)
    [] d.kind = "CRCProposalWithdraw" ->
         One("CRCProposalHash", d.proposal)
    [] d.kind = "CRCProposalRealWithdraw" ->
         Many("CRCProposalRealWithdrawKey", Range(d.hashes))
    [] d.kind = "CRCAppropriation" ->
         One("CRCAppropriationKey", "CRC Appropriation")
    [] d.kind \in {"IllegalProposalEvidence", "IllegalVoteEvidence", "IllegalBlockEvidence",
                   "IllegalSidechainEvidence", "InactiveArbitrators", "NextTurnDPOSInfo"} ->
         \* the evidence (payload), whatever transaction carries it
         One("SpecialTxHash", d.ev)
    [] d.kind = "ProposalResult" ->
         One("CustomIDProposalResult", "customIDProposalResult")
    [] d.kind = "RevertToDPOS" ->
         One("RevertToDPOSHash", "RevertToDPOS")
    [] d.kind = "VotesRealWithdraw" ->
         One("VotesRealWithdraw", "VotesRealWithdraw")
    [] d.kind = "Withdraw" ->
         \* WithdrawFromSideChain: payload v0 lists the side-chain hashes in the payload;
         \* v1 / v2 carry one hash per withdraw output, wherever that output stands
         Many("SidechainTxHashes", IF d.ver = 0 THEN Range(d.hashes) ELSE Carried(d.outs))
    [] d.kind = "ReturnSideChainDeposit" ->
         Many("SidechainReturnDepositTxHashes", Carried(d.outs))
    [] d.kind = "NFTDestroyFromSideChain" ->
         Many("NFTDestroyFromSideChainHash", Range(d.ids))
    [] d.kind \in {"ExchangeVotes", "Voting", "ReturnVotes"} ->
         \* one staking operation per stake address
         One("ExchangeVotes", d.stake)
    [] d.kind = "CreateNFT" ->
         One("ExchangeVotes", d.stake) \cup One("createnft", d.refer) \cup One("createnftstakeaddr", d.addr)
    [] d.kind = "DposV2ClaimReward" ->
         One("DposV2ClaimReward", d.stake)
    [] d.kind = "DposV2ClaimRewardRealWithdraw" ->
         Many("DposV2ClaimRewardRealWithdrawKey", Range(d.hashes))
    [] d.kind \in {"TransferAsset", "Vote", "SideChainPow"} -> {}

SlotNames == {
  "DPoSOwnerPublicKey", "DPoSNodePublicKey", "DPoSOwnerNodePublicKeys", "DPoSActivateCancel", "DPoSNickname",
  "CrDID", "CrNickname", "ProgramCode", "CRCProposalDraftHash", "CRCProposalDID", "CRCProposalHash",
  "CRCProposalTrackingHash", "CRCProposalReviewKey", "CRCProposalCustomID", "CRCProposalRegisterSideChainName",
  "CRCProposalRegisterSideChainMagicNumber", "CRCProposalRegisterSideChainGenesisHash", "CRCAppropriationKey",
  "CRCProposalRealWithdrawKey", "DposV2ClaimRewardRealWithdrawKey", "CloseProposalTargetProposalHash",
  "ChangeProposalOwnerTargetProposalHash", "ChangeCustomIDFee", "ReserveCustomID", "SpecialTxHash",
  "SidechainTxHashes", "SidechainReturnDepositTxHashes", "CustomIDProposalResult", "TxInputsReferKeys",
  "CRCouncilMemberNodePublicKey", "CRCouncilMemberDID", "CRCSecretaryGeneral", "RevertToDPOSHash",
  "VotesRealWithdraw", "ExchangeVotes", "DposV2ClaimReward", "createnft", "createnftstakeaddr",
  "NFTDestroyFromSideChainHash" }

---------------------------------------------------------------------------
(* Templates, by family.  Public keys K., N., S.; hashes h., d., n., g.,   *)
(* P., w., x., r.; program hashes c. (CID), m. (council member), d. (DID). *)
W(ver, hashes, outs) == [kind |-> "Withdraw", ver |-> ver, hashes |-> hashes, outs |-> outs]
Side == [
  W0_h1h2    |-> W(0, <<"h1", "h2">>, <<"plain">>),
  W0_h3      |-> W(0, <<"h3">>, <<"plain">>),
  W0_h4h4    |-> W(0, <<"h4", "h4">>, <<"plain">>),          \* the same hash twice
  W1_h1      |-> W(1, <<>>, <<"h1">>),
  W1_p_h3    |-> W(1, <<>>, <<"plain", "h3">>),              \* plain output in front
  W1_h4_p_h2 |-> W(1, <<>>, <<"h4", "plain", "h2">>),        \* plain output between
  W1_h2_h1   |-> W(1, <<>>, <<"h2", "h1">>),
  W2_h2      |-> W(2, <<>>, <<"h2">>),
  W2_p_h4    |-> W(2, <<>>, <<"plain", "h4">>),
  W2_h3_p_h1 |-> W(2, <<>>, <<"h3", "plain", "h1">>),
  W2_p_p_h5  |-> W(2, <<>>, <<"plain", "plain", "h5">>),
  RD_d1      |-> [kind |-> "ReturnSideChainDeposit", outs |-> <<"d1">>],
  RD_p_d2    |-> [kind |-> "ReturnSideChainDeposit", outs |-> <<"plain", "d2">>],
  RD_d2_p_d1 |-> [kind |-> "ReturnSideChainDeposit", outs |-> <<"d2", "plain", "d1">>],
  RD_h1      |-> [kind |-> "ReturnSideChainDeposit", outs |-> <<"h1">>],   \* the value of a withdrawal hash: another resource
  ND_n1n2    |-> [kind |-> "NFTDestroyFromSideChain", ids |-> <<"n1", "n2">>],
  ND_n2      |-> [kind |-> "NFTDestroyFromSideChain", ids |-> <<"n2">>],
  ND_h1      |-> [kind |-> "NFTDestroyFromSideChain", ids |-> <<"h1">>] ]

RP(o, n, nick) == [kind |-> "RegisterProducer", owner |-> o, node |-> n, nick |-> nick]
UP(o, n, nick) == [kind |-> "UpdateProducer", owner |-> o, node |-> n, nick |-> nick]
Vote(vtype, cands) == [kind |-> "Vote", vtype |-> vtype, cands |-> cands]
CP(o) == [kind |-> "CancelProducer", owner |-> o, regnode |-> Registered[o]]   \* regnode: for the replay's chain setup
RCR(ver, script, key, cid, nick) == [kind |-> "RegisterCR", ver |-> ver, script |-> script, key |-> key, cid |-> cid, nick |-> nick]
Dpos == [
  RP_K1_N1_nA |-> RP("K1", "N1", "nickA"),
  RP_K2_N1_nB |-> RP("K2", "N1", "nickB"),      \* node key again
  RP_K1_N2_nC |-> RP("K1", "N2", "nickC"),      \* owner key again
  RP_K3_N3_nA |-> RP("K3", "N3", "nickA"),      \* nickname again
  RP_K4_K4_nD |-> RP("K4", "K4", "nickD"),      \* owner key = node key
  RP_N1_N5_nE |-> RP("N1", "N5", "nickE"),      \* owner key that is somebody's node key
  RP_K6_K4_nF |-> RP("K6", "K4", "nickF"),
  UP_K0_N0_nG |-> UP("K0", "N0", "nickG"),
  UP_K1_N7_nH |-> UP("K1", "N7", "nickH"),
  UP_K8_N8_nB |-> UP("K8", "N8", "nickB"),
  CP_K0       |-> CP("K0"),
  CP_K8       |-> CP("K8"),
  CP_K9       |-> CP("K9"),
  VD_K0       |-> Vote("Delegate", <<"K0">>),         \* votes for producers (vote outputs of a transfer)
  VD_K1K8     |-> Vote("Delegate", <<"K1", "K8">>),
  AP_N0       |-> [kind |-> "ActivateProducer", node |-> "N0"],
  AP_N1       |-> [kind |-> "ActivateProducer", node |-> "N1"],
  RCR_K1      |-> RCR(0, "std", "K1", "c1", "crA"),
  RCR_N1      |-> RCR(1, "std", "N1", "c2", "crB"),
  CM_N1_dX    |-> [kind |-> "CRCouncilMemberClaimNode", node |-> "N1", did |-> "dX"],
  CM_N7_dX    |-> [kind |-> "CRCouncilMemberClaimNode", node |-> "N7", did |-> "dX"],
  CM_N9_dY    |-> [kind |-> "CRCouncilMemberClaimNode", node |-> "N9", did |-> "dY"] ]

Cr == [
  RCR0_K1_c1_nA  |-> RCR(0, "std", "K1", "c1", "crA"),
  RCR1_K2_c1_nB  |-> RCR(1, "std", "K2", "c1", "crB"),        \* CID again
  RCR1_K3_c3_nA  |-> RCR(1, "std", "K3", "c3", "crA"),        \* nickname again
  RCR1_K1_c4_nD  |-> RCR(1, "std", "K1", "c4", "crD"),        \* key again
  RCR2_K5_c5_nE  |-> RCR(2, "schnorr", "K5", "c5", "crE"),
  RCR0_K5_c6_nF  |-> RCR(0, "std", "K5", "c6", "crF"),        \* the Schnorr CR's key
  RCR0_M12_c7_nG |-> RCR(0, "multi", "M12", "c7", "crG"),
  RCR1_M12_c8_nH |-> RCR(1, "multi", "M12", "c8", "crH"),
  UCR_c1_nC      |-> [kind |-> "UpdateCR", cid |-> "c1", nick |-> "crC"],
  UCR_c9_nA      |-> [kind |-> "UpdateCR", cid |-> "c9", nick |-> "crA"],
  UCR_c3_nJ      |-> [kind |-> "UpdateCR", cid |-> "c3", nick |-> "crJ"],
  XCR_c1         |-> [kind |-> "UnregisterCR", cid |-> "c1"],
  XCR_c9         |-> [kind |-> "UnregisterCR", cid |-> "c9"],
  VC_c1          |-> Vote("CRC", <<"c1">>),                     \* votes for CR candidates
  VC_c3c9        |-> Vote("CRC", <<"c3", "c9">>),
  RDC_K1         |-> [kind |-> "ReturnDepositCoin", code |-> "K1"],
  RCDC_K1        |-> [kind |-> "ReturnCRDepositCoin", code |-> "K1"],
  RDC_K2         |-> [kind |-> "ReturnDepositCoin", code |-> "K2"],
  RP_K1_N8_crA   |-> RP("K1", "N8", "crA"),                    \* a producer with the CR's key (and the CR's nickname: other resource)
  AP_K2          |-> [kind |-> "ActivateProducer", node |-> "K2"] ]

(* Public keys whose compressed encoding ends in 0xAC (names TA..) or in    *)
(* 0xAE (names TE..), the opcodes CHECKSIG / CHECKMULTISIG, used by         *)
(* Schnorr CR registrations.                                               *)
CrTail == [
  RCR2_TA_c1   |-> RCR(2, "schnorr", "TA", "c1", "crA"),
  RCR2_TE1_c2  |-> RCR(2, "schnorr", "TE1", "c2", "crB"),
  RCR2_TE2_c3  |-> RCR(2, "schnorr", "TE2", "c3", "crC"),
  RCR2_K5_c5   |-> RCR(2, "schnorr", "K5", "c5", "crE"),
  RP_TE1_N1_nX |-> RP("TE1", "N1", "nickX"),
  RP_TA_N2_nY  |-> RP("TA", "N2", "nickY") ]

Prop(ptype, draft, member) == [kind |-> "CRCProposal", ptype |-> ptype, draft |-> draft, member |-> member]
Target(ptype, draft, member, target) == [kind |-> "CRCProposal", ptype |-> ptype, draft |-> draft, member |-> member, target |-> target]
Rcv(draft, member, ids) == [kind |-> "CRCProposal", ptype |-> "ReceiveCustomID", draft |-> draft, member |-> member, ids |-> ids]
SideChain(draft, member, name, magic, genesis) ==
    [kind |-> "CRCProposal", ptype |-> "RegisterSideChain", draft |-> draft, member |-> member,
     name |-> name, magic |-> magic, genesis |-> genesis]
Prop1 == [
  PN_g1_mX       |-> Prop("Normal", "g1", "mX"),
  PN_g1_mY       |-> Prop("Normal", "g1", "mY"),               \* draft again
  PE_g2_mX       |-> Prop("ELIP", "g2", "mX"),                 \* council member again
  PClose_g3_mA   |-> Target("CloseProposal", "g3", "mA", "P1"),
  PClose_g4_mB   |-> Target("CloseProposal", "g4", "mB", "P1"),
  PChg_g5_mC     |-> Target("ChangeProposalOwner", "g5", "mC", "P1"),   \* closing and changing the owner: two resources
  PChg_g6_mD     |-> Target("ChangeProposalOwner", "g6", "mD", "P1"),
  PChg_g7_mE     |-> Target("ChangeProposalOwner", "g7", "mE", "P2"),
  PSec_g8_mF     |-> Prop("SecretaryGeneral", "g8", "mF"),
  PSec_g9_mG     |-> Prop("SecretaryGeneral", "g9", "mG"),
  PRes_g10_mH    |-> Prop("ReserveCustomID", "g10", "mH"),
  PRes_g11_mI    |-> Prop("ReserveCustomID", "g11", "mI"),
  PRcv_g12_mJ    |-> Rcv("g12", "mJ", <<"idA", "idB">>),
  PRcv_g13_mK    |-> Rcv("g13", "mK", <<"idC", "idB">>),
  PRcv_g14_mL    |-> Rcv("g14", "mL", <<"idD">>),
  PFee_g15_mM    |-> Prop("ChangeCustomIDFee", "g15", "mM"),
  PFee_g16_mN    |-> Prop("ChangeCustomIDFee", "g16", "mN") ]

Prop2 == [
  PSide_g1_mA    |-> SideChain("g1", "mA", "side1", "1001", "gen1"),
  PSide_g2_mB    |-> SideChain("g2", "mB", "side1", "1002", "gen2"),   \* name again
  PSide_g3_mC    |-> SideChain("g3", "mC", "side3", "1001", "gen3"),   \* magic number again
  PSide_g4_mD    |-> SideChain("g4", "mD", "side4", "1004", "gen1"),   \* genesis hash again
  PSide_g5_mE    |-> SideChain("g5", "mE", "side5", "1005", "gen5"),
  PClose_g6_mF   |-> Target("CloseProposal", "g6", "mF", "P1"),
  PChg_g7_mG     |-> Target("ChangeProposalOwner", "g7", "mG", "P1"),
  RV_dX_P1       |-> [kind |-> "CRCProposalReview", did |-> "dX", proposal |-> "P1", opinion |-> "o1"],
  RV_dX_P1b      |-> [kind |-> "CRCProposalReview", did |-> "dX", proposal |-> "P1", opinion |-> "o2"],
  RV_dY_P1       |-> [kind |-> "CRCProposalReview", did |-> "dY", proposal |-> "P1", opinion |-> "o1"],
  RV_dX_P2       |-> [kind |-> "CRCProposalReview", did |-> "dX", proposal |-> "P2", opinion |-> "o1"],
  TR_P1          |-> [kind |-> "CRCProposalTracking", proposal |-> "P1", msg |-> "t1"],
  TR_P1b         |-> [kind |-> "CRCProposalTracking", proposal |-> "P1", msg |-> "t2"],
  TR_P2          |-> [kind |-> "CRCProposalTracking", proposal |-> "P2", msg |-> "t1"],
  WD_P1          |-> [kind |-> "CRCProposalWithdraw", proposal |-> "P1", amount |-> 10],
  WD_P1b         |-> [kind |-> "CRCProposalWithdraw", proposal |-> "P1", amount |-> 20],
  WD_P2          |-> [kind |-> "CRCProposalWithdraw", proposal |-> "P2", amount |-> 10],
  RW_w1w2        |-> [kind |-> "CRCProposalRealWithdraw", hashes |-> <<"w1", "w2">>],
  RW_w3w2        |-> [kind |-> "CRCProposalRealWithdraw", hashes |-> <<"w3", "w2">>],
  APPR_1         |-> [kind |-> "CRCAppropriation", n |-> 1],
  APPR_2         |-> [kind |-> "CRCAppropriation", n |-> 2] ]

Ev(kind, ev, n) == [kind |-> kind, ev |-> ev, n |-> n]        \* n: distinguishes carriers of one evidence
Special == [
  IP_pA_1 |-> Ev("IllegalProposalEvidence", "pA", 1),
  IP_pA_2 |-> Ev("IllegalProposalEvidence", "pA", 2),
  IP_pB   |-> Ev("IllegalProposalEvidence", "pB", 1),
  IV_vA_1 |-> Ev("IllegalVoteEvidence", "vA", 1),
  IV_vA_2 |-> Ev("IllegalVoteEvidence", "vA", 2),
  IB_bA_1 |-> Ev("IllegalBlockEvidence", "bA", 1),
  IB_bA_2 |-> Ev("IllegalBlockEvidence", "bA", 2),
  IS_sA_1 |-> Ev("IllegalSidechainEvidence", "sA", 1),
  IS_sA_2 |-> Ev("IllegalSidechainEvidence", "sA", 2),
  IA_iA_1 |-> Ev("InactiveArbitrators", "iA", 1),
  IA_iA_2 |-> Ev("InactiveArbitrators", "iA", 2),
  IA_iB   |-> Ev("InactiveArbitrators", "iB", 1),
  NT_tA_1 |-> Ev("NextTurnDPOSInfo", "tA", 1),
  NT_tA_2 |-> Ev("NextTurnDPOSInfo", "tA", 2),
  NT_tB   |-> Ev("NextTurnDPOSInfo", "tB", 1),
  PR_1    |-> [kind |-> "ProposalResult", n |-> 1],
  PR_2    |-> [kind |-> "ProposalResult", n |-> 2],
  RTD_1   |-> [kind |-> "RevertToDPOS", n |-> 1],
  RTD_2   |-> [kind |-> "RevertToDPOS", n |-> 2],
  \* side-chain blocks: one per side chain (genesis) in the pool; signed by the arbiter on duty or by another one
  SP_g1_a |-> [kind |-> "SideChainPow", genesis |-> "sg1", block |-> "sb1", onduty |-> TRUE],
  SP_g1_b |-> [kind |-> "SideChainPow", genesis |-> "sg1", block |-> "sb2", onduty |-> FALSE],
  SP_g2   |-> [kind |-> "SideChainPow", genesis |-> "sg2", block |-> "sb3", onduty |-> FALSE] ]

Stake == [
  EV_S1       |-> [kind |-> "ExchangeVotes", stake |-> "S1"],                 \* stake address in the stake output
  EV_S2       |-> [kind |-> "ExchangeVotes", stake |-> "S2"],
  VT_S1       |-> [kind |-> "Voting", stake |-> "S1"],                        \* stake address of the signing script
  RV0_S1      |-> [kind |-> "ReturnVotes", ver |-> 0, stake |-> "S1"],        \* v0: script in the payload
  RV1_S2      |-> [kind |-> "ReturnVotes", ver |-> 1, stake |-> "S2"],        \* v1: signing script
  NFT_S1_r1   |-> [kind |-> "CreateNFT", stake |-> "S1", refer |-> "r1", addr |-> "addr1"],
  NFT_S3_r1   |-> [kind |-> "CreateNFT", stake |-> "S3", refer |-> "r1", addr |-> "addr3"],
  NFT_S4_r4   |-> [kind |-> "CreateNFT", stake |-> "S4", refer |-> "r4", addr |-> "addr1"],
  CL0_S1      |-> [kind |-> "DposV2ClaimReward", ver |-> 0, stake |-> "S1"],  \* claiming rewards: another resource than staking
  CL1_S1      |-> [kind |-> "DposV2ClaimReward", ver |-> 1, stake |-> "S1"],
  CL1_S2      |-> [kind |-> "DposV2ClaimReward", ver |-> 1, stake |-> "S2"],
  CRW_x1x2    |-> [kind |-> "DposV2ClaimRewardRealWithdraw", hashes |-> <<"x1", "x2">>],
  CRW_x2      |-> [kind |-> "DposV2ClaimRewardRealWithdraw", hashes |-> <<"x2">>],
  VRW_1       |-> [kind |-> "VotesRealWithdraw", n |-> 1],
  VRW_2       |-> [kind |-> "VotesRealWithdraw", n |-> 2],
  TA_o1       |-> [kind |-> "TransferAsset", ins |-> <<"o1">>],
  TA_o2o1     |-> [kind |-> "TransferAsset", ins |-> <<"o2", "o1">>],
  TA_o3       |-> [kind |-> "TransferAsset", ins |-> <<"o3">>],
  EV_S5_o2    |-> [kind |-> "ExchangeVotes", stake |-> "S5", ins |-> <<"o2">>] ]

Tpl == CASE Family = "side"    -> Side
         [] Family = "dpos"    -> Dpos
         [] Family = "cr"      -> Cr
         [] Family = "crtail"  -> CrTail
         [] Family = "prop1"   -> Prop1
         [] Family = "prop2"   -> Prop2
         [] Family = "special" -> Special
         [] Family = "stake"   -> Stake
Templates == DOMAIN Tpl

(* Inputs.  Templates list the outpoints they spend when they collide on   *)
(* them; every other template spends one outpoint of its own, except the   *)
(* kinds that carry no input at all.                                       *)
Inputless == {"IllegalProposalEvidence", "IllegalVoteEvidence", "IllegalBlockEvidence", "IllegalSidechainEvidence",
              "InactiveArbitrators", "NextTurnDPOSInfo", "ProposalResult", "RevertToDPOS", "ActivateProducer",
              "SideChainPow", "NFTDestroyFromSideChain", "DposV2ClaimReward"}
InputsOf(t) == IF "ins" \in DOMAIN Tpl[t] THEN Range(Tpl[t].ins)
               ELSE IF Tpl[t].kind \in Inputless THEN {} ELSE {"own:" \o t}
Claims(t) == KindClaims(Tpl[t]) \cup Many("TxInputsReferKeys", InputsOf(t))

ASSUME \A t \in Templates : \A c \in Claims(t) : c[1] \in SlotNames
ASSUME \A t \in Templates : Tpl[t].kind = "CancelProducer" => Tpl[t].owner \in DOMAIN Registered

---------------------------------------------------------------------------
IndexOf(p) == UNION {{<<c[1], c[2], t>> : c \in Claims(t)} : t \in p}
\* slot -> set of <<key, owner>>
IndexView(idx) == [s \in {e[1] : e \in idx} |-> {<<e[2], e[3]>> : e \in {f \in idx : f[1] = s}}]
\* the index after the transactions `gone` left and the keys `keys` were deleted.  A transaction that leaves
\* (doRemoveTransaction -> removeTx) deletes the keys it claims, not the entries it owns: in the transient state after
\* a connected block took a key from it, that key may meanwhile belong to another transaction.
Without(idx, gone, keys) == {e \in idx : <<e[1], e[2]>> \notin (keys \cup UNION {Claims(u) : u \in gone})}

Init == pool = {} /\ index = {} /\ dropped = {} /\ nops = 0 /\ log = <<>>

(* A side-chain pow transaction replaces the pooled one of its side chain  *)
(* (before anything else is looked at).                                    *)
Replaced(t) == IF Tpl[t].kind # "SideChainPow" THEN {}
               ELSE {u \in pool : Tpl[u].kind = "SideChainPow" /\ Tpl[u].genesis = Tpl[t].genesis}

DoAppend(t) ==
    /\ nops < MaxOps /\ t \notin pool
    /\ LET c    == Claims(t)
           gone == Replaced(t)
           p1   == pool \ gone
           i1   == Without(index, gone, {})
           hits == {e \in i1 : <<e[1], e[2]>> \in c}
           ok   == hits = {}
           p2   == IF ok THEN p1 \cup {t} ELSE p1
           i2   == IF ok THEN i1 \cup {<<x[1], x[2], t>> : x \in c} ELSE i1
       IN /\ pool' = p2 /\ index' = i2 /\ nops' = nops + 1
          /\ dropped' = {e \in dropped \cup (index \ i1) : e[3] \in p2}
          /\ log' = Append(log, [act |-> "Append", t |-> t, def |-> Tpl[t], ins |-> InputsOf(t),
                                 exp |-> [verdict |-> IF ok THEN "ok" ELSE "conflict",
                                          slots |-> {e[1] : e \in hits}, with |-> {e[3] : e \in hits}, evicted |-> gone],
                                 pool |-> p2, index |-> IndexView(i2)])

(***************************************************************************)
(* What a connected block [t] does to the pool (CleanSubmittedTransactions)*)
(*  1 cleanTransactions: a side-chain pow / next-turn transaction of the   *)
(*    block just leaves the pool if it is there.  For any other kind, the  *)
(*    pooled transactions the index names as spenders of t's inputs leave  *)
(*    (t itself among them if it is pooled and spends something), then the *)
(*    keys t claims are deleted from the index, whoever owns them.         *)
(*  2 cleanSideChainPowTx: pooled side-chain pow transactions not signed   *)
(*    by the arbiter on duty leave.                                        *)
(*  3 cleanCanceledProducerAndCR: a CancelProducer of owner X removes the  *)
(*    pooled UpdateProducer transactions of X (and then deletes X and the  *)
(*    update's node key from the owner / node key slots, whoever owns      *)
(*    them) and the pooled transfers with a Delegate vote for X; an        *)
(*    UnregisterCR of CID c likewise the pooled UpdateCR of c (deleting c  *)
(*    from the CrDID slot) and transfers with a CRC vote for c.            *)
(* A transaction that leaves deletes the keys it claims from the index.    *)
(***************************************************************************)
OwnPath(t) == Tpl[t].kind \in {"SideChainPow", "NextTurnDPOSInfo"}
VotesFor(u, vtype, cand) == Tpl[u].kind = "Vote" /\ Tpl[u].vtype = vtype /\ cand \in Range(Tpl[u].cands)

(* Blocks worth connecting when the exploration is bounded: the block's    *)
(* transaction is pooled, claims a key the index holds, cancels a producer *)
(* or a CR (whatever the pool holds), the pool holds side-chain pow        *)
(* transactions, or it is the family's probe (a block that concerns        *)
(* nothing in the pool).                                                   *)
Probe == CASE Family = "side" -> "ND_h1" [] Family = "dpos" -> "CM_N9_dY" [] Family = "cr" -> "RDC_K2"
           [] Family = "crtail" -> "RCR2_K5_c5" [] Family = "prop1" -> "PRcv_g14_mL" [] Family = "prop2" -> "PSide_g5_mE"
           [] Family = "special" -> "IP_pB" [] Family = "stake" -> "TA_o3"
ASSUME Probe \in Templates
Related(t) == \/ t \in pool
              \/ \E e \in index : <<e[1], e[2]>> \in Claims(t)
              \/ Tpl[t].kind \in {"CancelProducer", "UnregisterCR"}
              \/ (t = Probe /\ pool # {})
              \/ (Tpl[t].kind = "SideChainPow" /\ \E u \in pool : Tpl[u].kind = "SideChainPow")

DoConnect(t) ==
    /\ Connects # "none" /\ nops < MaxOps
    /\ (Connects = "held" => t \in pool)
    /\ (Connects = "related" => (Related(t) = TRUE))     \* (= TRUE: one successor, not one per true disjunct)
    /\ LET d    == Tpl[t]
           \* 1
           ev1  == IF OwnPath(t) THEN {t} \cap pool
                   ELSE {e[3] : e \in {f \in index : f[1] = "TxInputsReferKeys" /\ f[2] \in InputsOf(t)}}
           p1   == pool \ ev1
           i1   == Without(index, ev1, IF OwnPath(t) THEN {} ELSE Claims(t))
           \* 2
           ev2  == {u \in p1 : Tpl[u].kind = "SideChainPow" /\ ~Tpl[u].onduty}
           p2   == p1 \ ev2
           i2   == Without(i1, ev2, {})
           \* 3
           upd  == CASE d.kind = "CancelProducer" -> {u \in p2 : Tpl[u].kind = "UpdateProducer" /\ Tpl[u].owner = d.owner}
                     [] d.kind = "UnregisterCR"   -> {u \in p2 : Tpl[u].kind = "UpdateCR" /\ Tpl[u].cid = d.cid}
                     [] OTHER -> {}
           vot  == CASE d.kind = "CancelProducer" -> {u \in p2 : VotesFor(u, "Delegate", d.owner)}
                     [] d.kind = "UnregisterCR"   -> {u \in p2 : VotesFor(u, "CRC", d.cid)}
                     [] OTHER -> {}
           keys == CASE d.kind = "CancelProducer" ->
                          UNION {{<<"DPoSOwnerPublicKey", Tpl[u].owner>>, <<"DPoSNodePublicKey", Tpl[u].node>>} : u \in upd}
                     [] d.kind = "UnregisterCR"   -> {<<"CrDID", Tpl[u].cid>> : u \in upd}
                     [] OTHER -> {}
           p3   == p2 \ (upd \cup vot)
           i3   == Without(i2, upd \cup vot, keys)
           gone == pool \ p3
           lost == {e \in index \ i3 : e[3] \in p3}      \* entries dropped although their owner stays
       IN /\ pool' = p3 /\ index' = i3 /\ nops' = nops + 1
          /\ dropped' = {e \in dropped \cup lost : e[3] \in p3}
          /\ log' = Append(log, [act |-> "Connect", t |-> t, def |-> d, ins |-> InputsOf(t),
                                 exp |-> [verdict |-> "connected", evicted |-> gone, stripped |-> lost],
                                 pool |-> p3, index |-> IndexView(i3)])

Next == \E t \in Templates : DoAppend(t) \/ DoConnect(t)
Spec == Init /\ [][Next]_vars

(***************************************************************************)
(* C34.  A pooled transaction owns every claim it makes, except those a    *)
(* connected block dropped by the rules above (the block claimed the same  *)
(* resource, or cancelled the producer / CR the entry belongs to); claims  *)
(* of transactions unrelated to the block are untouched.  Nothing else is  *)
(* in the index, a key has one owner, and two pooled transactions claim    *)
(* the same resource only if a block took it from one of them.             *)
(***************************************************************************)
IndexAgrees  == /\ index \cap dropped = {}
                /\ index \cup dropped = IndexOf(pool)
OneOwner     == \A e1, e2 \in index : (e1[1] = e2[1] /\ e1[2] = e2[2]) => e1[3] = e2[3]
ConflictFree == \A t1, t2 \in pool : t1 # t2 =>
                   \A c \in Claims(t1) \cap Claims(t2) : <<c[1], c[2], t1>> \in dropped \/ <<c[1], c[2], t2>> \in dropped
\* what a step may drop from a transaction that stays: only keys the connected block's transaction claims itself, or
\* keys claimed by a transaction that leaves the pool in that step (the cancelled producer's / CR's update among them)
DropsJustified ==
    [][LET s == log'[Len(log')]
       IN \A e \in dropped' \ dropped :
             \/ (s.act = "Connect" /\ <<e[1], e[2]>> \in Claims(s.t))
             \/ \E u \in pool \ pool' : <<e[1], e[2]>> \in Claims(u)]_vars

Emit     == PrintT(<<"TRACE", ToJson(log')>>)
EmitLast == (nops' = MaxOps) => PrintT(<<"TRACE", ToJson(log')>>)
=============================================================================
