-------------------------- MODULE LedgerScenario --------------------------
(***************************************************************************)
(* A scripted behaviour of Ledger.tla: the spec computes results, chains   *)
(* and views of a fixed sequence of Mint / Deliver steps (LedgerScript.tla *)
(* is written per scenario by the check recipe).  Used where exhaustive    *)
(* extraction is too heavy (the 300-output transaction).                   *)
(***************************************************************************)
EXTENDS Ledger, LedgerScript
\* Script entries: <<"M", parent, txs, bad>> | <<"S", 0, <<>>, "">> | <<"D", id, <<>>, "">>
\* (StartRun does not log, every other step does)
Step == Len(log) + (IF phase = "run" THEN 2 ELSE 1)
SNext == /\ Step <= Len(Script)
         /\ LET e == Script[Step]
            IN CASE e[1] = "M" -> Mint(e[2], e[3], e[4])
                 [] e[1] = "S" -> StartRun
                 [] e[1] = "D" -> Deliver(e[2])
SSpec == Init /\ [][SNext]_vars
SEmit == (Len(log') + 1 = Len(Script)) => PrintT(<<"TRACE", ToJson(log')>>)
=============================================================================
