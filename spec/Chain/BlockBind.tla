----------------------------- MODULE BlockBind -----------------------------
(***************************************************************************)
(* C07: a block's contents are bound to its header                         *)
(* (blockchain/blockvalidator.go CheckBlockSanity: first transaction is    *)
(* the only coinbase, no duplicate transaction, merkle root of the         *)
(* transaction hashes equals the header's; crypto/merkletree.go            *)
(* ComputeRoot: pairwise hashing, the last node of an odd level is paired  *)
(* with itself).                                                           *)
(*                                                                         *)
(* Hashes are symbolic and collision free: Parent(l, r) is the record      *)
(* [l, r], a transaction hash is [t |-> name].  A case is an accepted block  *)
(* (Base) and one mutation of its transaction list with the header kept.   *)
(* The model shows Accept(mutant) => mutant = Base, in particular for the  *)
(* duplicated-tail mutation, which leaves the merkle root unchanged and is *)
(* only stopped by the duplicate check.                                    *)
(***************************************************************************)
EXTENDS Integers, Sequences, FiniteSets, TLC, Json

CONSTANTS Plain,      \* names of non-coinbase transactions
          MaxLen      \* longest base transaction list

Coinbases == {"cb", "cb2"}
IsCoinbase(t) == t \in Coinbases

VARIABLES base, mut, kind, done, log
vars == <<base, mut, kind, done, log>>
view == <<base, mut, kind, done>>

---------------------------------------------------------------------------
(* ComputeRoot *)
RECURSIVE Level(_)
\* one level up: pair neighbours, an odd last node is paired with itself
Level(s) == IF Len(s) = 0 THEN <<>>
            ELSE IF Len(s) = 1 THEN << [l |-> s[1], r |-> s[1]] >>
            ELSE << [l |-> s[1], r |-> s[2]] >> \o Level(SubSeq(s, 3, Len(s)))
RECURSIVE RootOf(_)
RootOf(s) == IF Len(s) = 1 THEN s[1] ELSE RootOf(Level(s))
\* leaves are records too, so that any two hashes are comparable
Root(txs) == IF txs = <<>> THEN [t |-> "none"] ELSE RootOf([i \in 1..Len(txs) |-> [t |-> txs[i]]])

NoDup(s) == \A i, j \in 1..Len(s) : i # j => s[i] # s[j]

\* CheckBlockSanity restricted to what binds the contents to the header
Accept(root, txs) ==
    /\ Len(txs) >= 1
    /\ IsCoinbase(txs[1])
    /\ \A i \in 2..Len(txs) : ~IsCoinbase(txs[i])
    /\ NoDup(txs)
    /\ Root(txs) = root

---------------------------------------------------------------------------
(* accepted base blocks: coinbase followed by distinct plain transactions *)
RECURSIVE SeqsOf(_, _)
SeqsOf(S, n) == IF n = 0 THEN {<<>>}
                ELSE {<<>>} \cup {<<x>> \o r : x \in S, r \in SeqsOf(S, n - 1)}
Bases == {<<"cb">> \o r : r \in {q \in SeqsOf(Plain, MaxLen - 1) : NoDup(q)}}

RemoveAt(s, i) == SubSeq(s, 1, i - 1) \o SubSeq(s, i + 1, Len(s))
InsertAt(s, i, x) == SubSeq(s, 1, i) \o <<x>> \o SubSeq(s, i + 1, Len(s))   \* after position i
SwapAt(s, i) == [j \in 1..Len(s) |-> IF j = i THEN s[i + 1] ELSE IF j = i + 1 THEN s[i] ELSE s[j]]

\* every single mutation of a transaction list, tagged with its kind
Mutants(b) ==
    {[k |-> "none", t |-> b]}
    \cup UNION {{[k |-> "replace", t |-> [b EXCEPT ![i] = x]] : x \in (Plain \cup Coinbases) \ {b[i]}} : i \in 1..Len(b)}
    \cup {[k |-> "remove", t |-> RemoveAt(b, i)] : i \in 1..Len(b)}
    \cup {[k |-> "swap", t |-> SwapAt(b, i)] : i \in 1..(Len(b) - 1)}
    \cup {[k |-> "duplicate", t |-> InsertAt(b, i, b[i])] : i \in 1..Len(b)}
    \cup {[k |-> "duplicate-tail", t |-> b \o <<b[Len(b)]>>]}
    \cup (IF Len(b) >= 2 THEN {[k |-> "duplicate-pair-tail", t |-> b \o SubSeq(b, Len(b) - 1, Len(b))]} ELSE {})
    \cup {[k |-> "insert", t |-> InsertAt(b, i, x)] : i \in 0..Len(b), x \in (Plain \cup Coinbases)}
    \cup {[k |-> "append-coinbase", t |-> b \o <<"cb2">>]}

Init == /\ base \in Bases
        /\ \E m \in Mutants(base) : mut = m.t /\ kind = m.k
        /\ done = FALSE /\ log = <<>>

Decide == /\ ~done /\ done' = TRUE
          /\ UNCHANGED <<base, mut, kind>>
          /\ log' = <<[act |-> "Case", base |-> base, mut |-> mut, kind |-> kind,
                       accept |-> Accept(Root(base), mut)]>>
Next == Decide
Spec == Init /\ [][Next]_vars

---------------------------------------------------------------------------
BaseAccepted == Accept(Root(base), base)
\* C07: whatever is accepted under the base block's header is the base block
Bound == Accept(Root(base), mut) => mut = base

Emit == PrintT(<<"TRACE", ToJson(log')>>)
=============================================================================
