--------------------------- MODULE LedgerRestart ---------------------------
(***************************************************************************)
(* Ledger.tla plus a restart of the node on its own data directory         *)
(* (blockchain.New + BlockChain.Init -> initChainState / LoadBlockNode,    *)
(* InitCheckpoint).  Only the active chain is persisted: side-chain blocks *)
(* (kept in the in-memory block cache) and orphans are forgotten, the      *)
(* block index is rebuilt from the stored headers with its cumulative      *)
(* work, and the ledger views are what they were.  After the restart the   *)
(* node must go on following the most-work valid chain (C12) with the same *)
(* queryable views (C14): forgotten blocks may be delivered again and are  *)
(* then treated like new ones.                                             *)
(***************************************************************************)
EXTENDS Ledger

CONSTANT MaxRestarts
VARIABLE nrs
rvars == <<vars, nrs>>
rview == <<view, nrs>>

RInit == Init /\ nrs = 0

Restart ==
    /\ phase = "run" /\ nrs < MaxRestarts /\ ~strand
    /\ nrs' = nrs + 1
    /\ known' = {b \in known : InMain(b)}
    /\ orphans' = <<>>
    /\ UNCHANGED <<blocks, phase, main, ndeliv, strand>>
    /\ Log("Restart", [id |-> 0], [inMain |-> FALSE, orphan |-> FALSE, err |-> FALSE, why |-> "restart"],
           FALSE, main, <<>>)

RNext == (Next /\ UNCHANGED nrs) \/ Restart
RSpec == RInit /\ [][RNext]_rvars

REmit == PrintT(<<"TRACE", ToJson(log')>>)
REmitLast == (ndeliv' = MaxDeliver) => PrintT(<<"TRACE", ToJson(log')>>)
=============================================================================
