------------------------------- MODULE Value -------------------------------
(***************************************************************************)
(* C01: no transaction creates value.                                      *)
(* (core/transaction/transactionchecker.go: SanityCheck ->                 *)
(* CheckTransactionOutput (every output individually non-negative),        *)
(* ContextCheck -> CheckTransactionFee -> getTransactionFee = sum(inputs)  *)
(* - sum(outputs) in 64-bit Fixed64 arithmetic, compared with the minimum  *)
(* fee; blockchain/blockvalidator.go GetTxFee for the block's fee total.)  *)
(*                                                                         *)
(* An amount is <<hi, lo>> standing for hi * Big + lo * Unit: `hi` counts  *)
(* units of 2^60 sela (so 64-bit signed arithmetic wraps exactly when the  *)
(* hi part leaves -8..7), `lo` counts units of 0.01 ELA.  Spent outputs    *)
(* are real coins, so their hi part is 0.  A case is an input total and a  *)
(* vector of output amounts.  ExactAccept is the property's integer rule,  *)
(* CodeAccept transcribes the code.                                        *)
(***************************************************************************)
EXTENDS Integers, Sequences, FiniteSets, TLC, Json

CONSTANTS InLo,        \* total of the spent outputs, in lo units
          His, Los,    \* values an output's hi / lo part may take
          MaxOuts,
          OverflowCheck  \* TRUE: the sanity check refuses an output total that does not fit in 63 bits

Big == 1000000          \* anything larger than every lo sum of the model
MinFee == 1             \* in lo units (the real minimum fee is far below one unit)

VARIABLES outs, done, log
vars == <<outs, done, log>>
view == <<outs, done>>

RECURSIVE SumHi(_)
SumHi(s) == IF s = <<>> THEN 0 ELSE Head(s)[1] + SumHi(Tail(s))
RECURSIVE SumLo(_)
SumLo(s) == IF s = <<>> THEN 0 ELSE Head(s)[2] + SumLo(Tail(s))

\* 64-bit two's complement wrap of the hi part
Wrap(h) == ((h + 8) % 16) - 8

\* the property: exact integers
ExactFee(o) == InLo - (SumHi(o) * Big + SumLo(o))
ExactAccept(o) == ExactFee(o) >= MinFee

\* the code: Fixed64 sums
CodeFee(o) == InLo - (Wrap(SumHi(o)) * Big + SumLo(o))
Overflows(o) == SumHi(o) > 7
CodeAccept(o) == /\ ~(OverflowCheck /\ Overflows(o))
                 /\ CodeFee(o) >= MinFee

Amounts == {<<h, l>> : h \in His, l \in Los} \ {<<0, 0>>}
\* output vectors up to permutation (non-decreasing), the order of outputs does
\* not enter any sum
Less(a, b) == a[1] < b[1] \/ (a[1] = b[1] /\ a[2] <= b[2])
RECURSIVE Vecs(_)
Vecs(n) == IF n = 0 THEN {<<>>}
           ELSE LET shorter == Vecs(n - 1) IN
                shorter \cup {Append(v, a) : v \in {x \in shorter : Len(x) = n - 1}, a \in Amounts}
Sorted(v) == \A i \in 1..(Len(v) - 1) : Less(v[i], v[i + 1])

Init == /\ outs \in {v \in Vecs(MaxOuts) : Len(v) >= 1 /\ Sorted(v)}
        /\ done = FALSE /\ log = <<>>

Decide == /\ ~done /\ done' = TRUE /\ UNCHANGED outs
          /\ log' = <<[act |-> "Case", outs |-> outs,
                       exact |-> ExactAccept(outs), code |-> CodeAccept(outs),
                       wraps |-> Overflows(outs),
                       codeFee |-> CodeFee(outs)]>>
Next == Decide
Spec == Init /\ [][Next]_vars

---------------------------------------------------------------------------
\* C01
NoValueCreated == CodeAccept(outs) => ExactAccept(outs)
\* the check is not over-strict either
Complete == ExactAccept(outs) => CodeAccept(outs)

Emit == PrintT(<<"TRACE", ToJson(log')>>)
=============================================================================
