------------------------------ MODULE Confirm ------------------------------
(***************************************************************************)
(* C25 - a block confirmation needs a two-thirds quorum of distinct        *)
(* current arbiters.                                                       *)
(*                                                                         *)
(* Decision table of blockchain/confirmvalidator.go:                       *)
(*     ConfirmSanityCheck(c)  /\  ConfirmContextCheck(c)                   *)
(* against the arbiter set dpos/state hands out (GetArbitrators,           *)
(* GetArbitersMajorityCount).                                              *)
(*                                                                         *)
(* A case is an arbiter set and one confirmation:                          *)
(*   n        size of the current arbiter set, arbiters are 1..n           *)
(*   abn      the last abn arbiters are CR arbiters that are not normal    *)
(*            (listed in the set, counted in n, not allowed to act)        *)
(*   sponsor  signer of the proposal: an arbiter, or 0 / -1 = two keys     *)
(*            that are not in the set ("foreign")                          *)
(*   propSig  the proposal carries the sponsor's valid signature           *)
(*   good     good[i] = copies of arbiter i's fully valid accepting vote    *)
(*            for the confirmed proposal (i normal); 2 = a duplicate        *)
(*   bad      a set of votes that are defective in at least one way:       *)
(*            reject vote, vote for another proposal hash, invalid         *)
(*            signature, signer foreign or not normal                      *)
(* Arbiters are interchangeable, so `good` is enumerated non-increasing    *)
(* (arbiters 1..k are the ones that voted); the signer of a defective vote *)
(* and the sponsor still range over every arbiter, which covers every      *)
(* relation between them.                                                  *)
(*                                                                         *)
(* Init chooses the case, Decide computes the verdict exactly as the code  *)
(* does (Sanity, Context) and, independently, what the property demands    *)
(* (Legit).  Invariant AcceptedOnlyWithQuorum: Sanity /\ Context => Legit. *)
(* Every case TLC enumerates is replayed on the real functions with real   *)
(* ECDSA keys and signatures.                                              *)
(***************************************************************************)
EXTENDS Integers, Sequences, FiniteSets, TLC, Json

CONSTANTS Ns,          \* arbiter-set sizes of the confirm cases
          MaxAbn,      \* 0..MaxAbn abnormal arbiters
          MaxBad,      \* at most this many defective votes per confirmation
          Shapes,      \* "all": every non-increasing good vector over 0..2
                       \* "boundary": Majority(n), Majority(n)+1 or all
                       \*    normal arbiters voted, at most arbiter 1 twice
          Sponsors,    \* "all" or "ends" (foreign, first, last arbiter)
          BadSigners,  \* signers of defective votes: "all" or "ends"
          ArithNs,     \* sizes for the pure threshold cases
          SampleMod, SampleRes   \* Emit prints a case iff it is a boundary
                                 \* case or Mix(case) % SampleMod = SampleRes

VARIABLES kind,     \* "confirm" | "majority" | "done"
          n, abn, sponsor, propSig, good, bad,
          log

vars == <<kind, n, abn, sponsor, propSig, good, bad, log>>
view == <<kind, n, abn, sponsor, propSig, good, bad>>

---------------------------------------------------------------------------
(* The threshold: dpos/state GetArbitersMajorityCount =                    *)
(* int(float64(n) * 2 / 3); a confirmation needs strictly more signers.    *)
Majority(m) == (2 * m) \div 3

Foreign == {0, -1}
Arbiters(m) == 1..m
NormalOf(m, a) == 1..(m - a)

GoodVote(s) == [signer |-> s, accept |-> TRUE, hashOK |-> TRUE, sigOK |-> TRUE]

BadSignersOf(m) == IF BadSigners = "all" THEN Foreign \cup Arbiters(m)
                   ELSE {0, 1, m}

\* Votes that cannot count towards a legitimate quorum of the set (m, a).
Defective(m, a) ==
    {v \in [signer : BadSignersOf(m), accept : BOOLEAN,
            hashOK : BOOLEAN, sigOK : BOOLEAN] :
        ~(v.accept /\ v.hashOK /\ v.sigOK /\ v.signer \in NormalOf(m, a))}

\* subsets of S with at most k elements
RECURSIVE UpTo(_, _)
UpTo(S, k) == IF k = 0 THEN {{}}
              ELSE UpTo(S, k - 1) \cup
                   {T \cup {x} : T \in UpTo(S, k - 1), x \in S}

Distinct(f, m) == Cardinality({i \in 1..m : f[i] > 0})

\* Non-increasing vote-count vectors over the k normal arbiters, built
\* directly: the first a arbiters voted twice, the next b - a once.
Vec(k, a, b) == [i \in 1..k |-> IF i <= a THEN 2 ELSE IF i <= b THEN 1 ELSE 0]

GoodVectors(m, a) ==
    LET k == m - a IN
    IF Shapes = "all"
    THEN UNION {{Vec(k, x, y) : y \in x..k} : x \in 0..k}
    ELSE \* just below / exactly at the threshold and everybody, without
         \* and with one duplicated vote
         UNION {{Vec(k, x, y) : y \in {d \in {Majority(m), Majority(m) + 1, k} :
                                           d >= x /\ d <= k}} : x \in 0..1}

SponsorsOf(m) == IF Sponsors = "all" THEN Foreign \cup Arbiters(m)
                 ELSE {0, 1, m}

---------------------------------------------------------------------------
(* The confirmation as the list of votes the code iterates over. *)
VoteSet == {GoodVote(i) : i \in {j \in DOMAIN good : good[j] > 0}} \cup bad

\* ConfirmSanityCheck: ProposalSanityCheck, then for every vote: accepting,
\* for the hash of this proposal, signature valid (VoteSanityCheck).
Sanity == /\ propSig
          /\ \A v \in VoteSet : v.accept /\ v.hashOK /\ v.sigOK

\* ConfirmContextCheck: the distinct signers of the accepting votes (no
\* other condition at this point) must outnumber the majority count; the
\* sponsor must be a normal current arbiter (ProposalContextCheck) and so
\* must the signer of every vote (VoteContextCheck).
CountedSigners == {v.signer : v \in {w \in VoteSet : w.accept}}
Context == /\ Cardinality(CountedSigners) > Majority(n)
           /\ sponsor \in NormalOf(n, abn)
           /\ \A v \in VoteSet : v.signer \in NormalOf(n, abn)

Accept == Sanity /\ Context

(* What C25 demands of an accepted confirmation: more than two thirds      *)
(* (rounded down) of the current arbiters, counted once each, signed an    *)
(* accepting vote with a valid signature for exactly this proposal, and    *)
(* the proposal is its sponsor's, a current arbiter.                       *)
LegitSigners == {v.signer : v \in {w \in VoteSet :
                    w.accept /\ w.hashOK /\ w.sigOK /\ w.signer \in Arbiters(n)}}
Legit == /\ Cardinality(LegitSigners) > Majority(n)
         /\ sponsor \in Arbiters(n) /\ propSig

\* first reason why a confirmation is not legitimate (violation key)
Class == IF sponsor \notin Arbiters(n) THEN "sponsor-not-arbiter"
         ELSE IF ~propSig THEN "proposal-signature"
         ELSE IF Cardinality(LegitSigners) > Majority(n) THEN "legit"
         ELSE IF \E v \in bad : v.signer \notin Arbiters(n) /\ v.accept THEN "foreign-signer"
         ELSE IF \E v \in bad : ~v.sigOK /\ v.accept THEN "bad-signature"
         ELSE IF \E v \in bad : ~v.hashOK /\ v.accept THEN "wrong-proposal-hash"
         ELSE IF \E v \in bad : ~v.accept THEN "reject-vote"
         ELSE IF \E i \in DOMAIN good : good[i] > 1 THEN "duplicate-signer"
         ELSE "below-threshold"

---------------------------------------------------------------------------
Init ==
    /\ log = <<>>
    /\ \/ /\ kind = "confirm"
          /\ n \in Ns /\ abn \in 0..MaxAbn /\ abn < n
          /\ bad \in UpTo(Defective(n, abn), MaxBad)
          /\ good \in GoodVectors(n, abn)
          /\ sponsor \in SponsorsOf(n)
          /\ propSig \in BOOLEAN
       \/ /\ kind = "majority"
          /\ n \in ArithNs /\ abn = 0 /\ sponsor = 1 /\ propSig = TRUE
          /\ good = <<>> /\ bad = {}

Decide ==
    /\ kind # "done"
    /\ kind' = "done"
    /\ UNCHANGED <<n, abn, sponsor, propSig, good, bad>>
    /\ log' = IF kind = "majority"
              THEN <<[act |-> "Majority", args |-> [n |-> n],
                      exp |-> [majority |-> Majority(n)]]>>
              ELSE <<[act |-> "Case",
                      args |-> [n |-> n, abn |-> abn, sponsor |-> sponsor,
                                propSig |-> propSig, good |-> good, bad |-> bad],
                      exp |-> [sanity |-> Sanity, context |-> Context,
                               legit |-> Legit, class |-> Class,
                               distinct |-> Cardinality(LegitSigners),
                               majority |-> Majority(n)]]>>

Next == Decide
Spec == Init /\ [][Next]_vars

---------------------------------------------------------------------------
(* Properties *)

\* C25, first sentence.
AcceptedOnlyWithQuorum == (kind = "confirm" /\ Accept) => Legit

\* The threshold is "more than two thirds, rounded down": with exactly
\* Majority(n) distinct valid signers nothing is accepted, with
\* Majority(n) + 1 normal signers, a normal sponsor and no defective vote
\* everything is.
ThresholdExact ==
    kind = "confirm" =>
      /\ (Cardinality(LegitSigners) <= Majority(n)) => ~Accept
      /\ (bad = {} /\ propSig /\ sponsor \in NormalOf(n, abn)
            /\ Distinct(good, n - abn) > Majority(n)) => Accept

\* C25, second sentence (quorum intersection), as arithmetic for every size
\* up to 100: two quorums of the smallest acceptable size overlap in more
\* than a third of the arbiters ...
QuorumIntersectionArith ==
    \A m \in 1..100 : 3 * (2 * (Majority(m) + 1) - m) > m

\* ... and by enumeration of all pairs of signer sets for small sizes.
QuorumIntersectionSets ==
    \A m \in 1..7 : \A A, B \in SUBSET Arbiters(m) :
        (Cardinality(A) > Majority(m) /\ Cardinality(B) > Majority(m))
            => 3 * Cardinality(A \cap B) > m

ASSUME QuorumIntersectionArith
ASSUME QuorumIntersectionSets

---------------------------------------------------------------------------
(* Behaviour extraction: one behaviour (= one case) per Decide edge.        *)
(* Boundary cases are always printed, the rest is sampled by a            *)
(* deterministic mix of the case's fields.                                *)
Sum(f) == LET RECURSIVE S(_)
              S(i) == IF i = 0 THEN 0 ELSE f[i] + S(i - 1)
          IN S(Len(f))

Boundary == \/ kind = "majority"
            \/ /\ Cardinality(bad) <= 1
               /\ Distinct(good, n - abn) \in {Majority(n), Majority(n) + 1}
               /\ sponsor \in {0, 1, n}

Mix == 1000 + 7 * n + 13 * sponsor + 31 * Sum(good) + 3 * abn
       + 17 * Cardinality({v \in bad : v.accept})
       + 29 * Cardinality({v \in bad : v.hashOK})
       + 37 * Cardinality({v \in bad : v.sigOK})
       + 41 * Cardinality({v \in bad : v.signer > 0})
       + 5 * Cardinality({v.signer : v \in bad})
       + (IF propSig THEN 1 ELSE 0)
       + 11 * (IF bad = {} THEN 0 ELSE (CHOOSE s \in {v.signer : v \in bad} : TRUE) + 2)

Emit == (Boundary \/ (Mix % SampleMod) = SampleRes)
            => PrintT(<<"TRACE", ToJson(log')>>)
=============================================================================
