SPECIFICATION Spec
CONSTANTS
  Variants = {"V0", "V1"}
  Ns = {1, 2, 3}
  C0s = {0, 1, 2, 3, 4, 8}
  Times = {1, 4, 5, 6, 9, 10, 11, 14, 15, 16, 19, 20, 21, 64, 65, 66, 70, 129, 130, 131}
  MaxPolls = 3
  Tol = 5
  Surcharges = {"entry", "never", "always"}
  Gated = {TRUE, FALSE}
VIEW view
INVARIANTS TypeOK ScheduleIndependent ProbeIsOneShot RefIsOneShot OneShotMonotone DeviationOnlyBeyondRound NoDeviationIfUniform
PROPERTIES OffsetMonotone
CHECK_DEADLOCK FALSE
