---------------------------- MODULE TraceHistory ----------------------------
(* Trace validation for History.tla: a recorded run of utils.History (many   *)
(* runs concatenated by Reset events) must be a behaviour of History's own   *)
(* actions, with the recorded state matching after every event.              *)
EXTENDS History

CONSTANT TraceFile
Trace == ndJsonDeserialize(TraceFile)

VARIABLE l
tvars == <<vars, l>>

Ev == Trace[l]
IsEv(e) == l <= Len(Trace) /\ Ev.ev = e /\ l' = l + 1
Observed == S' = Ev.S /\ height' = Ev.height /\ kept' = Ev.kept

TraceInit == Init /\ l = 1 /\ TLCSet(1, 1)

TReset == /\ IsEv("Reset")
          /\ S' = S0 /\ ents' = <<>> /\ kept' = 0 /\ cached' = <<>>
          /\ temp' = <<>> /\ tempOn' = FALSE /\ height' = 0 /\ seek' = 0
          /\ nops' = 0 /\ log' = <<>>

TAppend == IsEv("Append") /\ AppendCh(Ev.h, Ev.chkind, Ev.k, Ev.d) /\ Observed /\ ~Ev.err
TAppendTemp == IsEv("AppendTemp") /\ AppendTemp(Ev.chkind, Ev.k, Ev.d) /\ Observed /\ ~Ev.err
TCommit == IsEv("Commit") /\ (CommitTemp \/ Commit(Ev.h)) /\ Observed /\ ~Ev.err
TRollback == IsEv("RollbackTo") /\ RollbackTo(Ev.t) /\ Observed /\ ~Ev.err
TSeek == IsEv("SeekTo") /\ SeekTo(Ev.t) /\ Observed
         /\ (Ev.err <=> log'[Len(log')].act = "SeekToErr")
TRollbackSeek == IsEv("RollbackSeekTo") /\ RollbackSeek /\ seek = Ev.t /\ Observed /\ ~Ev.err

TraceNext == TReset \/ TAppend \/ TAppendTemp \/ TCommit \/ TRollback \/ TSeek \/ TRollbackSeek
TraceSpec == TraceInit /\ [][TraceNext]_tvars

\* high-water mark of consumed trace lines (register 1)
HighWater == IF l > TLCGet(1) THEN TLCSet(1, l) ELSE TRUE
TraceAccepted == IF TLCGet(1) = Len(Trace) + 1 THEN TRUE
                 ELSE PrintT(<<"REJECTED_AT_LINE", TLCGet(1)>>) /\ FALSE
TraceView == <<view, l>>
=============================================================================
