------------------------------- MODULE DPoS -------------------------------
(***************************************************************************)
(* The DPoS producer / vote / deposit state machine of dpos/state/state.go *)
(* (State.ProcessBlock, State.RollbackTo driven through Arbiters) for      *)
(* properties C21 (rollback = direct build) and C28 (no overdraw).         *)
(*                                                                         *)
(* How the code works, and how it is transcribed:                          *)
(*  * ProcessBlock(h) looks at every transaction of the block against the  *)
(*    state BEFORE the block.  It does not change the state; it appends    *)
(*    closures (execute, rollback) to utils.History.  "ori" values used by *)
(*    the rollback closures are captured at that moment (pre-block).       *)
(*    Here: Changes(S, h, items) is a pure function of the pre-block state *)
(*    S returning a sequence of change records.                            *)
(*  * History.Commit(h) runs the execute closures in append order:         *)
(*    Ex(S, c), folded by Commit.  Closures read the state as it is when   *)
(*    they run (mid-commit), which Ex transcribes.                         *)
(*  * History.RollbackTo(t) runs, for every height above t from the newest *)
(*    down, the rollback closures of that height IN APPEND ORDER: Un(S, c) *)
(*    folded by UndoTo.                                                    *)
(*  * The property C21: the result of that mechanism equals the state      *)
(*    built by processing only the blocks <= t (snaps[t+1]).               *)
(*                                                                         *)
(* A producer is abstracted to its status field, the set of producer maps  *)
(* it is a member of (the code keeps six maps and a producer can sit in    *)
(* several when two transactions of one block touch it), heights, votes,   *)
(* and the three amounts totalAmount / depositAmount (the locked part) /   *)
(* penalty; a stake address to its vote rights and used DPoS v2 votes.     *)
(* Amounts are in ELA.                                                     *)
(*                                                                         *)
(* A block carries 0..MaxItems items (transactions of the kinds in Kinds,  *)
(* and optionally the sponsor of the block's confirm).  Block validity is  *)
(* the code's rule: every transaction is checked against the pre-block     *)
(* state (Pre).  C28 forbids more: a block whose combined effect overdraws *)
(* a deposit or vote rights, and cancelling a producer whose deposit was   *)
(* returned.  Such blocks are the named deviations: they are logged with   *)
(* dev = TRUE and NOT applied; the driver shows on the real code whether   *)
(* they are accepted and what balances result.  A third named deviation:   *)
(* blocks that change the status of one producer twice (see Taint).        *)
(*                                                                         *)
(* Every Block entry of `log` carries `ck`, the <<change kind, subject>>   *)
(* pairs of the block: the recipes select the behaviours to replay so that *)
(* every change kind, and every set of different changes one block applies *)
(* to one subject, is replayed (tools/props/dpos_common.py tags / pick).   *)
(***************************************************************************)
EXTENDS Integers, Sequences, FiniteSets, TLC, Json

CONSTANTS PSeq,          \* producers, in a fixed order              <<"p1","p2","p3">>
          ASeq,          \* stake addresses / voters                 <<"a1","a2">>
          V2Reg,         \* producers registering as DPoS v2 nodes (StakeUntil # 0)
          V2Upd,         \* v1 producers that may become v1v2 by UpdateProducer
          SU,            \* the StakeUntil height they use
          MaxH,          \* last height
          Prelude,       \* forced first blocks: sequence of item sequences
          MaxItems,      \* items per free block
          Kinds,         \* item kinds generated in free blocks
          MaxRollbacks,  \* RollbackTo actions per behaviour
          RollbackSpan,  \* how far back a RollbackTo may go
          Lockup,        \* DepositLockupBlocks
          IrrStart,      \* RevertToPOWStartHeight
          MaxInactive,   \* MaxInactiveRounds
          InactivePen, EmergencyPen, IllegalPen,
          MinLock, MaxLock,   \* DPoSV2Min/MaxVotesLockTime
          DepV1, DepV2,  \* MinDepositAmount, MinDPoSV2DepositAmount
          RegExtra,      \* what a registration pays into the deposit address above the minimum (so that
                         \* totalAmount and the locked depositAmount differ from the first block on)
          V1Amt,         \* amount of a v1 vote output
          StakeAmts, TopUps, VoteAmts, LockSpans,
          MaxRights, MaxUtxo,
          WorkInterval,  \* payload.WorkHeightInterval
          Tolerate,      \* change kinds whose rollback closure is recorded as inexact
          SimLen,        \* simulation: behaviours of this many steps are printed
          WithCheckpoint, \* TRUE: CheckpointRestore steps are generated (C23)
          SampleN        \* extraction prints about one edge in SampleN (1: every edge)

VARIABLES S,        \* abstract DPoS state (record, see S0)
          height,   \* History.Height() = best height
          snaps,    \* snaps[i+1] = state after the block of height i (direct build)
          hist,     \* hist[i] = change records committed at height i
          nid,      \* next DPoS v2 vote id
          nrb,      \* rollbacks so far
          rbOK,     \* result of the last rollback: mechanism = direct build
          log       \* history variable: the behaviour, for replay

vars == <<S, height, snaps, hist, nid, nrb, rbOK, log>>
view == <<S, height, snaps, hist, nid, nrb, rbOK>>

P == {PSeq[i] : i \in 1..Len(PSeq)}
A == {ASeq[i] : i \in 1..Len(ASeq)}
NoH == -1                       \* math.MaxUint32 (activateRequestHeight "never")
Five == {"Pending", "Active", "Inactive", "Canceled", "Illegal"}

NoProd == [st |-> "None", maps |-> {}, ident |-> "V1", regH |-> 0, cancelH |-> 0,
           inactSince |-> 0, actReq |-> NoH, illegalH |-> 0, pen |-> 0, votes |-> 0,
           v2votes |-> 0, dep |-> 0, total |-> 0, nick |-> 0, su |-> 0,
           inactCnt |-> 0, lastUpd |-> 0,
           nexp |-> 0]     \* (spec only) how often the producer was canceled because its StakeUntil passed

S0 == [pr |-> [p \in P |-> NoProd],
       ad |-> [a \in A |-> [rights |-> 0, used |-> 0]],
       v1 |-> [a \in A |-> [p |-> "-", live |-> FALSE, counted |-> FALSE]],
       v2 |-> {},                \* DPoS v2 vote records [id, a, p, amt, lock, h0]
       utxo |-> [p \in P |-> <<>>],   \* unspent deposit outputs (chain side, for inputs)
       mode |-> "DPOS", dposWork |-> 0, lastIrr |-> 0, dposStart |-> 0, powH |-> 0,
       rf |-> {}]    \* memory of the returnDeposit closures: those that moved their producer to Returned

---------------------------------------------------------------------------
(* Lookups of the code *)

Exists(S_, p)   == S_.pr[p].maps \cap Five # {}              \* getProducer(key) # nil
Mult(S_, p)     == Cardinality(S_.pr[p].maps \cap Five)     \* times getAllProducers() lists p
InMap(S_, p, m) == m \in S_.pr[p].maps
Avail(r)        == r.total - r.dep - r.pen                 \* Producer.AvailableAmount
IsV2(r)         == r.su # 0                                 \* info.StakeUntil # 0

RECURSIVE CatFn(_, _)
CatFn(f, n) == IF n = 0 THEN <<>> ELSE CatFn(f, n - 1) \o f[n]
OverP(F(_)) == CatFn([i \in 1..Len(PSeq) |-> F(PSeq[i])], Len(PSeq))
Rep(s, n)   == CatFn([i \in 1..n |-> s], n)

RECURSIVE SumSeq(_)
SumSeq(s) == IF s = <<>> THEN 0 ELSE Head(s) + SumSeq(Tail(s))

---------------------------------------------------------------------------
(* Items: [k, p, a, x, y].  Pre(S,h,it) is the verdict of the code's        *)
(* transaction checker for it against the pre-block state S at height h.    *)

It(k, p, a, x, y) == [k |-> k, p |-> p, a |-> a, x |-> x, y |-> y]

\* deposit outputs selected by bit mask x
Bit(x, i)   == (x \div (2 ^ (i - 1))) % 2 = 1
InVal(u, x) == SumSeq([i \in 1..Len(u) |-> IF Bit(x, i) THEN u[i] ELSE 0])
MinAct(r)   == IF r.ident = "V2" THEN DepV2 ELSE DepV1

VoteOf(S_, id) == CHOOSE v \in S_.v2 : v.id = id

\* everything the Voting checker demands of a DPoS v2 vote except the balance
Vote2Shape(S_, h, it) ==
  /\ InMap(S_, it.p, "Active") /\ S_.pr[it.p].ident \in {"V2", "V1V2"}
  /\ it.y > h /\ it.y <= S_.pr[it.p].su
  /\ it.y - h >= MinLock /\ it.y - h <= MaxLock /\ it.x > 0

Pre(S_, h, it) ==
  LET r == IF it.p \in P THEN S_.pr[it.p] ELSE NoProd
      d == IF it.a \in A THEN S_.ad[it.a] ELSE [rights |-> 0, used |-> 0]
  IN CASE it.k = "Reg"    -> ~Exists(S_, it.p) /\ r.st = "None"
       [] it.k = "Upd"    -> /\ Exists(S_, it.p) /\ r.st \in {"Pending", "Active", "Inactive"}
                             /\ (it.x = 1 => it.p \in V2Upd /\ r.ident = "V1" /\ r.st = "Active" /\ h < SU)
                             /\ (r.ident = "V2" => h <= r.su)
       [] it.k = "Can"    -> /\ Exists(S_, it.p) /\ r.st \notin {"Illegal", "Canceled"}
                             /\ r.ident # "V2" /\ (r.ident = "V1V2" => h > r.su)
       [] it.k = "Act"    -> /\ Exists(S_, it.p) /\ r.st \in {"Inactive", "Illegal"}
                             /\ ~(r.actReq # NoH /\ h > r.actReq /\ h - r.actReq <= 6)
                             /\ r.total - r.pen >= MinAct(r)
       [] it.k = "Vote1"  -> InMap(S_, it.p, "Active") /\ r.ident # "V2" /\ ~S_.v1[it.a].live
       [] it.k = "Unvote1"-> S_.v1[it.a].live
       [] it.k = "Stake"  -> d.rights + it.x <= MaxRights
       [] it.k = "Vote2"  -> Vote2Shape(S_, h, it) /\ it.x <= d.rights - d.used
       [] it.k = "Renew"  -> /\ \E v \in S_.v2 : v.id = it.x /\ v.a = it.a
                             /\ LET v == VoteOf(S_, it.x) IN
                                  /\ Exists(S_, v.p) /\ it.y > v.lock /\ it.y <= S_.pr[v.p].su
                                  /\ it.y - v.h0 <= MaxLock
       [] it.k = "RetVotes"-> it.x > 0 /\ it.x <= d.rights - d.used /\ S_.mode = "DPOS"
       [] it.k = "TopUp"  -> Exists(S_, it.p) /\ Len(S_.utxo[it.p]) < MaxUtxo
       [] it.k = "RetDep" -> /\ Exists(S_, it.p) /\ it.x > 0 /\ it.x < 2 ^ Len(S_.utxo[it.p]) /\ it.y >= 0
                             /\ InVal(S_.utxo[it.p], it.x) - it.y >= 1
                             /\ InVal(S_.utxo[it.p], it.x) - it.y <= Avail(r)
       [] it.k = "Illegal"-> Exists(S_, it.p) /\ r.maps \cap {"Active", "Inactive", "Illegal", "Canceled"} # {}
       [] it.k = "Inact"  -> InMap(S_, it.p, "Active")
       [] it.k = "ToPOW"  -> h >= IrrStart
       [] it.k = "ToDPOS" -> h >= IrrStart /\ S_.mode = "POW" /\ S_.dposWork <= h
       [] it.k = "Sponsor"-> InMap(S_, it.p, "Active")
       [] OTHER -> FALSE

\* What C28 forbids although the checker accepts it: cancelling a producer whose
\* deposit has been returned restarts the unlock of a deposit that is no longer
\* there (depositAmount goes negative when the lock-up ends).
Forbidden(S_, it) == it.k = "Can" /\ S_.pr[it.p].st = "Returned"

\* Items the generator offers at a state.  Besides everything the checkers accept,
\* a few requests one unit above the balance (the checkers must reject them).
Offers(S_, h) ==
  LET all ==
        {It(k, p, "-", 0, 0) : k \in Kinds \cap {"Reg", "Can", "Act", "Illegal", "Inact", "Sponsor"}, p \in P}
   \cup {It("Upd", p, "-", x, 0) : p \in P, x \in IF "Upd" \in Kinds THEN {0, 1} ELSE {}}
   \cup {It(k, "-", "-", 0, 0) : k \in Kinds \cap {"ToPOW", "ToDPOS"}}
   \cup {It("Vote1", p, a, 0, 0) : p \in IF "Vote1" \in Kinds THEN P ELSE {}, a \in A}
   \cup {It("Unvote1", "-", a, 0, 0) : a \in IF "Unvote1" \in Kinds THEN A ELSE {}}
   \cup {It("Stake", "-", a, x, 0) : a \in IF "Stake" \in Kinds THEN A ELSE {}, x \in StakeAmts}
   \cup {It("TopUp", p, "-", x, 0) : p \in IF "TopUp" \in Kinds THEN P ELSE {}, x \in TopUps}
   \cup UNION {{It("Vote2", p, a, x, h + l) :
                    p \in {q \in P : InMap(S_, q, "Active") /\ S_.pr[q].ident # "V1"}, l \in LockSpans,
                    x \in VoteAmts \cup {S_.ad[a].rights - S_.ad[a].used,
                                         S_.ad[a].rights - S_.ad[a].used + 1}}
               : a \in IF "Vote2" \in Kinds THEN A ELSE {}}
   \cup UNION {{It("RetVotes", "-", a, x, 0) :
                                              x \in VoteAmts \cup {S_.ad[a].rights - S_.ad[a].used,
                                                                   S_.ad[a].rights - S_.ad[a].used + 1}}
               : a \in IF "RetVotes" \in Kinds THEN A ELSE {}}
   \cup {It("Renew", "-", v.a, v.id, v.lock + l) : v \in IF "Renew" \in Kinds THEN S_.v2 ELSE {}, l \in LockSpans}
   \cup UNION {UNION {{It("RetDep", p, "-", x, y) :
                          y \in {0, InVal(S_.utxo[p], x) - Avail(S_.pr[p]),
                                    InVal(S_.utxo[p], x) - Avail(S_.pr[p]) - 1}}
                       : x \in 1..(2 ^ Len(S_.utxo[p]) - 1)}
               : p \in IF "RetDep" \in Kinds THEN {q \in P : Exists(S_, q)} ELSE {}}
  IN {it \in all : \/ Pre(S_, h, it)
                   \/ /\ it.k = "Vote2" /\ it.x = S_.ad[it.a].rights - S_.ad[it.a].used + 1
                      /\ Vote2Shape(S_, h, it)          \* everything but the amount is in order
                   \/ /\ it.k = "RetVotes" /\ it.x = S_.ad[it.a].rights - S_.ad[it.a].used + 1
                      /\ S_.mode = "DPOS"
                   \/ /\ it.k = "RetDep" /\ Exists(S_, it.p) /\ it.y >= 0
                      /\ InVal(S_.utxo[it.p], it.x) - it.y = Avail(S_.pr[it.p]) + 1
                      /\ InVal(S_.utxo[it.p], it.x) - it.y >= 1}

\* The block-level rules of the code (CheckDuplicateTx, distinct inputs) and of the
\* harness (one vote output per voter).
Compatible(a, b) ==
  /\ ~(a.k \in {"Reg", "Upd", "Can"} /\ b.k \in {"Reg", "Upd", "Can"} /\ a.p = b.p)
  /\ ~(a.k \in {"Vote1", "Unvote1"} /\ b.k \in {"Vote1", "Unvote1"} /\ a.a = b.a)
  /\ ~(a.k = "Sponsor" /\ b.k = "Sponsor")
  /\ ~(a.k = "RetDep" /\ b.k = "RetDep" /\ a.p = b.p /\ \E i \in 1..(MaxUtxo + 4) : Bit(a.x, i) /\ Bit(b.x, i))
  /\ ~(a.k = "Renew" /\ b.k = "Renew" /\ a.x = b.x)
  /\ ~(a.k \in {"ToPOW", "ToDPOS"} /\ b.k = a.k)
  /\ a # b

\* Two items share a block only when they touch the same producer / address / mode
\* (independent items commute; their blocks are covered by the single-item ones).
Interact(a, b) == \/ (a.p # "-" /\ a.p = b.p) \/ (a.a # "-" /\ a.a = b.a)
                  \/ a.k = "Sponsor" \/ b.k = "Sponsor"
                  \/ {a.k, b.k} \subseteq {"ToPOW", "ToDPOS"}

---------------------------------------------------------------------------
(* Changes: the closures ProcessBlock appends for one item / at the end of  *)
(* the block, computed from the PRE-BLOCK state.  Field `o` holds the "ori" *)
(* values the rollback closure captured.                                    *)

Ch(k, p, a, x, y, o) == [k |-> k, p |-> p, a |-> a, x |-> x, y |-> y, o |-> o]
NoO == [none |-> TRUE]

\* processDeposit / addProducerAssert for an output of value x to p's deposit address
DepositCh(S_, p, x) == IF Exists(S_, p) THEN <<Ch("addTotal", p, "-", x, 0, NoO)>> ELSE <<>>

IllegalCh(S_, p) ==
  LET r == S_.pr[p]
      o == [st |-> r.st, pen |-> r.pen, illegalH |-> r.illegalH, actReq |-> r.actReq]
  IN IF InMap(S_, p, "Active")   THEN <<Ch("illegalA", p, "-", 0, 0, o)>>
     ELSE IF InMap(S_, p, "Inactive") THEN <<Ch("illegalI", p, "-", 0, 0, o)>>
     ELSE IF InMap(S_, p, "Illegal")  THEN <<Ch("illegalL", p, "-", 0, 0, o)>>
     ELSE IF InMap(S_, p, "Canceled") THEN <<Ch("illegalC", p, "-", 0, 0, o)>>
     ELSE <<>>

ItemCh(S_, h, it, vid) ==
  LET r == IF it.p \in P THEN S_.pr[it.p] ELSE NoProd IN
  CASE it.k = "Reg" ->
         <<Ch("reg", it.p, "-", IF it.p \in V2Reg THEN DepV2 ELSE DepV1,
              IF it.p \in V2Reg THEN SU ELSE 0, NoO)>>
    [] it.k = "Upd" ->
         <<Ch("upd", it.p, "-", it.x, 0, [nick |-> r.nick, ident |-> r.ident, su |-> r.su])>>
    \* cancelAgain: a producer that was canceled before (canceled, then made Illegal by evidence, activated again);
    \* its pre-block cancelHeight is not 0
    [] it.k = "Can" -> <<Ch(IF r.cancelH = 0 THEN "cancel" ELSE "cancelAgain", it.p, "-", 0, 0,
                            [st |-> r.st, cancelH |-> r.cancelH])>>
    [] it.k = "Act" -> IF Exists(S_, it.p) THEN <<Ch("actreq", it.p, "-", 0, 0, [actReq |-> r.actReq])>> ELSE <<>>
    [] it.k = "Vote1" ->
         \* processVotes: the vote output is recorded; the producer is credited if it exists now
         <<Ch("v1add", it.p, it.a, IF Exists(S_, it.p) THEN V1Amt ELSE 0, 0, [v1 |-> S_.v1[it.a]])>>
    [] it.k = "Unvote1" ->
         LET q == S_.v1[it.a].p IN
         <<Ch("v1sub", q, it.a, IF Exists(S_, q) THEN V1Amt ELSE 0, 0, NoO)>>
    [] it.k = "Stake"    -> <<Ch("stake", "-", it.a, it.x, 0, NoO)>>
    [] it.k = "Vote2"    ->
         <<Ch("v2used", "-", it.a, it.x, 0, NoO)>> \o
         (IF Exists(S_, it.p) /\ IsV2(r)
          THEN <<Ch("v2add", it.p, it.a, it.x, it.y, [id |-> vid, h0 |-> h])>> ELSE <<>>)
    [] it.k = "Renew"    ->
         LET v == VoteOf(S_, it.x) IN
         IF Exists(S_, v.p) /\ IsV2(S_.pr[v.p])
         THEN <<Ch("renew", v.p, it.a, it.x, it.y, [old |-> v, id |-> vid])>> ELSE <<>>
    [] it.k = "RetVotes" -> <<Ch("retvotes", "-", it.a, it.x, 0, NoO)>>
    [] it.k = "TopUp"    -> DepositCh(S_, it.p, it.x)
    [] it.k = "RetDep"   ->
         (IF Exists(S_, it.p)
          THEN <<Ch("retdep", it.p, "-", InVal(S_.utxo[it.p], it.x), it.y, [id |-> <<h, vid>>])>> ELSE <<>>)
         \o (IF it.y > 0 THEN DepositCh(S_, it.p, it.y) ELSE <<>>)
    [] it.k = "Illegal"  -> IllegalCh(S_, it.p)
    [] it.k = "Inact"    ->
         \* processEmergencyInactiveArbitrators: one closure per map the producer is found in
         LET o == [inactSince |-> r.inactSince, actReq |-> r.actReq, pen |-> r.pen] IN
         (IF InMap(S_, it.p, "Active")   THEN <<Ch("emerg", it.p, "-", 0, 0, o)>> ELSE <<>>) \o
         (IF InMap(S_, it.p, "Inactive") THEN <<Ch("emerg", it.p, "-", 0, 0, o)>> ELSE <<>>)
    [] it.k = "ToPOW"    ->
         <<Ch("topow", "-", "-", 0, 0, [mode |-> S_.mode, dposWork |-> S_.dposWork, powH |-> S_.powH])>>
    [] it.k = "ToDPOS"   -> <<Ch("todpos", "-", "-", 0, 0, [dposWork |-> S_.dposWork])>>
    [] OTHER -> <<>>     \* Sponsor: see SponsorCh

\* end of processTransactions
EndCh(S_, h, renewed) ==
  LET promoteP(p) == IF InMap(S_, p, "Pending") /\ h - S_.pr[p].regH + 1 >= 6
                     THEN <<Ch("promoteP", p, "-", 0, 0, NoO)>> ELSE <<>>
      promoteI(p) == IF InMap(S_, p, "Inactive") /\ S_.pr[p].actReq # NoH /\ h > S_.pr[p].actReq
                        /\ h - S_.pr[p].actReq + 1 >= 6
                     THEN <<Ch("promoteI", p, "-", 0, 0, NoO)>> ELSE <<>>
      promoteL(p) == IF InMap(S_, p, "Illegal") /\ S_.pr[p].actReq # NoH /\ h > S_.pr[p].actReq
                        /\ h - S_.pr[p].actReq + 1 >= 6
                     THEN <<Ch("promoteL", p, "-", 0, 0, NoO)>> ELSE <<>>
      \* DPoS v2: expired producers are canceled, expired votes are cleaned
      expVotes(p) == CatFn([i \in 1..(nid - 1) |->
                        IF \E v \in S_.v2 : v.id = i /\ v.p = p /\ v.lock < h /\ i \notin renewed
                        THEN LET v == VoteOf(S_, i) IN
                             <<Ch("expUsed", "-", v.a, v.amt, 0, NoO), Ch("expVote", p, v.a, i, 0, [old |-> v])>>
                        ELSE <<>>], nid - 1)
      expire(p) == IF ~IsV2(S_.pr[p]) THEN <<>>
                   ELSE Rep((IF S_.pr[p].su < h /\ S_.pr[p].st \notin {"Returned", "Canceled"}
                                /\ S_.pr[p].ident = "V2"
                             THEN <<Ch(IF S_.pr[p].nexp = 0 THEN "expProd" ELSE "expProdAgain", p, "-", 0, 0,
                                       [st |-> S_.pr[p].st, dep |-> S_.pr[p].dep])>>
                             ELSE <<>>) \o expVotes(p), Mult(S_, p))
      unlock(p) == IF InMap(S_, p, "Canceled") /\ S_.pr[p].st = "Canceled"
                      /\ h - S_.pr[p].cancelH = Lockup
                   THEN <<Ch("unlock", p, "-", 0, 0, [dep |-> S_.pr[p].dep])>> ELSE <<>>
      o == [lastIrr |-> S_.lastIrr, dposStart |-> S_.dposStart]
  IN OverP(promoteP) \o OverP(promoteI) \o OverP(expire) \o OverP(promoteL)
     \o (IF S_.dposWork # 0 /\ h >= S_.dposWork /\ S_.mode = "POW"
         THEN <<Ch("modeDPOS", "-", "-", 0, 0, NoO)>> ELSE <<>>)
     \o OverP(unlock)
     \* tryUpdateLastIrreversibleHeight
     \o (IF h < IrrStart THEN <<>>
         ELSE IF S_.lastIrr = 0 THEN <<Ch("irrInit", "-", "-", h, 0, o)>>
         ELSE IF S_.mode = "DPOS"
              THEN (IF S_.dposWork # 0 /\ h = S_.dposWork + 1
                    THEN <<Ch("irrFromPow", "-", "-", h, 0, o)>> ELSE <<>>)
                   \o (IF h - S_.dposStart >= 6 THEN <<Ch("irrAdv", "-", "-", h, 0, o)>> ELSE <<>>)
              ELSE <<>>)

\* countArbitratorsInactivityV2 with the arbiters = the producers of the active map
SponsorCh(S_, h, sp) ==
  LET one(p) == IF ~InMap(S_, p, "Active") THEN <<>>
                ELSE <<Ch(IF p = sp THEN "spReset" ELSE "spMiss", p, "-", 0, 0,
                          [cnt |-> S_.pr[p].inactCnt, lastUpd |-> S_.pr[p].lastUpd,
                           inactSince |-> S_.pr[p].inactSince, actReq |-> S_.pr[p].actReq, pen |-> S_.pr[p].pen])>>
  IN IF sp = "-" THEN <<>> ELSE OverP(one)

---------------------------------------------------------------------------
(* Ex: the execute closures.  Un: the rollback closures.                    *)

SetInactive(r, h, pen) ==
  [r EXCEPT !.inactSince = h, !.actReq = NoH, !.st = "Inactive",
            !.maps = (@ \cup {"Inactive"}) \ {"Active"}, !.pen = @ + pen]
RevertInactive(r, o) ==         \* revertSettingInactiveProducer, then the captured originals are restored
  [r EXCEPT !.inactSince = o.inactSince, !.actReq = o.actReq, !.st = "Active",
            !.maps = (@ \cup {"Active"}) \ {"Inactive"}, !.pen = o.pen]
MapOf(st) == IF st \in {"Pending", "Active", "Inactive", "Illegal"} THEN {st} ELSE {}

Ex(S_, c, h) ==
  LET r == IF c.p \in P THEN S_.pr[c.p] ELSE NoProd
      SP(nr) == [S_ EXCEPT !.pr[c.p] = nr]
  IN
  CASE c.k = "reg" ->
         SP([NoProd EXCEPT !.st = "Pending", !.maps = {"Pending"}, !.regH = h, !.dep = c.x,
                           !.total = c.x + RegExtra, !.su = c.y, !.ident = IF c.y # 0 THEN "V2" ELSE "V1"])
    [] c.k = "upd" ->
         SP([r EXCEPT !.nick = 1 - c.o.nick,
                      !.su = IF c.x = 1 THEN SU ELSE c.o.su,
                      !.ident = IF c.x = 1 /\ @ = "V1" THEN "V1V2" ELSE @])
    [] c.k \in {"cancel", "cancelAgain"} ->
         SP([r EXCEPT !.st = "Canceled", !.cancelH = h,
                      !.maps = IF c.o.st = "Pending" THEN ((@ \cup {"Canceled", "PendingCanceled"}) \ {"Pending"})
                               ELSE IF c.o.st \in {"Active", "Inactive"} THEN ((@ \cup {"Canceled"}) \ {c.o.st})
                               ELSE @ \cup {"Canceled"}])
    [] c.k = "actreq"   -> SP([r EXCEPT !.actReq = h])
    [] c.k = "v1add"    -> [SP([r EXCEPT !.votes = @ + c.x]) EXCEPT
                              !.v1[c.a] = [p |-> c.p, live |-> TRUE, counted |-> c.x > 0]]
    [] c.k = "v1sub"    -> [SP([r EXCEPT !.votes = @ - c.x]) EXCEPT !.v1[c.a].live = FALSE]
    [] c.k = "stake"    -> [S_ EXCEPT !.ad[c.a].rights = @ + c.x]
    [] c.k = "v2used"   -> [S_ EXCEPT !.ad[c.a].used = @ + c.x]
    [] c.k = "v2add"    ->
         [SP([r EXCEPT !.v2votes = @ + c.x]) EXCEPT
            !.v2 = @ \cup {[id |-> c.o.id, a |-> c.a, p |-> c.p, amt |-> c.x, lock |-> c.y, h0 |-> c.o.h0]}]
    [] c.k = "renew"    ->
         [S_ EXCEPT !.v2 = {v \in @ : v.id # c.x} \cup
                           {[c.o.old EXCEPT !.id = c.o.id, !.lock = c.y]}]
    [] c.k = "retvotes" -> [S_ EXCEPT !.ad[c.a].rights = @ - c.x]
    [] c.k = "addTotal" -> SP([r EXCEPT !.total = @ + c.x])
    [] c.k = "retdep"   ->
         LET t2 == r.total - c.x
             ret == r.st = "Canceled" /\ t2 + c.y - r.pen <= 0 IN
         [SP([r EXCEPT !.total = t2, !.st = IF ret THEN "Returned" ELSE @])
            EXCEPT !.rf = IF ret THEN @ \cup {c.o.id} ELSE @]
    [] c.k = "illegalA" ->
         SP([r EXCEPT !.st = "Illegal", !.illegalH = h, !.actReq = NoH, !.pen = @ + IllegalPen,
                      !.maps = (@ \cup {"Illegal"}) \ {"Active"}])
    [] c.k = "illegalI" ->
         SP([r EXCEPT !.st = "Illegal", !.illegalH = h, !.actReq = NoH, !.pen = @ + IllegalPen,
                      !.maps = (@ \cup {"Illegal"}) \ {"Inactive"}])
    [] c.k = "illegalL" -> SP([r EXCEPT !.illegalH = h, !.actReq = NoH, !.pen = @ + IllegalPen])
    [] c.k = "illegalC" ->
         SP([r EXCEPT !.st = "Illegal", !.illegalH = h, !.pen = @ + IllegalPen,
                      !.maps = (@ \cup {"Illegal"}) \ {"Canceled"}])
    [] c.k = "emerg"    -> SP(SetInactive(r, h, EmergencyPen))
    [] c.k = "promoteP" -> SP([r EXCEPT !.st = "Active", !.maps = (@ \cup {"Active"}) \ {"Pending"}])
    [] c.k = "promoteI" -> SP([r EXCEPT !.st = "Active", !.maps = (@ \cup {"Active"}) \ {"Inactive"}])
    [] c.k = "promoteL" -> SP([r EXCEPT !.st = "Active", !.maps = (@ \cup {"Active"}) \ {"Illegal"}])
    \* expProdAgain: named deviation.  An expired producer that became Illegal afterwards (evidence
    \* about a canceled producer sets its state to Illegal) is not Canceled / Returned any more, so
    \* the code cancels it a second time and subtracts the locked deposit again (recorded finding).
    [] c.k \in {"expProd", "expProdAgain"} ->
         SP([r EXCEPT !.st = "Canceled", !.dep = @ - DepV2, !.nexp = @ + 1,
                      !.maps = (@ \cup {"Canceled"}) \ (MapOf(c.o.st) \ {"Pending"})])
    [] c.k = "expUsed"  -> [S_ EXCEPT !.ad[c.a].used = @ - c.x]
    [] c.k = "expVote"  -> [SP([r EXCEPT !.v2votes = @ - c.o.old.amt]) EXCEPT !.v2 = {v \in @ : v.id # c.x}]
    [] c.k = "modeDPOS" -> [S_ EXCEPT !.mode = "DPOS"]
    [] c.k = "unlock"   -> SP([r EXCEPT !.dep = @ - DepV1])
    [] c.k = "topow"    -> [S_ EXCEPT !.mode = "POW", !.dposWork = 0, !.powH = h]
    [] c.k = "todpos"   -> [S_ EXCEPT !.dposWork = h + WorkInterval]
    [] c.k = "irrInit"  -> [S_ EXCEPT !.lastIrr = h - 6, !.dposStart = h - 6]
    [] c.k = "irrFromPow" -> [S_ EXCEPT !.dposStart = h]
    [] c.k = "irrAdv"   -> [S_ EXCEPT !.dposStart = @ + 1, !.lastIrr = S_.dposStart + 1]
    [] c.k = "spReset"  -> SP([r EXCEPT !.inactCnt = 0, !.lastUpd = h])
    [] c.k = "spMiss"   ->
         \* tryUpdateInactivityV2, not selected
         LET n == r.inactCnt + 1 IN
         IF n >= MaxInactive
         THEN SP([SetInactive(r, h, InactivePen) EXCEPT !.inactCnt = 0, !.lastUpd = h])
         ELSE SP([r EXCEPT !.inactCnt = n, !.lastUpd = h])
    [] OTHER -> S_

\* The rollback closures as they are in the code (with the repairs listed in the
\* evidence: original values are restored where the code had constants).
Un(S_, c) ==
  LET r == IF c.p \in P THEN S_.pr[c.p] ELSE NoProd
      SP(nr) == [S_ EXCEPT !.pr[c.p] = nr]
  IN
  CASE c.k = "reg"      -> SP(NoProd)
    [] c.k = "upd"      -> SP([r EXCEPT !.nick = c.o.nick, !.su = c.o.su, !.ident = c.o.ident])
    [] c.k \in {"cancel", "cancelAgain"} ->
         SP([r EXCEPT !.st = c.o.st, !.cancelH = c.o.cancelH,
                      !.maps = IF c.o.st = "Pending" THEN ((@ \cup {"Pending"}) \ {"Canceled", "PendingCanceled"})
                               ELSE IF c.o.st \in {"Active", "Inactive"} THEN ((@ \cup {c.o.st}) \ {"Canceled"})
                               ELSE @ \ {"Canceled"}])
    [] c.k = "actreq"   -> SP([r EXCEPT !.actReq = c.o.actReq])
    [] c.k = "v1add"    -> [SP([r EXCEPT !.votes = @ - c.x]) EXCEPT !.v1[c.a] = c.o.v1]
    [] c.k = "v1sub"    -> [SP([r EXCEPT !.votes = @ + c.x]) EXCEPT !.v1[c.a].live = TRUE]
    [] c.k = "stake"    -> [S_ EXCEPT !.ad[c.a].rights = @ - c.x]
    [] c.k = "v2used"   -> [S_ EXCEPT !.ad[c.a].used = @ - c.x]
    [] c.k = "v2add"    -> [SP([r EXCEPT !.v2votes = @ - c.x]) EXCEPT !.v2 = {v \in @ : v.id # c.o.id}]
    [] c.k = "renew"    -> [S_ EXCEPT !.v2 = {v \in @ : v.id # c.o.id} \cup {c.o.old}]
    [] c.k = "retvotes" -> [S_ EXCEPT !.ad[c.a].rights = @ + c.x]
    [] c.k = "addTotal" -> SP([r EXCEPT !.total = @ - c.x])
    \* the closure remembers whether it moved the producer to Returned
    [] c.k = "retdep"   -> [SP([r EXCEPT !.total = @ + c.x, !.st = IF c.o.id \in S_.rf THEN "Canceled" ELSE @])
                              EXCEPT !.rf = @ \ {c.o.id}]
    [] c.k = "illegalA" ->
         SP([r EXCEPT !.st = c.o.st, !.pen = c.o.pen, !.illegalH = c.o.illegalH, !.actReq = c.o.actReq,
                      !.maps = (@ \cup {"Active"}) \ {"Illegal"}])
    [] c.k = "illegalI" ->
         SP([r EXCEPT !.st = c.o.st, !.pen = c.o.pen, !.illegalH = c.o.illegalH, !.actReq = c.o.actReq,
                      !.maps = (@ \cup {"Inactive"}) \ {"Illegal"}])
    [] c.k = "illegalL" -> SP([r EXCEPT !.pen = c.o.pen, !.illegalH = c.o.illegalH, !.actReq = c.o.actReq])
    [] c.k = "illegalC" ->
         SP([r EXCEPT !.st = c.o.st, !.pen = c.o.pen, !.illegalH = c.o.illegalH,
                      !.maps = (@ \cup {"Canceled"}) \ {"Illegal"}])
    [] c.k = "emerg"    -> SP(RevertInactive(r, c.o))
    [] c.k = "promoteP" -> SP([r EXCEPT !.st = "Pending", !.maps = (@ \cup {"Pending"}) \ {"Active"}])
    [] c.k = "promoteI" -> SP([r EXCEPT !.st = "Inactive", !.maps = (@ \cup {"Inactive"}) \ {"Active"}])
    [] c.k = "promoteL" -> SP([r EXCEPT !.st = "Illegal", !.maps = (@ \cup {"Illegal"}) \ {"Active"}])
    [] c.k \in {"expProd", "expProdAgain"} ->
         SP([r EXCEPT !.st = c.o.st, !.dep = c.o.dep, !.nexp = @ - 1,
                      !.maps = (@ \cup (MapOf(c.o.st) \ {"Pending"})) \ {"Canceled"}])
    [] c.k = "expUsed"  -> [S_ EXCEPT !.ad[c.a].used = @ + c.x]
    [] c.k = "expVote"  -> [SP([r EXCEPT !.v2votes = @ + c.o.old.amt]) EXCEPT !.v2 = @ \cup {c.o.old}]
    [] c.k = "modeDPOS" -> [S_ EXCEPT !.mode = "POW"]
    [] c.k = "unlock"   -> SP([r EXCEPT !.dep = c.o.dep])
    [] c.k = "topow"    -> [S_ EXCEPT !.mode = c.o.mode, !.dposWork = c.o.dposWork, !.powH = c.o.powH]
    [] c.k = "todpos"   -> [S_ EXCEPT !.dposWork = c.o.dposWork]
    [] c.k = "irrInit"  -> [S_ EXCEPT !.lastIrr = c.o.lastIrr, !.dposStart = c.o.dposStart]
    [] c.k = "irrFromPow" -> [S_ EXCEPT !.dposStart = c.o.dposStart]
    [] c.k = "irrAdv"   -> [S_ EXCEPT !.dposStart = c.o.dposStart, !.lastIrr = c.o.lastIrr]
    [] c.k = "spReset"  -> SP([r EXCEPT !.inactCnt = c.o.cnt, !.lastUpd = c.o.lastUpd])
    [] c.k = "spMiss"   ->
         \* tryRevertInactivity (not the reset path)
         LET r1 == [r EXCEPT !.lastUpd = c.o.lastUpd, !.inactCnt = c.o.cnt] IN
         SP(IF r1.st = "Inactive" THEN RevertInactive(r1, c.o) ELSE r1)
    [] OTHER -> S_

RECURSIVE Commit(_, _, _)
Commit(S_, cs, h) == IF cs = <<>> THEN S_ ELSE Commit(Ex(S_, Head(cs), h), Tail(cs), h)

RECURSIVE UndoSeq(_, _)       \* one height: append order (HeightChanges.rollback)
UndoSeq(S_, cs) == IF cs = <<>> THEN S_ ELSE UndoSeq(Un(S_, Head(cs)), Tail(cs))

RECURSIVE UndoTo(_, _, _)     \* History.RollbackTo: newest height first
UndoTo(S_, hs, t) == IF Len(hs) <= t THEN S_
                     ELSE UndoTo(UndoSeq(S_, hs[Len(hs)]), SubSeq(hs, 1, Len(hs) - 1), t)

---------------------------------------------------------------------------
(* Blocks *)

TxItems(items) == SelectSeq(items, LAMBDA it : it.k # "Sponsor")
SponsorOf(items) == IF \E i \in 1..Len(items) : items[i].k = "Sponsor"
                    THEN (CHOOSE i \in 1..Len(items) : items[i].k = "Sponsor") ELSE 0
Renewed(items) == {items[i].x : i \in {j \in 1..Len(items) : items[j].k = "Renew"}}

Changes(S_, h, items) ==
  LET txs == TxItems(items)
      sp == IF SponsorOf(items) = 0 THEN "-" ELSE items[SponsorOf(items)].p
  IN CatFn([i \in 1..Len(txs) |-> ItemCh(S_, h, txs[i], nid + i - 1)], Len(txs))
     \o EndCh(S_, h, Renewed(items)) \o SponsorCh(S_, h, sp)

\* deposit outputs after the block (chain side)
RECURSIVE Keep(_, _, _)
Keep(u, x, i) == IF i > Len(u) THEN <<>>
                 ELSE (IF Bit(x, i) THEN <<>> ELSE <<u[i]>>) \o Keep(u, x, i + 1)
RECURSIVE UtxoAfter(_, _)
UtxoAfter(U, txs) ==
  IF txs = <<>> THEN U
  ELSE LET it == Head(txs) IN
       UtxoAfter(CASE it.k = "Reg" -> [U EXCEPT ![it.p] = <<(IF it.p \in V2Reg THEN DepV2 ELSE DepV1) + RegExtra>>]
                   [] it.k = "TopUp" -> [U EXCEPT ![it.p] = Append(@, it.x)]
                   [] OTHER -> U, Tail(txs))
\* two RetDep of one producer: masks are disjoint, remove the union at once
UnionMask(txs, p) == SumSeq([i \in 1..Len(txs) |-> IF txs[i].k = "RetDep" /\ txs[i].p = p THEN txs[i].x ELSE 0])
Changes2Utxo(U0, txs) ==
  LET U1 == UtxoAfter(U0, txs) IN
  [p \in P |->
     LET m == UnionMask(txs, p)
         ch == SelectSeq(txs, LAMBDA it : it.k = "RetDep" /\ it.p = p /\ it.y > 0)
     IN IF m = 0 THEN U1[p]
        ELSE Keep(SubSeq(U1[p], 1, Len(U0[p])), m, 1) \o SubSeq(U1[p], Len(U0[p]) + 1, Len(U1[p]))
             \o [i \in 1..Len(ch) |-> ch[i].y]]

\* Two status changes of one producer in one block (two transactions, or a transaction
\* and an automatic change such as the activation after six blocks) are both decided
\* against the pre-block state and then executed one after the other; the producer
\* can end up in two producer maps and the rollback closures (which restore
\* pre-block values) no longer invert what follows; an expired v2 producer listed in two
\* maps is canceled twice and its locked deposit goes negative.  Recorded finding; such
\* blocks are a named deviation (why = "two-status-changes"): logged, not applied, and
\* shown on the real code by the driver.
StatusCh(c) == \/ c.k \in {"cancel", "cancelAgain", "illegalA", "illegalI", "illegalL", "illegalC", "emerg",
                           "promoteP", "promoteI", "promoteL", "expProd", "expProdAgain"}
               \/ (c.k = "spMiss" /\ c.o.cnt + 1 >= MaxInactive)
Taint(cs) == {p \in P : Cardinality({i \in 1..Len(cs) : cs[i].p = p /\ StatusCh(cs[i])}) >= 2}

\* C28 on the combined effect of a block (S1 -> S2)
BalanceBad(S1, S2) ==
  \/ \E p \in P : S2.pr[p].total < S1.pr[p].total /\ Avail(S2.pr[p]) < 0
  \/ \E p \in P : S2.pr[p].total < 0 \/ (S2.pr[p].dep < 0 /\ S2.pr[p].nexp < 2) \/ S2.pr[p].pen < 0
  \/ \E a \in A : S2.ad[a].used > S2.ad[a].rights \/ S2.ad[a].used < 0 \/ S2.ad[a].rights < 0

Proj(S_) == [pr |-> [p \in P |-> [st |-> S_.pr[p].st, maps |-> S_.pr[p].maps, ident |-> S_.pr[p].ident,
                                   regH |-> S_.pr[p].regH, cancelH |-> S_.pr[p].cancelH,
                                   inactSince |-> S_.pr[p].inactSince, actReq |-> S_.pr[p].actReq,
                                   illegalH |-> S_.pr[p].illegalH, pen |-> S_.pr[p].pen,
                                   votes |-> S_.pr[p].votes, v2votes |-> S_.pr[p].v2votes,
                                   dep |-> S_.pr[p].dep, total |-> S_.pr[p].total, su |-> S_.pr[p].su,
                                   inactCnt |-> S_.pr[p].inactCnt]],
             ad |-> S_.ad, nv2 |-> Cardinality(S_.v2),
             mode |-> S_.mode, dposWork |-> S_.dposWork, lastIrr |-> S_.lastIrr,
             dposStart |-> S_.dposStart, powH |-> S_.powH]

Init == /\ S = S0 /\ height = 0 /\ snaps = <<S0>> /\ hist = <<>>
        /\ nid = 1 /\ nrb = 0 /\ rbOK = TRUE /\ log = <<>>

\* (\E x \in {e} : ... binds e once: TLC would re-evaluate a LET definition at every use)
BlockStep(items) ==
  LET h   == height + 1
      txs == TxItems(items)
  IN /\ h <= MaxH /\ Len(log) < SimLen
     /\ \A i, j \in 1..Len(items) : i < j => Compatible(items[i], items[j])
     /\ \E pre \in {\A i \in 1..Len(items) : Pre(S, h, items[i])} :
        /\ (~pre => Len(items) = 1)           \* a rejected request is tried alone
        /\ \E cs \in {IF pre THEN Changes(S, h, items) ELSE <<>>} :
           \E S2 \in {IF pre THEN [Commit(S, cs, h) EXCEPT !.utxo = Changes2Utxo(S.utxo, txs)] ELSE S} :
           \E why \in {IF ~pre THEN "rejected"
                       ELSE IF Taint(cs) # {} THEN "two-status-changes"
                       ELSE IF \E i \in 1..Len(items) : Forbidden(S, items[i]) THEN "forbidden"
                       ELSE IF BalanceBad(S, S2) THEN "balance" ELSE ""} :
           \E dev \in {pre /\ why # ""} :
             /\ IF pre /\ ~dev
                THEN /\ S' = S2 /\ height' = h
                     /\ snaps' = Append(snaps, S2) /\ hist' = Append(hist, cs)
                     /\ nid' = nid + Len(txs)
                ELSE UNCHANGED <<S, height, snaps, hist, nid>>
             /\ rbOK' = TRUE
             /\ UNCHANGED nrb
             /\ log' = Append(log, [act |-> "Block", h |-> h, items |-> items, nid |-> nid,
                                    pre |-> pre, dev |-> dev, why |-> why, applied |-> (pre /\ ~dev),
                                    ck |-> [i \in 1..Len(cs) |-> <<cs[i].k, IF cs[i].p # "-" THEN cs[i].p ELSE cs[i].a>>],
                                    st |-> Proj(IF pre /\ ~dev THEN S2 ELSE S)])

Blocks(h, O) ==
  IF h <= Len(Prelude) THEN {Prelude[h]}
  ELSE {<<>>} \cup {<<a>> : a \in O}
       \cup (IF MaxItems >= 2 THEN UNION {{<<a, b>> : b \in {c \in O : Interact(a, c)}} : a \in O} ELSE {})

Block == \E O \in {IF height + 1 <= Len(Prelude) THEN {} ELSE Offers(S, height + 1)} :
           \E items \in Blocks(height + 1, O) : BlockStep(items)

RollbackTo(t) ==
  /\ nrb < MaxRollbacks /\ Len(log) < SimLen /\ t < height /\ t >= height - RollbackSpan /\ t >= Len(Prelude)
  /\ \E mech \in {UndoTo(S, hist, t)} :            \* what the code's closures produce
     LET direct == snaps[t + 1]                   \* what C21 demands
         exact == [mech EXCEPT !.utxo = direct.utxo] = direct
     IN /\ S' = direct
        /\ rbOK' = (exact \/ \E i \in (t + 1)..Len(hist) : \E j \in 1..Len(hist[i]) : hist[i][j].k \in Tolerate)
        /\ log' = Append(log, [act |-> "RollbackTo", t |-> t, exact |-> exact, st |-> Proj(direct)])
  /\ height' = t
  /\ snaps' = SubSeq(snaps, 1, t + 1)
  /\ hist' = SubSeq(hist, 1, t)
  /\ nrb' = nrb + 1
  /\ UNCHANGED nid

(* C23: saving the state as a checkpoint (CheckPoint.Snapshot / Serialize) and       *)
(* restoring it into a fresh instance (Deserialize, OnInit -> RecoverFromCheckPoints) *)
(* is the identity on the DPoS state.  What a restore does lose is the change         *)
(* history: no RollbackTo below the restored height afterwards.  The driver performs  *)
(* the save / restore on the real code at every height (harness mode `checkpoint`)    *)
(* and compares the restored object and the continued run with the uninterrupted one. *)
Checkpoint(S_) == S_        \* abstraction of Serialize
Restore(c)     == c         \* abstraction of Deserialize + RecoverFromCheckPoints

CheckpointRestore ==
  /\ WithCheckpoint /\ Len(log) < SimLen /\ height >= Len(Prelude)
  /\ (log = <<>> \/ log[Len(log)].act # "Checkpoint")
  /\ S' = Restore(Checkpoint(S))
  /\ snaps' = [i \in 1..Len(snaps) |-> IF i = Len(snaps) THEN S' ELSE snaps[i]]
  /\ log' = Append(log, [act |-> "Checkpoint", h |-> height, st |-> Proj(S')])
  /\ UNCHANGED <<height, hist, nid, nrb, rbOK>>

Next == Block \/ CheckpointRestore \/ \E t \in 0..MaxH : RollbackTo(t)

Spec == Init /\ [][Next]_vars

---------------------------------------------------------------------------
(* Properties *)

TypeOK == /\ height \in 0..MaxH /\ Len(snaps) = height + 1 /\ Len(hist) = height
          /\ \A p \in P : S.pr[p].st \in {"None", "Pending", "Active", "Inactive", "Canceled", "Illegal", "Returned"}

\* C21: the rollback closures restore exactly the directly built state.
RollbackExact == rbOK

\* C21, second reading: the current state is always the direct build.
IsDirectBuild == S = snaps[height + 1]

\* C28: nothing is negative, used DPoS v2 votes stay within the vote rights.
NonNegative ==
  /\ \A p \in P : S.pr[p].total >= 0 /\ (S.pr[p].dep >= 0 \/ S.pr[p].nexp >= 2)   \* nexp >= 2: expProdAgain
                   /\ S.pr[p].pen >= 0 /\ S.pr[p].v2votes >= 0
  /\ \A a \in A : S.ad[a].rights >= 0 /\ S.ad[a].used >= 0
VotesWithinRights == \A a \in A : S.ad[a].used <= S.ad[a].rights
\* the used votes are the votes in use
UsedIsSum == \A a \in A : S.ad[a].used =
                 SumSeq([i \in 1..(nid - 1) |-> IF \E v \in S.v2 : v.id = i /\ v.a = a
                                                THEN VoteOf(S, i).amt ELSE 0])
\* the deposit outputs on the chain are what the state believes the producer owns
TotalIsUtxo == \A p \in P : Exists(S, p) => S.pr[p].total = SumSeq(S.utxo[p])
\* C28: a withdrawal never takes more than what is available
NoOverdraw == [][height' > height =>
                   \A p \in P : S'.pr[p].total < S.pr[p].total => Avail(S'.pr[p]) >= 0]_vars

\* C23: a checkpoint save / restore changes nothing.
CheckpointIsIdentity ==
  [][(Len(log') = Len(log) + 1 /\ log'[Len(log')].act = "Checkpoint") => (S' = S /\ snaps' = snaps)]_vars

\* Used with ACTION_CONSTRAINT to print one behaviour per explored edge.
Emit == (SampleN = 1 \/ RandomElement(1..SampleN) = 1) => PrintT(<<"TRACE", ToJson(log')>>)
EmitLast == Len(log') = SimLen => PrintT(<<"TRACE", ToJson(log')>>)
=============================================================================
