\* template: tools/props/X02.py fills in N, Byz, Checks and TraceFile
SPECIFICATION TraceSpec
CONSTANTS
  N = 4
  Byz = {}
  Blocks = {"B1", "B2"}
  MaxView = 9
  Checks = TRUE
  ByzViews = {0, 1, 2, 3, 4, 5, 6, 7, 8, 9}
  MaxPendVotes = 1000
  OtherAt = {0, 1, 2, 3, 4, 5, 6}
  TimeoutAt = {0, 1, 2, 3, 4, 5, 6}
  ByzBudget = 100000000
  Noops = TRUE
  EmitMode = "none"
  SimLen = 0
  TraceFile = "trace.ndjson"
VIEW TraceView
CONSTRAINT HighWater
INVARIANTS TypeOK Agreement AgreementInView VoteOnce ProposeOnce NoRejectFromCorrect VotesMatchProcessing
PROPERTIES Validity EvidenceSound
POSTCONDITION TraceAccepted
CHECK_DEADLOCK FALSE
