SPECIFICATION TraceSpec
CONSTANTS
  Variants = {"V0", "V1"}
  Ns = {1}
  C0s = {0}
  Times = {}
  MaxPolls = 100000000
  Tol = 5
  Surcharges = {"entry"}
  Gated = {TRUE, FALSE}
  TraceFile = "trace.ndjson"
VIEW TraceView
CONSTRAINT HighWater
INVARIANTS ScheduleIndependent ProbeIsOneShot DeviationOnlyBeyondRound
POSTCONDITION TraceAccepted
CHECK_DEADLOCK FALSE
