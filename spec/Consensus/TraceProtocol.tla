--------------------------- MODULE TraceProtocol ---------------------------
(* Trace validation for Protocol.tla: schedules executed on the REAL            *)
(* dpos/manager objects (N arbiters in one process, handler entries called      *)
(* directly, fake clocks) are recorded as one event per handler call with the   *)
(* acting arbiter's abstract state and everything it handed out afterwards.     *)
(* Every event must be a step of the corresponding action of Protocol.tla       *)
(* ending in exactly that state.  Runs are concatenated by Reset events; a      *)
(* Fin event states with which block every arbiter finished and whether a       *)
(* correct arbiter accepted two different blocks (Dev), and TLC confirms both    *)
(* on the spec state.  N and Byz are fixed per trace file.                      *)
EXTENDS Protocol

CONSTANT TraceFile
Trace == ndJsonDeserialize(TraceFile)

VARIABLE l
tvars == <<vars, l>>

Ev == Trace[l]
IsEv(e) == l <= Len(Trace) /\ Ev.ev = e /\ l' = l + 1

S(q) == {q[i] : i \in DOMAIN q}
Conf(c) == [prop |-> c.prop, votes |-> S(c.votes)]

\* the recorded state (JSON arrays) against the spec's (sets)
Match(s, r) ==
    /\ s.status = r.status /\ s.view = r.view /\ s.onDuty = r.onDuty
    /\ s.cache = r.cache /\ s.pblock = r.pblock /\ s.pprop = r.pprop
    /\ s.acc = S(r.acc) /\ s.rej = S(r.rej) /\ s.pend = S(r.pend) /\ s.prec = S(r.prec)
    /\ s.pvotes = S(r.pvotes) /\ s.done = r.done /\ s.cached = S(r.cached) /\ s.fin = r.fin
    /\ s.outP = S(r.outP) /\ s.outV = S(r.outV)
    /\ s.outC = {Conf(r.outC[i]) : i \in DOMAIN r.outC}
    /\ s.evP = {S(r.evP[i]) : i \in DOMAIN r.evP}
    /\ s.evV = {S(r.evV[i]) : i \in DOMAIN r.evV}

TraceInit == Init /\ l = 1 /\ TLCSet(1, 1)

TReset == /\ IsEv("Reset")
          /\ st' = [a \in Arbiters |-> InitState(a)]
          /\ props' = {} /\ votes' = {} /\ byzUsed' = 0 /\ log' = <<>>

TNewBlock == IsEv("NewBlock") /\ NewBlock(Ev.a, Ev.b) /\ Match(Last, Ev.s)
TProposal == IsEv("RecvProposal") /\ Ev.p \in AllProps /\ RecvProposal(Ev.a, Ev.p) /\ Match(Last, Ev.s)
TVote == IsEv("RecvVote") /\ Ev.v \in AllVotes /\ RecvVote(Ev.a, Ev.v) /\ Match(Last, Ev.s)
TTimeout == IsEv("Timeout") /\ Timeout(Ev.a) /\ Match(Last, Ev.s)
TConfirm == IsEv("LearnConfirm") /\ Ev.p \in AllProps /\ LearnConfirm(Ev.a, Ev.p) /\ Match(Last, Ev.s)

\* the claim of the recorder about the end of a run
TFin == /\ IsEv("Fin")
        /\ \A a \in Correct : st[a].fin = Ev.fin[a + 1]
        /\ Dev = Ev.dev
        /\ UNCHANGED vars

TraceNext == TReset \/ TNewBlock \/ TProposal \/ TVote \/ TTimeout \/ TConfirm \/ TFin
TraceSpec == TraceInit /\ [][TraceNext]_tvars

HighWater == IF l > TLCGet(1) THEN TLCSet(1, l) ELSE TRUE
TraceAccepted == TLCGet(1) = Len(Trace) + 1
TraceView == <<st, props, votes, l>>
=============================================================================
