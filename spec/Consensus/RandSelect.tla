---------------------------- MODULE RandSelect ----------------------------
(***************************************************************************)
(* C24 - consensus decisions do not depend on scheduling or process-local  *)
(* randomness.                                                             *)
(*                                                                         *)
(* dpos/state chooses arbiters pseudo-randomly from a seed that is chain    *)
(* data (eight bytes of the previous block's hash):                        *)
(*   getCandidateIndexAtRandom   seed, then draw one index                 *)
(*   getRandomDposV2Producers    seed, then draw a sequence of indices     *)
(* A pseudo-random generator is a stream determined by its seed; its state *)
(* is (seed, pos) and a draw returns the value at pos and advances pos.    *)
(* The process has one global generator `g` (math/rand's top-level         *)
(* functions) that every goroutine shares: the miner draws block nonces    *)
(* from it (pow/service.go), the treap draws priorities, the p2p layers    *)
(* draw nonces and reseed it at start-up.                                  *)
(*                                                                         *)
(* Two processes:                                                          *)
(*   Sel    the selection: Seed(s) then NDraws draws                       *)
(*            variant "Global"  rand.Seed(s); rand.Intn(..)   on g         *)
(*            variant "Local"   r := rand.New(rand.NewSource(s)); r.Intn   *)
(*   Noise  any other goroutine: draws from g (or reseeds g) at any moment *)
(*                                                                         *)
(* Property (Deterministic): the values the selection draws are positions  *)
(* 0, 1, .. of the stream of s - a function of chain data only - under     *)
(* every interleaving.  It holds for "Local".  For "Global" it fails when  *)
(* the other goroutine touches g between the seeding and a draw; that      *)
(* step is the named deviation SelDrawInterfered.                          *)
(*                                                                         *)
(* TLC enumerates every interleaving; each is replayed with real           *)
(* goroutines: the selection blocks in a hook between seeding and drawing  *)
(* while a second goroutine calls math/rand's top-level functions.         *)
(***************************************************************************)
EXTENDS Integers, Sequences, FiniteSets, TLC, Json

CONSTANTS Variants,     \* subset of {"Global", "Local"}
          MaxNoise,     \* noise operations per behaviour
          NDraws,       \* draws of the selection (1 = candidate index)
          NoiseSeeds    \* subset of BOOLEAN: may the noise also reseed g

VARIABLES variant,
          g,            \* the global generator [seed, pos]
          loc,          \* the selection's private generator (Local)
          pc,           \* "start" | "seeded" | "done"
          drawn,        \* what the selection drew: sequence of <<seed, pos>>
          noise,        \* noise operations so far
          dev,          \* a deviation step has happened
          log

vars == <<variant, g, loc, pc, drawn, noise, dev, log>>
view == <<variant, g, loc, pc, drawn, noise, dev>>

Boot == "boot"          \* whatever the global generator holds at start-up
Other == "other"        \* a seed the noise goroutine installs
S == "s"                \* the seed derived from the block hash

Init == /\ variant \in Variants
        /\ g = [seed |-> Boot, pos |-> 0]
        /\ loc = [seed |-> Boot, pos |-> 0]
        /\ pc = "start" /\ drawn = <<>> /\ noise = 0 /\ dev = FALSE
        /\ log = <<>>

Log(act) == log' = Append(log, [act |-> act,
                                args |-> [variant |-> variant],
                                exp |-> [drawn |-> drawn', dev |-> dev']])

(* Noise: another goroutine uses the process-global source *)
NoiseDraw == /\ noise < MaxNoise /\ noise' = noise + 1
             /\ g' = [g EXCEPT !.pos = @ + 1]
             /\ UNCHANGED <<variant, loc, pc, drawn, dev>>
             /\ Log("NoiseDraw")

NoiseSeed == /\ TRUE \in NoiseSeeds
             /\ noise < MaxNoise /\ noise' = noise + 1
             /\ g' = [seed |-> Other, pos |-> 0]
             /\ UNCHANGED <<variant, loc, pc, drawn, dev>>
             /\ Log("NoiseSeed")

(* Sel: seeding *)
SelSeed == /\ pc = "start" /\ pc' = "seeded"
           /\ IF variant = "Global"
              THEN g' = [seed |-> S, pos |-> 0] /\ UNCHANGED loc
              ELSE loc' = [seed |-> S, pos |-> 0] /\ UNCHANGED g
           /\ UNCHANGED <<variant, drawn, noise, dev>>
           /\ Log("SelSeed")

\* the generator the selection draws from
Gen == IF variant = "Global" THEN g ELSE loc

\* the draw the property demands next: position Len(drawn) of stream S
Expected == <<S, Len(drawn)>>

Draw == /\ drawn' = Append(drawn, <<Gen.seed, Gen.pos>>)
        /\ pc' = IF Len(drawn) + 1 = NDraws THEN "done" ELSE "seeded"
        /\ IF variant = "Global"
           THEN g' = [g EXCEPT !.pos = @ + 1] /\ UNCHANGED loc
           ELSE loc' = [loc EXCEPT !.pos = @ + 1] /\ UNCHANGED g
        /\ UNCHANGED <<variant, noise>>

(* Sel: a draw from an undisturbed generator *)
SelDraw == /\ pc = "seeded" /\ <<Gen.seed, Gen.pos>> = Expected
           /\ Draw /\ UNCHANGED dev
           /\ Log("SelDraw")

(* Named deviation (C24:candidate-index:global-rand): the global generator *)
(* was advanced or reseeded by another goroutine since the selection       *)
(* seeded it; the selection draws a value that is not determined by S.     *)
SelDrawInterfered ==
    /\ pc = "seeded" /\ <<Gen.seed, Gen.pos>> # Expected
    /\ Draw /\ dev' = TRUE
    /\ Log("SelDrawInterfered")

Next == NoiseDraw \/ NoiseSeed \/ SelSeed \/ SelDraw \/ SelDrawInterfered

Spec == Init /\ [][Next]_vars

---------------------------------------------------------------------------
(* Properties *)

TypeOK == /\ pc \in {"start", "seeded", "done"} /\ noise \in 0..MaxNoise
          /\ Len(drawn) <= NDraws

\* C24: what was drawn is the beginning of the stream of S, whatever the
\* other goroutine did.
Deterministic ==
    ~dev => \A i \in 1..Len(drawn) : drawn[i] = <<S, i - 1>>

\* a private generator cannot be interfered with
LocalNeverDeviates == variant = "Local" => ~dev

\* the deviation is exactly interference inside the seed..draw window
DeviationIsInterference == dev => variant = "Global"

Emit == PrintT(<<"TRACE", ToJson(log')>>)
=============================================================================
