------------------------------- MODULE Reward -------------------------------
(***************************************************************************)
(* C27 - DPoS reward distribution never pays out more than the pool.       *)
(*                                                                         *)
(* Decision table of dpos/state/arbitrators.go distributeDPOSReward and    *)
(* the four distribution rules it selects by height                        *)
(*   era 0  distributeWithNormalArbitratorsV0  (heightversion.go)          *)
(*   era 1  ...V1   from CRCommitteeStartHeight      + 2*|arbiters|        *)
(*   era 2  ...V2   from CRClaimDPOSNodeStartHeight  + 2*|arbiters|        *)
(*   era 3  ...V3   from ChangeCommitteeNewCRHeight  + 2*|arbiters|        *)
(* in exact integer arithmetic (the code computes in float64):             *)
(*   a quarter of the reward is split evenly as block-confirm reward,      *)
(*   three quarters are split in proportion to the votes of the round.     *)
(*                                                                         *)
(* A case is                                                               *)
(*   era, pow            rule and consensus algorithm (POW matters in V3)  *)
(*   cfgCRC, cfgNormal   configured numbers of CRC / normal arbiters       *)
(*   crc                 current CRC arbiters, each encoded as             *)
(*                       4*votes + 2*elected + claimed  (claimed = the CR  *)
(*                       member claimed its own DPoS node; an unclaimed    *)
(*                       member runs on a producer's node and, in era 3,   *)
(*                       earns that producer's vote share: `votes`)        *)
(*   dpos                votes of the current non-CRC arbiters             *)
(*   cands               votes of the current candidates                   *)
(*   reward              the accumulated reward to distribute              *)
(* Member lists are enumerated as multisets (non-decreasing sequences):    *)
(* the rules treat members independently of their position.  The vote      *)
(* total of the round is the sum of the votes recorded for the round       *)
(* (snapshotVotesStates), so an all-zero vote vector means total = 0.      *)
(*                                                                         *)
(* Init chooses the case, Decide computes the payouts.  The invariants are *)
(* the three facts of the property; the replay driver evaluates the same   *)
(* three facts on the values the real function returns and compares the    *)
(* per-payee amounts (float64 rounding may cost one sela per payee).       *)
(***************************************************************************)
EXTENDS Integers, Sequences, FiniteSets, TLC, Json

CONSTANTS Eras,                  \* subset of 0..3
          Pows,                  \* subset of BOOLEAN (consensus algorithm is POW)
          Votes,                 \* vote amounts used
          Rewards,               \* reward amounts used
          MaxCRC, MaxDpos, MaxCand,
          CfgCRCs, CfgNormals,   \* configured arbiter counts
          SampleMod, SampleRes   \* Emit prints a case iff Mix % SampleMod = SampleRes
                                 \* or it is a boundary case

VARIABLES phase, era, pow, cfgCRC, cfgNormal, crc, dpos, cands, reward, log

vars == <<phase, era, pow, cfgCRC, cfgNormal, crc, dpos, cands, reward, log>>
view == <<phase, era, pow, cfgCRC, cfgNormal, crc, dpos, cands, reward>>

---------------------------------------------------------------------------
\* non-decreasing sequences of length <= k over the integer set S
RECURSIVE Multi(_, _)
Multi(S, k) ==
    IF k = 0 THEN {<<>>}
    ELSE LET shorter == Multi(S, k - 1) IN
         shorter \cup
         UNION {{Append(s, x) : x \in {y \in S : s = <<>> \/ s[Len(s)] <= y}} :
                    s \in {q \in shorter : Len(q) = k - 1}}

RECURSIVE SumSeq(_)
SumSeq(s) == IF s = <<>> THEN 0 ELSE Head(s) + SumSeq(Tail(s))

\* CRC member encoding
Claimed(m) == m % 2 = 1
Elected(m) == (m \div 2) % 2 = 1
VotesOf(m) == m \div 4
CRCKinds == {4 * v + 2 * e + c : v \in Votes, e \in 0..1, c \in 0..1}
\* a claimed member's votes play no role: keep only votes = min for them
CRCKindsUsed == {m \in CRCKinds : Claimed(m) => VotesOf(m) = 0}

---------------------------------------------------------------------------
(* The distribution *)
N == Len(crc) + Len(dpos)            \* |CurrentArbitrators|
Count == cfgCRC + cfgNormal          \* configured arbiter count (V2, V3)

\* votes recorded for the round: non-CRC arbiters and candidates, and from
\* era 3 on the producers whose node an unclaimed CRC member runs on
Total == SumSeq(dpos) + SumSeq(cands)
         + (IF era = 3 THEN SumSeq([i \in 1..Len(crc) |->
                                     IF Claimed(crc[i]) THEN 0 ELSE VotesOf(crc[i])])
            ELSE 0)

\* floor(reward/4 / k): the block-confirm reward of one arbiter
Confirm(k) == reward \div (4 * k)
\* floor(votes * (3/4 reward) / total): the vote share.  With no votes at
\* all there is nothing to share out.
Share(v) == IF Total = 0 THEN 0 ELSE (v * 3 * reward) \div (4 * Total)

\* everything goes to one address: CRC fund (V0, V1) or destroyed (V2, V3)
AllToOne == CASE era \in {0, 1} -> cfgCRC = N
              [] era = 2       -> N = 0 \/ cfgCRC = N
              [] era = 3       -> pow \/ N = 0 \/ cfgCRC = N

NoArbiters == era \in {0, 1} /\ N = 0     \* "not found arbiters" error

Ibcr == IF era \in {0, 1} THEN Confirm(N) ELSE Confirm(Count)

\* what CRC member m is paid, and where it goes: "owner" (its own address /
\* in era 3 the producer's), "fund" (CRC foundation), "destroy"
CRCPay(m) ==
    CASE era = 0 -> [to |-> "fund", amt |-> Ibcr]
      [] era = 1 -> [to |-> IF Elected(m) THEN "owner" ELSE "destroy", amt |-> Ibcr]
      [] era = 2 -> [to |-> IF Elected(m) /\ Claimed(m) THEN "owner" ELSE "destroy",
                     amt |-> Ibcr]
      [] era = 3 -> IF ~Elected(m) THEN [to |-> "destroy", amt |-> Ibcr]
                    ELSE IF Claimed(m) THEN [to |-> "owner", amt |-> Ibcr]
                    ELSE [to |-> "owner", amt |-> Ibcr + Share(VotesOf(m))]

CRCPays == [i \in 1..Len(crc) |-> CRCPay(crc[i])]
DposPays == [i \in 1..Len(dpos) |-> Ibcr + Share(dpos[i])]
CandPays == [i \in 1..Len(cands) |-> Share(cands[i])]

SumTo(where) == SumSeq([i \in 1..Len(crc) |->
                          IF CRCPays[i].to = where THEN CRCPays[i].amt ELSE 0])

\* realDPOSReward of the code
Paid == IF AllToOne THEN reward
        ELSE SumTo("owner") + SumTo("fund") + SumTo("destroy")
             + SumSeq(DposPays) + SumSeq(CandPays)

\* V2/V3: the block-confirm reward of configured arbiters that are not in
\* the current set is added to the destroy address (and not to Paid)
Missing == IF era \in {2, 3} /\ ~AllToOne /\ N < Count THEN (Count - N) * Ibcr ELSE 0

Result ==
    IF NoArbiters THEN [err |-> TRUE]
    ELSE IF Paid > reward THEN [err |-> TRUE]       \* "more than reward limit"
    ELSE [err |-> FALSE,
          fund |-> IF AllToOne /\ era \in {0, 1} THEN reward
                   ELSE IF AllToOne THEN 0 ELSE SumTo("fund"),
          destroy |-> IF AllToOne /\ era \in {2, 3} THEN reward
                      ELSE IF AllToOne THEN 0 ELSE SumTo("destroy") + Missing,
          crc |-> IF AllToOne THEN [i \in 1..Len(crc) |-> 0]
                  ELSE [i \in 1..Len(crc) |->
                          IF CRCPays[i].to = "owner" THEN CRCPays[i].amt ELSE 0],
          dpos |-> IF AllToOne THEN [i \in 1..Len(dpos) |-> 0] ELSE DposPays,
          cands |-> IF AllToOne THEN [i \in 1..Len(cands) |-> 0] ELSE CandPays,
          paid |-> Paid,
          change |-> reward - Paid]

\* sum of everything entered in the round-reward map
Attributed(r) == r.fund + r.destroy + SumSeq(r.crc) + SumSeq(r.dpos) + SumSeq(r.cands)

---------------------------------------------------------------------------
Init ==
    /\ phase = "case" /\ log = <<>>
    /\ era \in Eras
    /\ pow \in (IF era = 3 THEN Pows ELSE {FALSE})
    /\ cfgCRC \in CfgCRCs /\ cfgNormal \in CfgNormals
    /\ reward \in Rewards
    /\ crc \in Multi(CRCKindsUsed, MaxCRC)
    /\ dpos \in Multi(Votes, MaxDpos)
    /\ cands \in Multi(Votes, MaxCand)

Decide ==
    /\ phase = "case" /\ phase' = "done"
    /\ UNCHANGED <<era, pow, cfgCRC, cfgNormal, crc, dpos, cands, reward>>
    /\ log' = <<[act |-> "Case",
                 args |-> [era |-> era, pow |-> pow, cfgCRC |-> cfgCRC,
                           cfgNormal |-> cfgNormal, crc |-> crc, dpos |-> dpos,
                           cands |-> cands, reward |-> reward, total |-> Total],
                 exp |-> Result]>>

Next == Decide
Spec == Init /\ [][Next]_vars

---------------------------------------------------------------------------
(* C27: the three facts, for every case that is paid at all *)
NoNegativePayout ==
    LET r == Result IN ~r.err =>
        /\ r.fund >= 0 /\ r.destroy >= 0
        /\ \A i \in 1..Len(r.crc) : r.crc[i] >= 0
        /\ \A i \in 1..Len(r.dpos) : r.dpos[i] >= 0
        /\ \A i \in 1..Len(r.cands) : r.cands[i] >= 0

PaidAtMostReward == LET r == Result IN ~r.err => Attributed(r) <= reward

ChangeNonNegative == LET r == Result IN ~r.err => r.change >= 0

\* (observation, not part of C27) what leaves the pool is the attributed
\* amounts plus the change handed to the miner; the V2/V3 "missing arbiter"
\* amounts are entered in the map but never deducted from the change
Overissue == LET r == Result IN IF r.err THEN 0 ELSE Attributed(r) + r.change - reward
OverissueOnlyMissing == Overissue = (IF Result.err THEN 0 ELSE Missing)

---------------------------------------------------------------------------
Boundary == Total = 0 \/ N = 0 \/ N > Count \/ cfgCRC = N

Mix == 1 + era + 3 * cfgCRC + 5 * cfgNormal + 7 * SumSeq(crc) + 11 * SumSeq(dpos)
       + 13 * SumSeq(cands) + 17 * Len(dpos) + 19 * Len(cands) + 23 * Len(crc)
       + (reward % 29) + (IF pow THEN 2 ELSE 0)

Emit == (Boundary \/ Mix % SampleMod = SampleRes)
            => PrintT(<<"TRACE", ToJson(log')>>)
=============================================================================
