SPECIFICATION Spec
CONSTANTS
  Keys = {"a", "b"}
  Cap = 3
  MaxH = 4
  MaxOps = 6
  Deltas = {1, 2}
  MaxPerH = 2
VIEW view
INVARIANTS TypeOK StateIsFold WithinCapacity Ordered
PROPERTIES CommitIgnoresSeek
CHECK_DEADLOCK FALSE
