------------------------------ MODULE Protocol ------------------------------
(***************************************************************************)
(* X02 - the DPoS arbiter consensus protocol of dpos/manager for one block *)
(* height: proposaldispatcher.go, consensus.go, dposmanager.go,            *)
(* dposhandlerswitch.go, dposondutyhandler.go, dposnormalhandler.go,       *)
(* illegalbehaviormonitor.go, consensusblockcache.go, view.go (the time    *)
(* arithmetic of view.go is C26; here a view change is one step).          *)
(*                                                                         *)
(* N arbiters 0..N-1; arbiter v % N is on duty in view v (ArbitratorsMock  *)
(* with DutyChangedCount = 0).  The arbiters in Byz are Byzantine: they    *)
(* have no state, every message they could sign (any proposal with         *)
(* themselves as sponsor, any accept / reject vote on any proposal) can be *)
(* delivered to anybody at any time, or never.  A correct arbiter is one   *)
(* record `st[a]` holding the fields of ProposalDispatcher / Consensus /   *)
(* DPOSHandlerSwitch / IllegalBehaviorMonitor under the names of the code; *)
(* every handler entry of DPOSManager (the NetworkEventListener, which the *)
(* network goroutine calls one at a time) is one action:                   *)
(*                                                                         *)
(*   NewBlock        OnBlockReceived(b, false): ProcessHigherBlock,        *)
(*                   TryStartNewConsensus (StartConsensus, on duty:        *)
(*                   StartProposal), OnBlockAdded for pending proposals    *)
(*   RecvProposal    OnProposalReceived: ProcessProposal (precocious,      *)
(*                   pending, illegal proposal, not on duty, accept)       *)
(*   RecvVote        OnVoteAccepted / OnVoteRejected: pending vote,        *)
(*                   ProcessVote (duplicate, illegal vote, count, finish / *)
(*                   reject minority)                                      *)
(*   Timeout         OnChangeView with the clock past the view: view + 1,  *)
(*                   OnViewChanged, CleanProposals(true), on duty:         *)
(*                   StartProposal, precocious proposals                   *)
(*   LearnConfirm    OnBlockReceived(b, true) / OnConfirmReceived:         *)
(*                   ConfirmBlock -> FinishConsensus                       *)
(*                                                                         *)
(* The network is the set of everything sent so far (props, votes) plus    *)
(* the Byzantine universe: loss, duplication, reordering and delay are all *)
(* "deliver any of it to anybody, any number of times".                    *)
(*                                                                         *)
(* What the code does that a textbook protocol does not (all modelled):    *)
(*  - rejectProposal is a no-op: correct arbiters never send reject votes; *)
(*  - there is no lock across views: after a view change an arbiter votes  *)
(*    for whatever the new sponsor proposes, also when it accepted another *)
(*    block in an earlier view.  Predicate Dev marks the states in which a *)
(*    correct arbiter has done that; Agreement is stated outside Dev, and  *)
(*    AgreementAnyway (expected to FAIL) shows that Dev is what breaks it; *)
(*  - ProcessHigherBlock switches the handler by the duty of view 0        *)
(*    whatever the current view is (changeOnDuty);                         *)
(*  - the illegal-vote check compares a vote only with the votes collected *)
(*    for the proposal being processed, so only accept-and-reject of one   *)
(*    proposal is ever found (last conjuncts of EvidenceStep);             *)
(*  - proposalProcessFinished is set after the own vote was counted, also  *)
(*    when that vote completed the majority and FinishConsensus has just   *)
(*    cleaned everything: the flag then survives into the next height.     *)
(* What a step hands out (broadcast proposals / votes, the confirm given   *)
(* to AppendConfirm, evidence) is kept in the log only; Validity and       *)
(* EvidenceSound are properties of single steps.                           *)
(***************************************************************************)
EXTENDS Integers, Sequences, FiniteSets, TLC, Json

CONSTANTS N,          \* number of arbiters
          Byz,        \* the Byzantine ones
          Blocks,     \* blocks of the height under consensus (at most 2)
          MaxView,    \* view offsets 0..MaxView
          Checks,     \* finishedHeight > ChangeViewV1Height: illegal proposal / vote checks are on
          ByzViews,   \* views Byzantine proposals are made for
          MaxPendVotes, \* bound on pendingVotes of one arbiter
          OtherAt,    \* arbiters that can receive a block other than "B1" (bounds the exploration)
          ByzBudget,  \* number of deliveries of Byzantine messages in one behaviour
          TimeoutAt,  \* arbiters whose view timer may fire (bounds the exploration)
          Noops,      \* FALSE: deliveries that change nothing are not explored (they are self-loops)
          EmitMode,   \* "all": print one behaviour per explored edge; "last": print the
                      \* behaviours of length SimLen (simulation); "none"
          SimLen

ASSUME /\ N \in 1..7 /\ Byz \subseteq 0..(N - 1) /\ Cardinality(Blocks) \in 1..2
       /\ MaxView \in Nat /\ Checks \in BOOLEAN /\ ByzViews \subseteq 0..MaxView

VARIABLES st,     \* arbiter -> local state
          props,  \* proposals broadcast by correct arbiters
          votes,  \* votes broadcast by correct arbiters
          byzUsed, \* Byzantine messages delivered so far
          log
vars == <<st, props, votes, byzUsed, log>>
view == <<st, props, votes, byzUsed>>

Arbiters == 0..(N - 1)
Correct == Arbiters \ Byz
Maj == (2 * N) \div 3            \* GetArbitersMajorityCount
Minor == N - Maj                 \* HasArbitersMinorityCount(n) == n >= Minor
F == (N - 1) \div 3
Arb(v) == v % N                  \* GetNextOnDutyArbitrator(v)
None == "-"
NoProp == [sponsor |-> -1, block |-> None, view |-> -1]

ByzProps == [sponsor : Byz, block : Blocks, view : ByzViews]
AllProps == props \cup ByzProps
ByzVotes == [signer : Byz, prop : AllProps, accept : BOOLEAN]
AllVotes == votes \cup ByzVotes

InitState(a) ==
    [id |-> a, status |-> "ready", view |-> 0, onDuty |-> (a = Arb(0)),
     cache |-> <<>>,               \* ConsensusBlockList (arrival order)
     pblock |-> None,              \* processingBlock
     pprop |-> NoProp,             \* processingProposal
     acc |-> {}, rej |-> {},       \* acceptVotes, rejectedVotes
     pend |-> {}, prec |-> {},     \* pendingProposals, precociousProposals
     pvotes |-> {},                \* pendingVotes
     done |-> FALSE,               \* proposalProcessFinished
     cached |-> {},                \* illegalMonitor.cachedProposals
     fin |-> None,                 \* finishedBlockHash (of this height)
     \* what the current step hands out (emptied when the step is over):
     outP |-> {}, outV |-> {},     \* proposals / votes broadcast
     outC |-> {},                  \* confirms handed to AppendConfirm
     evP |-> {}, evV |-> {}]       \* illegal proposal / vote evidences broadcast

---------------------------------------------------------------------------
(* the code, bottom up; every operator maps a local state to a local state *)

InCache(s, b) == \E i \in 1..Len(s.cache) : s.cache[i] = b

\* IllegalBehaviorMonitor.isProposalsIllegal
Conflict(s, p, q) == /\ p # NoProp /\ q # NoProp /\ p.block # q.block
                     /\ p.sponsor = q.sponsor /\ p.view = q.view
                     /\ InCache(s, p.block) /\ InCache(s, q.block)

\* IllegalBehaviorMonitor.isVotesIllegal
VotesIllegal(s, v, x) ==
    /\ v.signer = x.signer
    /\ IF v.prop = x.prop THEN v # x
       ELSE v.prop \in s.cached /\ x.prop \in s.cached /\ Conflict(s, v.prop, x.prop)

\* CleanProposals(changeView) with illegalMonitor.Reset(changeView)
Clean(s, cv) ==
    [s EXCEPT !.cached = IF cv THEN s.pend \cup s.prec ELSE {},
              !.pblock = None, !.pprop = NoProp, !.acc = {}, !.rej = {}, !.pvotes = {},
              !.done = FALSE,
              !.pend = IF cv THEN {p \in s.pend : p.view >= s.view} ELSE {},
              !.prec = IF cv THEN {p \in s.prec : p.view >= s.view} ELSE {}]

\* ProposalDispatcher.FinishConsensus: changeOnDuty, SetReady, CleanProposals(false)
FinishConsensus(s, b) ==
    IF s.status = "running" /\ s.fin = None
    THEN Clean([s EXCEPT !.fin = b, !.onDuty = (s.id = Arb(0)), !.status = "ready", !.view = 0], FALSE)
    ELSE s

\* FinishProposal: AppendConfirm + FinishConsensus; <<state, finished>>
FinishProposal(s) ==
    IF s.pblock = None THEN <<s, FALSE>>
    ELSE <<FinishConsensus([s EXCEPT !.outC = @ \cup {[prop |-> s.pprop, votes |-> s.acc]}], s.pblock), TRUE>>

\* ProcessIllegalVote(first, second): needs both proposals in cachedProposals
IllegalVote(s, v, x) ==
    IF v.prop \in s.cached /\ x.prop \in s.cached THEN [s EXCEPT !.evV = @ \cup {{v, x}}] ELSE s

\* ProcessVote(v, accept); <<state, finished>>.  Consensus.ChangeView() after a
\* reject minority re-evaluates the clock; time passes in Timeout steps only.
ProcessVote(s, v, accept) ==
    IF v \in s.acc \cup s.rej THEN <<s, FALSE>>
    ELSE LET bad == IF Checks THEN {x \in s.acc \cup s.rej : VotesIllegal(s, v, x)} ELSE {}
         IN IF bad # {}
            THEN <<IllegalVote(s, v, CHOOSE x \in bad : TRUE), FALSE>>
            ELSE IF accept
                 THEN IF v.accept
                      THEN LET s1 == [s EXCEPT !.acc = @ \cup {v}]
                           IN IF Cardinality(s1.acc) > Maj THEN FinishProposal(s1) ELSE <<s1, FALSE>>
                      ELSE <<s, FALSE>>
                 ELSE IF ~v.accept
                      THEN LET s1 == [s EXCEPT !.rej = @ \cup {v}]
                           IN IF Cardinality(s1.rej) >= Minor THEN <<Clean(s1, TRUE), TRUE>> ELSE <<s1, FALSE>>
                      ELSE <<s, FALSE>>

\* setProcessingProposal: the pending votes of the proposal, then pendingVotes is emptied
RECURSIVE ProcPend(_, _)
ProcPend(s, vs) ==
    IF vs = {} THEN <<[s EXCEPT !.pvotes = {}], FALSE>>
    ELSE LET v == CHOOSE x \in vs : TRUE
             r == ProcessVote(s, v, v.accept)
         IN IF r[2] THEN r ELSE ProcPend(r[1], vs \ {v})

\* acceptProposal: own accept vote, counted and broadcast.  proposalProcessFinished is
\* set after ProcessVote, also when that vote finished the consensus.
AcceptProposal(s, d) ==
    LET s0 == [s EXCEPT !.pprop = d]
        r == ProcPend(s0, {v \in s0.pvotes : v.prop = d})
    IN IF r[2] THEN r[1]
       ELSE LET v == [signer |-> s.id, prop |-> d, accept |-> TRUE]
                r2 == ProcessVote(r[1], v, TRUE)
            IN [r2[1] EXCEPT !.done = TRUE, !.outV = @ \cup {v}]

\* StartProposal(b)
StartProposal(s, b) ==
    IF s.pblock # None THEN s
    ELSE LET d == [sponsor |-> s.id, block |-> b, view |-> s.view]
         IN AcceptProposal([s EXCEPT !.pblock = b, !.outP = @ \cup {d}], d)

\* ProposalDispatcher.ProcessProposal(id, d, force) for a proposal that passes
\* ProposalCheck (needRecord is true on every path below)
ProcessProposal(s, d, force) ==
    IF s.pprop = d THEN s
    ELSE IF d.block = s.fin THEN s
    ELSE IF d.view # s.view
         THEN IF d.view > s.view THEN [s EXCEPT !.prec = @ \cup {d}] ELSE s
    ELSE IF ~force /\ d \in s.pend THEN s
    ELSE LET others == {q \in ({s.pprop} \cup s.pend \cup s.prec) : Conflict(s, d, q)}
         IN IF Checks /\ others # {}
            THEN [s EXCEPT !.evP = @ \cup {{d, CHOOSE q \in others : TRUE}}]
    ELSE IF d.sponsor # Arb(s.view) THEN s          \* rejectProposal does nothing
    ELSE IF ~InCache(s, d.block) \/ s.status # "running"
         THEN [s EXCEPT !.pend = @ \cup {d}]
    ELSE LET s1 == IF s.pblock = None THEN [s EXCEPT !.pblock = d.block] ELSE s
         IN IF d.block # s1.pblock THEN s1
            ELSE IF ~s1.done THEN AcceptProposal(s1, d) ELSE s1

\* ProposalDispatcher.OnBlockAdded(b) (listener of the block cache)
RECURSIVE BlockAddedLoop(_, _, _)
BlockAddedLoop(s, b, todo) ==
    IF todo = {} THEN s
    ELSE LET v == CHOOSE x \in todo : TRUE
             s1 == IF s.status = "running" /\ v.block = b
                   THEN LET r == ProcessProposal(s, v, TRUE)
                        IN [r EXCEPT !.cached = @ \cup {v}, !.pend = @ \ {v}]
                   ELSE s
         IN BlockAddedLoop(s1, b, todo \ {v})
OnBlockAdded(s, b) == BlockAddedLoop(s, b, s.pend)

\* DPOSNormalHandler.ChangeView: the precocious proposals of the new view
RECURSIVE PrecLoop1(_, _)
PrecLoop1(s, todo) ==
    IF todo = {} THEN s
    ELSE LET v == CHOOSE x \in todo : TRUE
         IN PrecLoop1(IF v.view = s.view THEN ProcessProposal(s, v, FALSE) ELSE s, todo \ {v})

\* UpdatePrecociousProposals
RECURSIVE PrecLoop2(_, _)
PrecLoop2(s, todo) ==
    IF todo = {} THEN s
    ELSE LET v == CHOOSE x \in todo : TRUE
             s1 == IF s.status = "running" /\ v.view = s.view
                   THEN LET r == ProcessProposal(s, v, TRUE)
                        IN [r EXCEPT !.cached = @ \cup {v}, !.prec = @ \ {v}]
                   ELSE s
         IN PrecLoop2(s1, todo \ {v})

---------------------------------------------------------------------------
(* handler entries *)

\* OnBlockReceived(b, false) for a block above the chain tip and finishedHeight
HNewBlock(s, b) ==
    LET s0 == [s EXCEPT !.onDuty = (s.id = Arb(0))]            \* changeHeight
    IN IF InCache(s0, b) THEN s0
       ELSE IF s0.status = "ready"
            THEN LET s1 == [s0 EXCEPT !.status = "running", !.view = 0, !.cache = <<b>>]  \* StartConsensus
                     s2 == OnBlockAdded(s1, b)
                 IN IF s0.onDuty THEN StartProposal(s2, b) ELSE s2
            ELSE OnBlockAdded([s0 EXCEPT !.cache = Append(@, b)], b)     \* consensus.ProcessBlock

\* OnProposalReceived
HProposal(s, d) ==
    IF s.onDuty THEN s                                   \* DPOSOnDutyHandler.ProcessProposal
    ELSE LET r == ProcessProposal(s, d, FALSE) IN [r EXCEPT !.cached = @ \cup {d}]

\* OnVoteAccepted / OnVoteRejected (by the vote's kind)
HVote(s, v) ==
    IF s.onDuty
    THEN IF s.pprop # NoProp /\ s.pprop = v.prop /\ s.status = "running"
         THEN ProcessVote(s, v, v.accept)[1] ELSE s
    ELSE IF s.status # "running" THEN s
         ELSE IF s.pprop = NoProp THEN [s EXCEPT !.pvotes = @ \cup {v}]
         ELSE IF s.pprop = v.prop THEN ProcessVote(s, v, v.accept)[1]
         ELSE s

\* OnChangeView when the clock has passed the end of the view
HTimeout(s) ==
    LET v1 == s.view + 1
        s0 == [s EXCEPT !.view = v1, !.onDuty = (Arb(v1) = s.id)]
        s1 == IF s0.onDuty
              THEN StartProposal(Clean(s0, TRUE), Head(s0.cache))     \* DPOSOnDutyHandler.ChangeView
              ELSE LET c == Clean(s0, TRUE) IN PrecLoop1(c, c.prec)   \* DPOSNormalHandler.ChangeView
    IN PrecLoop2(s1, s1.prec)

\* OnBlockReceived(b, true) / OnConfirmReceived
HConfirm(s, b) ==
    [FinishConsensus(s, b) EXCEPT !.onDuty = (s.id = Arb(0))]

---------------------------------------------------------------------------
(* a proposal for which a valid confirm can be assembled from what was sent *)
AcceptSigners(p) == {x \in Arbiters : x \in Byz \/ [signer |-> x, prop |-> p, accept |-> TRUE] \in votes}
Confirmable(p) == Cardinality(AcceptSigners(p)) > Maj

\* a correct arbiter has accepted two different blocks (in two views)
DevOf(vs) == \E v1, v2 \in vs : /\ v1.signer = v2.signer /\ v1.accept /\ v2.accept
                                /\ v1.prop.block # v2.prop.block
Dev == DevOf(votes)

Abs(s) == [status |-> s.status, view |-> s.view, onDuty |-> s.onDuty, cache |-> s.cache,
           pblock |-> s.pblock, pprop |-> s.pprop, acc |-> s.acc, rej |-> s.rej,
           pend |-> s.pend, prec |-> s.prec, pvotes |-> s.pvotes, done |-> s.done,
           cached |-> s.cached, fin |-> s.fin, outC |-> s.outC, evP |-> s.evP, evV |-> s.evV,
           outP |-> s.outP, outV |-> s.outV]

Strip(s) == [s EXCEPT !.outP = {}, !.outV = {}, !.outC = {}, !.evP = {}, !.evV = {}]
Do(a, s1, act, args, byz) ==
    /\ Noops \/ s1 # st[a]
    /\ byz => byzUsed < ByzBudget
    /\ byzUsed' = IF byz THEN byzUsed + 1 ELSE byzUsed
    /\ st' = [st EXCEPT ![a] = Strip(s1)]
    /\ props' = props \cup s1.outP
    /\ votes' = votes \cup s1.outV
    /\ log' = Append(log, [act |-> act, args |-> args,
                           exp |-> [s |-> Abs(s1), dev |-> DevOf(votes \cup s1.outV)]])

Init == /\ st = [a \in Arbiters |-> InitState(a)]
        /\ props = {} /\ votes = {} /\ byzUsed = 0 /\ log = <<>>

NewBlock(a, b) ==
    /\ st[a].fin = None /\ ~InCache(st[a], b)
    /\ b = "B1" \/ a \in OtherAt
    /\ Do(a, HNewBlock(st[a], b), "NewBlock", [a |-> a, b |-> b], FALSE)

\* (the order in which Go ranges over precociousProposals matters when it holds two
\* proposals of one sponsor and view; the model keeps them apart)
RecvProposal(a, d) ==
    /\ (d.view > st[a].view /\ ~st[a].onDuty)
          => ~\E q \in st[a].prec : q.sponsor = d.sponsor /\ q.view = d.view /\ q.block # d.block
    /\ Do(a, HProposal(st[a], d), "RecvProposal", [a |-> a, p |-> d], d \notin props)

\* (likewise the order of pendingVotes when it holds the accept and the reject vote of
\* one signer for one proposal)
RecvVote(a, v) ==
    /\ ~\E x \in st[a].pvotes : x.signer = v.signer /\ x.prop = v.prop /\ x.accept # v.accept
    /\ (st[a].pprop = NoProp /\ ~st[a].onDuty /\ v \notin st[a].pvotes)
          => Cardinality(st[a].pvotes) < MaxPendVotes
    /\ Do(a, HVote(st[a], v), "RecvVote", [a |-> a, v |-> v], v \notin votes)

Timeout(a) ==
    /\ st[a].status = "running" /\ st[a].view < MaxView /\ a \in TimeoutAt
    /\ Do(a, HTimeout(st[a]), "Timeout", [a |-> a], FALSE)

\* (a confirmed block reaches the dispatcher after the chain took it; here only while
\* the arbiter is still running this height)
LearnConfirm(a, p) ==
    /\ st[a].status = "running" /\ st[a].fin = None /\ Confirmable(p)
    /\ Do(a, HConfirm(st[a], p.block), "LearnConfirm",
          [a |-> a, p |-> p, signers |-> AcceptSigners(p)], FALSE)

Next == \E a \in Correct :
          \/ \E b \in Blocks : NewBlock(a, b)
          \/ \E d \in AllProps : RecvProposal(a, d)
          \/ \E v \in AllVotes : RecvVote(a, v)
          \/ Timeout(a)
          \/ \E p \in AllProps : LearnConfirm(a, p)

Spec == Init /\ [][Next]_vars

---------------------------------------------------------------------------
(* Properties *)

TypeOK ==
    \A a \in Correct :
        /\ st[a].status \in {"ready", "running"} /\ st[a].view \in 0..MaxView
        /\ st[a].pblock \in Blocks \cup {None} /\ st[a].fin \in Blocks \cup {None}
        /\ (st[a].pprop # NoProp => st[a].pblock = st[a].pprop.block)

\* Agreement: the blocks correct arbiters finished this height with (own confirm or a
\* confirm learned) are the same, and so are all blocks a valid confirm exists for -
\* as long as no correct arbiter accepted two different blocks (Dev).
Finished == {st[a].fin : a \in Correct} \ {None}
ConfirmableBlocks == {p.block : p \in {q \in AllProps : Confirmable(q)}}
Agreement == (Cardinality(Byz) <= F /\ ~Dev) =>
                 /\ Cardinality(Finished) <= 1
                 /\ Cardinality(ConfirmableBlocks) <= 1
                 /\ Finished \subseteq ConfirmableBlocks

\* ... and within one view unconditionally
AgreementInView ==
    Cardinality(Byz) <= F =>
        \A p, q \in AllProps : (Confirmable(p) /\ Confirmable(q) /\ p.view = q.view) => p.block = q.block

\* EXPECTED TO FAIL: without the Dev guard (named deviation X02:agreement:no-lock-across-views)
AgreementAnyway == Cardinality(Finished) <= 1

\* what the step just taken handed out (the log is a history variable)
Last == log'[Len(log')].exp.s
Actor == log'[Len(log')].args.a

\* Validity of a confirm produced by a correct arbiter
ValidityStep ==
    \A c \in Last.outC :
        /\ \A v \in c.votes : v.prop = c.prop /\ v.accept /\ v \in AllVotes'
        /\ Cardinality({v.signer : v \in c.votes}) > Maj
        /\ Cardinality({v.signer : v \in c.votes}) = Cardinality(c.votes)
        /\ c.prop.sponsor = Arb(c.prop.view)
        /\ c.prop \in AllProps'
        /\ Confirmable(c.prop)'
        /\ st'[Actor].fin = c.prop.block
Stepped == Len(log') = Len(log) + 1
Validity == [][Stepped => ValidityStep]_vars

\* a correct arbiter accepts at most one proposal per view, proposes at most once per view
VoteOnce ==
    Cardinality(Byz) <= F =>
      \A v1, v2 \in votes : (v1.signer = v2.signer /\ v1.accept /\ v2.accept /\ v1.prop.view = v2.prop.view)
                               => v1.prop = v2.prop
ProposeOnce ==
    /\ \A p, q \in props : (p.sponsor = q.sponsor /\ p.view = q.view) => p = q
    /\ \A p \in props : p.sponsor = Arb(p.view) /\ p.sponsor \in Correct
NoRejectFromCorrect == \A v \in votes : v.accept /\ v.signer \in Correct

\* evidence is produced only against an arbiter that signed two conflicting messages
EvidenceStep ==
        /\ \A e \in Last.evP : \E p, q \in e :
               /\ e = {p, q} /\ p \in AllProps /\ q \in AllProps
               /\ p.sponsor = q.sponsor /\ p.view = q.view /\ p.block # q.block
               /\ p.sponsor \in Byz
        /\ \A e \in Last.evV : \E v, w \in e :
               /\ e = {v, w} /\ v \in AllVotes /\ w \in AllVotes /\ v # w
               /\ v.signer = w.signer /\ v.signer \in Byz
               /\ \/ v.prop = w.prop /\ v.accept # w.accept
                  \/ /\ v.prop.sponsor = w.prop.sponsor /\ v.prop.view = w.prop.view
                     /\ v.prop.block # w.prop.block
        \* what the code can actually detect: accept and reject of one proposal
        /\ \A e \in Last.evV : \A v, w \in e : v.prop = w.prop
        /\ ~Checks => Last.evP = {} /\ Last.evV = {}
EvidenceSound == [][Stepped => EvidenceStep]_vars

\* what the code can actually detect
VotesMatchProcessing == \A a \in Correct : \A v \in st[a].acc \cup st[a].rej : v.prop = st[a].pprop

\* non-vacuity (EXPECTED TO FAIL): a block gets confirmed by every correct arbiter
NotAllFinished == ~(\A a \in Correct : st[a].fin # None)
NoOwnConfirm == [][Stepped => Last.outC = {}]_vars
NoEvidence == [][Stepped => (Last.evP = {} /\ Last.evV = {})]_vars
NoDev == ~Dev

Emit == CASE EmitMode = "all" -> PrintT(<<"TRACE", ToJson(log')>>)
          [] EmitMode = "last" -> (Len(log') = SimLen => PrintT(<<"TRACE", ToJson(log')>>))
          [] OTHER -> TRUE
=============================================================================
