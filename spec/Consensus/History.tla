------------------------------ MODULE History ------------------------------
(***************************************************************************)
(* Reference semantics of utils/history.go (utils.History): a height       *)
(* indexed log of state changes with commit, rollback, seek and temporary  *)
(* changes.                                                                *)
(*                                                                         *)
(* The abstract state S maps a small set of keys to integers.  A change is *)
(*   [kind |-> "add", k, d]   execute S[k]+=d, rollback S[k]-=d            *)
(*   [kind |-> "set", k, v]   execute S[k]:=v, rollback S[k]:=old where    *)
(*                            old is captured when the change is appended  *)
(* which are the two shapes every caller in dpos/state and cr/state uses.  *)
(*                                                                         *)
(* One action per public method.  The spec states what the property        *)
(* demands ("state at height t = fold of the changes committed at heights  *)
(* <= t"); the replay driver steps utils.History through every behaviour   *)
(* TLC enumerates and compares S, Height() and len(Changes()) after every  *)
(* action.                                                                 *)
(***************************************************************************)
EXTENDS Integers, Sequences, FiniteSets, TLC, Json

CONSTANTS Keys,        \* keys of the abstract state
          Cap,         \* History capacity (distinct heights retained)
          MaxH,        \* largest height used
          MaxOps,      \* bound on behaviour length
          Deltas,      \* values used by add / set
          MaxPerH      \* max changes appended per height

VARIABLES S,        \* current abstract state          [Keys -> Int]
          ents,     \* every committed entry, oldest first: [h, chs]
          kept,     \* number of trailing entries of ents still retained
          cached,   \* <<>> or <<[h, chs]>> : appended, not yet committed
          temp,     \* temporary changes (appended with height 0)
          tempOn,   \* TRUE once the temporary changes have been executed
          height,   \* History.Height()
          seek,     \* height the state is currently seeked to
          nops,     \* number of operations so far
          log       \* history variable: the behaviour, for replay

vars == <<S, ents, kept, cached, temp, tempOn, height, seek, nops, log>>
view == <<S, ents, kept, cached, temp, tempOn, height, seek, nops>>

S0 == [k \in Keys |-> 0]

Change == [kind : {"add"}, k : Keys, d : Deltas, old : {0}]
            \cup [kind : {"set"}, k : Keys, d : Deltas, old : Int]

Exec(s, c) == IF c.kind = "add" THEN [s EXCEPT ![c.k] = @ + c.d]
                                ELSE [s EXCEPT ![c.k] = c.d]
Undo(s, c) == IF c.kind = "add" THEN [s EXCEPT ![c.k] = @ - c.d]
                                ELSE [s EXCEPT ![c.k] = c.old]

RECURSIVE ExecAll(_, _)
ExecAll(s, cs) == IF cs = <<>> THEN s ELSE ExecAll(Exec(s, Head(cs)), Tail(cs))

\* State produced by all committed entries with height <= t.
RECURSIVE FoldTo(_, _, _)
FoldTo(s, es, t) == IF es = <<>> THEN s
                    ELSE IF Head(es).h <= t
                         THEN FoldTo(ExecAll(s, Head(es).chs), Tail(es), t)
                         ELSE FoldTo(s, Tail(es), t)

StateAt(t) == FoldTo(S0, ents, t)

Retained == SubSeq(ents, Len(ents) - kept + 1, Len(ents))
RetHeights == {Retained[i].h : i \in 1..kept}

\* Kinds already used for key k in the cached height (shape restriction:
\* the repository never mixes an increment and an assignment of one field
\* in one height, and rollback inside one height runs in append order).
CachedKinds(k) == IF cached = <<>> THEN {}
                  ELSE {cached[1].chs[i].kind :
                          i \in {j \in 1..Len(cached[1].chs) : cached[1].chs[j].k = k}}

Log(act, args) == log' = Append(log, [act |-> act, args |-> args,
                                       S |-> S', height |-> height',
                                       kept |-> kept'])

Init == /\ S = S0 /\ ents = <<>> /\ kept = 0 /\ cached = <<>>
        /\ temp = <<>> /\ tempOn = FALSE /\ height = 0 /\ seek = 0
        /\ nops = 0 /\ log = <<>>

Unseeked == seek = height

\* State visible without the temporary overlay.
RECURSIVE UndoAll(_, _)
UndoAll(s, cs) == IF cs = <<>> THEN s ELSE UndoAll(Undo(s, Head(cs)), Tail(cs))

DropTemp(s) == IF tempOn THEN UndoAll(s, temp) ELSE s

(* Append(h, execute, rollback), h > 0 *)
AppendCh(h, kind, k, d) ==
    /\ nops < MaxOps /\ (Unseeked \/ kind = "add")
    /\ h \in 1..MaxH
    /\ temp # <<>> => tempOn          \* protocol: temp changes were committed
    /\ IF cached = <<>> THEN h >= height
                        ELSE h = cached[1].h /\ Len(cached[1].chs) < MaxPerH
    /\ CachedKinds(k) \subseteq {kind}
    \* an assignment captures its old value before Append drops the temporary
    \* overlay; callers do not assign a field the overlay currently changes
    /\ (tempOn /\ kind = "set") => \A i \in 1..Len(temp) : temp[i].k # k
    /\ LET base == DropTemp(S)
           c == [kind |-> kind, k |-> k, d |-> d,
                 old |-> IF kind = "set" THEN base[k] ELSE 0]
       IN /\ S' = base
          /\ cached' = IF cached = <<>> THEN <<[h |-> h, chs |-> <<c>>]>>
                       ELSE <<[h |-> h, chs |-> Append(cached[1].chs, c)]>>
    /\ temp' = <<>> /\ tempOn' = FALSE
    /\ nops' = nops + 1
    /\ UNCHANGED <<ents, kept, height, seek>>
    /\ Log("Append", [h |-> h, kind |-> kind, k |-> k, d |-> d])

(* Append(0, execute, rollback): temporary change *)
AppendTemp(kind, k, d) ==
    /\ nops < MaxOps /\ Unseeked /\ ~tempOn /\ Len(temp) < 2
    /\ height > 0
    /\ \A i \in 1..Len(temp) : temp[i].k = k => temp[i].kind = kind
    /\ temp' = Append(temp, [kind |-> kind, k |-> k, d |-> d,
                             old |-> IF kind = "set" THEN S[k] ELSE 0])
    /\ nops' = nops + 1
    /\ UNCHANGED <<S, ents, kept, cached, tempOn, height, seek>>
    /\ Log("AppendTemp", [kind |-> kind, k |-> k, d |-> d])

(* Commit(h) while temporary changes are pending: they are executed and    *)
(* nothing else happens.                                                   *)
CommitTemp ==
    /\ nops < MaxOps /\ temp # <<>> /\ ~tempOn
    /\ S' = ExecAll(S, temp)
    /\ tempOn' = TRUE
    /\ nops' = nops + 1
    /\ UNCHANGED <<ents, kept, cached, temp, height, seek>>
    /\ Log("Commit", [h |-> IF cached = <<>> THEN height ELSE cached[1].h])

(* Commit(h): the cached changes (possibly none) become entry h.           *)
Commit(h) ==
    /\ nops < MaxOps /\ temp = <<>>
    /\ h \in 1..MaxH
    /\ IF cached = <<>> THEN h >= height
                        ELSE h = cached[1].h
    /\ LET e == IF cached = <<>> THEN [h |-> h, chs |-> <<>>] ELSE cached[1]
           \* capacity rule of the code: when the retained entries already
           \* span >= Cap distinct heights, the oldest height is dropped
           firstH == Retained[1].h
           nFirst == Cardinality({i \in 1..kept : Retained[i].h = firstH})
           keptNow == IF kept > 0 /\ Cardinality(RetHeights) >= Cap
                      THEN kept - nFirst ELSE kept
       IN /\ ents' = Append(ents, e)
          /\ kept' = keptNow + 1
          /\ S' = ExecAll(FoldTo(S0, ents, height), e.chs)   \* seek is undone first
    /\ height' = h /\ seek' = h /\ cached' = <<>>
    /\ nops' = nops + 1
    /\ UNCHANGED <<temp, tempOn>>
    /\ Log("Commit", [h |-> h])

\* entries of ents with height <= t
Upto(t) == SelectSeq(ents, LAMBDA e : e.h <= t)

(* RollbackTo(t) *)
RollbackTo(t) ==
    /\ nops < MaxOps /\ Unseeked /\ cached = <<>>
    /\ temp # <<>> => tempOn
    /\ t \in 0..MaxH
    /\ IF t >= height
       THEN UNCHANGED <<S, ents, kept, temp, tempOn, height, seek>>
       ELSE \* within capacity: every entry above t is still retained
            /\ \A i \in 1..Len(ents) : ents[i].h > t => i > Len(ents) - kept
            /\ S' = StateAt(t)
            /\ ents' = Upto(t)
            /\ kept' = kept - (Len(ents) - Len(Upto(t)))
            /\ height' = t /\ seek' = t
            /\ temp' = <<>> /\ tempOn' = FALSE
    /\ nops' = nops + 1
    /\ UNCHANGED cached
    /\ Log("RollbackTo", [t |-> t])

\* Seeking is defined by the component for one entry per height and
\* consecutive heights (it counts entries, not heights).
SeekShape == /\ \A i \in 1..(kept - 1) : Retained[i + 1].h = Retained[i].h + 1
             /\ kept > 0 => Retained[kept].h = height
             /\ kept > 0 => \A i \in 1..(Len(ents) - kept) : ents[i].h < Retained[1].h

(* SeekTo(t) *)
SeekTo(t) ==
    /\ nops < MaxOps /\ cached = <<>> /\ temp = <<>> /\ SeekShape
    /\ t \in 0..height
    /\ nops' = nops + 1
    /\ IF t < height - Cardinality(RetHeights)
       THEN /\ UNCHANGED <<S, ents, kept, cached, temp, tempOn, height, seek>>
            /\ Log("SeekToErr", [t |-> t])
       ELSE /\ S' = StateAt(t)
            /\ seek' = t
            /\ UNCHANGED <<ents, kept, cached, temp, tempOn, height>>
            /\ Log("SeekTo", [t |-> t])

(* RollbackSeekTo(t): the entries above the seek height are forgotten; the *)
(* state was already moved there by SeekTo(t).                             *)
RollbackSeek ==
    /\ nops < MaxOps /\ cached = <<>> /\ temp = <<>> /\ seek < height
    /\ ents' = Upto(seek)
    /\ kept' = kept - (Len(ents) - Len(Upto(seek)))
    /\ height' = seek
    /\ nops' = nops + 1
    /\ UNCHANGED <<S, cached, temp, tempOn, seek>>
    /\ Log("RollbackSeekTo", [t |-> seek])

Next == \/ \E h \in 1..MaxH, kind \in {"add", "set"}, k \in Keys, d \in Deltas :
              AppendCh(h, kind, k, d)
        \/ \E kind \in {"add", "set"}, k \in Keys, d \in Deltas : AppendTemp(kind, k, d)
        \/ CommitTemp
        \/ \E h \in 1..MaxH : Commit(h)
        \/ \E t \in 0..MaxH : RollbackTo(t)
        \/ \E t \in 0..MaxH : SeekTo(t)
        \/ RollbackSeek

Spec == Init /\ [][Next]_vars

---------------------------------------------------------------------------
(* Properties *)

TypeOK == /\ S \in [Keys -> Int] /\ kept \in 0..Len(ents)
          /\ height \in 0..MaxH /\ seek \in 0..height

\* C20, first sentence: the visible state is the fold of the committed
\* changes at or below the height the history is positioned on (plus the
\* temporary overlay while it is shown).
StateIsFold ==
    LET base == StateAt(seek) IN
      S = IF tempOn THEN ExecAll(base, temp) ELSE base

\* Capacity: the history never retains more than Cap distinct heights.
WithinCapacity == Cardinality(RetHeights) <= Cap

\* Entries are ordered by height.
Ordered == \A i \in 1..(Len(ents) - 1) : ents[i].h <= ents[i + 1].h

\* C20, second sentence: committing after seeking back and forth gives the
\* state of never having seeked -- as an action property: a Commit always
\* lands on fold(all entries incl. the new one).
CommitIgnoresSeek ==
    [][ (Len(ents') = Len(ents) + 1) => S' = FoldTo(S0, ents', height') ]_vars

\* Used with ACTION_CONSTRAINT to print one behaviour per explored edge.
Emit == PrintT(<<"TRACE", ToJson(log')>>)
\* simulation mode: only the final step of a behaviour is printed
EmitLast == nops' = MaxOps => PrintT(<<"TRACE", ToJson(log')>>)
=============================================================================
