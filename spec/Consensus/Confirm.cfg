SPECIFICATION Spec
CONSTANTS
  Ns = {1, 2, 3}
  MaxAbn = 1
  MaxBad = 1
  Shapes = "all"
  Sponsors = "all"
  BadSigners = "all"
  ArithNs = {1, 2, 3, 12, 36, 72, 100}
  SampleMod = 1
  SampleRes = 0
VIEW view
INVARIANTS AcceptedOnlyWithQuorum ThresholdExact
CHECK_DEADLOCK FALSE
