\* default bounds (tools/props/X02.py writes its own configurations): n = 3, two blocks (B2
\* reaches arbiter 1 only), two views, nobody Byzantine
SPECIFICATION Spec
CONSTANTS
  N = 3
  Byz = {}
  Blocks = {"B1", "B2"}
  MaxView = 1
  Checks = TRUE
  ByzViews = {0, 1}
  MaxPendVotes = 1
  OtherAt = {1}
  TimeoutAt = {0, 1, 2}
  ByzBudget = 0
  Noops = FALSE
  EmitMode = "none"
  SimLen = 0
VIEW view
INVARIANTS TypeOK Agreement AgreementInView VoteOnce ProposeOnce NoRejectFromCorrect VotesMatchProcessing
PROPERTIES Validity EvidenceSound
ACTION_CONSTRAINT Emit
CHECK_DEADLOCK FALSE
