------------------------------ MODULE TraceView ------------------------------
(* Trace validation for View.tla: recorded polling runs of the real         *)
(* dpos/manager view (many runs concatenated by Reset events; arbiter       *)
(* counts and 1 s polling instants far beyond the exhaustive bounds) must   *)
(* be behaviours of Poll / PollEntrySurcharge with the recorded view        *)
(* matching after every event.  An event also records whether, on the real  *)
(* code, an evaluation at that instant agreed with the one-shot evaluation  *)
(* from the initial view (indep); disagreement is accepted only where the   *)
(* spec itself is in the known deviation.                                   *)
EXTENDS View

CONSTANT TraceFile
Trace == ndJsonDeserialize(TraceFile)

VARIABLE l
tvars == <<vars, l>>

Ev == Trace[l]
IsEv(e) == l <= Len(Trace) /\ Ev.ev = e /\ l' = l + 1

TraceInit == /\ variant = "V0" /\ N = 1 /\ c0 = 0 /\ sur = "entry"
             /\ offset = 0 /\ start = 0 /\ now = 0
             /\ onDuty = FALSE /\ dev = FALSE /\ npolls = 0 /\ log = <<>>
             /\ l = 1 /\ TLCSet(1, 1)

TReset == /\ IsEv("Reset")
          /\ variant' = Ev.variant /\ N' = Ev.n /\ c0' = Ev.c0 /\ sur' = sur
          /\ offset' = Ev.c0 /\ start' = 0 /\ now' = 0
          /\ onDuty' = FALSE /\ dev' = FALSE /\ npolls' = 0 /\ log' = <<>>

TPoll == /\ IsEv("Poll")
         /\ Step(Ev.t, Ev.gated)
         /\ offset' = Ev.offset /\ start' = Ev.start /\ onDuty' = Ev.onDuty
         /\ OneShot(Ev.t) = Ev.oneshot
         /\ log'[Len(log')].exp.probe = Ev.probe
         /\ (Ev.indep \/ log'[Len(log')].exp.dev)

TraceNext == TReset \/ TPoll
TraceSpec == TraceInit /\ [][TraceNext]_tvars

HighWater == IF l > TLCGet(1) THEN TLCSet(1, l) ELSE TRUE
TraceAccepted == TLCGet(1) = Len(Trace) + 1
\* the log is irrelevant here; keep it out of the fingerprint
TraceView == <<variant, N, c0, offset, start, now, onDuty, dev, l>>
=============================================================================
