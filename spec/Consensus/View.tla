-------------------------------- MODULE View --------------------------------
(***************************************************************************)
(* C26 - the view-change schedule does not depend on how often it is       *)
(* evaluated.                                                              *)
(*                                                                         *)
(* Model of dpos/manager/view.go in whole seconds.  A view is (offset,     *)
(* start): the view offset and the time the current view started.  The     *)
(* node re-evaluates it whenever it is polled (timer, block arrival):      *)
(*                                                                         *)
(*   ChangeView   (V0, below ChangeViewV1Height)  calculateOffsetTimeV0    *)
(*   ChangeViewV1 (V1)                            calculateOffsetTimeV1    *)
(*   TryChangeView / TryChangeViewV1   the same behind the guard           *)
(*                                     now.After(start + signTolerance)    *)
(*                                                                         *)
(* calculateOffsetTimeV1 is transcribed as written: the duration of the    *)
(* first view looked at in a call (EntryDur) and the duration of every     *)
(* further view stepped over in the same call (LoopDur) are two separate   *)
(* formulas.  They agree below one full round (offset < N, 5 s) and differ *)
(* from there on: EntryDur has (1 + c - N) where LoopDur has (c - N).      *)
(*                                                                         *)
(* The property: whatever the polling instants, the view the node is in at *)
(* time T is the view a single evaluation at T from the initial (offset,   *)
(* start) gives (ScheduleIndependent), and that view is non-decreasing in  *)
(* T (OneShotMonotone).  This holds for V0, for V1 below N, and for V1     *)
(* with either formula used uniformly (sur = "never" / "always").    *)
(* As written (sur = "entry") it fails exactly when a poll enters    *)
(* calculateOffsetTimeV1 in a view c >= N that the one-shot evaluation     *)
(* reaches inside its loop and the longer entry duration changes the       *)
(* result; that shape is the named deviation action PollEntrySurcharge.    *)
(***************************************************************************)
EXTENDS Integers, Sequences, FiniteSets, TLC, Json

CONSTANTS Variants,    \* subset of {"V0", "V1"}
          Ns,          \* arbiter counts
          C0s,         \* initial offsets; those <= 2N + 2 are used for N
          Times,       \* polling instants (seconds after the initial start)
          MaxPolls,    \* polls per behaviour
          Tol,         \* signTolerance in seconds (5 on every network)
          Surcharges,  \* subset of {"entry", "never", "always"}: which views
                       \* get the longer duration: "entry" = the first one of
                       \* each call (the code), never, always (the two uniform
                       \* candidates for a repair)
          Gated        \* subset of BOOLEAN: polls through Try* (TRUE) or direct

VARIABLES variant, N, c0, sur, \* the case: fixed by Init
          offset, start, now,  \* the view and the time of the last poll
          onDuty,              \* own arbiter (index 0) is on duty
          dev,                 \* a deviation step has happened
          npolls, log

vars == <<variant, N, c0, sur, offset, start, now, onDuty, dev, npolls, log>>
view == <<variant, N, c0, sur, offset, start, now, onDuty, dev, npolls>>

---------------------------------------------------------------------------
(* Durations, in seconds (ChangeViewAddStep = 3, ChangeViewMulStep = 20) *)
RECURSIVE Pow(_, _)
Pow(b, e) == IF e = 0 THEN 1 ELSE b * Pow(b, e - 1)

\* inside the loop of calculateOffsetTimeV1, after currentOffset++
LoopDur(c) == IF c < N THEN 5 ELSE 5 + (c - N) * 3 * Pow(20, c \div N)
\* before the loop, for the offset the call was entered with
EntryDur(c) == IF c < N THEN 5 ELSE 5 + (1 + c - N) * 3 * Pow(20, c \div N)

\* the schedule one evaluation from the initial view defines: the entry
\* duration applies to the initial view c0 only (or uniformly)
RefDur(c) == IF sur = "always" \/ (sur = "entry" /\ c = c0)
             THEN EntryDur(c) ELSE LoopDur(c)

DurOf(mode, c) == CASE mode = "loop"  -> LoopDur(c)
                    [] mode = "entry" -> EntryDur(c)
                    [] mode = "ref"   -> RefDur(c)

\* for duration >= d { offset++; duration -= d; d = dur(offset) }
RECURSIVE Advance(_, _, _, _)
Advance(c, e, d, mode) ==
    IF e >= d THEN Advance(c + 1, e - d, DurOf(mode, c + 1), mode) ELSE <<c, e>>

\* calculateOffsetTimeV1(c, start, now, N) with e = now - start, as the
\* code computes it ...
CodeCalcV1(c, e) ==
    CASE sur = "entry"  -> Advance(c, e, EntryDur(c), "loop")
      [] sur = "never"  -> Advance(c, e, LoopDur(c), "loop")
      [] sur = "always" -> Advance(c, e, EntryDur(c), "entry")

\* ... and as the reference schedule defines it
RefCalcV1(c, e) == Advance(c, e, RefDur(c), "ref")

\* calculateOffsetTimeV0: whole views of Tol seconds
CalcV0(c, e) == <<c + e \div Tol, e % Tol>>

CodeCalc(c, e) == IF variant = "V0" THEN CalcV0(c, e) ELSE CodeCalcV1(c, e)
RefCalc(c, e) == IF variant = "V0" THEN CalcV0(c, e) ELSE RefCalcV1(c, e)

\* the view a single evaluation at time t computes from the initial view
OneShot(t) == CodeCalc(c0, t)

---------------------------------------------------------------------------
Init == /\ variant \in Variants /\ N \in Ns /\ c0 \in {c \in C0s : c <= 2 * N + 2}
        /\ sur \in (IF variant = "V0" THEN {"entry"} ELSE Surcharges)
        /\ offset = c0 /\ start = 0 /\ now = 0
        /\ onDuty = FALSE /\ dev = FALSE /\ npolls = 0 /\ log = <<>>

(* One evaluation at time t.  code = what calculateOffsetTimeV0/V1 returns  *)
(* for the current view, ref = what the reference schedule gives; blocked = *)
(* the poll came through Try* and now.After(start + tolerance) is false.    *)
(* What an evaluation at t reports after the step (the "probe") is `code`   *)
(* again: if the view changed, the remainder is shorter than the new view.  *)
Log(act, t, g, code, differs) ==
    log' = Append(log, [act |-> act,
                        args |-> [t |-> t, gated |-> g, variant |-> variant,
                                  n |-> N, c0 |-> c0],
                        exp |-> [offset |-> offset', start |-> start',
                                 onDuty |-> onDuty',
                                 \* what an evaluation at t reports now
                                 probe |-> code,
                                 \* what one evaluation from the initial
                                 \* view reports at t
                                 oneshot |-> OneShot(t),
                                 \* probe and oneshot may differ only by
                                 \* the known deviation
                                 dev |-> dev' \/ differs]])

\* The effect of ChangeView / ChangeViewV1 at time t.
Effect(t, code, blocked) ==
    LET changed == ~blocked /\ (variant = "V0" \/ code[1] # offset)
    IN /\ now' = t /\ npolls' = npolls + 1
       /\ IF changed
          THEN /\ offset' = code[1] /\ start' = t - code[2]
               \* GetNextOnDutyArbitrator(offset); own key = arbiter 0
               /\ onDuty' = IF code[1] # offset THEN code[1] % N = 0 ELSE onDuty
          ELSE UNCHANGED <<offset, start, onDuty>>
       /\ UNCHANGED <<variant, N, c0, sur>>

Poll(t, g, code, blocked, differs) ==
    /\ Effect(t, code, blocked) /\ UNCHANGED dev
    /\ Log("Poll", t, g, code, differs)

(* Named deviation (known finding C26:V1:entry-surcharge): the poll enters *)
(* calculateOffsetTimeV1 at an offset >= N other than the initial one and  *)
(* waits EntryDur where a one-shot evaluation waits LoopDur, and that      *)
(* decides the outcome of this evaluation.                                 *)
PollEntrySurcharge(t, g, code) ==
    /\ Effect(t, code, FALSE) /\ dev' = TRUE
    /\ Log("PollEntrySurcharge", t, g, code, TRUE)

Step(t, g) ==
    /\ npolls < MaxPolls /\ t > now
    /\ LET e == t - start
           code == CodeCalc(offset, e)
           ref == RefCalc(offset, e)
           blocked == g /\ ~(e > Tol)          \* now.After(start + tolerance)
       IN IF ~blocked /\ code # ref
          THEN PollEntrySurcharge(t, g, code)
          ELSE Poll(t, g, code, blocked, code # ref)

Next == \E t \in Times, g \in Gated : Step(t, g)

Spec == Init /\ [][Next]_vars

---------------------------------------------------------------------------
(* Properties *)

TypeOK == /\ offset >= c0 /\ start \in 0..now /\ npolls \in 0..MaxPolls

\* C26, first sentence: the view the node would report now is the view of
\* a single evaluation from the initial view.
ScheduleIndependent ==
    ~dev => RefCalc(offset, now - start) = RefCalc(c0, now)

\* the same seen through the code's own evaluation: unless the entry
\* surcharge is in play, evaluating now gives the one-shot view
ProbeIsOneShot ==
    (~dev /\ CodeCalc(offset, now - start) = RefCalc(offset, now - start))
        => CodeCalc(offset, now - start) = OneShot(now)

\* ... and that reference is what the code computes in one step.
\* (depends on the case only: evaluated in the initial states)
RefIsOneShot == npolls = 0 => \A t \in Times : RefCalc(c0, t) = OneShot(t)

\* C26, second sentence.
OneShotMonotone ==
    npolls = 0 => \A t1, t2 \in Times : t1 <= t2 => OneShot(t1)[1] <= OneShot(t2)[1]

\* the deviation needs a full round of view changes
DeviationOnlyBeyondRound == dev => (variant = "V1" /\ offset >= N /\ sur = "entry")

\* with one formula used uniformly there is no deviation at all
NoDeviationIfUniform == sur # "entry" => ~dev

\* a view offset never goes back
OffsetMonotone == [][offset' >= offset]_vars

\* behaviours of the code as written are printed for replay
Emit == sur = "entry" => PrintT(<<"TRACE", ToJson(log')>>)
=============================================================================
