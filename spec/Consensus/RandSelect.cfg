SPECIFICATION Spec
CONSTANTS
  Variants = {"Global", "Local"}
  MaxNoise = 4
  NDraws = 3
  NoiseSeeds = {TRUE, FALSE}
VIEW view
INVARIANTS TypeOK Deterministic LocalNeverDeviates DeviationIsInterference
CHECK_DEADLOCK FALSE
