SPECIFICATION TraceSpec
CONSTANTS
  Keys = {"a", "b"}
  Cap = 3
  MaxH = 100000
  MaxOps = 1000000
  Deltas = {1, 2, 3}
  MaxPerH = 1000
  TraceFile = "trace.ndjson"
VIEW TraceView
CONSTRAINT HighWater
INVARIANTS StateIsFold WithinCapacity Ordered
POSTCONDITION TraceAccepted
CHECK_DEADLOCK FALSE
