SPECIFICATION Spec
CONSTANTS
  Eras = {0, 1, 2, 3}
  Pows = {TRUE, FALSE}
  Votes = {0, 1, 5}
  Rewards = {0, 3, 100000001}
  MaxCRC = 1
  MaxDpos = 2
  MaxCand = 1
  CfgCRCs = {0, 1}
  CfgNormals = {2}
  SampleMod = 1
  SampleRes = 0
VIEW view
INVARIANTS NoNegativePayout PaidAtMostReward ChangeNonNegative OverissueOnlyMissing
CHECK_DEADLOCK FALSE
