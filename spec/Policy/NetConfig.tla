------------------------------ MODULE NetConfig ------------------------------
(***************************************************************************)
(* How the node's effective configuration is assembled, as far as the two  *)
(* emergency policies are concerned (configuration halves of C31 and C32): *)
(* common/config/settings/settings.go:Settings.SetupConfig with            *)
(* enforceCrossChainUTXORestrictionHeights / enforceFrozenAddresses and    *)
(* common/config/config.go:TestNet/RegNet/Sterilize.                       *)
(*                                                                         *)
(* A case is the local configuration file: the ActiveNet name and local    *)
(* overrides of the freeze height, the restriction height and the frozen   *)
(* address list.  Values are abstract tokens:                              *)
(*   heights  "main" (the coordinated mainnet constant), "disabled"        *)
(*            (MaxUint32), "zero", "other"                                 *)
(*   lists    "coordinated" (the mainnet list), "none" (nil), "empty",     *)
(*            "otherAddr" (a different address), "sameLater" (the          *)
(*            coordinated address with a later start height)               *)
(*                                                                         *)
(* The pipeline follows SetupConfig statement by statement: defaults, load *)
(* the file, select the parameter set by name (reloading the file over     *)
(* it), enforce the coordinated values, resolve the program hashes.        *)
(*                                                                         *)
(* Which network a node is on is decided by SelectNet: names the switch    *)
(* does not know leave the mainnet parameter set (magic, genesis block,    *)
(* seeds) in place.  The property demands the coordinated values exactly   *)
(* for the configurations that ended up with the mainnet parameter set.    *)
(*                                                                         *)
(* Named deviation EnforceByOwnNameTable: the code's enforcement step      *)
(* classifies the name with a table of its own ("", mainnet, main) and     *)
(* treats every other name as "not mainnet", including names SelectNet     *)
(* does not know either.  For those the node runs with the mainnet         *)
(* parameter set and the policy disabled / the local frozen list.          *)
(***************************************************************************)
EXTENDS Integers, Sequences, TLC, Json

\* ActiveNet names tried, with their lower-case image (strings.ToLower)
Lower == [n \in {"", "mainnet", "MainNet", "MAINNET", "main", "Main",
                 "testnet", "TestNet", "test", "regnet", "RegNet", "regtest", "reg",
                 "private-net", "mainnet ", "mainnet2", "prod"} |->
            CASE n \in {"mainnet", "MainNet", "MAINNET"} -> "mainnet"
              [] n \in {"main", "Main"} -> "main"
              [] n \in {"testnet", "TestNet"} -> "testnet"
              [] n \in {"regnet", "RegNet"} -> "regnet"
              [] OTHER -> n]
Names == DOMAIN Lower

TestNames == {"testnet", "test"}              \* SetupConfig's switch
RegNames  == {"regnet", "regtest", "reg"}
MainNames == {"", "mainnet", "main"}          \* the enforce helpers' own table

HeightOv == {"absent", "zero", "other", "disabled"}
FrozenOv == {"absent", "empty", "otherAddr", "sameLater"}

VARIABLES in,        \* the case: [name, ovF, ovR, ovFrozen]
          conf,      \* [net, F, R, frozen, resolved]
          stage, dev, log

vars == <<in, conf, stage, dev, log>>
view == <<in, conf, stage, dev>>

Cases == [name : Names, ovF : HeightOv, ovR : HeightOv, ovFrozen : FrozenOv]

MainDefaults == [net |-> "main", F |-> "main", R |-> "main", frozen |-> "coordinated", resolved |-> FALSE]
\* Configuration.TestNet() / RegNet(): policy disabled, FrozenAddresses = nil
OtherDefaults(net) == [net |-> net, F |-> "disabled", R |-> "disabled", frozen |-> "none", resolved |-> FALSE]

\* loadConfigFile: values present in the file replace the current ones.  An
\* empty list in the file leaves the current list alone (the decoder writes
\* into the existing slice element by element).
Overlay(cf) ==
    [cf EXCEPT !.F = IF in.ovF = "absent" THEN @ ELSE in.ovF,
               !.R = IF in.ovR = "absent" THEN @ ELSE in.ovR,
               !.frozen = CASE in.ovFrozen = "absent" -> @
                            [] in.ovFrozen = "empty" -> IF @ = "none" THEN "empty" ELSE @
                            [] OTHER -> in.ovFrozen]

Init == /\ in \in Cases
        /\ conf = MainDefaults
        /\ stage = "load" /\ dev = FALSE /\ log = <<>>

Step(next, cf) == /\ stage' = next /\ conf' = cf /\ UNCHANGED <<in, dev, log>>

LoadFile == stage = "load" /\ Step("select", Overlay(conf))

SelectNet ==
    /\ stage = "select"
    /\ LET l == Lower[in.name] IN
       CASE l \in TestNames -> Step("enforce", Overlay(OtherDefaults("test")))
         [] l \in RegNames  -> Step("enforce", Overlay(OtherDefaults("reg")))
         [] OTHER           -> Step("enforce", conf)

\* What the property asks of the enforcement step: keyed on the selected
\* parameter set.
Enforce ==
    /\ stage = "enforce"
    /\ IF conf.net = "main"
       THEN Step("sterilize", [conf EXCEPT !.F = "main", !.R = "main", !.frozen = "coordinated"])
       ELSE Step("sterilize", [conf EXCEPT !.F = "disabled", !.R = "disabled"])

\* Named deviation (see header): only for names neither switch knows.
EnforceByOwnNameTable ==
    /\ stage = "enforce"
    /\ conf.net = "main" /\ Lower[in.name] \notin MainNames
    /\ stage' = "sterilize" /\ dev' = TRUE
    /\ conf' = [conf EXCEPT !.F = "disabled", !.R = "disabled"]
    /\ UNCHANGED <<in, log>>

Sterilize ==
    /\ stage = "sterilize"
    /\ stage' = "done"
    /\ conf' = [conf EXCEPT !.resolved = TRUE]
    /\ log' = Append(log, [act |-> "Config", args |-> in, exp |-> conf', dev |-> dev])
    /\ UNCHANGED <<in, dev>>

Next == LoadFile \/ SelectNet \/ Enforce \/ EnforceByOwnNameTable \/ Sterilize

Spec == Init /\ [][Next]_vars

---------------------------------------------------------------------------
Done == stage = "done"

\* C31, third sentence.
MainnetHeightsCoordinated ==
    (Done /\ ~dev /\ conf.net = "main") => (conf.F = "main" /\ conf.R = "main")
OtherNetsDisabled ==
    (Done /\ conf.net # "main") => (conf.F = "disabled" /\ conf.R = "disabled")
\* C32, second sentence.
MainnetFrozenCoordinated ==
    (Done /\ ~dev /\ conf.net = "main") => (conf.frozen = "coordinated" /\ conf.resolved)
\* In every configuration the node can end up with the freeze height does
\* not exceed the restriction height (assumed by CrossChainUTXO.tla).
Ordered == Done => (conf.F = conf.R)

Emit == (log' # log) => PrintT(<<"TRACE", ToJson(log')>>)
=============================================================================
