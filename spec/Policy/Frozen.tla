------------------------------- MODULE Frozen -------------------------------
(***************************************************************************)
(* Frozen addresses (C32): core/transaction/transactionchecker.go:         *)
(* checkFrozenAddresses as DefaultChecker.ContextCheck applies it to every *)
(* non-coinbase transaction.                                               *)
(*                                                                         *)
(* A case: the configured list (entries [a, s, nil]: address, start        *)
(* height, and whether the address did not resolve to a program hash), the *)
(* owners of the referenced outputs in input order, the owners of the      *)
(* transaction's outputs in order, the block height, coinbase or not.      *)
(*                                                                         *)
(* The check walks the list entry by entry; each entry is one action       *)
(* (skip / spends / receives / next), so that the position of the frozen   *)
(* address in list, inputs and outputs is enumerated completely.           *)
(***************************************************************************)
EXTENDS Integers, Sequences, FiniteSets, TLC, Json

CONSTANTS Addrs,       \* addresses that may be frozen, e.g. {"A","B"}
          Free,        \* an address that is never frozen, e.g. "C"
          Starts,      \* start heights, e.g. 1..2
          MaxH,        \* heights 0..MaxH
          MaxList,     \* max length of the frozen list
          MaxIO,       \* max number of inputs / outputs
          Coinbase     \* set of BOOLEAN values tried

All == Addrs \cup {Free}

SeqsUpTo(S, n) == UNION {[1..k -> S] : k \in 0..n}

Entry == [a : Addrs, s : Starts, nil : BOOLEAN]

VARIABLES c,        \* [list, ins, outs, h, cb]
          i,        \* index of the list entry examined next
          stage, verdict, why, log

vars == <<c, i, stage, verdict, why, log>>
view == <<c, i, stage, verdict, why>>

Cases == { x \in [list : SeqsUpTo(Entry, MaxList), ins : SeqsUpTo(All, MaxIO),
                  outs : SeqsUpTo(All, MaxIO), h : 0..MaxH, cb : Coinbase] :
             x.cb => x.ins = <<>> }        \* a coinbase references nothing

Init == /\ c \in Cases
        /\ i = 1 /\ stage = "entry" /\ verdict = "none" /\ why = "" /\ log = <<>>

Finish(v, w) == /\ stage' = "done" /\ verdict' = v /\ why' = w
                /\ log' = Append(log, [act |-> "Case", args |-> c, exp |-> v, why |-> w, at |-> i])
                /\ UNCHANGED <<c, i>>

Range(s) == {s[k] : k \in DOMAIN s}

\* CoinBaseTransaction.ContextCheck has its own pipeline, which never runs
\* the frozen-address check; the property does not speak about coinbases.
CoinbaseBypass == /\ stage = "entry" /\ c.cb
                  /\ Finish("unconstrained", "coinbase")

\* frozen.ProgramHash == nil || blockHeight < frozen.DisableStartHeight
Skip == /\ stage = "entry" /\ ~c.cb /\ i <= Len(c.list)
        /\ (c.list[i].nil \/ c.h < c.list[i].s)
        /\ i' = i + 1 /\ UNCHANGED <<c, stage, verdict, why, log>>

Live == stage = "entry" /\ ~c.cb /\ i <= Len(c.list) /\ ~c.list[i].nil /\ c.h >= c.list[i].s

Spends == /\ Live /\ c.list[i].a \in Range(c.ins)
          /\ Finish("reject", "spends")

Receives == /\ Live /\ c.list[i].a \notin Range(c.ins) /\ c.list[i].a \in Range(c.outs)
            /\ Finish("reject", "receives")

NextEntry == /\ Live /\ c.list[i].a \notin Range(c.ins) /\ c.list[i].a \notin Range(c.outs)
             /\ i' = i + 1 /\ UNCHANGED <<c, stage, verdict, why, log>>

Exhausted == /\ stage = "entry" /\ ~c.cb /\ i > Len(c.list)
             /\ Finish("accept", "clean")

Next == CoinbaseBypass \/ Skip \/ Spends \/ Receives \/ NextEntry \/ Exhausted

Spec == Init /\ [][Next]_vars

---------------------------------------------------------------------------
Done == stage = "done"

\* entry k of the list is in force at the case's height
InForce(k) == ~c.list[k].nil /\ c.h >= c.list[k].s
Touches(k) == c.list[k].a \in Range(c.ins) \/ c.list[k].a \in Range(c.outs)

\* C32, first sentence (the helper itself does not look at the transaction
\* type; coinbase transactions never reach it, see the driver).
FrozenNeitherSpendsNorReceives ==
    (Done /\ ~c.cb /\ \E k \in DOMAIN c.list : InForce(k) /\ Touches(k)) => verdict = "reject"

\* nothing else is refused: entries not yet started or unresolved, and
\* transactions that do not touch a frozen address, pass.
OnlyFrozen ==
    (Done /\ verdict = "reject") => \E k \in DOMAIN c.list : InForce(k) /\ Touches(k)

TypeOK == /\ i \in 1..(Len(c.list) + 1)
          /\ Done <=> verdict # "none"

Emit == (log' # log) => PrintT(<<"TRACE", ToJson(log')>>)
=============================================================================
