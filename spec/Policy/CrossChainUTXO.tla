--------------------------- MODULE CrossChainUTXO ---------------------------
(***************************************************************************)
(* Cross-chain UTXO emergency policy (C31), the decision procedure of      *)
(* core/transaction/transactionchecker.go:checkTransactionCrossChainUTXO   *)
(* as DefaultChecker.ContextCheck applies it to every non-coinbase         *)
(* transaction.                                                            *)
(*                                                                         *)
(* A case is chosen by Init (one initial state per case):                  *)
(*   F, R   freeze height and restriction height of the configuration      *)
(*          (F <= R in every configuration the node can end up with, see   *)
(*          NetConfig.tla)                                                 *)
(*   h      height of the block the transaction is validated for           *)
(*   kind   "withdraw" (WithdrawFromSideChain), "returnDeposit"            *)
(*          (ReturnSideChainDepositCoin) or "other" (every other type)     *)
(*   ver    payload version                                                *)
(*   nX     number of referenced outputs owned by a cross-chain address    *)
(*   nO     number of referenced outputs owned by any other address        *)
(*                                                                         *)
(* The validation pipeline is one action per test the code performs; the   *)
(* last action of a behaviour fixes the verdict and logs the case.  The    *)
(* property is stated over the finished pipeline as invariants.            *)
(***************************************************************************)
EXTENDS Integers, Sequences, TLC, Json

CONSTANTS MaxH,        \* heights F in 0..MaxH, R in F..MaxH+1, h in 0..MaxH+2
          Versions,    \* payload versions tried
          MaxRefs      \* references per address class: 0..MaxRefs

Kinds == {"withdraw", "returnDeposit", "other"}

\* payload.WithdrawFromSideChainVersion, ..V1, ..V2 (Schnorr)
SupportedWithdraw == {0, 1, 2}
\* payload.ReturnSideChainDepositCoinVersion
LegacyReturn == 0

VARIABLES c,        \* the case
          stage,    \* next test of the pipeline, or "done"
          verdict,  \* "none" | "accept" | "reject"
          why,      \* which test decided
          log

vars == <<c, stage, verdict, why, log>>
view == <<c, stage, verdict, why>>

Cases == { x \in [F : 0..MaxH, R : 0..(MaxH + 1), h : 0..(MaxH + 2), kind : Kinds,
                  ver : Versions, nX : 0..MaxRefs, nO : 0..MaxRefs] : x.F <= x.R }

Init == /\ c \in Cases
        /\ stage = "active" /\ verdict = "none" /\ why = "" /\ log = <<>>

Finish(v, w) == /\ stage' = "done" /\ verdict' = v /\ why' = w
                /\ log' = Append(log, [act |-> "Case", args |-> c, exp |-> v, why |-> w])
                /\ UNCHANGED c

Pass(next) == stage' = next /\ UNCHANGED <<c, verdict, why, log>>

HasX == c.nX > 0

(* blockHeight < freezeHeight || !hasCrossChainUTXO(references) *)
Active == /\ stage = "active"
          /\ IF c.h < c.F THEN Finish("accept", "before-freeze")
             ELSE IF ~HasX THEN Finish("accept", "no-crosschain-utxo")
             ELSE Pass("window")

(* blockHeight < restrictionHeight : temporarily frozen *)
Window == /\ stage = "window"
          /\ IF c.h < c.R THEN Finish("reject", "frozen") ELSE Pass("kind")

Kind == /\ stage = "kind"
        /\ CASE c.kind = "withdraw" -> Pass("withdraw-version")
             [] c.kind = "returnDeposit" -> Pass("return-version")
             [] OTHER -> Finish("reject", "kind")

WithdrawVersion == /\ stage = "withdraw-version"
                   /\ IF c.ver \in SupportedWithdraw THEN Finish("accept", "withdraw")
                      ELSE Finish("reject", "withdraw-version")

ReturnVersion == /\ stage = "return-version"
                 /\ IF c.ver = LegacyReturn THEN Pass("return-refs")
                    ELSE Finish("reject", "return-version")

(* a legacy deposit return may spend cross-chain UTXOs only *)
ReturnRefs == /\ stage = "return-refs"
              /\ IF c.nO = 0 THEN Finish("accept", "return-deposit")
                 ELSE Finish("reject", "return-mixed")

Next == Active \/ Window \/ Kind \/ WithdrawVersion \/ ReturnVersion \/ ReturnRefs

Spec == Init /\ [][Next]_vars
FairSpec == Spec /\ WF_vars(Next)

---------------------------------------------------------------------------
Done == stage = "done"

TypeOK == /\ c \in Cases
          /\ verdict \in {"none", "accept", "reject"}
          /\ Done <=> verdict # "none"

\* C31, first sentence: in the freeze window nothing spends a cross-chain UTXO.
FreezeWindow == (Done /\ HasX /\ c.h >= c.F /\ c.h < c.R) => verdict = "reject"

\* C31, second sentence: from the restriction height on only supported
\* withdrawals and legacy deposit returns spending nothing else may.
Authorised == \/ c.kind = "withdraw" /\ c.ver \in SupportedWithdraw
              \/ c.kind = "returnDeposit" /\ c.ver = LegacyReturn /\ c.nO = 0

Restricted == (Done /\ HasX /\ c.h >= c.F /\ c.h >= c.R /\ verdict = "accept") => Authorised

\* The policy concerns nothing else: before the freeze height and for
\* transactions without cross-chain references it never rejects, and an
\* authorised transaction is let through (the harness must not feed cases the
\* code refuses for another reason).
OnlyPolicy == Done => (verdict = "reject" <=>
                         (HasX /\ c.h >= c.F /\ (c.h < c.R \/ ~Authorised)))

\* every pipeline run terminates with a verdict
Terminates == <>Done

Emit == (log' # log) => PrintT(<<"TRACE", ToJson(log')>>)
=============================================================================
