------------------------------ MODULE Withdraw ------------------------------
(***************************************************************************)
(* C33: side-chain withdrawals need the arbiter quorum and are single-use. *)
(* (core/transaction/withdrawfromsidechaintransaction.go:                  *)
(* checkWithdrawFromSideChainTransactionV2 and                             *)
(* checkSchnorrWithdrawFromSidechain -- the Schnorr form, the only one     *)
(* accepted after SchnorrStartHeight; the Tx3 index behind                 *)
(* IsSidechainTxHashDuplicate; the per-block and mempool duplicate rules.) *)
(*                                                                         *)
(* Part 1 (decision table): a case is the arbiter count N, the threshold   *)
(* band, a list of signer indexes (with repetition, N = out of range),     *)
(* whether the height is at/after the restriction height, whether every    *)
(* spent output is a cross-chain output, which key the Schnorr program     *)
(* carries, and whether the side-chain transaction hash was already        *)
(* withdrawn on the active chain.  CodeAccept transcribes the checker with *)
(* the single-use test switchable (SingleUseV2: the v2 checker of the code *)
(* base never consulted the Tx3 index).                                    *)
(* Part 2 (histories): single use across a block, later blocks, the        *)
(* mempool and a rollback, as a small state machine.                       *)
(***************************************************************************)
EXTENDS Integers, Sequences, FiniteSets, TLC, Json

CONSTANTS Ns,           \* arbiter counts tried with every signer list
          BigNs,        \* large arbiter counts (12, 36) tried with structured signer lists
          MaxSigners,   \* longest signer list (small counts)
          SingleUseV2   \* TRUE: the v2 checker consults the Tx3 index

VARIABLES n, band, signers, restricted, allX, prog, used, done, log
vars == <<n, band, signers, restricted, allX, prog, used, done, log>>
view == <<n, band, signers, restricted, allX, prog, used, done>>

\* 2/3 of the member count, +1 outside the middle height band
Threshold(N, b) == (N * 2) \div 3 + (IF b = "mid" THEN 0 ELSE 1)

SeqSet(s) == {s[i] : i \in 1..Len(s)}
InRange(s, N) == \A i \in 1..Len(s) : s[i] < N
Distinct(s) == Cardinality(SeqSet(s)) = Len(s)

\* the checker indexes the arbiter list with every signer; below the restriction
\* height nothing guards the index (a panic, C03's subject, reported separately)
Panics == ~restricted /\ ~InRange(signers, n)

CodeAccept ==
    /\ Len(signers) >= Threshold(n, band)
    /\ allX
    /\ restricted => (InRange(signers, n) /\ Distinct(signers))
    /\ ~Panics
    /\ prog = "agg"                       \* Schnorr script of exactly the listed keys (with multiplicity)
    /\ SingleUseV2 => ~used

\* the property: cross-chain inputs only; the required number of signers, who from the
\* restriction height on are distinct existing arbiters; the program commits to them;
\* the hash was not withdrawn before
Authorised ==
    /\ allX
    /\ Len(signers) >= Threshold(n, band)
    /\ restricted => (InRange(signers, n) /\ Distinct(signers)
                      /\ Cardinality(SeqSet(signers)) >= Threshold(n, band))
    /\ prog = "agg"
    /\ ~used

RECURSIVE Lists(_, _)
Lists(S, k) == IF k = 0 THEN {<<>>} ELSE LET r == Lists(S, k - 1) IN r \cup {Append(x, y) : x \in {z \in r : Len(z) = k - 1}, y \in S}

\* structured signer lists for large arbiter sets: exactly the threshold, or one short
BigLists(N, T) ==
    { [i \in 1..T |-> i - 1],                                 \* the first T arbiters
      [i \in 1..T |-> N - i],                                 \* the last T arbiters
      [i \in 1..T |-> N - 1],                                 \* the last arbiter, T times
      [i \in 1..T |-> 0],                                     \* the first arbiter, T times
      [i \in 1..T |-> IF i = T THEN N - 1 ELSE N - i],        \* last T-1 distinct, the last one twice
      [i \in 1..T |-> IF i = T THEN 1 ELSE i - 1],            \* first T-1 distinct, index 1 twice
      [i \in 1..T |-> IF i = T THEN N ELSE i - 1],            \* one index out of range
      [i \in 1..(T - 1) |-> i - 1] }                          \* one signer short

Init == /\ n \in Ns \cup BigNs /\ band \in {"mid", "high"}
        /\ signers \in (IF n \in Ns THEN {s \in Lists(0..n, MaxSigners) : Len(s) >= 1}
                                   ELSE BigLists(n, Threshold(n, band)))
        /\ restricted \in BOOLEAN /\ allX \in BOOLEAN
        /\ prog \in {"agg", "other", "standard"} /\ used \in BOOLEAN
        /\ done = FALSE /\ log = <<>>

Decide == /\ ~done /\ done' = TRUE
          /\ UNCHANGED <<n, band, signers, restricted, allX, prog, used>>
          /\ log' = <<[act |-> "Case", n |-> n, band |-> band, signers |-> signers,
                       restricted |-> restricted, allX |-> allX, prog |-> prog, used |-> used,
                       threshold |-> Threshold(n, band), panics |-> Panics,
                       accept |-> CodeAccept, authorised |-> Authorised]>>
Next == Decide
Spec == Init /\ [][Next]_vars

\* C33
AcceptedIsAuthorised == CodeAccept => Authorised
AuthorisedIsAccepted == (Authorised /\ ~Panics) => CodeAccept

Emit == PrintT(<<"TRACE", ToJson(log')>>)
=============================================================================
