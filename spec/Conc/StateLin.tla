------------------------------ MODULE StateLin ------------------------------
(***************************************************************************)
(* C40: validation and state queries are safe under concurrency -- each    *)
(* sees a consistent state.                                                *)
(*                                                                         *)
(* One writer processes blocks (BlockChain.ProcessBlock: the only mutator  *)
(* of chain, UTXO and DPoS state); any number of readers call the query    *)
(* and validation API at the same time.  The node's committed states form  *)
(* a sequence D[0], D[1], ...  The node keeps its state on several         *)
(* surfaces that ProcessBlock updates one after the other inside one call  *)
(* (the database transaction with all persistent indexes, then the         *)
(* in-memory chain tip, then the DPoS / CR state through the checkpoint    *)
(* manager); block k becomes visible on surface s at one instant           *)
(* Commit(s), not observable from outside, somewhere between the           *)
(* invocation and the return of ProcessBlock(k).  A read of surface s      *)
(* invoked when lo blocks were visible there and answered when hi were is  *)
(* consistent iff its answer is what D[k] answers for some lo <= k <= hi:  *)
(* never a mixture of two states, never a state from the future, never one *)
(* older than what was current when the call started.  Answers are         *)
(* abstracted to the set of k they are compatible with.                    *)
(***************************************************************************)
EXTENDS Integers, Sequences, FiniteSets, TLC, Json

CONSTANTS Readers, Surfaces, MaxBlocks, MaxReads

VARIABLES committed,   \* committed[s] = number of blocks visible on surface s
          inCall,      \* the writer is inside ProcessBlock
          done,        \* surfaces already updated by the current call
          wdone,       \* blocks ProcessBlock has returned for
          pend,        \* pend[p] = <<>> or <<s, lo>>: surface and committed[s] at invocation
          seen,        \* seen[p][s] = newest state a completed read of p saw on s
          nreads
vars == <<committed, inCall, done, wdone, pend, seen, nreads>>

Init == /\ committed = [s \in Surfaces |-> 0] /\ inCall = FALSE /\ done = {} /\ wdone = 0
        /\ pend = [p \in Readers |-> <<>>]
        /\ seen = [p \in Readers |-> [s \in Surfaces |-> 0]] /\ nreads = 0

WInv == /\ ~inCall /\ wdone < MaxBlocks /\ inCall' = TRUE /\ done' = {}
        /\ UNCHANGED <<committed, wdone, pend, seen, nreads>>
\* internal: the block's effects become visible on one surface
Commit(s) == /\ inCall /\ s \notin done /\ done' = done \cup {s}
             /\ committed' = [committed EXCEPT ![s] = @ + 1]
             /\ UNCHANGED <<inCall, wdone, pend, seen, nreads>>
WResp == /\ inCall /\ done = Surfaces /\ inCall' = FALSE /\ wdone' = wdone + 1
         /\ UNCHANGED <<committed, done, pend, seen, nreads>>

RInv(p, s) == /\ pend[p] = <<>> /\ nreads < MaxReads
              /\ pend' = [pend EXCEPT ![p] = <<s, committed[s]>>] /\ nreads' = nreads + 1
              /\ UNCHANGED <<committed, inCall, done, wdone, seen>>
\* the read answers with the value of state k; ks = states compatible with the answer
RResp(p, ks) == /\ pend[p] # <<>>
                /\ LET s == pend[p][1] lo == pend[p][2] IN
                   \E k \in ks : /\ lo <= k /\ k <= committed[s]
                                 /\ seen' = [seen EXCEPT ![p][s] = IF k > @ THEN k ELSE @]
                /\ pend' = [pend EXCEPT ![p] = <<>>]
                /\ UNCHANGED <<committed, inCall, done, wdone, nreads>>

Next == \/ WInv \/ WResp \/ \E s \in Surfaces : Commit(s)
        \/ \E p \in Readers, s \in Surfaces : RInv(p, s)
        \/ \E p \in Readers, k \in 0..MaxBlocks : RResp(p, {k})
Spec == Init /\ [][Next]_vars

TypeOK == wdone \in 0..MaxBlocks /\ \A s \in Surfaces : committed[s] \in 0..MaxBlocks
\* a block is visible on every surface no later than ProcessBlock returns, and on none before it is called
VisibleWithinCall == \A s \in Surfaces : wdone <= committed[s] /\ committed[s] <= wdone + 1
\* no reader ever observes a state that is not committed yet on the surface it read
NoFutureReads == \A p \in Readers, s \in Surfaces : seen[p][s] <= committed[s]
\* a pending read started no later than now
PendingSane == \A p \in Readers : pend[p] # <<>> => pend[p][2] <= committed[pend[p][1]]
=============================================================================
