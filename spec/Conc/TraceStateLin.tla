---------------------------- MODULE TraceStateLin ----------------------------
(* Validation of a recorded concurrent history of the real node against      *)
(* StateLin.tla.  Events are ordered by a sequence number drawn from one      *)
(* atomic counter at invocation and at response.  Commit is not observable    *)
(* (see TRResp / TWResp below for how it is composed in).                     *)
EXTENDS StateLin

CONSTANT TraceFile
Trace == ndJsonDeserialize(TraceFile)
VARIABLE l
tvars == <<vars, l>>
Ev == Trace[l]
IsEv(e) == l <= Len(Trace) /\ Ev.ev = e /\ l' = l + 1

TraceInit == Init /\ l = 1 /\ TLCSet(1, 1)
TReset == /\ IsEv("Reset")
          /\ committed' = [s \in Surfaces |-> 0] /\ inCall' = FALSE /\ done' = {} /\ wdone' = 0
          /\ pend' = [p \in Readers |-> <<>>]
          /\ seen' = [p \in Readers |-> [s \in Surfaces |-> 0]] /\ nreads' = 0
TWInv == IsEv("WInv") /\ WInv
TRInv == IsEv("RInv") /\ RInv(Ev.p, Ev.s)
\* Commit is not observable.  It is composed in lazily: a surface is committed at the
\* latest moment the trace allows, i.e. inside the read response that first shows the
\* new block on it, or when ProcessBlock returns.  This loses no behaviour: moving a
\* commit later only lowers the `lo` of reads invoked in between (which makes them
\* easier to explain) and no earlier response needed it.
KS == {Ev.ks[i] : i \in 1..Len(Ev.ks)}
Explained(p) == \E k \in KS : pend[p][2] <= k /\ k <= committed[pend[p][1]]
TRResp == /\ IsEv("RResp") /\ pend[Ev.p] # <<>>
          /\ IF Explained(Ev.p)
             THEN RResp(Ev.p, KS)
             ELSE LET s == pend[Ev.p][1] k == committed[s] + 1 IN
                  /\ inCall /\ s \notin done /\ k \in KS
                  /\ committed' = [committed EXCEPT ![s] = k] /\ done' = done \cup {s}
                  /\ seen' = [seen EXCEPT ![Ev.p][s] = IF k > @ THEN k ELSE @]
                  /\ pend' = [pend EXCEPT ![Ev.p] = <<>>]
                  /\ UNCHANGED <<inCall, wdone, nreads>>
\* ProcessBlock returns: whatever was not yet shown becomes visible now
TWResp == /\ IsEv("WResp") /\ inCall
          /\ committed' = [s \in Surfaces |-> IF s \in done THEN committed[s] ELSE committed[s] + 1]
          /\ done' = Surfaces /\ inCall' = FALSE /\ wdone' = wdone + 1
          /\ UNCHANGED <<pend, seen, nreads>>

TraceNext == TReset \/ TWInv \/ TWResp \/ TRInv \/ TRResp
TraceSpec == TraceInit /\ [][TraceNext]_tvars
HighWater == IF l > TLCGet(1) THEN TLCSet(1, l) ELSE TRUE
TraceAccepted == IF TLCGet(1) = Len(Trace) + 1 THEN TRUE
                 ELSE PrintT(<<"REJECTED_AT_LINE", TLCGet(1)>>) /\ FALSE
TraceView == <<vars, l>>
=============================================================================
