------------------------------ MODULE FlatFile ------------------------------
(***************************************************************************)
(* C18 - stored blocks read back byte for byte.                            *)
(*                                                                         *)
(* Model of the flat-file block store of database/ffldb (blockio.go) and   *)
(* of the block read calls of a database transaction (db.go).              *)
(*                                                                         *)
(* A stored block is a RECORD  <network 4><length 4> body <crc 4>  that is *)
(* appended at the write cursor of the current flat file; when the record  *)
(* would end beyond MaxFile the store closes the file and starts the next  *)
(* one at offset 0.  The block index row of a block is its location        *)
(* (file, offset of the record, length of the record = |body| + 12).       *)
(* Blocks stored by a transaction stay in memory ("pending") until Commit  *)
(* writes all of them; Reopen closes the database and opens it again, which*)
(* derives the write cursor from the files found on disk.                  *)
(*                                                                         *)
(* Two levels are written down and related by the invariant ReadBack:      *)
(*   - the REFERENCE: a read is defined on the body alone                  *)
(*       FetchBlock(b)          = Body(b)                                  *)
(*       FetchBlockHeader(b)    = FetchBlockRegion(b, 0, Hdr)              *)
(*       FetchBlockRegion(b,o,n)= SubSeq(Body(b), o+1, o+n) if o+n<=|body| *)
(*                                else ErrBlockRegionInvalid               *)
(*     (o, n are unsigned 32-bit numbers; o+n is the mathematical sum)     *)
(*   - the MECHANISM: what the store does with files, offsets and uint32   *)
(*     arithmetic (Impl* operators below), i.e. the layout computations a  *)
(*     defect would sit in.                                                *)
(* TLC checks ReadBack over every history of Store / Commit / Abort /      *)
(* Reopen within the bounds and over a boundary set of regions; the replay *)
(* driver (harness/cmd/flatfile) executes the same histories on the real   *)
(* ffldb with maxBlockFileSize = MaxFile and compares every read with the  *)
(* reference, the block locations and file lengths with the mechanism.     *)
(*                                                                         *)
(* uint32: offsets and lengths of a region live in 0..Wrap-1 and sums wrap *)
(* at Wrap.  TLC integers are 32 bit signed, so Wrap is a constant < 2^30  *)
(* standing for 2^32: the driver maps a model value v >= Wrap-WrapBand to  *)
(* 2^32-(Wrap-v).                                                          *)
(***************************************************************************)
EXTENDS Integers, Sequences, FiniteSets, TLC, Json

CONSTANTS MaxFile,     \* maxBlockFileSize
          Hdr,         \* length FetchBlockHeader reads (84 in the repository)
          Sizes,       \* body sizes a Store may use
          MaxBlocks,   \* bound: blocks stored in one history
          MaxTx,       \* bound: blocks pending in one transaction
          Wrap,        \* stands for 2^32
          TableSizes   \* body sizes of the region decision table

Pre  == 8              \* <network><length> in front of the body
Post == 4              \* <crc> behind it
Frame == Pre + Post

ASSUME /\ \A s \in Sizes \cup TableSizes : s \in 1..(MaxFile - Frame)
       /\ Wrap > 4 * MaxFile /\ Hdr > 1

VARIABLES files,    \* files[i] = sequence of the records [id, sz] in file i-1
          rows,     \* committed block index: set of [id, f, o, l]
          pend,     \* blocks stored by the open transaction: seq of [id, sz]
          cur,      \* write cursor [f, o] (in memory)
          wrote,    \* persisted write cursor row [f, o]
          szOf,     \* size of every block ever stored (by id), also aborted
          dirty,    \* TRUE iff something was committed since the last open
          probe,    \* decision-table mode only: the case [sz, off, len]
          log       \* history variable: the behaviour, for replay

vars == <<files, rows, pend, cur, wrote, szOf, dirty, probe, log>>
view == <<files, rows, pend, cur, wrote, szOf, dirty, probe>>

NoProbe == [sz |-> 0, off |-> 0, len |-> 0]

---------------------------------------------------------------------------
(* Bytes.  A byte is modelled by what it means, so that a read at a wrong  *)
(* offset or of a wrong length can never look right by accident.           *)

Body(id, sz)  == [j \in 1..sz |-> <<"body", id, j>>]

RecBytes(r) ==
    [k \in 1..(r.sz + Frame) |->
        IF k <= 4 THEN <<"net", k>>
        ELSE IF k <= Pre THEN <<"len", r.sz, k - 4>>
        ELSE IF k <= Pre + r.sz THEN <<"body", r.id, k - Pre>>
        ELSE <<"crc", r.id, k - Pre - r.sz>>]

RECURSIVE Cat(_)
Cat(ss) == IF ss = <<>> THEN <<>> ELSE Head(ss) \o Cat(Tail(ss))

\* the bytes of every file (computed once per state: fb[i + 1] = file i)
AllBytes == [i \in 1..Len(files) |-> Cat([k \in 1..Len(files[i]) |-> RecBytes(files[i][k])])]

RECURSIVE SumLen(_)
SumLen(rs) == IF rs = <<>> THEN 0 ELSE Head(rs).sz + Frame + SumLen(Tail(rs))
FileLen(i) == SumLen(files[i + 1])

\* Every read yields a result record: err = "" and the bytes, or an error.
Ok(bs)  == [err |-> "", data |-> bs]
Fail(e) == [err |-> e, data |-> <<>>]

\* ReadAt of a file: a short read is an error (io.EOF / unexpected EOF)
ReadAt(fb, i, off, n) ==
    IF i + 1 > Len(fb) THEN Fail("ErrDriverSpecific")
    ELSE IF off + n > Len(fb[i + 1]) THEN Fail("ErrDriverSpecific")
    ELSE Ok(SubSeq(fb[i + 1], off + 1, off + n))

---------------------------------------------------------------------------
(* REFERENCE semantics of the read calls (what C18 demands).               *)

Err == Fail("ErrBlockRegionInvalid")
NotFound == Fail("ErrBlockNotFound")

RegionValid(sz, off, len) == off + len <= sz        \* mathematical sum

RefRegionOf(body, off, len) ==      \* body = Body(id, sz)
    IF RegionValid(Len(body), off, len) THEN Ok(SubSeq(body, off + 1, off + len)) ELSE Err
RefRegion(id, sz, off, len) == RefRegionOf(Body(id, sz), off, len)

\* FetchBlockRegions: all or nothing
RefRegions(qs) ==       \* qs: sequence of [id, sz, off, len]
    IF \A i \in 1..Len(qs) : RegionValid(qs[i].sz, qs[i].off, qs[i].len)
    THEN Ok([i \in 1..Len(qs) |-> RefRegion(qs[i].id, qs[i].sz, qs[i].off, qs[i].len).data])
    ELSE Err

---------------------------------------------------------------------------
(* MECHANISM.                                                              *)

PendIds  == {pend[i].id : i \in 1..Len(pend)}
RowIds   == {r.id : r \in rows}
RowOf(id) == CHOOSE r \in rows : r.id = id
Visible  == PendIds \cup RowIds         \* HasBlock from inside the transaction

U32Add(a, b) == (a + b) % Wrap

\* bounds check of a region against a block of bodyLen bytes, as the code
\* does it in uint32 arithmetic: reject on wrap-around or when past the end
ImplBoundOK(bodyLen, off, len) ==
    LET end == U32Add(off, len) IN ~(end < off \/ end > bodyLen)

\* transaction.FetchBlock: pending bytes from memory, otherwise readBlock
\* (whole record, checksum and network verified, framing stripped)
ImplFetchBlock(fb, id) ==
    IF id \in PendIds THEN Ok(Body(id, szOf[id]))
    ELSE IF id \notin RowIds THEN NotFound
    ELSE LET r == RowOf(id)
             rd == ReadAt(fb, r.f, r.o, r.l) IN
         IF rd.err # "" THEN rd
         ELSE IF rd.data # RecBytes([id |-> id, sz |-> r.l - Frame]) THEN Fail("ErrCorruption")
         ELSE Ok(SubSeq(rd.data, Pre + 1, r.l - Post))

\* transaction.FetchBlockRegion: pending -> slice of the memory copy;
\* stored -> bounds check against the body length recorded in the row, then
\* readBlockRegion at record offset + 8 + region offset
ImplFetchRegion(fb, id, off, len) ==
    IF id \in PendIds
    THEN IF ImplBoundOK(szOf[id], off, len)
         THEN Ok(SubSeq(Body(id, szOf[id]), off + 1, off + len)) ELSE Err
    ELSE IF id \notin RowIds THEN NotFound
    ELSE LET r == RowOf(id) IN
         IF ~ImplBoundOK(r.l - Frame, off, len) THEN Err
         ELSE ReadAt(fb, r.f, U32Add(r.o + Pre, off), len)

\* blockStore.writeBlock: where the record of a block of sz bytes goes
Roll(c, sz)    == c.o + sz + Frame > MaxFile
LocFor(c, sz)  == IF Roll(c, sz) THEN [f |-> c.f + 1, o |-> 0] ELSE c
AppendRec(fs, f, r) ==
    LET fs1 == IF f + 1 > Len(fs) THEN Append(fs, <<>>) ELSE fs
    IN [fs1 EXCEPT ![f + 1] = Append(@, r)]

\* writing the pending blocks one after the other (writePendingAndCommit)
RECURSIVE WriteAll(_, _, _, _)
WriteAll(ps, fs, c, rs) ==
    IF ps = <<>> THEN [files |-> fs, cur |-> c, rows |-> rs]
    ELSE LET p == Head(ps)
             at == LocFor(c, p.sz)
         IN WriteAll(Tail(ps), AppendRec(fs, at.f, p),
                     [f |-> at.f, o |-> at.o + p.sz + Frame],
                     rs \cup {[id |-> p.id, f |-> at.f, o |-> at.o, l |-> p.sz + Frame]})

\* scanBlockFiles: end of the highest numbered file present
Scan == IF files = <<>> THEN [f |-> 0, o |-> 0]
        ELSE [f |-> Len(files) - 1, o |-> FileLen(Len(files) - 1)]

---------------------------------------------------------------------------
(* What a step shows to the outside (replayed and compared by the driver). *)

Shown(fs, rs, pd, c, so) ==
    [blocks |-> [id \in 1..Len(so) |->
                    IF \E i \in 1..Len(pd) : pd[i].id = id
                    THEN [sz |-> so[id], st |-> "pending", f |-> 0, o |-> 0]
                    ELSE IF \E r \in rs : r.id = id
                    THEN LET r == CHOOSE r \in rs : r.id = id
                         IN [sz |-> so[id], st |-> "stored", f |-> r.f, o |-> r.o]
                    ELSE [sz |-> so[id], st |-> "absent", f |-> 0, o |-> 0]],
     cur |-> c,
     flens |-> [i \in 1..Len(fs) |-> SumLen(fs[i])]]

Log(act, args) ==
    log' = Append(log, [act |-> act, args |-> args,
                        shown |-> Shown(files', rows', pend', cur', szOf')])

Init == /\ files = <<>> /\ rows = {} /\ pend = <<>>
        /\ cur = [f |-> 0, o |-> 0] /\ wrote = [f |-> 0, o |-> 0]
        /\ szOf = <<>> /\ dirty = FALSE /\ probe = NoProbe /\ log = <<>>

(* tx.StoreBlock(hash, bytes) inside a read-write transaction (begun on    *)
(* demand): the block becomes pending.                                     *)
Store(sz) ==
    /\ Len(szOf) < MaxBlocks /\ Len(pend) < MaxTx
    /\ LET id == Len(szOf) + 1 IN
         /\ pend' = Append(pend, [id |-> id, sz |-> sz])
         /\ szOf' = Append(szOf, sz)
    /\ UNCHANGED <<files, rows, cur, wrote, dirty, probe>>
    /\ Log("Store", [sz |-> sz])

(* tx.Commit(): every pending block is appended, its row written, and the  *)
(* write cursor row updated.                                               *)
Commit ==
    /\ pend # <<>>
    /\ LET w == WriteAll(pend, files, cur, rows) IN
         /\ files' = w.files /\ cur' = w.cur /\ rows' = w.rows /\ wrote' = w.cur
    /\ pend' = <<>> /\ dirty' = TRUE
    /\ UNCHANGED <<szOf, probe>>
    /\ Log("Commit", [n |-> Len(pend)])

(* tx.Rollback(): pending blocks are forgotten. *)
Abort ==
    /\ pend # <<>>
    /\ pend' = <<>>
    /\ UNCHANGED <<files, rows, cur, wrote, szOf, dirty, probe>>
    /\ Log("Abort", [n |-> Len(pend)])

(* db.Close(); database.Open(): the cursor is found by scanning the files  *)
(* and must agree with the persisted one (otherwise reconcileDB repairs or *)
(* refuses - the subject of C17, impossible here: see CursorAtEnd).        *)
Reopen ==
    /\ pend = <<>> /\ dirty
    /\ cur' = Scan /\ dirty' = FALSE
    /\ UNCHANGED <<files, rows, pend, wrote, szOf, probe>>
    /\ Log("Reopen", [x |-> 0])

Next == \/ \E sz \in Sizes : Store(sz)
        \/ Commit \/ Abort \/ Reopen

Spec == Init /\ [][Next]_vars

---------------------------------------------------------------------------
(* Regions probed: the boundary set of DESIGN.md for a block of sz bytes.  *)
Bnd(sz) == {x \in {0, 1, Hdr - 1, Hdr, sz - 1, sz, sz + 1, sz + 8, sz + 12,
                   Wrap - sz, Wrap - 1} : x >= 0 /\ x < Wrap}

(* C18.  Every visible block reads back exactly, whole and by region,      *)
(* pending or stored, in whichever file it landed.                         *)
ReadBack ==
    LET fb == AllBytes IN
    \A id \in Visible :
        LET sz == szOf[id]
            body == Body(id, sz) IN
          /\ ImplFetchBlock(fb, id) = Ok(body)
          /\ \A off \in Bnd(sz), len \in Bnd(sz) :
                ImplFetchRegion(fb, id, off, len) = RefRegionOf(body, off, len)

\* blocks that were never committed (aborted) are not there
AbsentNotFound ==
    \A id \in (1..Len(szOf)) \ Visible :
        ImplFetchBlock(<<>>, id) = NotFound /\ ImplFetchRegion(<<>>, id, 0, 1) = NotFound

\* layout facts the reads rest on
CursorAtEnd == /\ (dirty \/ files # <<>>) => cur = Scan
               /\ pend = <<>> => wrote = cur
RecordsDisjoint ==
    \A r \in rows :
        /\ r.f + 1 <= Len(files) /\ r.o + r.l <= FileLen(r.f)
        /\ \A q \in rows : (q.id # r.id /\ q.f = r.f) => (q.o + q.l <= r.o \/ r.o + r.l <= q.o)
NoFileTooLong == \A i \in 1..Len(files) : SumLen(files[i]) <= MaxFile
TypeOK == /\ cur.f \in 0..MaxBlocks /\ cur.o \in 0..MaxFile
          /\ Len(szOf) <= MaxBlocks /\ Len(pend) <= MaxTx

---------------------------------------------------------------------------
(* Region decision table: one initial state per case (sz, off, len); the   *)
(* single step writes the reference verdict.  The driver applies the table *)
(* to every visible block of every history (pending, stored, reopened).    *)
TableInit ==
    /\ files = <<>> /\ rows = {} /\ pend = <<>>
    /\ cur = [f |-> 0, o |-> 0] /\ wrote = [f |-> 0, o |-> 0]
    /\ szOf = <<>> /\ dirty = FALSE /\ log = <<>>
    /\ \E sz \in TableSizes : \E off \in Bnd(sz), len \in Bnd(sz) :
          probe = [sz |-> sz, off |-> off, len |-> len]

Decide ==
    /\ probe # NoProbe /\ log = <<>>
    /\ log' = <<[act |-> "Case", args |-> probe,
                 exp |-> IF RegionValid(probe.sz, probe.off, probe.len)
                         THEN "ok" ELSE "err"]>>
    /\ UNCHANGED <<files, rows, pend, cur, wrote, szOf, dirty, probe>>

TableSpec == TableInit /\ [][Decide]_vars

\* the uint32 bound check of the mechanism decides exactly like the reference
BoundCheckExact ==
    probe # NoProbe =>
        (ImplBoundOK(probe.sz, probe.off, probe.len) <=> RegionValid(probe.sz, probe.off, probe.len))

\* Used with ACTION_CONSTRAINT to print one behaviour per explored edge.
Emit == PrintT(<<"TRACE", ToJson(log')>>)
=============================================================================
