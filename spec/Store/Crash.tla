------------------------------- MODULE Crash -------------------------------
(***************************************************************************)
(* C17 - the block database (database/ffldb) survives a crash at any point.*)
(*                                                                         *)
(* Model of the durable-write protocol of ffldb:                           *)
(*                                                                         *)
(*   transaction.writePendingAndCommit   (db.go)                           *)
(*     for every pending block: blockStore.writeBlock (blockio.go):        *)
(*        roll over to the next flat file if the record does not fit,      *)
(*        open (create) the write file if no handle is open,               *)
(*        write <network> <block length> <block> <checksum>,               *)
(*        stage the block index row (in memory);                           *)
(*     stage the write-cursor row (in memory);                             *)
(*     dbCache.commitTx (dbcache.go): either merge the staged rows into the*)
(*        write cache (in memory), or flush: sync the block file, write    *)
(*        the cached rows to leveldb in one atomic batch, then write the   *)
(*        rows of this transaction in a second atomic batch;               *)
(*   db.Close: flush, then a clean stop;                                   *)
(*   openDB -> reconcileDB (reconcile.go): the cursor found by scanning the*)
(*     flat files is compared with the persisted cursor row: files beyond  *)
(*     it are deleted and the cursor file truncated (handleRollback); a    *)
(*     persisted cursor beyond the files is reported as corruption.        *)
(*                                                                         *)
(* One action per durable step (each is one call of the crash-point hook   *)
(* `verifCrashPoint(name)` in the code, same name), a Crash action enabled *)
(* between any two steps (also during the roll-back of a recovery) that    *)
(* drops all volatile state, and Open = scan + reconcile.                  *)
(*                                                                         *)
(* Durable state: the flat files (as sequences of pieces of records, so    *)
(* that torn records exist) and the leveldb content `ldb` = [n, rows, cur]:*)
(* n stands for the caller's metadata (commit number n wrote it), rows is  *)
(* the block index, cur the write-cursor row.  leveldb batches are atomic. *)
(***************************************************************************)
EXTENDS Integers, Sequences, FiniteSets, TLC, Json

CONSTANTS MaxFile,      \* maxBlockFileSize
          BlockSizes,   \* body sizes of the blocks a commit may store
          MaxTxBlocks,  \* blocks per commit: 0..MaxTxBlocks
          FlushModes,   \* subset of BOOLEAN: may a commit flush / stay cached
          MaxCommits,   \* bound: commits begun in one behaviour
          MaxCrashes,   \* bound: crashes in one behaviour
          MaxCloses     \* bound: clean Close + reopen in one behaviour

Frame == 12
Parts == <<"network", "block length", "block", "checksum">>
PartLen(part, sz) == IF part = "block" THEN sz ELSE 4

ASSUME \A s \in BlockSizes : s \in 1..(MaxFile - Frame)

VARIABLES files,    \* durable : files[i] = pieces [id, part, n] of flat file i-1
          ldb,      \* durable : [n, rows, cur]
          wc,       \* volatile: write cursor [f, o]
          hopen,    \* volatile: a write file handle is open
          cache,    \* volatile: metadata as of the last cached commit, or Nil
          tx,       \* volatile: the commit in progress
          pc,       \* control state of the process
          hist,     \* ghost: metadata after every completed commit of this process
          flushed,  \* ghost: index in hist of the last state known to be in leveldb
          infl,     \* ghost: metadata the commit in progress will produce (once staged)
          acted,    \* ghost: this process has passed a crash point
          nextId, ncommit, ncrash, nclose,   \* bounds
          log       \* history variable: the behaviour, for replay

vars == <<files, ldb, wc, hopen, cache, tx, pc, hist, flushed, infl, acted,
          nextId, ncommit, ncrash, nclose, log>>
view == <<files, ldb, wc, hopen, cache, tx, pc, hist, flushed, infl, acted,
          nextId, ncommit, ncrash, nclose>>

At(f, o) == [f |-> f, o |-> o]
M0  == [n |-> 0, rows |-> {}, cur |-> At(0, 0)]
Nil == [n |-> -1, rows |-> {}, cur |-> At(0, 0)]
NoTx == [blocks |-> <<>>, flush |-> FALSE, k |-> 0, rows |-> {}, start |-> 0]

\* what readers of this process see
Vis == IF cache.n >= 0 THEN cache ELSE ldb

RECURSIVE FLen(_)
FLen(ps) == IF ps = <<>> THEN 0 ELSE Head(ps).n + FLen(Tail(ps))

\* scanBlockFiles: end of the highest numbered file present
Scan(fs) == IF fs = <<>> THEN At(0, 0) ELSE At(Len(fs) - 1, FLen(fs[Len(fs)]))
After(a, b) == a.f > b.f \/ (a.f = b.f /\ a.o > b.o)

\* file.Truncate(x)
RECURSIVE Cut(_, _)
Cut(ps, x) == IF x <= 0 \/ ps = <<>> THEN <<>>
              ELSE IF Head(ps).n <= x THEN <<Head(ps)>> \o Cut(Tail(ps), x - Head(ps).n)
              ELSE <<[Head(ps) EXCEPT !.n = x]>>

\* the record of block id (sz body bytes) is completely present at offset o
Complete(ps, o, id, sz) ==
    \E i \in 1..(Len(ps) - 3) :
        /\ FLen(SubSeq(ps, 1, i - 1)) = o
        /\ \A j \in 1..4 : ps[i + j - 1] = [id |-> id, part |-> Parts[j], n |-> PartLen(Parts[j], sz)]

\* the files as a complete recovery leaves them, given the persisted cursor
Recovered(fs, c) ==
    IF After(Scan(fs), c)
    THEN [i \in 1..(c.f + 1) |-> IF i = c.f + 1 THEN Cut(fs[i], c.o) ELSE fs[i]]
    ELSE fs

\* what a reopen shows if the process stops now: the prediction the replay
\* driver compares the real database with
Expect == [n |-> ldb.n,
           ids |-> {r.id : r \in ldb.rows},
           flens |-> LET rf == Recovered(files, ldb.cur) IN [i \in 1..Len(rf) |-> FLen(rf[i])]]

\* C17: the states the property allows a reopen to show
Allowed == {hist[k] : k \in flushed..Len(hist)} \cup (IF infl.n >= 0 THEN {infl} ELSE {})

Hook(name)       == log' = Append(log, [act |-> name, h |-> 1, at |-> Scan(files')])
HookC(name, c)   == log' = Append(log, [act |-> name, h |-> 1, at |-> Scan(files'), c |-> c])
Cmd(name)        == log' = Append(log, [act |-> name, h |-> 0])
CmdX(name)       == log' = Append(log, [act |-> name, h |-> 0, exp |-> Expect,
                                        allowed |-> {m.n : m \in Allowed}])

Init == /\ files = <<>> /\ ldb = M0
        /\ wc = At(0, 0) /\ hopen = FALSE /\ cache = Nil /\ tx = NoTx /\ pc = "idle"
        /\ hist = <<M0>> /\ flushed = 1 /\ infl = Nil /\ acted = FALSE
        /\ nextId = 1 /\ ncommit = 0 /\ ncrash = 0 /\ nclose = 0 /\ log = <<>>

---------------------------------------------------------------------------
(* A commit: db.Update(fn) whose fn stores the blocks and writes metadata.  *)

SeqsUpTo(S, n) == UNION {[1..k -> S] : k \in 0..n}

Begin(szs, fl) ==
    /\ pc = "idle" /\ ncommit < MaxCommits
    /\ tx' = [blocks |-> [i \in 1..Len(szs) |-> [id |-> nextId + i - 1, sz |-> szs[i]]],
              flush |-> fl, k |-> 1, rows |-> {}, start |-> 0]
    /\ nextId' = nextId + Len(szs) /\ ncommit' = ncommit + 1
    /\ pc' = IF szs = <<>> THEN "stage" ELSE "blk"
    /\ acted' = TRUE
    /\ UNCHANGED <<files, ldb, wc, hopen, cache, hist, flushed, infl, ncrash, nclose>>
    /\ HookC("commit:begin", [n |-> Vis.n + 1, blocks |-> tx'.blocks, flush |-> fl])

B == tx.blocks[tx.k]
NeedRoll == wc.o + B.sz + Frame > MaxFile
Ready == (pc = "blk" /\ ~NeedRoll) \/ pc = "blk2"

(* writeBlock: the record does not fit -> close the file, move to the next *)
Rollover ==
    /\ pc = "blk" /\ NeedRoll
    /\ wc' = At(wc.f + 1, 0) /\ hopen' = FALSE /\ pc' = "blk2"
    /\ UNCHANGED <<files, ldb, cache, tx, hist, flushed, infl, acted, nextId, ncommit, ncrash, nclose>>
    /\ Hook("block:rollover")

(* writeBlock: no open handle -> openWriteFile (O_CREATE) *)
OpenFile ==
    /\ Ready /\ ~hopen
    /\ wc.f <= Len(files)
    /\ files' = IF wc.f + 1 > Len(files) THEN Append(files, <<>>) ELSE files
    /\ hopen' = TRUE /\ pc' = "network"
    /\ UNCHANGED <<ldb, wc, cache, tx, hist, flushed, infl, acted, nextId, ncommit, ncrash, nclose>>
    /\ Hook("block:file-opened")

(* writeData: one field of the record at the cursor *)
WritePart(j) ==
    /\ IF j = 1 THEN (Ready /\ hopen) \/ pc = "network" ELSE pc = Parts[j]
    /\ wc.f + 1 <= Len(files)
    /\ LET n == PartLen(Parts[j], B.sz) IN
         /\ files' = [files EXCEPT ![wc.f + 1] = Append(@, [id |-> B.id, part |-> Parts[j], n |-> n])]
         /\ wc' = At(wc.f, wc.o + n)
    /\ IF j = 1 THEN tx' = [tx EXCEPT !.start = wc.o] /\ pc' = Parts[2]
       ELSE IF j < 4 THEN tx' = tx /\ pc' = Parts[j + 1]
       ELSE /\ tx' = [tx EXCEPT !.rows = @ \cup {[id |-> B.id, f |-> wc.f, o |-> tx.start, l |-> B.sz + Frame]},
                                !.k = @ + 1]
            /\ pc' = IF tx.k = Len(tx.blocks) THEN "stage" ELSE "blk"
    /\ UNCHANGED <<ldb, hopen, cache, hist, flushed, infl, acted, nextId, ncommit, ncrash, nclose>>
    /\ Hook(Parts[j])

NewMeta == [n |-> Vis.n + 1, rows |-> Vis.rows \cup tx.rows, cur |-> wc]

(* the write-cursor row is staged; from here on the commit is "interrupted, *)
(* possibly visible" should the process stop                                *)
Stage ==
    /\ pc = "stage" /\ pc' = "commit" /\ infl' = NewMeta
    /\ UNCHANGED <<files, ldb, wc, hopen, cache, tx, hist, flushed, acted, nextId, ncommit, ncrash, nclose>>
    /\ Hook("commit:staged")

(* commitTx without flush: the rows go to the write cache *)
CacheTx ==
    /\ pc = "commit" /\ ~tx.flush
    /\ cache' = NewMeta /\ hist' = Append(hist, NewMeta) /\ infl' = Nil
    /\ tx' = NoTx /\ pc' = "idle"
    /\ UNCHANGED <<files, ldb, wc, hopen, flushed, acted, nextId, ncommit, ncrash, nclose>>
    /\ Hook("cache:tx-cached")

(* commitTx with flush: syncBlocks ... *)
FlushSync ==
    /\ pc = "commit" /\ tx.flush
    /\ pc' = IF cache.n >= 0 THEN "flwrite" ELSE "txwrite"
    /\ UNCHANGED <<files, ldb, wc, hopen, cache, tx, hist, flushed, infl, acted, nextId, ncommit, ncrash, nclose>>
    /\ Hook("flush:synced")

(* ... the cached commits in one leveldb batch ... *)
FlushWrite ==
    /\ pc = "flwrite"
    /\ ldb' = cache /\ cache' = Nil /\ flushed' = Len(hist) /\ pc' = "txwrite"
    /\ UNCHANGED <<files, wc, hopen, tx, hist, infl, acted, nextId, ncommit, ncrash, nclose>>
    /\ Hook("flush:written")

(* ... then this transaction in a second batch *)
TxWrite ==
    /\ pc = "txwrite"
    /\ ldb' = NewMeta /\ hist' = Append(hist, NewMeta) /\ flushed' = Len(hist) + 1 /\ infl' = Nil
    /\ tx' = NoTx /\ pc' = "idle"
    /\ UNCHANGED <<files, wc, hopen, cache, acted, nextId, ncommit, ncrash, nclose>>
    /\ Hook("cache:tx-written")

---------------------------------------------------------------------------
(* db.Close(): flush, then the process ends cleanly. *)
Close ==
    /\ pc = "idle" /\ nclose < MaxCloses /\ acted
    /\ pc' = "clsync" /\ nclose' = nclose + 1
    /\ UNCHANGED <<files, ldb, wc, hopen, cache, tx, hist, flushed, infl, acted, nextId, ncommit, ncrash>>
    /\ Cmd("Close")

CloseSync ==
    /\ pc = "clsync"
    /\ pc' = IF cache.n >= 0 THEN "clwrite" ELSE "exit"
    /\ UNCHANGED <<files, ldb, wc, hopen, cache, tx, hist, flushed, infl, acted, nextId, ncommit, ncrash, nclose>>
    /\ Hook("flush:synced")

CloseWrite ==
    /\ pc = "clwrite"
    /\ ldb' = cache /\ cache' = Nil /\ flushed' = Len(hist) /\ pc' = "exit"
    /\ UNCHANGED <<files, wc, hopen, tx, hist, infl, acted, nextId, ncommit, ncrash, nclose>>
    /\ Hook("flush:written")

Stop == /\ wc' = At(0, 0) /\ hopen' = FALSE /\ cache' = Nil /\ tx' = NoTx /\ pc' = "down"

Exit ==
    /\ pc = "exit" /\ Stop
    /\ UNCHANGED <<files, ldb, hist, flushed, infl, acted, nextId, ncommit, ncrash, nclose>>
    /\ CmdX("Exit")

(* The process stops (SIGKILL, power button): everything volatile is gone. *)
Crash ==
    /\ pc \notin {"down", "corrupt"} /\ acted /\ ncrash < MaxCrashes
    /\ Stop /\ ncrash' = ncrash + 1
    /\ UNCHANGED <<files, ldb, hist, flushed, infl, acted, nextId, ncommit, nclose>>
    /\ CmdX("Crash")

(* The same while the body of a record is being written: only a part of    *)
(* the body has reached the file (torn write).                              *)
TornCrash ==
    /\ pc = "checksum" /\ B.sz > 1 /\ ncrash < MaxCrashes
    /\ LET lost == B.sz \div 2
           f == files[wc.f + 1] IN
         /\ files' = [files EXCEPT ![wc.f + 1] = Cut(f, FLen(f) - lost)]
         /\ log' = Append(log, [act |-> "Crash", h |-> 0, torn |-> lost, exp |-> Expect,
                                 allowed |-> {m.n : m \in Allowed}])
    /\ Stop /\ ncrash' = ncrash + 1
    /\ UNCHANGED <<ldb, hist, flushed, infl, acted, nextId, ncommit, nclose>>

---------------------------------------------------------------------------
(* openDB: newBlockStore scans the files, reconcileDB compares with the    *)
(* persisted cursor.                                                       *)
Open ==
    /\ pc = "down"
    /\ LET s == Scan(files) IN
         /\ wc' = s
         /\ pc' = IF After(ldb.cur, s) THEN "corrupt"
                  ELSE IF ~After(s, ldb.cur) THEN "idle"
                  ELSE IF s.f > ldb.cur.f THEN "rbdel" ELSE "rbtrunc"
    /\ hist' = <<ldb>> /\ flushed' = 1 /\ infl' = Nil /\ acted' = FALSE
    /\ UNCHANGED <<files, ldb, hopen, cache, tx, nextId, ncommit, ncrash, nclose>>
    /\ Cmd("Open")

(* handleRollback: delete the files beyond the persisted cursor file ... *)
RbDelete ==
    /\ pc = "rbdel"
    /\ files' = SubSeq(files, 1, Len(files) - 1)
    /\ wc' = At(wc.f - 1, wc.o)
    /\ pc' = IF wc.f - 1 > ldb.cur.f THEN "rbdel" ELSE "rbtrunc"
    /\ acted' = TRUE
    /\ UNCHANGED <<ldb, hopen, cache, tx, hist, flushed, infl, nextId, ncommit, ncrash, nclose>>
    /\ Hook("rollback:deleted")

(* ... open the cursor file and truncate it to the persisted offset ... *)
RbTruncate ==
    /\ pc = "rbtrunc"
    /\ files' = [files EXCEPT ![ldb.cur.f + 1] = Cut(@, ldb.cur.o)]
    /\ hopen' = TRUE /\ pc' = "rbsync" /\ acted' = TRUE
    /\ UNCHANGED <<ldb, wc, cache, tx, hist, flushed, infl, nextId, ncommit, ncrash, nclose>>
    /\ Hook("rollback:truncated")

(* ... sync it; the write cursor is the persisted one *)
RbSync ==
    /\ pc = "rbsync"
    /\ wc' = ldb.cur /\ pc' = "idle"
    /\ UNCHANGED <<files, ldb, hopen, cache, tx, hist, flushed, infl, acted, nextId, ncommit, ncrash, nclose>>
    /\ Hook("rollback:synced")

Next == \/ \E szs \in SeqsUpTo(BlockSizes, MaxTxBlocks), fl \in FlushModes : Begin(szs, fl)
        \/ Rollover \/ OpenFile \/ \E j \in 1..4 : WritePart(j)
        \/ Stage \/ CacheTx \/ FlushSync \/ FlushWrite \/ TxWrite
        \/ Close \/ CloseSync \/ CloseWrite \/ Exit
        \/ Crash \/ TornCrash \/ Open \/ RbDelete \/ RbTruncate \/ RbSync

Spec == Init /\ [][Next]_vars

---------------------------------------------------------------------------
(* C17 *)

\* reopening never reports corruption (persisted cursor beyond the files)
NeverCorrupt == pc # "corrupt"

\* a stopped process: what a reopen will show (leveldb, the cache is gone) is
\* the state after a completed-commit prefix that contains every flushed
\* commit, or that plus the interrupted commit - never a mixture
StopShowsAllowedState == pc = "down" => ldb \in Allowed

\* with every commit flushing, that is: exactly the last completed commit or
\* the interrupted one
StrictWhenFlushing == (FlushModes = {TRUE} /\ pc \in {"idle", "down"}) => flushed = Len(hist)

\* a clean Close makes every completed commit durable
CloseIsDurable == pc = "exit" => ldb = hist[Len(hist)]

\* no block is readable unless fully written: every visible row - at any
\* moment, for the readers of this process and for a reopen - points at a
\* complete record
VisibleBlocksComplete ==
    /\ \A r \in Vis.rows :      \* readers of the running process
          r.f + 1 <= Len(files) /\ Complete(files[r.f + 1], r.o, r.id, r.l - Frame)
    /\ LET rf == Recovered(files, ldb.cur) IN
       \A r \in ldb.rows :     \* readers after a stop and reopen
          r.f + 1 <= Len(rf) /\ Complete(rf[r.f + 1], r.o, r.id, r.l - Frame)

\* between commits (in particular after a recovery) the process shows the
\* last completed commit, its cursor is the visible cursor row and the files
\* end exactly there: later commits continue from a clean position
IdleConsistent ==
    pc = "idle" => /\ Vis = hist[Len(hist)]
                   /\ wc = Vis.cur
                   /\ Scan(files) = Vis.cur

\* writes append: the cursor offset is the length of the write file
WritesAppend == (pc \in {"network", "block length", "block", "checksum"})
                    => (wc.f + 1 <= Len(files) /\ FLen(files[wc.f + 1]) = wc.o)

NoFileTooLong == \A i \in 1..Len(files) : FLen(files[i]) <= MaxFile

TypeOK == /\ pc \in {"idle", "blk", "blk2", "network", "block length", "block", "checksum", "stage",
                     "commit", "flwrite", "txwrite", "clsync", "clwrite", "exit", "down",
                     "rbdel", "rbtrunc", "rbsync", "corrupt"}
          /\ flushed \in 1..Len(hist) /\ ncommit <= MaxCommits /\ ncrash <= MaxCrashes

\* Used with ACTION_CONSTRAINT: print the behaviour at every stop of the
\* process (crash or clean exit); the replay driver re-enacts it.
EmitStop == (pc' = "down" /\ pc # "down") => PrintT(<<"TRACE", ToJson(log')>>)
Emit == PrintT(<<"TRACE", ToJson(log')>>)
=============================================================================
