----------------------------- MODULE TraceCrash -----------------------------
(* Trace validation for Crash.tla.  The trace is what the real ffldb reported *)
(* through its crash-point hook in seeded random scenarios (several process   *)
(* lifetimes per database, ended by SIGKILL at a random crash point, by a     *)
(* plain exit or by a clean Close; blocks of any size that fits a file), plus *)
(* what the reopened database showed after every stop.                        *)
(*                                                                            *)
(* Accepted iff every reported step is the step Crash.tla takes there - same  *)
(* name, same end of the flat files on disk - and every reopened database     *)
(* shows exactly the state the spec predicts (Expect), which the invariants   *)
(* of Crash.tla tie to the property.                                          *)
EXTENDS Crash

CONSTANT TraceFile
Trace == ndJsonDeserialize(TraceFile)

VARIABLE l
tvars == <<vars, l>>

Ev == Trace[l]
IsEv(e) == l <= Len(Trace) /\ Ev.ev = e /\ l' = l + 1
Last == log'[Len(log')]

TraceInit == Init /\ l = 1 /\ TLCSet(1, 1)

TReset == /\ IsEv("Reset")
          /\ files' = <<>> /\ ldb' = M0
          /\ wc' = At(0, 0) /\ hopen' = FALSE /\ cache' = Nil /\ tx' = NoTx /\ pc' = "idle"
          /\ hist' = <<M0>> /\ flushed' = 1 /\ infl' = Nil /\ acted' = FALSE
          /\ nextId' = 1 /\ ncommit' = 0 /\ ncrash' = 0 /\ nclose' = 0 /\ log' = <<>>

\* a commit begins with exactly the recorded blocks (ids are handed out in order)
TBegin == /\ IsEv("Step") /\ Ev.name = "commit:begin"
          /\ Begin([i \in 1..Len(Ev.c.blocks) |-> Ev.c.blocks[i].sz], Ev.c.flush)
          /\ Last.c.n = Ev.c.n
          /\ \A i \in 1..Len(Ev.c.blocks) : tx'.blocks[i].id = Ev.c.blocks[i].id
          /\ Last.at = Ev.at

TStep == /\ IsEv("Step") /\ Ev.name # "commit:begin"
         /\ \/ Rollover \/ OpenFile \/ \E j \in 1..4 : WritePart(j)
            \/ Stage \/ CacheTx \/ FlushSync \/ FlushWrite \/ TxWrite
            \/ CloseSync \/ CloseWrite \/ RbDelete \/ RbTruncate \/ RbSync
         /\ Last.act = Ev.name /\ Last.at = Ev.at

TClose == IsEv("Close") /\ Close
TOpen  == IsEv("Open") /\ Open

Shown == [n |-> Ev.obs.n, ids |-> {Ev.obs.ids[i] : i \in 1..Len(Ev.obs.ids)}, flens |-> Ev.obs.flens]
TExit  == IsEv("Exit") /\ Exit /\ Expect = Shown
TCrash == IsEv("Crash") /\ Crash /\ Expect = Shown

TraceNext == TReset \/ TBegin \/ TStep \/ TClose \/ TOpen \/ TExit \/ TCrash
TraceSpec == TraceInit /\ [][TraceNext]_tvars

\* high-water mark of consumed trace lines (register 1)
HighWater == IF l > TLCGet(1) THEN TLCSet(1, l) ELSE TRUE
TraceAccepted == TLCGet(1) = Len(Trace) + 1
TraceView == <<view, l>>
=============================================================================
