--------------------------------- MODULE KV ---------------------------------
(***************************************************************************)
(* Reference semantics of the metadata side of database/ffldb (C16): an    *)
(* ordered, transactional key/value store with nested buckets, as the      *)
(* interface database.DB / Tx / Bucket / Cursor (database/interface.go)    *)
(* documents it.                                                           *)
(*                                                                         *)
(* A *tree* maps every existing bucket path (a sequence of bucket names,   *)
(* <<>> = the metadata root) to that bucket's ordered map key -> value.    *)
(*   db          the committed tree                                        *)
(*   txtree[t]   what transaction t sees: the committed tree at Begin      *)
(*               (snapshot) with t's own writes applied.  ffldb realises   *)
(*               it as snapshot + pendingKeys/pendingRemove overlay and    *)
(*               the write cache as cachedKeys/cachedRemove over leveldb;  *)
(*               neither is state here: the property says answers do not   *)
(*               depend on them, and the replay driver runs every          *)
(*               behaviour under several cache settings and with the       *)
(*               database closed and reopened at every quiescent point.    *)
(*   "w"         the single read-write transaction, "r1","r2" two          *)
(*               read-only snapshots that may be open at the same time     *)
(*   cur         one cursor (of any open transaction)                      *)
(*                                                                         *)
(* Keys and bucket names are 1..NK / 1..NB (0 = the empty byte string);    *)
(* the driver maps them order-preservingly to byte strings where name b    *)
(* and key b are the SAME bytes (ffldb keeps keys and nested buckets of a  *)
(* bucket in separate namespaces).  Values are small integers (0 = empty   *)
(* value, which must read back as an empty non-nil slice).                 *)
(*                                                                         *)
(* ffldb specifics that are visible through the interface and therefore    *)
(* part of the model:                                                      *)
(*  - the metadata root holds the internal key "ffldb-writeloc" (RK) and   *)
(*    the internal bucket "ffldb-blockidx" (RB); user operations never     *)
(*    touch them but cursors and ForEach over the root meet them;          *)
(*  - a cursor runs over all keys in ascending order and then over all     *)
(*    nested buckets in ascending order (items k and 100+b below); Seek(k) *)
(*    is the first item >= key k, hence the first bucket when no key is    *)
(*    left;                                                                *)
(*  - Delete with an empty key is a silent no-op (interface.go lists       *)
(*    ErrKeyRequired) and a key may equal the name of a nested bucket      *)
(*    (interface.go lists ErrIncompatibleValue): two places where ffldb    *)
(*    differs from the interface text without affecting any read.          *)
(*                                                                         *)
(* Position-less reads (Get, Bucket, ForEach, ForEachBucket, a complete    *)
(* fresh cursor walk in both directions) are functions of the tree; the    *)
(* whole visible tree of every open transaction and the committed tree are *)
(* logged with every step and the driver reads ALL of it back after every  *)
(* step.                                                                   *)
(***************************************************************************)
EXTENDS Integers, Sequences, FiniteSets, TLC, Json

CONSTANTS NK,        \* user keys 1..NK
          Vals,      \* values
          NB,        \* bucket names 1..NB
          MaxDepth,  \* nesting depth of user buckets
          MaxOps,    \* behaviour length
          Upd,       \* TRUE: managed Update actions enabled
          TxUse,     \* transactions the generator may open (subset of TxIds)
          Seeds,     \* initial committed trees to start from (subset of 0..3)
          LogOn

VARIABLES db, isopen, txopen, txtree, cur,
          out,     \* result of the last call (not part of the state proper)
          nops, log

vars == <<db, isopen, txopen, txtree, cur, out, nops, log>>
view == <<db, isopen, txopen, txtree, cur, nops>>

TxIds == {"w", "r1", "r2"}
None == -1
Opaque == 9            \* value of the internal key (never compared)
RK == NK + 1           \* "ffldb-writeloc"
RB == NB + 1           \* "ffldb-blockidx"
Slot == 1..RK
EmptyMap == [k \in Slot |-> None]

RECURSIVE PathsOfLen(_)
PathsOfLen(d) == IF d = 0 THEN {<<>>}
                 ELSE {Append(p, b) : p \in PathsOfLen(d - 1), b \in 1..NB}
UPaths == UNION {PathsOfLen(d) : d \in 0..MaxDepth}     \* user bucket paths

Tree0 == (<<>> :> [EmptyMap EXCEPT ![RK] = Opaque]) @@ (<<RB>> :> EmptyMap)

IsPrefix(p, q) == Len(p) <= Len(q) /\ SubSeq(q, 1, Len(p)) = p
Children(T, p) == {b \in 1..RB : Append(p, b) \in DOMAIN T}

MinOr0(S) == IF S = {} THEN 0 ELSE CHOOSE x \in S : \A y \in S : x <= y
MaxOr0(S) == IF S = {} THEN 0 ELSE CHOOSE x \in S : \A y \in S : x >= y
RECURSIVE Sorted(_)
Sorted(S) == IF S = {} THEN <<>> ELSE <<MinOr0(S)>> \o Sorted(S \ {MinOr0(S)})

---------------------------------------------------------------------------
(* Answers of the position-less reads *)

Get(T, p, k) == IF k = 0 THEN None ELSE T[p][k]          \* None = nil
HasBucket(T, p, b) == b # 0 /\ Append(p, b) \in DOMAIN T  \* Bucket(b) # nil
ForEachSeq(T, p) == Sorted({k \in Slot : T[p][k] # None})       \* keys in order
ForEachBucketSeq(T, p) == Sorted(Children(T, p))

\* cursor order of a bucket: keys (k), then nested buckets (100 + b)
Items(T, p) == {k \in Slot : T[p][k] # None} \cup {100 + b : b \in Children(T, p)}

\* everything a transaction can see, bucket by bucket
Dump(T) == {[p |-> p, kv |-> T[p], bk |-> Sorted(Children(T, p))] : p \in DOMAIN T}

---------------------------------------------------------------------------
(* Writes.  w is a record [op, p, k, v] (k doubles as the bucket name).   *)

Res(T, r) == [t |-> T, res |-> r]

ApplyW(T, w) ==
    LET c == Append(w.p, w.k) IN
    CASE w.op = "Put" ->
           IF w.k = 0 THEN Res(T, "ErrKeyRequired")
           ELSE Res([T EXCEPT ![w.p][w.k] = w.v], "ok")
      [] w.op = "Delete" ->
           IF w.k = 0 THEN Res(T, "ok")          \* ffldb: silent no-op (see header)
           ELSE Res([T EXCEPT ![w.p][w.k] = None], "ok")
      [] w.op = "CreateBucket" ->
           IF w.k = 0 THEN Res(T, "ErrBucketNameRequired")
           ELSE IF c \in DOMAIN T THEN Res(T, "ErrBucketExists")
           ELSE Res((c :> EmptyMap) @@ T, "ok")
      [] w.op = "CreateBucketIfNotExists" ->
           IF w.k = 0 THEN Res(T, "ErrBucketNameRequired")
           ELSE IF c \in DOMAIN T THEN Res(T, "ok")
           ELSE Res((c :> EmptyMap) @@ T, "ok")
      [] w.op = "DeleteBucket" ->
           IF w.k = 0 \/ c \notin DOMAIN T THEN Res(T, "ErrBucketNotFound")
           \* the bucket, its keys and everything nested under it
           ELSE Res([q \in {q \in DOMAIN T : ~IsPrefix(c, q)} |-> T[q]], "ok")

RECURSIVE ApplySeq(_, _)
ApplySeq(T, ws) == IF ws = <<>> THEN [t |-> T, res |-> <<>>]
                   ELSE LET r == ApplyW(T, Head(ws))
                            rest == ApplySeq(r.t, Tail(ws))
                        IN [t |-> rest.t, res |-> <<r.res>> \o rest.res]

\* writes the generator uses against a tree in which bucket p exists
Writes(T) ==
    {[op |-> "Put", p |-> p, k |-> k, v |-> v] : p \in DOMAIN T \cap UPaths, k \in 1..NK, v \in Vals}
    \cup {[op |-> "Put", p |-> <<>>, k |-> 0, v |-> 0]}
    \cup {[op |-> "Delete", p |-> p, k |-> k, v |-> 0] : p \in DOMAIN T \cap UPaths, k \in 1..NK}
    \cup {[op |-> "Delete", p |-> <<>>, k |-> 0, v |-> 0]}
    \cup {[op |-> o, p |-> p, k |-> b, v |-> 0] :
            o \in {"CreateBucket", "CreateBucketIfNotExists"},
            p \in {q \in DOMAIN T \cap UPaths : Len(q) < MaxDepth}, b \in 1..NB}
    \cup {[op |-> "DeleteBucket", p |-> p, k |-> b, v |-> 0] : p \in DOMAIN T \cap UPaths, b \in 1..NB}
    \cup {[op |-> o, p |-> <<>>, k |-> 0, v |-> 0] : o \in {"CreateBucket", "CreateBucketIfNotExists", "DeleteBucket"}}

\* one representative of every write kind, for read-only transactions
ROWrites == {[op |-> o, p |-> <<>>, k |-> 1, v |-> 0] :
               o \in {"Put", "Delete", "CreateBucket", "CreateBucketIfNotExists", "DeleteBucket"}}

---------------------------------------------------------------------------
NoCur == [on |-> FALSE]

\* what Key()/Value() say on item x of bucket p: [ok, isb, name, v]
At(T, p, x) == IF x = 0 THEN [ok |-> FALSE, isb |-> FALSE, name |-> 0, v |-> None]
               ELSE IF x >= 100 THEN [ok |-> TRUE, isb |-> TRUE, name |-> x - 100, v |-> None]
               ELSE [ok |-> TRUE, isb |-> FALSE, name |-> x, v |-> T[p][x]]

Visible == [t \in TxIds |-> IF t \in txopen' THEN [open |-> TRUE, d |-> Dump(txtree'[t])]
                            ELSE [open |-> FALSE, d |-> {}]]

Log(act, args) ==
    log' = IF LogOn
           THEN Append(log, [act |-> act, args |-> args, res |-> out', tx |-> Visible,
                             db |-> Dump(db'), isopen |-> isopen'])
           ELSE <<>>

Step == nops < MaxOps /\ nops' = nops + 1

(* Initial committed trees.  Behaviours start from an empty database or   *)
(* from one the driver has filled beforehand (partly flushed to leveldb,   *)
(* partly still in the write cache, depending on the cache variant), so    *)
(* that short behaviours reach merged cursor walks and nested deletions.   *)
V1 == MaxOr0(Vals)
W(op, p, k, v) == [op |-> op, p |-> p, k |-> k, v |-> v]
SeedWrites(i) ==
    CASE i = 0 -> <<>>
      \* keys at both ends of the root: a pending key lands between committed ones
      [] i = 1 -> <<W("Put", <<>>, 1, V1), W("Put", <<>>, NK, V1)>>
      \* a populated bucket with a nested populated bucket, next to a root key
      [] i = 2 -> <<W("CreateBucket", <<>>, 1, 0), W("Put", <<1>>, 1, V1), W("Put", <<1>>, NK, V1),
                   W("Put", <<>>, 1, V1)>>
                  \o (IF MaxDepth >= 2 THEN <<W("CreateBucket", <<1>>, 1, 0), W("Put", <<1, 1>>, 1, V1)>> ELSE <<>>)
      \* every key of the root and an empty nested bucket
      [] i = 3 -> [k \in 1..NK |-> W("Put", <<>>, k, V1)] \o <<W("CreateBucket", <<>>, NB, 0)>>

Init == /\ \E i \in Seeds :
             /\ db = ApplySeq(Tree0, SeedWrites(i)).t
             /\ log = IF LogOn
                      THEN <<[act |-> "Init", args |-> [seed |-> i], res |-> "ok",
                              tx |-> [t \in TxIds |-> [open |-> FALSE, d |-> {}]],
                              db |-> Dump(db), isopen |-> TRUE]>>
                      ELSE <<>>
        /\ isopen = TRUE /\ txopen = {}
        /\ txtree = [t \in TxIds |-> <<>>] /\ cur = NoCur
        /\ out = "" /\ nops = 0

(* DB.Begin(writable).  A second read-write transaction would block, so it *)
(* is not generated; r2 is only opened while r1 is open (symmetry).        *)
Begin(t) ==
    /\ Step /\ t \in TxUse /\ t \notin txopen /\ (t = "r2" => "r1" \in txopen)
    /\ IF isopen
       THEN /\ txopen' = txopen \cup {t} /\ txtree' = [txtree EXCEPT ![t] = db]
            /\ out' = "ok"
       ELSE /\ t # "r2" /\ UNCHANGED <<txopen, txtree>> /\ out' = "ErrDbNotOpen"
    /\ UNCHANGED <<db, isopen, cur>>
    /\ Log("Begin", [t |-> t])

\* effect of a write of transaction t on the cursor: a cursor of another
\* transaction or another bucket is untouched; a change of the cursor's own
\* bucket invalidates it until it is repositioned (interface.go, Cursor);
\* deleting the cursor's bucket (or an ancestor) ends it.
CurAfter(t, w, r) ==
    IF ~cur.on \/ cur.t # t \/ r # "ok" THEN cur
    ELSE IF w.op = "DeleteBucket" /\ IsPrefix(Append(w.p, w.k), cur.p) THEN NoCur
    ELSE IF w.p = cur.p /\ w.k # 0 THEN [cur EXCEPT !.stale = TRUE]
    ELSE cur

(* Bucket.Put / Delete / CreateBucket / CreateBucketIfNotExists /          *)
(* DeleteBucket on bucket w.p of transaction t                             *)
TxWrite(t, w) ==
    /\ Step /\ t \in txopen
    /\ IF t = "w"
       THEN /\ w \in Writes(txtree[t])
            /\ LET r == ApplyW(txtree[t], w)
               IN /\ txtree' = [txtree EXCEPT ![t] = r.t]
                  /\ out' = r.res
                  /\ cur' = CurAfter(t, w, r.res)
       ELSE /\ w \in ROWrites
            /\ out' = "ErrTxNotWritable"
            /\ UNCHANGED <<txtree, cur>>
    /\ UNCHANGED <<db, isopen, txopen>>
    /\ Log(w.op, [t |-> t, p |-> w.p, k |-> w.k, v |-> w.v])

(* Bucket.Cursor() *)
COpen(t, p) ==
    /\ Step /\ t \in txopen /\ p \in DOMAIN txtree[t] \cap UPaths
    /\ cur' = [on |-> TRUE, t |-> t, p |-> p, pos |-> 0, live |-> FALSE, stale |-> FALSE]
    /\ out' = "ok"
    /\ UNCHANGED <<db, isopen, txopen, txtree>>
    /\ Log("Cursor", [t |-> t, p |-> p])

CItems == Items(txtree[cur.t], cur.p)

MoveTo(act, args, x) ==
    /\ cur' = [cur EXCEPT !.pos = x, !.live = (x # 0), !.stale = FALSE]
    /\ out' = At(txtree[cur.t], cur.p, x)
    /\ UNCHANGED <<db, isopen, txopen, txtree>>
    /\ Log(act, args)

(* Cursor.First / Last / Seek reposition; Next / Prev move from the item   *)
(* the cursor stands on -- also right after Cursor.Delete removed it.      *)
CFirst == cur.on /\ Step /\ MoveTo("First", [x |-> 0], MinOr0(CItems))
CLast == cur.on /\ Step /\ MoveTo("Last", [x |-> 0], MaxOr0(CItems))
CSeek(k) == cur.on /\ Step /\ MoveTo("Seek", [k |-> k], MinOr0({x \in CItems : x >= k}))
CNext == /\ cur.on /\ ~cur.stale /\ Step
         /\ MoveTo("Next", [x |-> 0], IF cur.pos = 0 THEN 0 ELSE MinOr0({x \in CItems : x > cur.pos}))
CPrev == /\ cur.on /\ ~cur.stale /\ Step
         /\ MoveTo("Prev", [x |-> 0], IF cur.pos = 0 THEN 0 ELSE MaxOr0({x \in CItems : x < cur.pos}))

(* Cursor.Delete: exhausted or on a nested bucket -> ErrIncompatibleValue; *)
(* read-only transaction -> ErrTxNotWritable; otherwise the pair is        *)
(* removed and the cursor stays usable.                                    *)
CDelete ==
    /\ cur.on /\ ~cur.stale /\ Step
    /\ IF cur.pos = 0 \/ cur.pos >= 100
       THEN /\ cur.t = "w"      \* (which error wins on a read-only transaction is not specified)
            /\ out' = "ErrIncompatibleValue" /\ UNCHANGED <<txtree, cur>>
       ELSE /\ cur.live /\ cur.pos # RK
            /\ IF cur.t # "w"
               THEN out' = "ErrTxNotWritable" /\ UNCHANGED <<txtree, cur>>
               ELSE /\ txtree' = [txtree EXCEPT ![cur.t][cur.p][cur.pos] = None]
                    /\ cur' = [cur EXCEPT !.live = FALSE]
                    /\ out' = "ok"
    /\ UNCHANGED <<db, isopen, txopen>>
    /\ Log("CDelete", [x |-> 0])

(* Tx.Commit of the read-write transaction: its view becomes the committed *)
(* tree, atomically; open snapshots keep their view.                       *)
Commit ==
    /\ Step /\ "w" \in txopen
    /\ db' = txtree["w"]
    /\ txopen' = txopen \ {"w"} /\ txtree' = [txtree EXCEPT !["w"] = <<>>]
    /\ cur' = IF cur.on /\ cur.t = "w" THEN NoCur ELSE cur
    /\ out' = "ok"
    /\ UNCHANGED isopen
    /\ Log("Commit", [t |-> "w"])

(* Tx.Rollback: no trace. *)
Rollback(t) ==
    /\ Step /\ t \in txopen
    /\ txopen' = txopen \ {t} /\ txtree' = [txtree EXCEPT ![t] = <<>>]
    /\ cur' = IF cur.on /\ cur.t = t THEN NoCur ELSE cur
    /\ out' = "ok"
    /\ UNCHANGED <<db, isopen>>
    /\ Log("Rollback", [t |-> t])

(* DB.Update(fn): a managed read-write transaction.  fn performs the       *)
(* writes ws (ignoring their individual errors) and then returns nil       *)
(* ("ok": committed), returns an error ("fail") or panics ("panic"): in    *)
(* the last two cases nothing of it may remain.                            *)
\* one write, or "create a bucket and put a key into it"
UpdSeqs(T) == {<<w>> : w \in Writes(T)}
              \cup {<<w, [op |-> "Put", p |-> Append(w.p, w.k), k |-> k, v |-> v]>> :
                      w \in {x \in Writes(T) : x.op = "CreateBucket" /\ x.k # 0 /\ Append(x.p, x.k) \notin DOMAIN T},
                      k \in 1..NK, v \in Vals}

Update(ws, how) ==
    /\ Upd /\ Step /\ "w" \notin txopen /\ isopen
    /\ ws \in UpdSeqs(db)
    /\ LET r == ApplySeq(db, ws)
       IN /\ db' = IF how = "ok" THEN r.t ELSE db
          /\ out' = [errs |-> r.res, ret |-> how]
    /\ UNCHANGED <<isopen, txopen, txtree, cur>>
    /\ Log("Update", [ws |-> ws, how |-> how])

UpdateClosed ==
    /\ Upd /\ Step /\ ~isopen
    /\ out' = [errs |-> <<>>, ret |-> "ErrDbNotOpen"]
    /\ UNCHANGED <<db, isopen, txopen, txtree, cur>>
    /\ Log("Update", [ws |-> <<>>, how |-> "ok"])

(* DB.Close (blocks while transactions are open, so only generated when    *)
(* none is) and reopening the same directory: the committed tree survives. *)
Close ==
    /\ Step /\ txopen = {}
    /\ isopen' = FALSE
    /\ out' = IF isopen THEN "ok" ELSE "ErrDbNotOpen"
    /\ UNCHANGED <<db, txopen, txtree, cur>>
    /\ Log("Close", [x |-> 0])

Reopen ==
    /\ Step /\ ~isopen
    /\ isopen' = TRUE /\ out' = "ok"
    /\ UNCHANGED <<db, txopen, txtree, cur>>
    /\ Log("Reopen", [x |-> 0])

Next == \/ \E t \in TxIds : Begin(t)
        \/ ("w" \in txopen /\ \E w \in Writes(txtree["w"]) : TxWrite("w", w))
        \/ \E t \in txopen \ {"w"}, w \in ROWrites : TxWrite(t, w)
        \/ \E t \in txopen, p \in UPaths : COpen(t, p)
        \/ CFirst \/ CLast \/ CNext \/ CPrev \/ CDelete
        \/ \E k \in 0..RK : CSeek(k)
        \/ Commit
        \/ \E t \in txopen : Rollback(t)
        \/ (Upd /\ isopen /\ "w" \notin txopen /\
              \E ws \in UpdSeqs(db), how \in {"ok", "fail", "panic"} : Update(ws, how))
        \/ UpdateClosed
        \/ Close \/ Reopen

Spec == Init /\ [][Next]_vars

---------------------------------------------------------------------------
(* Properties *)

WellFormed(T) == /\ <<>> \in DOMAIN T /\ <<RB>> \in DOMAIN T
                 /\ \A p \in DOMAIN T : /\ p \in UPaths \cup {<<RB>>}
                                        /\ p # <<>> => SubSeq(p, 1, Len(p) - 1) \in DOMAIN T
                 /\ T[<<>>][RK] = Opaque

TypeOK == /\ WellFormed(db)
          /\ txopen \subseteq TxIds
          /\ \A t \in txopen : WellFormed(txtree[t])
          /\ ~isopen => txopen = {}
          /\ cur.on => /\ cur.t \in txopen /\ cur.p \in DOMAIN txtree[cur.t]
                       /\ (cur.live /\ ~cur.stale) => cur.pos \in Items(txtree[cur.t], cur.p)

\* a read-only transaction sees the tree as it was committed when it began,
\* whatever is written, committed, rolled back, closed or flushed meanwhile
SnapshotStable ==
    [][ \A t \in {"r1", "r2"} : (t \in txopen /\ t \in txopen') => txtree'[t] = txtree[t] ]_vars

\* the committed tree changes only by a Commit of the read-write transaction
\* (to exactly its view) or by a managed Update that returned nil: rolled
\* back and failed transactions leave no trace
NoTrace ==
    [][ db' # db =>
          \/ ("w" \in txopen /\ "w" \notin txopen' /\ db' = txtree["w"])
          \/ ("w" \notin txopen /\ isopen /\ \E ws \in UpdSeqs(db) : db' = ApplySeq(db, ws).t) ]_vars

\* a transaction's view changes only by its own writes
OwnWritesOnly ==
    [][ ("w" \in txopen /\ "w" \in txopen' /\ txtree'["w"] # txtree["w"]) =>
          LET viaCursor == IF cur.on /\ cur.t = "w" /\ cur.pos \in 1..NK
                           THEN {[op |-> "Delete", p |-> cur.p, k |-> cur.pos, v |-> 0]} ELSE {}
          IN \E w \in Writes(txtree["w"]) \cup viaCursor : txtree'["w"] = ApplyW(txtree["w"], w).t ]_vars

\* A writer-only generator for simulation: sequences of read-write transactions, all committed.
\* Histories like "put k, commit, delete k, commit, put k, commit" return to an abstract state seen
\* before, so exhaustive exploration (which keeps one path per state) never continues them, while the
\* implementation's write cache still holds traces of them (tombstones, flushed or not).
WriterNext == \/ (isopen /\ "w" \notin txopen /\ Begin("w"))
              \/ ("w" \in txopen /\ \E w \in Writes(txtree["w"]) : TxWrite("w", w))
              \/ Commit
WriterSpec == Init /\ [][WriterNext]_vars

Emit == PrintT(<<"TRACE", ToJson(log')>>)
EmitLast == nops' = MaxOps => PrintT(<<"TRACE", ToJson(log')>>)
=============================================================================
