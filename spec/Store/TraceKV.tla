------------------------------- MODULE TraceKV -------------------------------
(* Trace validation for KV.tla: long random operation sequences (drawn by    *)
(* TLC's simulator from the full action set, ~200 operations, 3 keys, 2      *)
(* bucket names, depth 2) are executed on a real ffldb database; what the    *)
(* real database ANSWERED -- the result of every call and, after every call, *)
(* the complete tree every open transaction sees and the committed tree read *)
(* through DB.View -- is recorded and must be a behaviour of KV's actions.   *)
(* Many runs are concatenated by Reset events.                               *)
EXTENDS KV

CONSTANT TraceFile
Trace == ndJsonDeserialize(TraceFile)

VARIABLE l
tvars == <<vars, l>>

Ev == Trace[l]
IsEv(e) == l <= Len(Trace) /\ Ev.ev = e /\ l' = l + 1

AsSet(s) == {s[i] : i \in 1..Len(s)}
Has(f) == f \in DOMAIN Ev

\* the recorded answers: result of the call, every open transaction's tree,
\* the committed tree (when the database is open)
Observed ==
    /\ out' = Ev.res
    /\ \A t \in TxIds :
         LET f == "obs_" \o t IN
         IF t \in txopen' THEN Has(f) /\ AsSet(Ev[f]) = Dump(txtree'[t]) ELSE ~Has(f)
    /\ IF isopen' THEN Has("obs_db") /\ AsSet(Ev.obs_db) = Dump(db') ELSE ~Has("obs_db")

TraceInit == Init /\ l = 1 /\ TLCSet(1, 1)

\* Reset: the next run starts; its first event is the Init pseudo-step
\* carrying the seeded committed tree as observed
TReset == /\ IsEv("Reset")
          /\ db' = Tree0 /\ isopen' = TRUE /\ txopen' = {}
          /\ txtree' = [t \in TxIds |-> <<>>] /\ cur' = NoCur
          /\ out' = "" /\ nops' = 0 /\ log' = <<>>

TSeed == /\ IsEv("Init")
         /\ db' = ApplySeq(Tree0, SeedWrites(Ev.seed)).t
         /\ out' = "ok"
         /\ UNCHANGED <<isopen, txopen, txtree, cur, nops, log>>
         /\ Observed

WOf(op) == [op |-> op, p |-> Ev.p, k |-> Ev.k, v |-> Ev.v]

TBegin == IsEv("Begin") /\ Begin(Ev.t) /\ Observed
TWrite == \E op \in {"Put", "Delete", "CreateBucket", "CreateBucketIfNotExists", "DeleteBucket"} :
             IsEv(op) /\ TxWrite(Ev.t, WOf(op)) /\ Observed
TCursor == IsEv("Cursor") /\ COpen(Ev.t, Ev.p) /\ Observed
TFirst == IsEv("First") /\ CFirst /\ Observed
TLast == IsEv("Last") /\ CLast /\ Observed
TNext == IsEv("Next") /\ CNext /\ Observed
TPrev == IsEv("Prev") /\ CPrev /\ Observed
TSeek == IsEv("Seek") /\ CSeek(Ev.k) /\ Observed
TCDelete == IsEv("CDelete") /\ CDelete /\ Observed
TCommit == IsEv("Commit") /\ Commit /\ Observed
TRollback == IsEv("Rollback") /\ Rollback(Ev.t) /\ Observed
TUpdate == IsEv("Update") /\ (Update(Ev.ws, Ev.how) \/ UpdateClosed) /\ Observed
TClose == IsEv("Close") /\ Close /\ Observed
TReopen == IsEv("Reopen") /\ Reopen /\ Observed

TraceNext == \/ TReset \/ TSeed \/ TBegin \/ TWrite \/ TCursor \/ TFirst \/ TLast \/ TNext \/ TPrev
             \/ TSeek \/ TCDelete \/ TCommit \/ TRollback \/ TUpdate \/ TClose \/ TReopen
TraceSpec == TraceInit /\ [][TraceNext]_tvars

HighWater == IF l > TLCGet(1) THEN TLCSet(1, l) ELSE TRUE
TraceAccepted == TLCGet(1) = Len(Trace) + 1
TraceView == <<view, l>>
=============================================================================
