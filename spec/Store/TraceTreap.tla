----------------------------- MODULE TraceTreap -----------------------------
(* Trace validation for Treap.tla: recorded long random runs of the real     *)
(* treap.Mutable / treap.Immutable / treap.Iterator (many runs concatenated  *)
(* by Reset events, 64 keys, hundreds of operations each) must be behaviours *)
(* of Treap's own actions, with every recorded answer (iterator position,    *)
(* Len, Size, "same treap returned", complete ascending content at the check *)
(* points of every retained version) equal to the reference answer.          *)
EXTENDS Treap

CONSTANT TraceFile
Trace == ndJsonDeserialize(TraceFile)

VARIABLE l
tvars == <<vars, l>>

Ev == Trace[l]
IsEv(e) == l <= Len(Trace) /\ Ev.ev = e /\ l' = l + 1

TraceInit == Init /\ l = 1 /\ TLCSet(1, 1)

TReset == /\ IsEv("Reset")
          /\ mode' = Ev.mode /\ m' = Empty /\ vers' = [i \in 1..Slots |-> Empty]
          /\ it' = NoIt /\ nops' = 0 /\ log' = <<>>

ObsM == Count(m') = Ev.cnt /\ Size(m') = Ev.size
ObsV == Count(vers'[Ev.j]) = Ev.cnt /\ Size(vers'[Ev.j]) = Ev.size
\* the iterator answers Valid / Key / len(Value) exactly as the model's position
ObsIt == At(Src(it'), it'.pos) = [ok |-> Ev.rok, k |-> Ev.rk, v |-> Ev.rv]

TMPut == IsEv("MPut") /\ MPut(Ev.k, Ev.v) /\ ObsM
TMDelete == IsEv("MDelete") /\ MDelete(Ev.k) /\ ObsM
TMReset == IsEv("MReset") /\ MReset /\ ObsM
TIPut == IsEv("IPut") /\ IPut(Ev.i, Ev.j, Ev.k, Ev.v) /\ ObsV
TIDelete == IsEv("IDelete") /\ IDelete(Ev.i, Ev.j, Ev.k) /\ ObsV
            /\ Ev.same = ~Has(vers[Ev.i], Ev.k)
TMIter == IsEv("MIter") /\ MIter(Ev.lo, Ev.hi)
TIIter == IsEv("IIter") /\ IIter(Ev.i, Ev.lo, Ev.hi)
TFirst == IsEv("First") /\ ItFirst /\ ObsIt
TLast == IsEv("Last") /\ ItLast /\ ObsIt
TNext == IsEv("Next") /\ ItNext /\ ObsIt
TPrev == IsEv("Prev") /\ ItPrev /\ ObsIt
TSeek == IsEv("Seek") /\ ItSeek(Ev.k) /\ ObsIt
\* check point: the complete ForEach content of one treap as observed
TCheck == /\ IsEv("Check") /\ UNCHANGED vars
          /\ Asc(IF Ev.slot = 0 THEN m ELSE vers[Ev.slot]) = Ev.asc

TraceNext == \/ TReset \/ TMPut \/ TMDelete \/ TMReset \/ TIPut \/ TIDelete
             \/ TMIter \/ TIIter \/ TFirst \/ TLast \/ TNext \/ TPrev \/ TSeek \/ TCheck
TraceSpec == TraceInit /\ [][TraceNext]_tvars

HighWater == IF l > TLCGet(1) THEN TLCSet(1, l) ELSE TRUE
TraceAccepted == TLCGet(1) = Len(Trace) + 1
TraceView == <<view, l>>
=============================================================================
