----------------------------- MODULE CrashPower -----------------------------
(***************************************************************************)
(* INFORMATIONAL extension of Crash.tla - not part of the C17 verdict.     *)
(*                                                                         *)
(* C17 speaks of the PROCESS stopping: what the process had written stays  *)
(* in the OS page cache and reaches the files (Crash.tla, and SIGKILL in   *)
(* the fault enumeration).  This module asks the stronger question: what   *)
(* if the MACHINE stops (power failure) and every byte of a flat file that *)
(* was written but never fsync'ed is lost?                                 *)
(*                                                                         *)
(* synced[i] is the length of flat file i-1 known to be on stable storage. *)
(* The code syncs: the current write file in dbCache.flush (syncBlocks) -  *)
(* only the CURRENT one, and only if a handle is open - and the cursor     *)
(* file at the end of handleRollback.  A roll-over closes the previous     *)
(* file without fsync.  leveldb transactions are durable when they return; *)
(* creating and deleting files is assumed durable.                         *)
(*                                                                         *)
(* PowerCrash = Crash + every flat file cut back to its synced length.     *)
(* With SyncOnRollover = FALSE (the code as it is) TLC finds a behaviour   *)
(* that violates VisibleBlocksComplete: a block written before a roll-over *)
(* and indexed by a later flush is visible after the power failure but its *)
(* bytes are gone, and reconcileDB does not notice (the LAST file is       *)
(* intact).  With SyncOnRollover = TRUE (fsync before closing the file on  *)
(* roll-over) all invariants of Crash.tla hold under power failures too.   *)
(***************************************************************************)
EXTENDS Crash

CONSTANT SyncOnRollover

VARIABLE synced
pvars == <<vars, synced>>
pview == <<view, synced>>

Min(a, b) == IF a < b THEN a ELSE b
\* synced lengths, padded with 0 for files created since
Fit(s, fs) == [i \in 1..Len(fs) |-> IF i <= Len(s) THEN Min(s[i], FLen(fs[i])) ELSE 0]
SyncFile(s, fs, f) == IF f + 1 <= Len(fs) THEN [Fit(s, fs) EXCEPT ![f + 1] = FLen(fs[f + 1])] ELSE Fit(s, fs)

PInit == Init /\ synced = <<>>

PowerCrash ==
    /\ pc \notin {"down", "corrupt"} /\ acted /\ ncrash < MaxCrashes
    /\ Stop /\ ncrash' = ncrash + 1
    /\ files' = [i \in 1..Len(files) |-> Cut(files[i], Fit(synced, files)[i])]
    /\ synced' = Fit(synced, files)
    /\ log' = Append(log, [act |-> "PowerCrash", h |-> 0])
    /\ UNCHANGED <<ldb, hist, flushed, infl, acted, nextId, ncommit, nclose>>

PNext ==
    \/ /\ \/ \E szs \in SeqsUpTo(BlockSizes, MaxTxBlocks), fl \in FlushModes : Begin(szs, fl)
          \/ OpenFile \/ \E j \in 1..4 : WritePart(j)
          \/ Stage \/ CacheTx \/ FlushWrite \/ TxWrite
          \/ Close \/ CloseWrite \/ Exit \/ Open \/ RbDelete
       /\ synced' = Fit(synced, files')
    \/ /\ Rollover          \* the file that is being left: fsync'ed only in the hardened variant
       /\ synced' = IF SyncOnRollover THEN SyncFile(synced, files, wc.f) ELSE Fit(synced, files)
    \/ /\ FlushSync \/ CloseSync          \* syncBlocks: the current write file, if a handle is open
       /\ synced' = IF hopen THEN SyncFile(synced, files, wc.f) ELSE Fit(synced, files)
    \/ /\ RbTruncate
       /\ synced' = Fit(synced, files')
    \/ /\ RbSync
       /\ synced' = SyncFile(synced, files, ldb.cur.f)
    \/ PowerCrash

PSpec == PInit /\ [][PNext]_pvars
=============================================================================
