------------------------------- MODULE Treap -------------------------------
(***************************************************************************)
(* Reference semantics of database/internal/treap (C19).                   *)
(*                                                                         *)
(*   treap.Mutable    an ordered map  key -> value  updated in place       *)
(*   treap.Immutable  a persistent ordered map: Put / Delete return a new  *)
(*                    version, every older version keeps answering as it   *)
(*                    did when it was produced                             *)
(*   treap.Iterator   a movable position over one treap, optionally        *)
(*                    limited to the key range [lo, hi)                    *)
(*                                                                         *)
(* Keys are 1..NK (the driver maps them, order preserving, to byte strings *)
(* of length KeyLen(k)); a value is represented by its length (the driver  *)
(* uses v bytes; v = 0 is passed as nil, which the treap must store as an  *)
(* empty, non-nil slice).  None stands for "no such key" / a nil result.   *)
(*                                                                         *)
(* The mutable treap is the variable m.  The immutable treap is modelled   *)
(* by Slots retained versions: every operation may be applied to ANY       *)
(* retained version i and its result is kept in slot j; all retained       *)
(* versions are re-queried by the replay driver after every step, so a     *)
(* path-copying mistake that disturbs an older version is seen at once.    *)
(*                                                                         *)
(* One action per public method.  Read-only methods without a position    *)
(* (Get, Has, Len, Size, ForEach) are operators over the map: their whole  *)
(* answer table is part of the logged state and compared by the driver     *)
(* after every step.                                                       *)
(***************************************************************************)
EXTENDS Integers, Sequences, FiniteSets, TLC, Json

CONSTANTS NK,        \* keys are 1..NK
          Vals,      \* value lengths used by Put
          Slots,     \* number of retained immutable versions
          Los, His,  \* iterator bounds tried (0 = nil bound)
          Modes,     \* subset of {"mut", "imm"}
          MaxOps,    \* bound on behaviour length (0 = unbounded: finite state space)
          LogOn      \* FALSE in trace validation (no behaviour to print)

VARIABLES mode,   \* "mut": the run drives a Mutable, "imm": Immutable versions
          m,      \* the mutable treap:      [Keys -> Vals \cup {None}]
          vers,   \* the retained versions:  [1..Slots -> map]
          it,     \* the iterator (at most one at a time)
          nops,
          log

vars == <<mode, m, vers, it, nops, log>>
view == <<mode, m, vers, it, nops>>

Keys == 1..NK
None == -1

\* treap/common.go: nodeFieldsSize = 72 (two slice headers + priority + two pointers)
Overhead == 72
\* length of the byte string the driver uses for key k (odd: 1 byte, even: 2)
KeyLen(k) == IF k % 2 = 0 THEN 2 ELSE 1

Map == [Keys -> Vals \cup {None}]
Empty == [k \in Keys |-> None]
Dom(mp) == {k \in Keys : mp[k] # None}

---------------------------------------------------------------------------
(* Answers of the position-less read methods *)

Get(mp, k) == mp[k]                  \* None = nil
Has(mp, k) == mp[k] # None
Count(mp) == Cardinality(Dom(mp))    \* Len()

RECURSIVE SizeUpTo(_, _)
SizeUpTo(mp, n) == IF n = 0 THEN 0
                   ELSE SizeUpTo(mp, n - 1) +
                        (IF mp[n] = None THEN 0 ELSE Overhead + KeyLen(n) + mp[n])
Size(mp) == SizeUpTo(mp, NK)         \* Size() = sum (overhead + |k| + |v|)

RECURSIVE AscFrom(_, _)
AscFrom(mp, n) == IF n > NK THEN <<>>
                  ELSE (IF mp[n] = None THEN <<>> ELSE <<<<n, mp[n]>>>>) \o AscFrom(mp, n + 1)
Asc(mp) == AscFrom(mp, 1)            \* ForEach order

Put(mp, k, v) == [mp EXCEPT ![k] = v]
Del(mp, k) == [mp EXCEPT ![k] = None]

---------------------------------------------------------------------------
(* Iterator *)

NoIt == [on |-> FALSE]

\* the map an iterator walks: the live mutable treap, or the immutable
\* version it was created from (kept by value: later updates of the slot
\* must not be seen)
Src(i) == IF i.live THEN m ELSE i.mp

InRange(k, lo, hi) == (lo = 0 \/ k >= lo) /\ (hi = 0 \/ k < hi)
Visible(mp, lo, hi) == {k \in Dom(mp) : InRange(k, lo, hi)}
MinOr0(S) == IF S = {} THEN 0 ELSE CHOOSE x \in S : \A y \in S : x <= y
MaxOr0(S) == IF S = {} THEN 0 ELSE CHOOSE x \in S : \A y \in S : x >= y

\* what Valid()/Key()/Value() answer once the iterator stands on p
At(mp, p) == [ok |-> p # 0, k |-> p, v |-> IF p = 0 THEN None ELSE mp[p]]

Log(act, args, res) ==
    log' = IF LogOn
           THEN Append(log, [act |-> act, args |-> args, res |-> res, mode |-> mode,
                             m |-> [mp |-> m', cnt |-> Count(m'), size |-> Size(m'), asc |-> Asc(m')],
                             vers |-> [i \in 1..Slots |->
                                        [mp |-> vers'[i], cnt |-> Count(vers'[i]),
                                         size |-> Size(vers'[i]), asc |-> Asc(vers'[i])]]])
           ELSE <<>>

Step == /\ (MaxOps > 0 => nops < MaxOps)
        /\ nops' = IF MaxOps > 0 THEN nops + 1 ELSE 0

Init == /\ mode \in Modes
        /\ m = Empty /\ vers = [i \in 1..Slots |-> Empty]
        /\ it = NoIt /\ nops = 0 /\ log = <<>>

\* a mutation of the mutable treap under a live iterator: the caller must
\* call ForceReseek (treapiter.go), after which Next / Prev continue from the
\* key the iterator stood on, whether or not it still exists
Disturb == it' = IF it.on /\ it.live THEN [it EXCEPT !.dirty = TRUE] ELSE it

(* Mutable.Put / Delete / Reset *)
MPut(k, v) == /\ mode = "mut" /\ Step
              /\ m' = Put(m, k, v) /\ Disturb
              /\ UNCHANGED <<mode, vers>>
              /\ Log("MPut", [k |-> k, v |-> v], None)

MDelete(k) == /\ mode = "mut" /\ Step
              /\ m' = Del(m, k) /\ Disturb
              /\ UNCHANGED <<mode, vers>>
              /\ Log("MDelete", [k |-> k], None)

MReset == /\ mode = "mut" /\ Step /\ m # Empty
          /\ m' = Empty /\ Disturb
          /\ UNCHANGED <<mode, vers>>
          /\ Log("MReset", [x |-> 0], None)

(* Immutable.Put / Delete applied to version i, result retained in slot j. *)
(* Delete of a missing key returns the very same treap (res = TRUE).       *)
IPut(i, j, k, v) == /\ mode = "imm" /\ Step
                    /\ vers' = [vers EXCEPT ![j] = Put(vers[i], k, v)]
                    /\ UNCHANGED <<mode, m, it>>
                    /\ Log("IPut", [i |-> i, j |-> j, k |-> k, v |-> v], None)

IDelete(i, j, k) == /\ mode = "imm" /\ Step
                    /\ vers' = [vers EXCEPT ![j] = Del(vers[i], k)]
                    /\ UNCHANGED <<mode, m, it>>
                    /\ Log("IDelete", [i |-> i, j |-> j, k |-> k], ~Has(vers[i], k))

(* Mutable.Iterator(lo, hi) / Immutable.Iterator(lo, hi) *)
MIter(lo, hi) == /\ mode = "mut" /\ Step
                 /\ it' = [on |-> TRUE, live |-> TRUE, mp |-> Empty, lo |-> lo, hi |-> hi,
                           pos |-> 0, fresh |-> TRUE, dirty |-> FALSE]
                 /\ UNCHANGED <<mode, m, vers>>
                 /\ Log("MIter", [lo |-> lo, hi |-> hi], None)

IIter(i, lo, hi) == /\ mode = "imm" /\ Step
                    /\ it' = [on |-> TRUE, live |-> FALSE, mp |-> vers[i], lo |-> lo, hi |-> hi,
                              pos |-> 0, fresh |-> TRUE, dirty |-> FALSE]
                    /\ UNCHANGED <<mode, m, vers>>
                    /\ Log("IIter", [i |-> i, lo |-> lo, hi |-> hi], None)

\* move the iterator to p (0 = exhausted)
MoveTo(act, args, p) ==
    /\ it' = [it EXCEPT !.pos = p, !.fresh = FALSE, !.dirty = FALSE]
    /\ UNCHANGED <<mode, m, vers>>
    /\ Log(act, args, At(Src(it), p))

Vis == Visible(Src(it), it.lo, it.hi)

ItFirst == it.on /\ Step /\ MoveTo("First", [x |-> 0], MinOr0(Vis))
ItLast == it.on /\ Step /\ MoveTo("Last", [x |-> 0], MaxOr0(Vis))
\* Seek(k): the first pair of the WHOLE treap with key >= k; the iterator is
\* exhausted when that pair lies outside its range.  (Not "the first pair of the
\* range": the package's own test table, treapiter_test.go "Seek value that
\* exists, but is before the minimum allowed range", demands no pair.)
ItSeek(k) == /\ it.on /\ Step
             /\ LET p == MinOr0({x \in Dom(Src(it)) : x >= k})
                IN MoveTo("Seek", [k |-> k], IF p # 0 /\ InRange(p, it.lo, it.hi) THEN p ELSE 0)
\* Next: on a new iterator = First; exhausted stays exhausted
ItNext == /\ it.on /\ Step
          /\ MoveTo("Next", [x |-> 0],
                    IF it.fresh THEN MinOr0(Vis)
                    ELSE IF it.pos = 0 THEN 0
                    ELSE MinOr0({x \in Vis : x > it.pos}))
ItPrev == /\ it.on /\ Step
          /\ MoveTo("Prev", [x |-> 0],
                    IF it.fresh THEN MaxOr0(Vis)
                    ELSE IF it.pos = 0 THEN 0
                    ELSE MaxOr0({x \in Vis : x < it.pos}))

Next == \/ \E k \in Keys, v \in Vals : MPut(k, v)
        \/ \E k \in Keys : MDelete(k)
        \/ MReset
        \/ \E i, j \in 1..Slots, k \in Keys, v \in Vals : IPut(i, j, k, v)
        \/ \E i, j \in 1..Slots, k \in Keys : IDelete(i, j, k)
        \/ \E lo \in Los, hi \in His : MIter(lo, hi)
        \/ \E i \in 1..Slots, lo \in Los, hi \in His : IIter(i, lo, hi)
        \/ ItFirst \/ ItLast \/ ItNext \/ ItPrev
        \/ \E k \in Keys : ItSeek(k)

Spec == Init /\ [][Next]_vars

---------------------------------------------------------------------------
(* Properties *)

TypeOK == /\ m \in Map /\ vers \in [1..Slots -> Map]
          /\ it.on => /\ it.pos \in 0..NK
                      /\ (it.pos # 0 /\ ~it.dirty) => it.pos \in Visible(Src(it), it.lo, it.hi)

\* ordered-map laws of the answers (sanity of the reference model itself)
MapLaws == \A mp \in {m} \cup {vers[i] : i \in 1..Slots} :
             /\ Len(Asc(mp)) = Count(mp)
             /\ \A a \in 1..Len(Asc(mp)) : /\ Asc(mp)[a][2] = Get(mp, Asc(mp)[a][1])
                                           /\ a > 1 => Asc(mp)[a - 1][1] < Asc(mp)[a][1]
             /\ Size(mp) >= Count(mp) * Overhead

\* C19, second sentence: an operation on the immutable treap changes only
\* the slot that receives its result; every other retained version -- in
\* particular the version it was applied to -- is exactly what it was.
Persistent ==
    [][ mode = "imm" => Cardinality({i \in 1..Slots : vers'[i] # vers[i]}) <= 1 ]_vars

\* moving an iterator over an immutable version never changes the version it walks
ItStable == [][ (it.on /\ it'.on /\ ~it.live /\ ~it'.fresh) => it'.mp = it.mp ]_vars

Emit == PrintT(<<"TRACE", ToJson(log')>>)
EmitLast == nops' = MaxOps => PrintT(<<"TRACE", ToJson(log')>>)
=============================================================================
