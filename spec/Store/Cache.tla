------------------------------- MODULE Cache -------------------------------
(***************************************************************************)
(* A bounded cache in front of a store whose contents change               *)
(* (blockchain/utxocache.go UTXOCache: Reference + TxCache;                *)
(* blockchain/indexers/txcache.go TxCache; chainstoreffldb.go GetBlock's   *)
(* decoded-block cache; p2p/message.go WriteMessage's serialized-block     *)
(* cache).                                                                 *)
(*                                                                         *)
(* store[k] is the current answer of an uncached lookup (0 = absent,       *)
(* v > 0 = version v of the value).  The cache remembers the answer it saw *)
(* when the entry was inserted.  Eviction is nondeterministic (the         *)
(* property quantifies over every eviction schedule); what keeps the cache *)
(* transparent is the invalidation the code performs when the store        *)
(* changes, selected by Policy:                                            *)
(*   "immutable" keys never change once present and only disappear with a  *)
(*               Clean of the whole cache in the same step (UTXOCache:     *)
(*               outputs are immutable, reorganizeChain calls CleanCache   *)
(*               before it detaches anything)                              *)
(*   "delete"    the changed key is removed from the cache in the same     *)
(*               step (indexers.TxCache: deleteTxn on disconnect / spend)  *)
(*   "keyed"     the key includes everything the value depends on, the     *)
(*               store never changes under a key (block caches keyed by    *)
(*               hash / (hash, haveConfirm))                               *)
(* Entries is the bookkeeping list the code evicts from (FIFO);            *)
(* the send cache's index map is modelled by `index`: with                 *)
(* LeakIndex = TRUE an evicted key stays in the index (today's p2p code),  *)
(* and the bound invariant fails.                                          *)
(***************************************************************************)
EXTENDS Integers, Sequences, FiniteSets, TLC, Json

CONSTANTS Keys, Bound, Policy, MaxVersion, MaxOps, LeakIndex,
          Twins,       \* pairs of keys sharing one index entry (same block hash, with /
                       \* without confirmation, in the send cache); {} elsewhere
          AllPresent   \* TRUE: every key is in the store from the start

VARIABLES store, cache, order, index, last, nops, log
vars == <<store, cache, order, index, last, nops, log>>
view == <<store, cache, order, index, last, nops>>

SameGroup(a, b) == a = b \/ {a, b} \in Twins

Init == /\ store = [k \in Keys |-> IF AllPresent THEN 1 ELSE 0] /\ cache = [k \in Keys |-> -1]   \* -1 = not cached
        /\ order = <<>> /\ index = {} /\ last = [k |-> "none", v |-> 0, hit |-> FALSE]
        /\ nops = 0 /\ log = <<>>

Cached == {k \in Keys : cache[k] >= 0}
Log(act, k) == log' = Append(log, [act |-> act, k |-> k, answer |-> last'.v, hit |-> last'.hit,
                                    cached |-> {x \in Keys : cache'[x] >= 0},
                                    order |-> order', index |-> index'])

(* a lookup through the cache *)
Lookup(k) ==
    /\ nops < MaxOps /\ nops' = nops + 1
    /\ IF cache[k] >= 0
       THEN /\ last' = [k |-> k, v |-> cache[k], hit |-> TRUE]
            /\ UNCHANGED <<store, cache, order, index>>
       ELSE /\ last' = [k |-> k, v |-> store[k], hit |-> FALSE]
            /\ IF store[k] = 0 \/ (\E x \in index : SameGroup(x, k))
               THEN \* misses are not cached; neither is a key whose index entry exists
                    \* without a payload (its twin is cached, or -- LeakIndex -- the entry
                    \* survived the eviction of its payload)
                    UNCHANGED <<cache, order, index>>
               ELSE \* insert, evicting the oldest entry when full
                    LET full == Len(order) >= Bound
                        victim == order[1]
                        c1 == IF full THEN [cache EXCEPT ![victim] = -1] ELSE cache
                        o1 == IF full THEN Tail(order) ELSE order
                    IN /\ cache' = [c1 EXCEPT ![k] = store[k]]
                       /\ order' = Append(o1, k)
                       /\ index' = (IF full /\ ~LeakIndex THEN index \ {victim} ELSE index) \cup {k}
            /\ UNCHANGED store
    /\ Log("Lookup", k)

(* the store changes under key k (block connected / disconnected / re-stored) *)
StoreChange(k) ==
    /\ nops < MaxOps /\ nops' = nops + 1
    /\ Policy # "keyed"
    /\ IF Policy = "immutable"
       THEN \* a value appears, or it disappears together with a full clean
            \/ /\ store[k] = 0 /\ store' = [store EXCEPT ![k] = 1]
               /\ UNCHANGED <<cache, order, index>>
            \/ /\ store[k] # 0 /\ store' = [store EXCEPT ![k] = 0]
               /\ cache' = [x \in Keys |-> -1] /\ order' = <<>> /\ index' = {}
       ELSE /\ \E v \in 0..MaxVersion : v # store[k] /\ store' = [store EXCEPT ![k] = v]
            /\ cache' = [cache EXCEPT ![k] = -1]
            /\ order' = SelectSeq(order, LAMBDA x : x # k)
            /\ index' = index \ {k}
    /\ last' = [k |-> k, v |-> 0, hit |-> FALSE]
    /\ Log("StoreChange", k)

(* under "keyed" the store only ever gains keys *)
StoreAdd(k) ==
    /\ nops < MaxOps /\ nops' = nops + 1 /\ Policy = "keyed" /\ store[k] = 0
    /\ store' = [store EXCEPT ![k] = 1]
    /\ last' = [k |-> k, v |-> 0, hit |-> FALSE]
    /\ UNCHANGED <<cache, order, index>>
    /\ Log("StoreAdd", k)

(* CleanCache / CleanTxCache at an arbitrary moment *)
Clean ==
    /\ nops < MaxOps /\ nops' = nops + 1
    /\ cache' = [x \in Keys |-> -1] /\ order' = <<>> /\ index' = {}
    /\ last' = [k |-> "none", v |-> 0, hit |-> FALSE]
    /\ UNCHANGED store
    /\ Log("Clean", "none")

Next == \/ \E k \in Keys : Lookup(k) \/ StoreChange(k) \/ StoreAdd(k)
        \/ Clean
Spec == Init /\ [][Next]_vars

---------------------------------------------------------------------------
(* C15 *)
\* every answer given through the cache is the answer of an uncached lookup now
Transparent == last.k \in Keys /\ (last.hit \/ last.v # 0) => last.v = store[last.k]
Coherent == \A k \in Cached : cache[k] = store[k]
WithinBound == Cardinality(Cached) <= Bound /\ Len(order) <= Bound
IndexWithinBound == Cardinality(index) <= Bound

Emit == PrintT(<<"TRACE", ToJson(log')>>)
=============================================================================
