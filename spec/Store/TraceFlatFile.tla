--------------------------- MODULE TraceFlatFile ---------------------------
(* Trace validation for FlatFile.tla: recorded random histories of the real *)
(* ffldb block store (many runs concatenated by Reset events, any block    *)
(* size that fits a file, dozens of files) must be behaviours of FlatFile's *)
(* own actions, with the observed layout - state and location of every      *)
(* block, write cursor, length of every flat file - equal to the model's    *)
(* after every call.  (The reads of the recorded runs are compared with the *)
(* reference semantics by the driver itself.)                               *)
EXTENDS FlatFile

CONSTANT TraceFile
Trace == ndJsonDeserialize(TraceFile)

VARIABLE l
tvars == <<vars, l>>

Ev == Trace[l]
IsEv(e) == l <= Len(Trace) /\ Ev.ev = e /\ l' = l + 1
Observed == Shown(files', rows', pend', cur', szOf') = Ev.shown

TraceInit == Init /\ l = 1 /\ TLCSet(1, 1)

TReset == /\ IsEv("Reset")
          /\ files' = <<>> /\ rows' = {} /\ pend' = <<>>
          /\ cur' = [f |-> 0, o |-> 0] /\ wrote' = [f |-> 0, o |-> 0]
          /\ szOf' = <<>> /\ dirty' = FALSE /\ probe' = NoProbe /\ log' = <<>>

TStore  == IsEv("Store") /\ Ev.sz \in 1..(MaxFile - Frame) /\ Store(Ev.sz) /\ Observed
TCommit == IsEv("Commit") /\ Commit /\ Observed
TAbort  == IsEv("Abort") /\ Abort /\ Observed
TReopen == IsEv("Reopen") /\ Reopen /\ Observed

TraceNext == TReset \/ TStore \/ TCommit \/ TAbort \/ TReopen
TraceSpec == TraceInit /\ [][TraceNext]_tvars

\* high-water mark of consumed trace lines (register 1)
HighWater == IF l > TLCGet(1) THEN TLCSet(1, l) ELSE TRUE
TraceAccepted == TLCGet(1) = Len(Trace) + 1
TraceView == <<view, l>>
=============================================================================
